"""Registered properties and their tests, collected from harness/props/*/check.json.

check.json format (one per test package; several packages may serve one property):
{
 "property": "C20", "level": "exploration",
 "tests": [
  {"name": "TestC20Queue", "mode": "rapid",            # rapid | plain | fuzz
   "quick":    {"shards": 16, "checks": 20000, "timeout": 300, "steps": 60},
   "thorough": {"shards": 16, "checks": 1000000, "timeout": 3600, "steps": 60}},
  {"name": "TestC20SeqBoundary", "mode": "plain", "quick": {"shards": 1, "timeout": 60}, "thorough": {"shards": 1, "timeout": 60}}
 ]
}
rapid: `checks` cases per shard process, seed derived from VERIF_SEED/shard/test name. plain: ordinary Go test that
reads VERIF_SHARD / VERIF_NSHARDS / VERIF_SEED / VERIF_TIER itself. fuzz (thorough only): {"fuzztime": "60s"}.
A tier that is absent means the test does not run in that tier. Optional per tier: "env": {..}, "race": true, "memlimit".
"""
import glob
import json
import os

ROOT = os.path.dirname(os.path.abspath(__file__))
PROPS = {}
for f in sorted(glob.glob(os.path.join(ROOT, "harness", "props", "*", "check.json"))):
    pkg = os.path.basename(os.path.dirname(f))
    d = json.load(open(f))
    p = PROPS.setdefault(d["property"], {"level": d.get("level", "exploration"), "tests": []})
    for t in d["tests"]:
        t = dict(t)
        t["pkg"] = pkg
        t.setdefault("mode", "rapid")
        p["tests"].append(t)
