"""Registered properties and their tests.

Each test: pkg (harness/props/<pkg>), name (Go test function), mode (rapid | plain | fuzz),
quick/thorough: shards, checks (rapid cases per shard), timeout (s per shard), env.
"""

def rapid(pkg, name, q, t, steps=None, **kw):
    d = dict(pkg=pkg, name=name, mode="rapid",
             quick=dict(shards=q[0], checks=q[1], timeout=q[2] if len(q) > 2 else 600),
             thorough=dict(shards=t[0], checks=t[1], timeout=t[2] if len(t) > 2 else 3600))
    if steps:
        d["quick"]["steps"] = steps
        d["thorough"]["steps"] = steps
    d.update(kw)
    return d


def plain(pkg, name, q, t, **kw):
    d = dict(pkg=pkg, name=name, mode="plain")
    if q:
        d["quick"] = dict(shards=q[0], timeout=q[1])
    if t:
        d["thorough"] = dict(shards=t[0], timeout=t[1])
    d.update(kw)
    return d


PROPS = {
    "C20": dict(level="exploration", tests=[
        rapid("c20", "TestC20Queue", (16, 20000, 300), (16, 1000000, 3600), steps=60),
        plain("c20", "TestC20SeqBoundary", (1, 60), (1, 60)),
        plain("c20", "TestC20ForwardPromotes", (1, 60), (1, 60)),
    ]),
    "C11": dict(level="exploration", tests=[
        rapid("c11", "TestC11Pool", (16, 60000, 300), (16, 3000000, 3600)),
        plain("c11", "TestC11Exhaustive", (16, 300), (16, 3600)),
    ]),
}
