"""Registered properties and their tests.

Each test: pkg (harness/props/<pkg>), name (Go test function), mode (rapid | plain | fuzz),
quick/thorough: shards, checks (rapid cases per shard), timeout (s per shard), env.
"""

def rapid(pkg, name, q, t, **kw):
    d = dict(pkg=pkg, name=name, mode="rapid",
             quick=dict(shards=q[0], checks=q[1], timeout=q[2] if len(q) > 2 else 600),
             thorough=dict(shards=t[0], checks=t[1], timeout=t[2] if len(t) > 2 else 3600))
    d.update(kw)
    return d


def plain(pkg, name, q, t, **kw):
    d = dict(pkg=pkg, name=name, mode="plain")
    if q:
        d["quick"] = dict(shards=q[0], timeout=q[1])
    if t:
        d["thorough"] = dict(shards=t[0], timeout=t[1])
    d.update(kw)
    return d


PROPS = {
    "C11": dict(level="exploration", tests=[
        rapid("c11", "TestC11Pool", (16, 60000, 300), (16, 3000000, 3600)),
        plain("c11", "TestC11Exhaustive", (16, 300), (16, 3600)),
    ]),
}
