// Package c11model is the reference model of the executor commitment pool, written from the statement of
// property C11 (not from pool.go). It is shared by the pool-level check (props/c11) and the application-level
// check (props/c11app).
package c11model

import (
	"math"

	"github.com/oasisprotocol/oasis-core/go/common/crypto/signature"
)

// Outcome of processing the votes of a round.
type Outcome int

const (
	Wait Outcome = iota
	Finalize
	Discrepancy
	FailNoScheduler
	FailResolution // insufficient votes / majority for another result
)

func (o Outcome) String() string {
	return [...]string{"WAIT", "FINALIZE", "DISCREPANCY", "FAIL(no scheduler)", "FAIL(resolution)"}[o]
}

// Vote is one admitted vote.
type Vote struct {
	Result int // 0 = failure
}

// Model is the reference pool.
type Model struct {
	Workers, Backups []signature.PublicKey
	Stragglers       int
	Round            uint64

	Resolving bool
	Best      uint64 // rank of the best committed scheduler, MaxUint64 = none
	// votes[rank][node]
	Votes map[uint64]map[signature.PublicKey]Vote
	// result the scheduler of a rank committed to
	SchedResult map[uint64]int
}

// New creates the model for a committee (workers and backup workers in committee order).
func New(workers, backups []signature.PublicKey, stragglers int, round uint64) *Model {
	return &Model{Workers: workers, Backups: backups, Stragglers: stragglers, Round: round, Best: math.MaxUint64,
		Votes: map[uint64]map[signature.PublicKey]Vote{}, SchedResult: map[uint64]int{}}
}

func contains(l []signature.PublicKey, k signature.PublicKey) bool {
	for _, x := range l {
		if x == k {
			return true
		}
	}
	return false
}

// rank of a scheduler: workers take turns; the worker at index i has rank (round+i) mod |workers|.
// Rank returns the scheduling rank of s (workers take turns).
func (m *Model) Rank(s signature.PublicKey) (uint64, bool) {
	for i, w := range m.Workers {
		if w == s {
			return (m.Round + uint64(i)) % uint64(len(m.Workers)), true
		}
	}
	return 0, false
}

// add returns whether the vote is admitted.
// Add admits or rejects a vote.
func (m *Model) Add(node, sched signature.PublicKey, result int) bool {
	// Non-members never count; during resolution only backup workers vote.
	if m.Resolving {
		if !contains(m.Backups, node) {
			return false
		}
	} else if !contains(m.Workers, node) && !contains(m.Backups, node) {
		return false
	}
	r, ok := m.Rank(sched)
	if !ok {
		return false
	}
	// A lower-priority scheduler's proposal is never preferred over a committed higher-priority one.
	if r > m.Best {
		return false
	}
	if m.Resolving && r != m.Best {
		return false
	}
	own := node == sched
	// Each member's vote counts at most once per round and scheduler.
	if _, dup := m.Votes[r][node]; dup {
		return false
	}
	if own && r < m.Best {
		m.Best = r
		for k := range m.Votes {
			if k > r {
				delete(m.Votes, k)
				delete(m.SchedResult, k)
			}
		}
	}
	if m.Votes[r] == nil {
		m.Votes[r] = map[signature.PublicKey]Vote{}
	}
	m.Votes[r][node] = Vote{result}
	if own {
		m.SchedResult[r] = result
	}
	return true
}

// Process evaluates the outcome predicate.
func (m *Model) Process(timeout bool) Outcome {
	if m.Best == math.MaxUint64 {
		if timeout {
			return FailNoScheduler
		}
		return Wait
	}
	vs := m.Votes[m.Best]
	want := m.SchedResult[m.Best]
	if !m.Resolving {
		agree, fail, dissent := 0, 0, 0
		distinct := map[int]bool{}
		for _, w := range m.Workers {
			v, ok := vs[w]
			if !ok {
				continue
			}
			switch {
			case v.Result == 0:
				fail++
			case v.Result == want:
				agree++
				distinct[v.Result] = true
			default:
				dissent++
				distinct[v.Result] = true
			}
		}
		bad := len(distinct) > 1 || fail > m.Stragglers
		_ = dissent
		switch {
		case bad && (m.Best == 0 || timeout):
			m.startResolution()
			return Discrepancy
		case bad:
			return Wait
		case agree >= len(m.Workers)-m.Stragglers:
			return Finalize
		case timeout:
			m.startResolution()
			return Discrepancy
		default:
			return Wait
		}
	}
	// Resolution: strict majority of backup workers for exactly the scheduler's result.
	counts := map[int]int{}
	voted := 0
	for _, b := range m.Backups {
		v, ok := vs[b]
		if !ok {
			continue
		}
		voted++
		if v.Result != 0 {
			counts[v.Result]++
		}
	}
	need := len(m.Backups)/2 + 1
	remaining := len(m.Backups) - voted
	bestCount, bestResult := 0, -1
	for r, c := range counts {
		if c > bestCount {
			bestCount, bestResult = c, r
		}
	}
	switch {
	case bestCount+remaining < need:
		return FailResolution
	case bestCount < need && timeout:
		return FailResolution
	case bestCount < need:
		return Wait
	case bestResult != want:
		return FailResolution
	default:
		return Finalize
	}
}

func (m *Model) startResolution() {
	m.Resolving = true
	for k := range m.Votes {
		if k != m.Best {
			delete(m.Votes, k)
			delete(m.SchedResult, k)
		}
	}
}
