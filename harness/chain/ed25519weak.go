package chain

import (
	"math/big"
)

// Independent (math/big, affine) Edwards25519 arithmetic, only what is needed to decide whether an encoded
// point has small order (8P = identity). A signature "by" a small-order public key, or with a small-order R,
// is not bound to the message: with A of small order, [k]A takes at most 8 values whatever the message is,
// so the same 64 bytes verify for many (under cofactored verification: all) messages. oasis-core's
// verification options reject both; the harness's authenticity predicate does the same.

var (
	edP, _ = new(big.Int).SetString("7fffffffffffffffffffffffffffffffffffffffffffffffffffffffffffffed", 16)
	edD    = func() *big.Int {
		// d = -121665/121666 mod p
		n := new(big.Int).Sub(edP, big.NewInt(121665))
		inv := new(big.Int).ModInverse(big.NewInt(121666), edP)
		return n.Mul(n, inv).Mod(n, edP)
	}()
	edSqrtM1 = func() *big.Int {
		// 2^((p-1)/4)
		e := new(big.Int).Sub(edP, big.NewInt(1))
		e.Rsh(e, 2)
		return new(big.Int).Exp(big.NewInt(2), e, edP)
	}()
)

type edPoint struct{ x, y *big.Int }

// edDecode decodes a (possibly non-canonical) point encoding; ok=false when y is not on the curve.
func edDecode(b []byte) (edPoint, bool) {
	if len(b) != 32 {
		return edPoint{}, false
	}
	le := make([]byte, 32)
	for i := range b {
		le[31-i] = b[i]
	}
	sign := le[0]&0x80 != 0
	le[0] &= 0x7f
	y := new(big.Int).SetBytes(le)
	y.Mod(y, edP)
	y2 := new(big.Int).Mul(y, y)
	y2.Mod(y2, edP)
	u := new(big.Int).Sub(y2, big.NewInt(1))
	u.Mod(u, edP)
	v := new(big.Int).Mul(edD, y2)
	v.Add(v, big.NewInt(1)).Mod(v, edP)
	vinv := new(big.Int).ModInverse(v, edP)
	if vinv == nil {
		return edPoint{}, false
	}
	x2 := new(big.Int).Mul(u, vinv)
	x2.Mod(x2, edP)
	// x = x2^((p+3)/8)
	e := new(big.Int).Add(edP, big.NewInt(3))
	e.Rsh(e, 3)
	x := new(big.Int).Exp(x2, e, edP)
	chk := new(big.Int).Mul(x, x)
	chk.Mod(chk, edP)
	if chk.Cmp(x2) != 0 {
		x.Mul(x, edSqrtM1).Mod(x, edP)
		chk.Mul(x, x).Mod(chk, edP)
		if chk.Cmp(x2) != 0 {
			return edPoint{}, false
		}
	}
	if (x.Bit(0) == 1) != sign {
		x.Sub(edP, x).Mod(x, edP)
	}
	return edPoint{x, y}, true
}

func edAdd(a, b edPoint) edPoint {
	x1y2 := new(big.Int).Mul(a.x, b.y)
	y1x2 := new(big.Int).Mul(a.y, b.x)
	y1y2 := new(big.Int).Mul(a.y, b.y)
	x1x2 := new(big.Int).Mul(a.x, b.x)
	dxy := new(big.Int).Mul(x1x2, y1y2)
	dxy.Mul(dxy, edD).Mod(dxy, edP)
	nx := new(big.Int).Add(x1y2, y1x2)
	ny := new(big.Int).Add(y1y2, x1x2)
	dx := new(big.Int).Add(big.NewInt(1), dxy)
	dy := new(big.Int).Sub(big.NewInt(1), dxy)
	dx.Mod(dx, edP)
	dy.Mod(dy, edP)
	x := nx.Mul(nx, new(big.Int).ModInverse(dx, edP))
	y := ny.Mul(ny, new(big.Int).ModInverse(dy, edP))
	return edPoint{x.Mod(x, edP), y.Mod(y, edP)}
}

// SmallOrderPoint reports whether b decodes to a curve point P with 8P = identity.
func SmallOrderPoint(b []byte) bool {
	p, ok := edDecode(b)
	if !ok {
		return false
	}
	for i := 0; i < 3; i++ {
		p = edAdd(p, p)
	}
	return p.x.Sign() == 0 && p.y.Cmp(big.NewInt(1)) == 0
}

// SmallOrderEncodings lists encodings of small-order points (canonical and non-canonical, both sign bits); every
// entry is self-checked with SmallOrderPoint at start-up.
var SmallOrderEncodings = func() [][]byte {
	hexes := []string{
		"0000000000000000000000000000000000000000000000000000000000000000",
		"0100000000000000000000000000000000000000000000000000000000000000",
		"26e8958fc2b227b045c3f489f2ef98f0d5dfac05d3c63339b13802886d53fc05",
		"c7176a703d4dd84fba3c0b760d10670f2a2053fa2c39ccc64ec7fd7792ac037a",
		"ecffffffffffffffffffffffffffffffffffffffffffffffffffffffffffff7f",
		"edffffffffffffffffffffffffffffffffffffffffffffffffffffffffffff7f",
		"eeffffffffffffffffffffffffffffffffffffffffffffffffffffffffffff7f",
	}
	var out [][]byte
	for _, h := range hexes {
		b, _ := new(big.Int).SetString(h, 16)
		raw := make([]byte, 32)
		b.FillBytes(raw)
		for _, signBit := range []byte{0x00, 0x80} {
			e := append([]byte{}, raw...)
			e[31] |= signBit
			if SmallOrderPoint(e) {
				out = append(out, e)
			}
		}
	}
	return out
}()
