package chain

import (
	"crypto/ed25519"
	"testing"
)

func TestSmallOrderSelfCheck(t *testing.T) {
	if len(SmallOrderEncodings) < 8 {
		t.Fatalf("only %d small-order encodings recognised", len(SmallOrderEncodings))
	}
	// honest keys are never of small order
	for i := 0; i < 50; i++ {
		pub, _, _ := ed25519.GenerateKey(nil)
		if SmallOrderPoint(pub) {
			t.Fatalf("honest key %x judged small order", pub)
		}
	}
}
