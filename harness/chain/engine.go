package chain

import (
	"bytes"
	"context"
	"crypto/sha256"
	"encoding/binary"
	"fmt"
	"sort"
	"strings"
	"time"

	"github.com/cometbft/cometbft/abci/types"
	cmtproto "github.com/cometbft/cometbft/proto/tendermint/types"

	"github.com/oasisprotocol/oasis-core/go/common/cbor"
	"github.com/oasisprotocol/oasis-core/go/common/crypto/signature"
	"github.com/oasisprotocol/oasis-core/go/consensus/api/transaction"
	cmtapi "github.com/oasisprotocol/oasis-core/go/consensus/cometbft/api"
	cmtcrypto "github.com/oasisprotocol/oasis-core/go/consensus/cometbft/crypto"
)

// Validator is the engine's view of one validator.
type Validator struct {
	PubKey  signature.PublicKey
	Address []byte
	Power   int64
	// Keys are the node keys if the validator belongs to the generated world.
	Keys *NodeKeys
}

// ValSet maps address (as string) to validator.
type ValSet map[string]*Validator

func (vs ValSet) clone() ValSet {
	out := ValSet{}
	for k, v := range vs {
		c := *v
		out[k] = &c
	}
	return out
}

// Sorted returns the validators sorted by address (deterministic order).
func (vs ValSet) Sorted() []*Validator {
	out := make([]*Validator, 0, len(vs))
	for _, v := range vs {
		out = append(out, v)
	}
	sort.Slice(out, func(i, j int) bool { return bytes.Compare(out[i].Address, out[j].Address) < 0 })
	return out
}

// TotalPower sums the voting power.
func (vs ValSet) TotalPower() int64 {
	var t int64
	for _, v := range vs {
		t += v.Power
	}
	return t
}

// ValidatorAddress computes the CometBFT address of a consensus public key.
func ValidatorAddress(pk signature.PublicKey) []byte {
	return []byte(cmtcrypto.PublicKeyToCometBFT(&pk).Address())
}

// Engine is the small consensus-engine model: heights, times and validator sets the way CometBFT
// maintains them (an update returned by EndBlock(h) is effective from height h+2).
type Engine struct {
	World  *World
	Height int64 // next height to execute
	Time   time.Time
	// valsAt[h] is the validator set of height h.
	valsAt map[int64]ValSet
	// LastSigned: the votes recorded for the previous block (address -> signed flag)
	keysByCons map[signature.PublicKey]*NodeKeys
	AppHash    []byte
}

// NewEngine creates the engine from the initial validators of InitChain.
func NewEngine(w *World, initial []types.ValidatorUpdate) (*Engine, error) {
	e := &Engine{World: w, Height: w.Doc.Height, Time: w.Doc.Time, valsAt: map[int64]ValSet{}, keysByCons: map[signature.PublicKey]*NodeKeys{}}
	for _, ek := range w.Entities {
		for _, nk := range ek.Nodes {
			e.keysByCons[nk.Consensus.Public()] = nk
		}
	}
	vs := ValSet{}
	if err := e.apply(vs, initial); err != nil {
		return nil, err
	}
	e.valsAt[e.Height] = vs
	e.valsAt[e.Height+1] = vs.clone()
	return e, nil
}

// RegisterKeys lets the engine know node keys created after genesis (for proposing).
func (e *Engine) RegisterKeys(nk *NodeKeys) { e.keysByCons[nk.Consensus.Public()] = nk }

func (e *Engine) apply(vs ValSet, ups []types.ValidatorUpdate) error {
	for _, u := range ups {
		ed := u.PubKey.GetEd25519()
		if ed == nil {
			return fmt.Errorf("validator update with a non-ed25519 key")
		}
		var pk signature.PublicKey
		if err := pk.UnmarshalBinary(ed); err != nil {
			return err
		}
		addr := ValidatorAddress(pk)
		if u.Power < 0 {
			return fmt.Errorf("validator update with negative power %d", u.Power)
		}
		if u.Power == 0 {
			if _, ok := vs[string(addr)]; !ok {
				return fmt.Errorf("validator update removes unknown validator %x", addr)
			}
			delete(vs, string(addr))
			continue
		}
		keys := e.keysByCons[pk]
		if keys == nil {
			keys = lookupKeys(pk) // a node that registered at run time
		}
		vs[string(addr)] = &Validator{PubKey: pk, Address: addr, Power: u.Power, Keys: keys}
	}
	return nil
}

// Validators returns the validator set of the next block to execute.
func (e *Engine) Validators() ValSet { return e.valsAt[e.Height] }

// PrevValidators returns the set that voted on the previous block (nil for the first block).
func (e *Engine) PrevValidators() ValSet { return e.valsAt[e.Height-1] }

// NextValidators returns the set for height+1 as currently known.
func (e *Engine) NextValidators() ValSet { return e.valsAt[e.Height+1] }

// Block is one block as the engine would deliver it.
type Block struct {
	Height      int64
	Time        time.Time
	Proposer    *Validator
	LastCommit  types.CommitInfo
	Misbehavior []types.Misbehavior
	Txs         [][]byte // without the metadata transaction (mempool content)
	// Full is Txs + metadata transaction, set once the block has been proposed.
	Full [][]byte
	Hash []byte
}

// Path is the execution path of a replica for one block.
type Path int

const (
	// PathReplay: BeginBlock/DeliverTx/EndBlock/Commit without a proposal phase.
	PathReplay Path = iota
	// PathProcess: ProcessProposal first (results cached), then the block.
	PathProcess
	// PathProcessOtherFirst: ProcessProposal of a different proposal for the same height first (failed round).
	PathProcessOtherFirst
	// PathPropose: the replica proposes (PrepareProposal + ProcessProposal of its own proposal, cached).
	PathPropose
)

func (p Path) String() string {
	return [...]string{"replay", "process", "process-other-first", "propose"}[p]
}

// BlockOutcome is what one replica observed for a block.
type BlockOutcome struct {
	Path       Path
	Accepted   bool // ProcessProposal verdict (true when no proposal phase)
	AppHash    []byte
	TxResults  []types.ResponseDeliverTx
	EndBlock   types.ResponseEndBlock
	BeginBlock types.ResponseBeginBlock
	Err        error // panic during execution
}

func blockHash(height int64, txs [][]byte, proposer []byte) []byte {
	h := sha256.New()
	var b [8]byte
	binary.LittleEndian.PutUint64(b[:], uint64(height))
	h.Write(b[:])
	h.Write(proposer)
	for _, tx := range txs {
		binary.LittleEndian.PutUint64(b[:], uint64(len(tx)))
		h.Write(b[:])
		h.Write(tx)
	}
	return h.Sum(nil)
}

// Propose builds the full block (with the metadata transaction). If proposerReplica is nil or does not
// run with the proposer's identity, helper executes the proposal and the metadata transaction is
// re-signed with the proposer's consensus key (the harness owns every key).
func (e *Engine) Propose(b *Block, proposerReplica, helper *Replica) (own bool, err error) {
	r := proposerReplica
	own = r != nil && b.Proposer.Keys != nil && r.Cfg.Keys != nil && r.Cfg.Keys.Consensus.Public() == b.Proposer.PubKey
	if !own {
		r = helper
	}
	ext := types.ExtendedCommitInfo{Round: b.LastCommit.Round}
	for _, v := range b.LastCommit.Votes {
		ext.Votes = append(ext.Votes, types.ExtendedVoteInfo{Validator: v.Validator, SignedLastBlock: v.SignedLastBlock})
	}
	LastErrors()
	var pp types.ResponsePrepareProposal
	if perr := Call(func() {
		pp = r.Mux.PrepareProposal(types.RequestPrepareProposal{
			MaxTxBytes: 1 << 21, Txs: b.Txs, LocalLastCommit: ext, Misbehavior: b.Misbehavior,
			Height: b.Height, Time: b.Time, ProposerAddress: b.Proposer.Address,
		})
	}); perr != nil {
		return own, perr
	}
	if len(pp.Txs) == 0 {
		// PrepareProposal swallows the panic and only logs it.
		why := "unknown"
		if errs := LastErrors(); len(errs) > 0 {
			why = errs[len(errs)-1]
			if i := strings.Index(why, "err="); i >= 0 {
				why = why[i:]
			}
		}
		return own, fmt.Errorf("empty proposal: %s", why)
	}
	full := pp.Txs
	if !own {
		if b.Proposer.Keys == nil {
			return own, fmt.Errorf("no keys for proposer %x", b.Proposer.Address)
		}
		// re-sign the metadata transaction (last tx) with the proposer's consensus key
		var st transaction.SignedTransaction
		if err := cbor.Unmarshal(full[len(full)-1], &st); err != nil {
			return own, fmt.Errorf("metadata tx: %w", err)
		}
		var tx transaction.Transaction
		if err := cbor.Unmarshal(st.Blob, &tx); err != nil {
			return own, err
		}
		resigned, err := transaction.Sign(b.Proposer.Keys.Consensus, &tx)
		if err != nil {
			return own, err
		}
		full = append(append([][]byte{}, full[:len(full)-1]...), cbor.Marshal(resigned))
	}
	b.Full = full
	b.Hash = blockHash(b.Height, full, b.Proposer.Address)
	return own, nil
}

// PrepareAlt makes replica r prepare ANOTHER proposal for the height of b (same time, proposer, last commit and evidence,
// the given transactions): what a proposer does when it proposes again in a later round of the same height. The proposal
// is not used; r is left with it as its cached own proposal.
func (e *Engine) PrepareAlt(r *Replica, b *Block, txs [][]byte) (n int, err error) {
	ext := types.ExtendedCommitInfo{Round: b.LastCommit.Round}
	for _, v := range b.LastCommit.Votes {
		ext.Votes = append(ext.Votes, types.ExtendedVoteInfo{Validator: v.Validator, SignedLastBlock: v.SignedLastBlock})
	}
	err = Call(func() {
		pp := r.Mux.PrepareProposal(types.RequestPrepareProposal{
			MaxTxBytes: 1 << 21, Txs: txs, LocalLastCommit: ext, Misbehavior: b.Misbehavior,
			Height: b.Height, Time: b.Time, ProposerAddress: b.Proposer.Address,
		})
		n = len(pp.Txs)
	})
	return n, err
}

// Execute runs the (already proposed) block on one replica along the given path.
func (e *Engine) Execute(r *Replica, b *Block, path Path, other *Block) *BlockOutcome {
	return e.ExecuteWithSide(r, b, path, other, nil)
}

// ExecuteWithSide is Execute with a callback invoked between any two ABCI calls (stage counter),
// used for harness-owned interleaving of CheckTx / EstimateGas / queries. It is never invoked
// during Commit.
func (e *Engine) ExecuteWithSide(r *Replica, b *Block, path Path, other *Block, side func(stage int)) *BlockOutcome {
	out := &BlockOutcome{Path: path, Accepted: true}
	stage := 0
	between := func() {
		if side != nil {
			side(stage)
		}
		stage++
	}
	out.Err = Call(func() {
		process := func(bl *Block) types.ResponseProcessProposal {
			return r.Mux.ProcessProposal(types.RequestProcessProposal{
				Txs: bl.Full, ProposedLastCommit: bl.LastCommit, Misbehavior: bl.Misbehavior, Hash: bl.Hash,
				Height: bl.Height, Time: bl.Time, ProposerAddress: bl.Proposer.Address,
			})
		}
		between()
		if path == PathProcessOtherFirst && other != nil && other.Full != nil {
			process(other)
			between()
		}
		if path != PathReplay {
			res := process(b)
			out.Accepted = res.Status == types.ResponseProcessProposal_ACCEPT
			if !out.Accepted {
				return
			}
			between()
		}
		out.BeginBlock = r.Mux.BeginBlock(types.RequestBeginBlock{
			Hash:                b.Hash,
			Header:              cmtproto.Header{Height: b.Height, Time: b.Time, ProposerAddress: b.Proposer.Address},
			LastCommitInfo:      b.LastCommit,
			ByzantineValidators: b.Misbehavior,
		})
		between()
		for _, tx := range b.Full {
			out.TxResults = append(out.TxResults, r.Mux.DeliverTx(types.RequestDeliverTx{Tx: tx}))
			between()
		}
		out.EndBlock = r.Mux.EndBlock(types.RequestEndBlock{Height: b.Height})
		c := r.Mux.Commit()
		out.AppHash = c.Data
	})
	return out
}

// Advance moves the engine to the next height after a block has been committed, applying the
// validator updates the way CometBFT does (effective at height+2).
func (e *Engine) Advance(b *Block, updates []types.ValidatorUpdate, appHash []byte) error {
	next := e.valsAt[b.Height+1].clone()
	if err := e.apply(next, updates); err != nil {
		return err
	}
	if len(next) == 0 {
		return fmt.Errorf("validator set would become empty")
	}
	var total int64
	for _, v := range next {
		total += v.Power
		if total > (1<<63-1)/8 {
			return fmt.Errorf("total voting power exceeds MaxTotalVotingPower")
		}
	}
	e.valsAt[b.Height+2] = next
	delete(e.valsAt, b.Height-2)
	e.Height = b.Height + 1
	e.Time = b.Time
	e.AppHash = appHash
	return nil
}

// CommitInfoFor builds the LastCommitInfo for the block at e.Height given which previous
// validators signed (by address); validators absent from the map did not sign.
func (e *Engine) CommitInfoFor(signed map[string]bool) types.CommitInfo {
	ci := types.CommitInfo{}
	prev := e.PrevValidators()
	if prev == nil {
		return ci
	}
	for _, v := range prev.Sorted() {
		ci.Votes = append(ci.Votes, types.VoteInfo{
			Validator:       types.Validator{Address: v.Address, Power: v.Power},
			SignedLastBlock: signed[string(v.Address)],
		})
	}
	return ci
}

// ---------------------------------------------------------------------------------------
// State access.

// StateDump is a complete dump of a committed (or working) consensus state.
type StateDump map[string][]byte

// DumpCommitted iterates the committed state of a replica.
func DumpCommitted(r *Replica) (StateDump, error) {
	cx := r.Srv.State().NewContext(cmtapi.ContextCheckTx)
	defer cx.Close()
	return dumpTree(cx)
}

// DumpWorking iterates the working state of the proposal just executed by
// PrepareProposal/ProcessProposal (uncommitted).
func DumpWorking(r *Replica) (StateDump, error) {
	cx := r.Srv.State().NewContext(cmtapi.ContextEndBlock)
	defer cx.Close()
	return dumpTree(cx)
}

func dumpTree(cx *cmtapi.Context) (StateDump, error) {
	out := StateDump{}
	it := cx.State().NewIterator(context.Background())
	defer it.Close()
	for it.Rewind(); it.Valid(); it.Next() {
		out[string(it.Key())] = append([]byte{}, it.Value()...)
	}
	return out, it.Err()
}

// Diff returns the sorted keys whose values differ between two dumps.
func Diff(a, b StateDump) []string {
	var ks []string
	for k, v := range a {
		if w, ok := b[k]; !ok || !bytes.Equal(v, w) {
			ks = append(ks, k)
		}
	}
	for k := range b {
		if _, ok := a[k]; !ok {
			ks = append(ks, k)
		}
	}
	sort.Strings(ks)
	return ks
}

// Backends lists the node database backends of the consensus state.
var Backends = []string{"badger", "pathbadger"}

// InjectBeforeMeta inserts raw transactions into an already proposed block right before the
// metadata transaction (what a Byzantine proposer could do) and recomputes the block id.
func (b *Block) InjectBeforeMeta(raws ...[]byte) {
	n := len(b.Full)
	full := append([][]byte{}, b.Full[:n-1]...)
	full = append(full, raws...)
	full = append(full, b.Full[n-1])
	b.Full = full
	b.Hash = blockHash(b.Height, full, b.Proposer.Address)
}

// SigZeroVotingStake is the signature of a recorded finding (C10): governance EndBlock returns a fatal error when a
// proposal closes while every current validator entity has a zero active escrow balance.
const SigZeroVotingStake = "halt-zero-voting-stake"

// AllowZeroVotingStake: generators may deliberately build the precondition of SigZeroVotingStake (validator entities
// reclaiming their whole self-delegation). Set by the check that owns the finding while the finding is NOT excluded.
var AllowZeroVotingStake bool

// KnownHalt maps the text of a failed block to the signature of a recorded finding ("" = none). A reworded message makes
// the failure count under the check's general signature again; that errs on the side of reporting.
func KnownHalt(msg string) string {
	if strings.Contains(strings.ToLower(msg), "total voting stake is zero") {
		return SigZeroVotingStake
	}
	return ""
}

// ValidatorsAt returns the engine's validator set for a height (nil when unknown).
func (e *Engine) ValidatorsAt(h int64) ValSet { return e.valsAt[h] }

// PreconditionLost recognises the documented precondition of the chain ("enough stake-eligible validators remain to
// elect a validator set") in the text of a failed block: the scheduler reports that it could not elect validators. The
// match is on the notions, not on one exact wording, so that a rewording of the message is not mistaken for a halt.
func PreconditionLost(msg string) bool {
	m := strings.ToLower(msg)
	if strings.Contains(m, "insufficient validators") {
		return true
	}
	return strings.Contains(m, "elect") && strings.Contains(m, "validator")
}
