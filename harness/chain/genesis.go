// Package chain is the shared engine for the consensus-layer properties: it drives the REAL ABCI
// multiplexer with all consensus applications in-process, playing the role of the consensus
// engine (CometBFT) with a small generated model.
package chain

import (
	"sync"

	"fmt"
	"math"
	"time"

	beacon "github.com/oasisprotocol/oasis-core/go/beacon/api"
	"github.com/oasisprotocol/oasis-core/go/common"
	"github.com/oasisprotocol/oasis-core/go/common/cbor"
	"github.com/oasisprotocol/oasis-core/go/common/crypto/signature"
	memorySigner "github.com/oasisprotocol/oasis-core/go/common/crypto/signature/signers/memory"
	"github.com/oasisprotocol/oasis-core/go/common/entity"
	"github.com/oasisprotocol/oasis-core/go/common/node"
	"github.com/oasisprotocol/oasis-core/go/common/quantity"
	"github.com/oasisprotocol/oasis-core/go/common/version"
	"github.com/oasisprotocol/oasis-core/go/consensus/api/transaction"
	cmtapi "github.com/oasisprotocol/oasis-core/go/consensus/cometbft/api"
	consensusGenesis "github.com/oasisprotocol/oasis-core/go/consensus/genesis"
	genesis "github.com/oasisprotocol/oasis-core/go/genesis/api"
	governance "github.com/oasisprotocol/oasis-core/go/governance/api"
	registry "github.com/oasisprotocol/oasis-core/go/registry/api"
	roothash "github.com/oasisprotocol/oasis-core/go/roothash/api"
	scheduler "github.com/oasisprotocol/oasis-core/go/scheduler/api"
	staking "github.com/oasisprotocol/oasis-core/go/staking/api"
	vault "github.com/oasisprotocol/oasis-core/go/vault/api"
)

// NodeKeys are the five keys of a node.
type NodeKeys struct {
	Name      string
	ID        signature.Signer
	P2P       signature.Signer
	Consensus signature.Signer
	VRF       signature.Signer
	TLS       signature.Signer
}

// NewNodeKeys derives deterministic node keys from a name.
func NewNodeKeys(name string) *NodeKeys {
	nk := newNodeKeys(name)
	knownKeysMu.Lock()
	knownKeys[nk.Consensus.Public()] = nk
	knownKeysMu.Unlock()
	return nk
}

// knownKeys: every node key set ever derived in this process, by consensus key (keys are a pure function of the
// name, so the map never holds conflicting entries); lets the engine sign for validators that registered at run time.
var (
	knownKeysMu sync.Mutex
	knownKeys   = map[signature.PublicKey]*NodeKeys{}
)

func lookupKeys(pk signature.PublicKey) *NodeKeys {
	knownKeysMu.Lock()
	defer knownKeysMu.Unlock()
	return knownKeys[pk]
}

func newNodeKeys(name string) *NodeKeys {
	return &NodeKeys{
		Name:      name,
		ID:        memorySigner.NewTestSigner("verif node id " + name),
		P2P:       memorySigner.NewTestSigner("verif node p2p " + name),
		Consensus: memorySigner.NewTestSigner("verif node consensus " + name),
		VRF:       memorySigner.NewTestSigner("verif node vrf " + name),
		TLS:       memorySigner.NewTestSigner("verif node tls " + name),
	}
}

// Signers returns the signers in the order required for multi-signing a node descriptor.
func (nk *NodeKeys) Signers() []signature.Signer {
	return []signature.Signer{nk.ID, nk.P2P, nk.Consensus, nk.VRF, nk.TLS}
}

// EntityKeys is an entity with its nodes.
type EntityKeys struct {
	Name   string
	Signer signature.Signer
	Nodes  []*NodeKeys
	// Listed is the entity's current node list when it was changed at run time (nil = genesis list).
	Listed map[signature.PublicKey]bool
	// Candidates are nodes the entity has whitelisted at run time that have not registered yet.
	Candidates []*NodeKeys
}

// Address returns the entity's staking address.
func (ek *EntityKeys) Address() staking.Address {
	return staking.NewAddress(ek.Signer.Public())
}

// World is everything the harness knows about the generated chain: the keys and the genesis.
type World struct {
	Spec     *Spec
	Doc      *genesis.Document
	Entities []*EntityKeys
	Users    []signature.Signer
	Runtime  *registry.Runtime // optional compute runtime
	// RtThresholdsChanged: a generated runtime update changed the runtime's per-node stake thresholds and succeeded.
	RtThresholdsChanged bool
	// RtThresholdsSeq counts those updates.
	RtThresholdsSeq int
}

// Spec holds the drawn genesis parameters (plain data so that it can be logged).
type Spec struct {
	NEntities      int     `json:"entities"`
	NodesPerEntity []int   `json:"nodes_per_entity"`
	NodeRoles      [][]int `json:"node_roles"` // per entity, per node: 1 validator, 2 compute, 3 both
	NUsers         int     `json:"users"`
	EpochInterval  int64   `json:"epoch_interval"`
	DebondingIv    uint64  `json:"debonding_interval"`
	MaxNodeExp     uint64  `json:"max_node_expiration"`
	// RtAccountBalance: general balance of the runtime's own staking account (what messages emitted by the runtime spend);
	// RtEscrowMsgs: the staking parameter AllowEscrowMessages.
	RtAccountBalance uint64    `json:"rt_account_balance,omitempty"`
	RtEscrowMsgs     bool      `json:"rt_escrow_msgs,omitempty"`
	MaxValidators    int       `json:"max_validators"`
	MaxValPerEntity  int       `json:"max_validators_per_entity"`
	VotingPowerSqrt  bool      `json:"voting_power_sqrt"`
	SelfStake        []uint64  `json:"self_stake"`   // per entity, base units escrowed to itself
	SelfShares       []uint64  `json:"self_shares"`  // per entity, shares for that stake (ratio != 1 allowed)
	General          []uint64  `json:"general"`      // per entity general balance
	UserBalance      []uint64  `json:"user_balance"` // per user
	CommonPool       uint64    `json:"common_pool"`
	LastBlockFees    uint64    `json:"last_block_fees"`
	GovDeposits      uint64    `json:"governance_deposits"`
	ThresholdEntity  uint64    `json:"threshold_entity"`
	ThresholdNode    uint64    `json:"threshold_node"`
	FeeWeights       [3]uint64 `json:"fee_weights"`
	RewardScale      uint64    `json:"reward_scale"`
	RewardProposed   uint64    `json:"reward_factor_proposed"`
	RewardSigned     uint64    `json:"reward_factor_signed"`
	SlashAmount      uint64    `json:"slash_amount"`
	SlashFreeze      uint64    `json:"slash_freeze"`
	MinTransact      uint64    `json:"min_transact_balance"`
	MinTransfer      uint64    `json:"min_transfer"`
	MinDelegation    uint64    `json:"min_delegation"`
	MaxAllowances    uint32    `json:"max_allowances"`
	GasTxByte        uint64    `json:"gas_tx_byte"`
	GasOp            uint64    `json:"gas_op"`
	MaxBlockGas      uint64    `json:"max_block_gas"`
	// ConsMinGasPrice is the consensus-wide minimum gas price (0 = none), enforced in block execution.
	ConsMinGasPrice uint64 `json:"cons_min_gas_price"`
	MaxTxSize       uint64 `json:"max_tx_size"`
	GovVotingPeriod uint64 `json:"gov_voting_period"`
	GovStakeThresh  uint8  `json:"gov_stake_threshold"`
	GovMinDeposit   uint64 `json:"gov_min_deposit"`
	CommissionBound bool   `json:"commission_bounds"`
	// CommissionInterval: epoch alignment required of commission schedule steps (rate_change_interval; 0 = the zero value
	// a genesis document that leaves the field out has - it passes the genesis sanity check).
	CommissionInterval *uint64 `json:"commission_interval,omitempty"`
	MinCommission      uint64  `json:"min_commission_rate"`
	WithRuntime        bool    `json:"with_runtime"`
	RtGroup            uint16  `json:"rt_group"`
	RtBackup           uint16  `json:"rt_backup"`
	// scheduling constraints of the runtime: per-entity node cap (0 = none), minimum pool size above the group size,
	// validator-set membership of the node's entity
	RtMaxNodes     uint16 `json:"rt_max_nodes"`
	RtMinPoolExtra uint16 `json:"rt_min_pool_extra"`
	RtValidatorSet bool   `json:"rt_validator_set"`
	// RtValidatorSetRole: which role the validator-set constraint applies to (0 = both, 1 = workers only, 2 = backup workers only).
	RtValidatorSetRole int  `json:"rt_validator_set_role"`
	RtOwnStake         bool `json:"rt_own_stake"`
	// VRF: the VRF beacon backend (nodes submit proofs, committee elections need a high-quality alpha: at least
	// VRFThreshold proofs in the previous epoch); false = the insecure backend.
	VRF          bool   `json:"vrf"`
	VRFThreshold uint64 `json:"vrf_threshold"`
	// RtUpgradeAt: 0 = one deployment (version 0.0.0); n > 0 = a second deployment (version 0.1.0) valid from epoch
	// base-1+n (so n = 1 is already active at genesis); RtNewestFirst lists the newer deployment first in the descriptor.
	// NodeRtVer[i][j]: which versions node j of entity i registers for: 1 old, 2 new, 3 both (0 = both).
	RtUpgradeAt   uint64  `json:"rt_upgrade_at"`
	RtNewestFirst bool    `json:"rt_newest_first"`
	NodeRtVer     [][]int `json:"node_rt_versions"`
	// RtSlash: the runtime's slash amount for equivocation (0 = the runtime does not slash); RtMaxInMsgs: size of the
	// runtime's incoming message queue (0 = disabled).
	RtSlash uint64 `json:"rt_slash"`
	// Liveness evaluation of the runtime's workers (RtMinLivePct = 0: off): minimum share of live rounds, rounds needed for
	// an evaluation, failures tolerated before the node is frozen (0 = never) and slashed, allowed share of missed proposals.
	RtMinLivePct   uint8  `json:"rt_min_live_pct"`
	RtMinLiveEval  uint64 `json:"rt_min_live_eval"`
	RtMaxLiveFail  uint8  `json:"rt_max_live_fail"`
	RtMaxMissedPct uint8  `json:"rt_max_missed_pct"`
	RtLiveSlash    uint64 `json:"rt_live_slash"`
	RtLiveFreeze   uint64 `json:"rt_live_freeze"`
	RtMaxInMsgs    uint32 `json:"rt_max_in_msgs"`
	// RtOwner: index of the entity that owns (governs) the runtime; 0 = the anchor entity.
	RtOwner        int    `json:"rt_owner"`
	RtStragglers   uint16 `json:"rt_stragglers"`
	RtRoundTimeout int64  `json:"rt_round_timeout"`
	WithVault      bool   `json:"with_vault"`
	// GenesisVaults: per vault {balance, withdraw limit amount, limit interval} of vaults that exist from genesis
	// (created by user 0, admins users 0 and 1, every user up to the fourth holds the withdraw policy).
	GenesisVaults    [][3]uint64 `json:"genesis_vaults"`
	CrossDelegations [][3]uint64 `json:"cross_delegations"` // (from user idx, to entity idx, amount)
	Debonding        [][3]uint64 `json:"debonding"`         // (from user idx, to entity idx, amount) at epoch base+1..
	// EntityCommission: per entity, the commission rate of a commission schedule that is in force from genesis (0 = the
	// account has no schedule and pays the minimum rate).
	EntityCommission []uint64 `json:"entity_commission,omitempty"`
	// DebondChains: further genesis debonding delegations (delegator: entity idx, or 1000+user idx; escrow entity idx;
	// amount; end epoch = base-1+offset) - lets an account be the escrow of one entry and the delegator of another that
	// matures at the same transition.
	DebondChains [][4]uint64 `json:"debond_chains,omitempty"`
}

// GenesisTime is the fixed genesis time of all generated chains.
var GenesisTime = time.Unix(1_700_000_000, 0).UTC()

func q(v uint64) quantity.Quantity {
	return *quantity.NewFromUint64(v)
}

// RuntimeID is the (non-test, compute) runtime ID used when a runtime is generated.
var RuntimeID = func() common.Namespace {
	var ns common.Namespace
	// flags: 0x8000... = key manager? Use the common compute runtime flag layout: first byte 0x80 = test? keep zero flags.
	copy(ns[:], []byte{0x00, 0x00, 0x00, 0x00, 0x00, 0x00, 0x00, 0x00, 'v', 'e', 'r', 'i', 'f', '-', 'r', 't'})
	ns[31] = 0x01
	return ns
}()

// BuildGenesis builds a production-mode genesis document (no debug flags that need
// DebugDontBlameOasis) from the spec. The document must pass SanityCheck.
func BuildGenesis(spec *Spec) (*World, error) {
	w := &World{Spec: spec}
	for i := 0; i < spec.NEntities; i++ {
		ek := &EntityKeys{Name: fmt.Sprintf("E%d", i), Signer: memorySigner.NewTestSigner(fmt.Sprintf("verif entity %d", i))}
		for j := 0; j < spec.NodesPerEntity[i]; j++ {
			ek.Nodes = append(ek.Nodes, NewNodeKeys(fmt.Sprintf("E%dN%d", i, j)))
		}
		w.Entities = append(w.Entities, ek)
	}
	for i := 0; i < spec.NUsers; i++ {
		w.Users = append(w.Users, memorySigner.NewTestSigner(fmt.Sprintf("verif user %d", i)))
	}

	doc := &genesis.Document{
		Height:  1,
		ChainID: "verif-chain",
		Time:    GenesisTime,
	}
	doc.Beacon = beacon.Genesis{
		Base: 1,
		Parameters: beacon.ConsensusParameters{
			Backend:            beacon.BackendInsecure,
			InsecureParameters: &beacon.InsecureParameters{Interval: spec.EpochInterval},
		},
	}
	if spec.VRF {
		// the production beacon: nodes submit VRF proofs during an epoch, elections of the next epoch draw on them
		doc.Beacon.Parameters = beacon.ConsensusParameters{
			Backend: beacon.BackendVRF,
			VRFParameters: &beacon.VRFParameters{
				AlphaHighQualityThreshold: spec.VRFThreshold,
				Interval:                  spec.EpochInterval,
				ProofSubmissionDelay:      1,
				GasCosts:                  transaction.Costs{beacon.GasOpVRFProve: transaction.Gas(spec.GasOp)},
			},
		}
	}
	doc.Registry = registry.Genesis{
		Parameters: registry.ConsensusParameters{
			MaxNodeExpiration: beacon.EpochTime(spec.MaxNodeExp),
			EnableRuntimeGovernanceModels: map[registry.RuntimeGovernanceModel]bool{
				registry.GovernanceEntity:  true,
				registry.GovernanceRuntime: true,
			},
			GasCosts: transaction.Costs{
				registry.GasOpRegisterEntity:          transaction.Gas(spec.GasOp),
				registry.GasOpDeregisterEntity:        transaction.Gas(spec.GasOp),
				registry.GasOpRegisterNode:            transaction.Gas(spec.GasOp),
				registry.GasOpUnfreezeNode:            transaction.Gas(spec.GasOp),
				registry.GasOpRegisterRuntime:         transaction.Gas(spec.GasOp),
				registry.GasOpRuntimeEpochMaintenance: transaction.Gas(spec.GasOp),
				registry.GasOpProveFreshness:          transaction.Gas(spec.GasOp),
			},
		},
	}
	dist := scheduler.VotingPowerDistribution(scheduler.VotingPowerDistributionLinear)
	if spec.VotingPowerSqrt {
		dist = scheduler.VotingPowerDistributionSqrt
	}
	doc.Scheduler = scheduler.Genesis{
		Parameters: scheduler.ConsensusParameters{
			MinValidators:           1,
			MaxValidators:           spec.MaxValidators,
			MaxValidatorsPerEntity:  spec.MaxValPerEntity,
			VotingPowerDistribution: dist,
		},
	}
	doc.Governance = governance.Genesis{
		Parameters: governance.ConsensusParameters{
			GasCosts: transaction.Costs{
				governance.GasOpSubmitProposal: transaction.Gas(spec.GasOp),
				governance.GasOpCastVote:       transaction.Gas(spec.GasOp),
			},
			MinProposalDeposit:             q(spec.GovMinDeposit),
			VotingPeriod:                   beacon.EpochTime(spec.GovVotingPeriod),
			StakeThreshold:                 spec.GovStakeThresh,
			UpgradeMinEpochDiff:            beacon.EpochTime(spec.GovVotingPeriod + 1),
			UpgradeCancelMinEpochDiff:      beacon.EpochTime(spec.GovVotingPeriod + 1),
			EnableChangeParametersProposal: true,
			AllowVoteWithoutEntity:         true,
			AllowProposalMetadata:          true,
		},
	}
	doc.RootHash = roothash.Genesis{
		Parameters: roothash.ConsensusParameters{
			GasCosts: transaction.Costs{
				roothash.GasOpComputeCommit:   transaction.Gas(spec.GasOp),
				roothash.GasOpProposerTimeout: transaction.Gas(spec.GasOp),
				roothash.GasOpEvidence:        transaction.Gas(spec.GasOp),
				roothash.GasOpSubmitMsg:       transaction.Gas(spec.GasOp),
			},
			MaxRuntimeMessages:   32,
			MaxInRuntimeMessages: 32,
			MaxEvidenceAge:       10,
		},
	}
	doc.Consensus = consensusGenesis.Genesis{
		Backend: cmtapi.BackendName,
		Parameters: consensusGenesis.Parameters{
			TimeoutCommit:     1 * time.Millisecond,
			SkipTimeoutCommit: true,
			MaxTxSize:         spec.MaxTxSize,
			MaxBlockSize:      1 << 21,
			MaxBlockGas:       transaction.Gas(spec.MaxBlockGas),
			MinGasPrice:       spec.ConsMinGasPrice,
			MaxEvidenceSize:   1 << 16,
			GasCosts: transaction.Costs{
				consensusGenesis.GasOpTxByte: transaction.Gas(spec.GasTxByte),
			},
		},
	}
	if spec.WithVault {
		doc.Vault = &vault.Genesis{
			Parameters: vault.ConsensusParameters{
				Enabled:               true,
				MaxAuthorityAddresses: 8,
				GasCosts: transaction.Costs{
					vault.GasOpCreate:          transaction.Gas(spec.GasOp),
					vault.GasOpAuthorizeAction: transaction.Gas(spec.GasOp),
					vault.GasOpCancelAction:    transaction.Gas(spec.GasOp),
				},
			},
		}
	}

	// ---- staking
	sp := staking.ConsensusParameters{
		Thresholds: map[staking.ThresholdKind]quantity.Quantity{
			staking.KindEntity:            q(spec.ThresholdEntity),
			staking.KindNodeValidator:     q(spec.ThresholdNode),
			staking.KindNodeCompute:       q(spec.ThresholdNode),
			staking.KindNodeKeyManager:    q(spec.ThresholdNode),
			staking.KindRuntimeCompute:    q(spec.ThresholdNode),
			staking.KindRuntimeKeyManager: q(spec.ThresholdNode),
			staking.KindKeyManagerChurp:   q(spec.ThresholdNode),
			staking.KindNodeObserver:      q(spec.ThresholdNode),
		},
		DebondingInterval: beacon.EpochTime(spec.DebondingIv),
		RewardSchedule: []staking.RewardStep{
			{Until: 5, Scale: q(spec.RewardScale)},
			{Until: 1000, Scale: q(spec.RewardScale / 2)},
		},
		SigningRewardThresholdNumerator:   3,
		SigningRewardThresholdDenominator: 4,
		CommissionScheduleRules: staking.CommissionScheduleRules{
			RateChangeInterval: commissionInterval(spec),
			RateBoundLead:      2,
			MaxRateSteps:       4,
			MaxBoundSteps:      4,
			MinCommissionRate:  q(spec.MinCommission),
		},
		Slashing: map[staking.SlashReason]staking.Slash{
			staking.SlashConsensusEquivocation:      {Amount: q(spec.SlashAmount), FreezeInterval: beacon.EpochTime(spec.SlashFreeze)},
			staking.SlashConsensusLightClientAttack: {Amount: q(spec.SlashAmount), FreezeInterval: beacon.EpochTime(spec.SlashFreeze)},
		},
		GasCosts: transaction.Costs{
			staking.GasOpTransfer:                transaction.Gas(spec.GasOp),
			staking.GasOpBurn:                    transaction.Gas(spec.GasOp),
			staking.GasOpAddEscrow:               transaction.Gas(spec.GasOp),
			staking.GasOpReclaimEscrow:           transaction.Gas(spec.GasOp),
			staking.GasOpAmendCommissionSchedule: transaction.Gas(spec.GasOp),
			staking.GasOpAllow:                   transaction.Gas(spec.GasOp),
			staking.GasOpWithdraw:                transaction.Gas(spec.GasOp),
		},
		MinDelegationAmount:       q(spec.MinDelegation),
		MinTransferAmount:         q(spec.MinTransfer),
		MinTransactBalance:        q(spec.MinTransact),
		MaxAllowances:             spec.MaxAllowances,
		FeeSplitWeightPropose:     q(spec.FeeWeights[0]),
		FeeSplitWeightVote:        q(spec.FeeWeights[1]),
		FeeSplitWeightNextPropose: q(spec.FeeWeights[2]),
		RewardFactorEpochSigned:   q(spec.RewardSigned),
		RewardFactorBlockProposed: q(spec.RewardProposed),
		AllowEscrowMessages:       spec.RtEscrowMsgs,
	}
	st := staking.Genesis{
		Parameters:           sp,
		TokenSymbol:          "VRF",
		TokenValueExponent:   9,
		CommonPool:           q(spec.CommonPool),
		LastBlockFees:        q(spec.LastBlockFees),
		Ledger:               map[staking.Address]*staking.Account{},
		Delegations:          map[staking.Address]map[staking.Address]*staking.Delegation{},
		DebondingDelegations: map[staking.Address]map[staking.Address][]*staking.DebondingDelegation{},
	}
	total := new(quantity.Quantity)
	_ = total.Add(&st.CommonPool)
	_ = total.Add(&st.LastBlockFees)
	acct := func(a staking.Address) *staking.Account {
		if st.Ledger[a] == nil {
			st.Ledger[a] = &staking.Account{}
		}
		return st.Ledger[a]
	}
	for i, ek := range w.Entities {
		a := acct(ek.Address())
		a.General.Balance = q(spec.General[i])
		_ = total.Add(&a.General.Balance)
		if i < len(spec.EntityCommission) && spec.EntityCommission[i] > 0 && spec.EntityCommission[i] >= spec.MinCommission {
			a.Escrow.CommissionSchedule = staking.CommissionSchedule{
				Rates:  []staking.CommissionRateStep{{Start: 0, Rate: q(spec.EntityCommission[i])}},
				Bounds: []staking.CommissionRateBoundStep{{Start: 0, RateMin: q(spec.MinCommission), RateMax: q(100000)}},
			}
		}
		if spec.SelfStake[i] > 0 {
			a.Escrow.Active.Balance = q(spec.SelfStake[i])
			a.Escrow.Active.TotalShares = q(spec.SelfShares[i])
			_ = total.Add(&a.Escrow.Active.Balance)
			st.Delegations[ek.Address()] = map[staking.Address]*staking.Delegation{
				ek.Address(): {Shares: q(spec.SelfShares[i])},
			}
		}
	}
	// node accounts pay for their own (re-)registrations: they need at least MinTransactBalance
	for _, ek := range w.Entities {
		for _, nk := range ek.Nodes {
			a := acct(staking.NewAddress(nk.ID.Public()))
			a.General.Balance = q(spec.MinTransact + 5000)
			_ = total.Add(&a.General.Balance)
		}
	}
	for i, u := range w.Users {
		a := acct(staking.NewAddress(u.Public()))
		a.General.Balance = q(spec.UserBalance[i])
		_ = total.Add(&a.General.Balance)
	}
	if spec.WithVault && len(w.Users) > 0 {
		creator := staking.NewAddress(w.Users[0].Public())
		admins := []staking.Address{creator}
		if len(w.Users) > 1 {
			admins = append(admins, staking.NewAddress(w.Users[1].Public()))
		}
		for i, gv := range spec.GenesisVaults {
			vl := &vault.Vault{Creator: creator, ID: uint64(i), State: vault.StateActive,
				AdminAuthority:   vault.Authority{Addresses: admins, Threshold: 1},
				SuspendAuthority: vault.Authority{Addresses: []staking.Address{creator}, Threshold: 1}}
			doc.Vault.Vaults = append(doc.Vault.Vaults, vl)
			va := acct(vl.Address())
			va.General.Balance = q(gv[0])
			va.General.Hooks = map[staking.HookKind]staking.HookDestination{staking.HookKindWithdraw: {Module: vault.ModuleName}}
			_ = total.Add(&va.General.Balance)
			if doc.Vault.States == nil {
				doc.Vault.States = map[staking.Address]map[staking.Address]*vault.AddressState{}
			}
			doc.Vault.States[vl.Address()] = map[staking.Address]*vault.AddressState{}
			for k := 0; k < len(w.Users) && k < 4; k++ {
				doc.Vault.States[vl.Address()][staking.NewAddress(w.Users[k].Public())] = &vault.AddressState{
					WithdrawPolicy: vault.WithdrawPolicy{LimitAmount: q(gv[1]), LimitInterval: gv[2]}}
			}
		}
	}
	// cross delegations: the user's stake is deposited at the pool's current price, exactly as AddEscrow does
	for _, cd := range spec.CrossDelegations {
		u, e, amount := int(cd[0]), int(cd[1]), cd[2]
		if u >= len(w.Users) || e >= len(w.Entities) || amount == 0 {
			continue
		}
		ea := acct(w.Entities[e].Address())
		eaddr := w.Entities[e].Address()
		uaddr := staking.NewAddress(w.Users[u].Public())
		if ea.Escrow.Active.Balance.IsZero() && !ea.Escrow.Active.TotalShares.IsZero() {
			continue
		}
		src := q(amount)
		amt := q(amount)
		if st.Delegations[eaddr] == nil {
			st.Delegations[eaddr] = map[staking.Address]*staking.Delegation{}
		}
		d := st.Delegations[eaddr][uaddr]
		if d == nil {
			d = &staking.Delegation{}
		}
		if _, err := ea.Escrow.Active.Deposit(&d.Shares, &src, &amt); err != nil {
			continue
		}
		_ = total.Add(&amt) // the pool holds the stake even if it minted no shares
		if d.Shares.IsZero() {
			continue
		}
		st.Delegations[eaddr][uaddr] = d
	}
	// the runtime's own account holds escrow (a prerequisite for switching the runtime to runtime governance, where
	// the runtime's stake claim moves from the owning entity's account to the runtime's account)
	if spec.WithRuntime && spec.RtOwnStake && len(w.Users) > 0 {
		raddr := staking.NewRuntimeAddress(RuntimeID)
		ra := acct(raddr)
		uaddr := staking.NewAddress(w.Users[0].Public())
		amount := 10*spec.ThresholdNode + 10
		src, amt := q(amount), q(amount)
		d := &staking.Delegation{}
		if _, err := ra.Escrow.Active.Deposit(&d.Shares, &src, &amt); err == nil {
			_ = total.Add(&amt)
			if st.Delegations[raddr] == nil {
				st.Delegations[raddr] = map[staking.Address]*staking.Delegation{}
			}
			st.Delegations[raddr][uaddr] = d
		}
	}
	// debonding delegations
	for i, dd := range spec.Debonding {
		u, e, amount := int(dd[0]), int(dd[1]), dd[2]
		if u >= len(w.Users) || e >= len(w.Entities) || amount == 0 {
			continue
		}
		ea := acct(w.Entities[e].Address())
		eaddr := w.Entities[e].Address()
		uaddr := staking.NewAddress(w.Users[u].Public())
		if ea.Escrow.Debonding.Balance.IsZero() && !ea.Escrow.Debonding.TotalShares.IsZero() {
			continue
		}
		src := q(amount)
		amt := q(amount)
		deb := &staking.DebondingDelegation{DebondEndTime: doc.Beacon.Base - 1 + beacon.EpochTime((uint64(i)+amount)%5)}
		if _, err := ea.Escrow.Debonding.Deposit(&deb.Shares, &src, &amt); err != nil {
			continue
		}
		_ = total.Add(&amt)
		if deb.Shares.IsZero() {
			continue
		}
		if st.DebondingDelegations[eaddr] == nil {
			st.DebondingDelegations[eaddr] = map[staking.Address][]*staking.DebondingDelegation{}
		}
		st.DebondingDelegations[eaddr][uaddr] = append(st.DebondingDelegations[eaddr][uaddr], deb)
	}
	for _, dc := range spec.DebondChains {
		from, e, amount, off := int(dc[0]), int(dc[1]), dc[2], dc[3]
		var faddr staking.Address
		switch {
		case from >= 1000 && from-1000 < len(w.Users):
			faddr = staking.NewAddress(w.Users[from-1000].Public())
		case from < len(w.Entities):
			faddr = w.Entities[from].Address()
		default:
			continue
		}
		if e >= len(w.Entities) || amount == 0 {
			continue
		}
		eaddr := w.Entities[e].Address()
		ea := acct(eaddr)
		if ea.Escrow.Debonding.Balance.IsZero() && !ea.Escrow.Debonding.TotalShares.IsZero() {
			continue
		}
		src, amt := q(amount), q(amount)
		deb := &staking.DebondingDelegation{DebondEndTime: doc.Beacon.Base - 1 + beacon.EpochTime(off)}
		if _, err := ea.Escrow.Debonding.Deposit(&deb.Shares, &src, &amt); err != nil || deb.Shares.IsZero() {
			continue
		}
		_ = total.Add(&amt)
		if st.DebondingDelegations[eaddr] == nil {
			st.DebondingDelegations[eaddr] = map[staking.Address][]*staking.DebondingDelegation{}
		}
		st.DebondingDelegations[eaddr][faddr] = append(st.DebondingDelegations[eaddr][faddr], deb)
	}
	if spec.WithRuntime && spec.RtAccountBalance > 0 {
		ra := acct(staking.NewRuntimeAddress(RuntimeID))
		ra.General.Balance = q(spec.RtAccountBalance)
		_ = total.Add(&ra.General.Balance)
	}
	st.TotalSupply = *total
	doc.Staking = st

	// ---- registry entities and nodes
	epochBase := doc.Beacon.Base
	var rt *registry.Runtime
	if spec.WithRuntime {
		rt = &registry.Runtime{
			Versioned:   cborV(registry.LatestRuntimeDescriptorVersion),
			ID:          RuntimeID,
			EntityID:    w.Entities[spec.RtOwner%len(w.Entities)].Signer.Public(),
			Kind:        registry.KindCompute,
			TEEHardware: node.TEEHardwareInvalid,
			Executor: registry.ExecutorParameters{
				GroupSize:         spec.RtGroup,
				GroupBackupSize:   spec.RtBackup,
				AllowedStragglers: spec.RtStragglers,
				RoundTimeout:      spec.RtRoundTimeout,
				MaxMessages:       32,
			},
			TxnScheduler: registry.TxnSchedulerParameters{
				BatchFlushTimeout: time.Second,
				MaxBatchSize:      10,
				MaxBatchSizeBytes: 1 << 16,
				ProposerTimeout:   2 * time.Second,
			},
			AdmissionPolicy: registry.RuntimeAdmissionPolicy{AnyNode: &registry.AnyNodeRuntimeAdmissionPolicy{}},
			Constraints: map[scheduler.CommitteeKind]map[scheduler.Role]registry.SchedulingConstraints{
				scheduler.KindComputeExecutor: {
					scheduler.RoleWorker:       constraints(spec, spec.RtGroup, 1),
					scheduler.RoleBackupWorker: constraints(spec, spec.RtBackup, 2),
				},
			},
			GovernanceModel: registry.GovernanceEntity,
			Deployments:     rtDeployments(spec),
			Staking: registry.RuntimeStakingParameters{
				RewardSlashEquvocationRuntimePercent: 50,
			},
		}
		if spec.RtSlash > 0 {
			rt.Staking.Slashing = map[staking.SlashReason]staking.Slash{
				staking.SlashRuntimeEquivocation:     {Amount: q(spec.RtSlash)},
				staking.SlashRuntimeIncorrectResults: {Amount: q(spec.RtSlash)},
			}
		}
		rt.TxnScheduler.MaxInMessages = spec.RtMaxInMsgs
		if spec.RtMinLivePct > 0 {
			rt.Executor.MinLiveRoundsPercent = spec.RtMinLivePct
			rt.Executor.MinLiveRoundsForEvaluation = spec.RtMinLiveEval
			rt.Executor.MaxLivenessFailures = spec.RtMaxLiveFail
			rt.Executor.MaxMissedProposalsPercent = spec.RtMaxMissedPct
			if rt.Staking.Slashing == nil {
				rt.Staking.Slashing = map[staking.SlashReason]staking.Slash{}
			}
			rt.Staking.Slashing[staking.SlashRuntimeLiveness] = staking.Slash{Amount: q(spec.RtLiveSlash), FreezeInterval: beacon.EpochTime(spec.RtLiveFreeze)}
		}
		w.Runtime = rt
		doc.Registry.Runtimes = append(doc.Registry.Runtimes, rt)
	}
	for _, ek := range w.Entities {
		ent := &entity.Entity{Versioned: cborV(entity.LatestDescriptorVersion), ID: ek.Signer.Public()}
		for _, nk := range ek.Nodes {
			ent.Nodes = append(ent.Nodes, nk.ID.Public())
		}
		se, err := entity.SignEntity(ek.Signer, registry.RegisterGenesisEntitySignatureContext, ent)
		if err != nil {
			return nil, err
		}
		doc.Registry.Entities = append(doc.Registry.Entities, se)
		for _, nk := range ek.Nodes {
			nd := w.NodeDescriptor(ek, nk, epochBase+beacon.EpochTime(spec.MaxNodeExp), 0, false)
			sn, err := node.MultiSignNode(nk.Signers(), registry.RegisterGenesisNodeSignatureContext, nd)
			if err != nil {
				return nil, err
			}
			doc.Registry.Nodes = append(doc.Registry.Nodes, sn)
		}
	}
	w.Doc = doc
	return w, nil
}

func cborV(v uint16) cbor.Versioned { return cbor.NewVersioned(v) }

// RtNewVersion is the version of the runtime's second deployment.
var RtNewVersion = version.Version{Minor: 1}

func rtDeployments(spec *Spec) []*registry.VersionInfo {
	old := &registry.VersionInfo{}
	if spec.RtUpgradeAt == 0 {
		return []*registry.VersionInfo{old}
	}
	nu := &registry.VersionInfo{Version: RtNewVersion, ValidFrom: beacon.EpochTime(spec.RtUpgradeAt)} // base epoch is 1
	if spec.RtNewestFirst {
		return []*registry.VersionInfo{nu, old}
	}
	return []*registry.VersionInfo{old, nu}
}

func constraints(spec *Spec, group uint16, role int) registry.SchedulingConstraints {
	c := registry.SchedulingConstraints{MinPoolSize: &registry.MinPoolSizeConstraint{Limit: group + spec.RtMinPoolExtra}}
	if spec.RtMaxNodes > 0 {
		c.MaxNodes = &registry.MaxNodesConstraint{Limit: spec.RtMaxNodes}
	}
	if spec.RtValidatorSet && (spec.RtValidatorSetRole == 0 || spec.RtValidatorSetRole == role) {
		c.ValidatorSet = &registry.ValidatorSetConstraint{}
	}
	return c
}

// RolesOf returns the role mask configured for a node in the spec (validator when unspecified).
func (w *World) RolesOf(nk *NodeKeys) node.RolesMask {
	for i, ek := range w.Entities {
		for j, x := range ek.Nodes {
			if x != nk {
				continue
			}
			r := 1
			if i < len(w.Spec.NodeRoles) && j < len(w.Spec.NodeRoles[i]) {
				r = w.Spec.NodeRoles[i][j]
			}
			var m node.RolesMask
			if r&1 != 0 {
				m |= node.RoleValidator
			}
			if r&2 != 0 && w.Runtime != nil {
				m |= node.RoleComputeWorker
			}
			if m == 0 {
				m = node.RoleValidator
			}
			return m
		}
	}
	return node.RoleValidator
}

// NodeDescriptor builds a node descriptor with routable fake addresses and the roles configured in
// the spec (the roles/compute arguments are kept for callers that want to override: non-zero roles win).
func (w *World) NodeDescriptor(ek *EntityKeys, nk *NodeKeys, expiration beacon.EpochTime, roles node.RolesMask, _ bool) *node.Node {
	if roles == 0 || roles == node.RoleValidator {
		roles = w.RolesOf(nk)
	}
	return w.NodeDescriptorWithRoles(ek, nk, expiration, roles)
}

// NodeDescriptorWithRoles builds a node descriptor with exactly the given roles.
func (w *World) NodeDescriptorWithRoles(ek *EntityKeys, nk *NodeKeys, expiration beacon.EpochTime, roles node.RolesMask) *node.Node {
	// deterministic per-name address byte
	var sum byte
	for _, c := range []byte(nk.Name) {
		sum = sum*31 + c
	}
	addr := node.Address{IP: []byte{8, 8, sum, 8}, Port: 26656}
	nd := &node.Node{
		Versioned:  cborV(node.LatestNodeDescriptorVersion),
		ID:         nk.ID.Public(),
		EntityID:   ek.Signer.Public(),
		Expiration: expiration,
		TLS:        node.TLSInfo{PubKey: nk.TLS.Public()},
		P2P:        node.P2PInfo{ID: nk.P2P.Public(), Addresses: []node.Address{addr}},
		Consensus: node.ConsensusInfo{
			ID:        nk.Consensus.Public(),
			Addresses: []node.ConsensusAddress{{ID: nk.P2P.Public(), Address: addr}},
		},
		VRF:             node.VRFInfo{ID: nk.VRF.Public()},
		Roles:           roles,
		SoftwareVersion: node.SoftwareVersion(version.SoftwareVersion),
	}
	if roles&node.RoleComputeWorker != 0 && w.Runtime != nil {
		nd.Runtimes = []*node.Runtime{{ID: w.Runtime.ID}}
		if w.Spec.RtUpgradeAt > 0 {
			ver := 3
			for i, e := range w.Entities {
				for j, n := range e.Nodes {
					if n == nk && i < len(w.Spec.NodeRtVer) && j < len(w.Spec.NodeRtVer[i]) && w.Spec.NodeRtVer[i][j] != 0 {
						ver = w.Spec.NodeRtVer[i][j]
					}
				}
			}
			nd.Runtimes = nil
			if ver&1 != 0 {
				nd.Runtimes = append(nd.Runtimes, &node.Runtime{ID: w.Runtime.ID})
			}
			if ver&2 != 0 {
				nd.Runtimes = append(nd.Runtimes, &node.Runtime{ID: w.Runtime.ID, Version: RtNewVersion})
			}
		}
	}
	return nd
}

var _ = math.MaxInt64

func commissionInterval(spec *Spec) beacon.EpochTime {
	if spec.CommissionInterval == nil {
		return 1
	}
	return beacon.EpochTime(*spec.CommissionInterval)
}

// Q returns a pointer to the quantity v (for descriptors built by the checks).
func Q(v uint64) *quantity.Quantity {
	x := q(v)
	return &x
}
