package chain

import (
	"strings"
	"sync"

	"github.com/oasisprotocol/oasis-core/go/common/logging"
)

// logBuf keeps the last error-level log lines of the code under test (the multiplexer swallows
// panics in PrepareProposal/ProcessProposal and only logs them).
type logBuf struct {
	mu    sync.Mutex
	lines []string
}

func (l *logBuf) Write(p []byte) (int, error) {
	l.mu.Lock()
	defer l.mu.Unlock()
	s := string(p)
	if i := strings.Index(s, "stack="); i > 0 {
		s = s[:i]
	}
	l.lines = append(l.lines, strings.TrimSpace(s))
	if len(l.lines) > 50 {
		l.lines = l.lines[len(l.lines)-50:]
	}
	return len(p), nil
}

var errLog = &logBuf{}

func init() {
	_ = logging.Initialize(errLog, logging.FmtLogfmt, logging.LevelError, nil)
}

// LastErrors returns (and clears) the buffered error log lines.
func LastErrors() []string {
	errLog.mu.Lock()
	defer errLog.mu.Unlock()
	out := errLog.lines
	errLog.lines = nil
	return out
}

// Why shortens an error to its first words: used as the reason of a discarded case, so that the classes of
// discards are visible in the evidence (a new class of discards may be a defect hiding behind the harness).
func Why(err error) string {
	if err == nil {
		return "-"
	}
	f := strings.Fields(err.Error())
	if len(f) > 12 {
		f = f[:12]
	}
	return strings.Join(f, " ")
}
