package chain

import (
	"context"
	"crypto/ed25519"
	"crypto/sha512"
	"fmt"
	"math/big"

	"github.com/cometbft/cometbft/abci/types"
	cmtproto "github.com/cometbft/cometbft/proto/tendermint/types"

	"github.com/oasisprotocol/oasis-core/go/common/cbor"
	"github.com/oasisprotocol/oasis-core/go/common/crypto/signature"
	"github.com/oasisprotocol/oasis-core/go/consensus/api/transaction"
	cmtapi "github.com/oasisprotocol/oasis-core/go/consensus/cometbft/api"
	staking "github.com/oasisprotocol/oasis-core/go/staking/api"
)

// DumpAtVersion iterates the COMMITTED state at a version (0 = latest) straight from the node
// database (independent of the check tree that CheckTx mutates).
func DumpAtVersion(r *Replica, version int64) (StateDump, error) {
	st, err := cmtapi.NewImmutableStateAt(context.Background(), r.Srv.State(), version)
	if err != nil {
		return nil, err
	}
	defer st.Close()
	out := StateDump{}
	it := st.NewIterator(context.Background())
	defer it.Close()
	for it.Rewind(); it.Valid(); it.Next() {
		out[string(it.Key())] = append([]byte{}, it.Value()...)
	}
	return out, it.Err()
}

// Probe executes a block consisting of the given transactions on a replica WITHOUT committing it and
// returns the transaction results and the complete working state after EndBlock. It uses the sequence
// a proposer goes through when its round fails: PrepareProposal (executes the block on a fresh overlay),
// ProcessProposal of its own proposal (accepted from the cache), BeginBlock and DeliverTx (cached results);
// no EndBlock/Commit follows, and the next PrepareProposal / ProcessProposal discards everything.
func Probe(r *Replica, b *Block, tag string, txs [][]byte) (res []types.ResponseDeliverTx, working StateDump, err error) {
	err = Call(func() {
		ext := types.ExtendedCommitInfo{Round: b.LastCommit.Round}
		for _, v := range b.LastCommit.Votes {
			ext.Votes = append(ext.Votes, types.ExtendedVoteInfo{Validator: v.Validator, SignedLastBlock: v.SignedLastBlock})
		}
		LastErrors()
		pp := r.Mux.PrepareProposal(types.RequestPrepareProposal{
			MaxTxBytes: 1 << 21, Txs: txs, LocalLastCommit: ext, Misbehavior: b.Misbehavior,
			Height: b.Height, Time: b.Time, ProposerAddress: b.Proposer.Address,
		})
		if len(pp.Txs) != len(txs)+1 {
			panic(fmt.Sprintf("probe: PrepareProposal returned %d transactions for %d: %v", len(pp.Txs), len(txs), LastErrors()))
		}
		hash := []byte("probe-" + tag)
		pr := r.Mux.ProcessProposal(types.RequestProcessProposal{
			Txs: pp.Txs, ProposedLastCommit: b.LastCommit, Misbehavior: b.Misbehavior, Hash: hash,
			Height: b.Height, Time: b.Time, ProposerAddress: b.Proposer.Address,
		})
		if pr.Status != types.ResponseProcessProposal_ACCEPT {
			panic("probe: own proposal rejected")
		}
		r.Mux.BeginBlock(types.RequestBeginBlock{
			Hash:                hash,
			Header:              cmtproto.Header{Height: b.Height, Time: b.Time, ProposerAddress: b.Proposer.Address},
			LastCommitInfo:      b.LastCommit,
			ByzantineValidators: b.Misbehavior,
		})
		for _, tx := range txs {
			res = append(res, r.Mux.DeliverTx(types.RequestDeliverTx{Tx: tx}))
		}
	})
	if err != nil {
		return nil, nil, err
	}
	working, err = DumpWorking(r)
	return res, working, err
}

// ProbeReplay executes the same block the way a node does that only learns of the DECIDED block (block sync, replay of
// the last block after a restart, a decided block other than the proposal it processed last): BeginBlock and DeliverTx
// without PrepareProposal / ProcessProposal, uncommitted. Returns the results and the working state after the last
// DeliverTx (Probe's working state is that of the whole executed proposal, EndBlock included: compare RESULTS).
func ProbeReplay(r *Replica, b *Block, tag string, txs [][]byte) (res []types.ResponseDeliverTx, working StateDump, err error) {
	err = Call(func() {
		hash := []byte("probe-replay-" + tag)
		r.Mux.BeginBlock(types.RequestBeginBlock{
			Hash:                hash,
			Header:              cmtproto.Header{Height: b.Height, Time: b.Time, ProposerAddress: b.Proposer.Address},
			LastCommitInfo:      b.LastCommit,
			ByzantineValidators: b.Misbehavior,
		})
		for _, tx := range txs {
			res = append(res, r.Mux.DeliverTx(types.RequestDeliverTx{Tx: tx}))
		}
	})
	if err != nil {
		return nil, nil, err
	}
	working, err = DumpWorking(r)
	return res, working, err
}

// Raw staking state keys (self-checked against the typed accessors by the callers).
func AccountKey(a staking.Address) string { return string(append([]byte{0x50}, a[:]...)) }

const (
	CommonPoolKey    = "\x52"
	LastBlockFeesKey = "\x57"
)

// AuthVerdict is the harness's independent judgement of a raw transaction against a pre-state.
type AuthVerdict struct {
	EnvelopeOK bool // CBOR envelope and inner transaction decode
	SigOK      bool // ed25519 (stdlib) verifies over the harness-computed digest for THIS chain
	Signer     signature.PublicKey
	Addr       staking.Address
	Tx         *transaction.Transaction
	Blob       []byte
	Sig        []byte
	NonceOK    bool
	BalanceOK  bool // balance >= fee + MinTransactBalance
	Reserved   bool
	System     bool
	Oversized  bool
	SanityOK   bool
	Fee        *big.Int
}

// Authentic: the transaction carries a valid signature for this chain and the right nonce.
func (v *AuthVerdict) Authentic() bool { return v.EnvelopeOK && v.SigOK && v.NonceOK }

// PassesAuth: the transaction is expected to pass the authentication stage (after which fee and
// nonce are charged even if execution fails).
func (v *AuthVerdict) PassesAuth() bool {
	return v.Authentic() && v.SanityOK && !v.Oversized && !v.System && !v.Reserved && v.BalanceOK
}

// TxDigest computes the message that is actually signed for a transaction blob on a chain:
// SHA-512/256(context || " for chain " || chainContext || blob).
func TxDigest(chainContext string, blob []byte) []byte {
	h := sha512.New512_256()
	h.Write([]byte("oasis-core/consensus: tx for chain " + chainContext))
	h.Write(blob)
	return h.Sum(nil)
}

// AccountIn decodes an account from a raw state dump (zero account when absent).
func AccountIn(d StateDump, a staking.Address) *staking.Account {
	var acct staking.Account
	if raw, ok := d[AccountKey(a)]; ok {
		_ = cbor.Unmarshal(raw, &acct)
	}
	return &acct
}

// Judge evaluates raw against the pre-state (state dump right before the transaction is delivered).
func Judge(w *World, pre StateDump, raw []byte) *AuthVerdict {
	v := &AuthVerdict{Fee: new(big.Int)}
	if w.Spec.MaxTxSize > 0 && uint64(len(raw)) > w.Spec.MaxTxSize {
		v.Oversized = true
	}
	var st transaction.SignedTransaction
	if err := cbor.Unmarshal(raw, &st); err != nil {
		return v
	}
	var tx transaction.Transaction
	if err := cbor.Unmarshal(st.Blob, &tx); err != nil {
		return v
	}
	v.EnvelopeOK = true
	v.Tx, v.Blob = &tx, st.Blob
	v.Signer = st.Signature.PublicKey
	v.Sig = st.Signature.Signature[:]
	v.Addr = staking.NewAddress(v.Signer)
	v.SigOK = ed25519.Verify(ed25519.PublicKey(v.Signer[:]), TxDigest(w.Doc.ChainContext(), st.Blob), v.Sig)
	if SmallOrderPoint(v.Signer[:]) || (len(v.Sig) == 64 && SmallOrderPoint(v.Sig[:32])) {
		// not bound to the message (see ed25519weak.go)
		v.SigOK = false
	}
	v.SanityOK = tx.SanityCheck() == nil
	v.Reserved = v.Addr.IsReserved()
	_, v.System = map[transaction.MethodName]bool{"consensus.Meta": true}[tx.Method]
	acct := AccountIn(pre, v.Addr)
	v.NonceOK = acct.General.Nonce == tx.Nonce
	if tx.Fee != nil {
		v.Fee = tx.Fee.Amount.ToBigInt()
	}
	need := new(big.Int).Add(v.Fee, new(big.Int).SetUint64(w.Spec.MinTransact))
	v.BalanceOK = acct.General.Balance.ToBigInt().Cmp(need) >= 0
	return v
}

// FmtKeys renders raw state keys for messages.
func FmtKeys(ks []string) string {
	s := ""
	for i, k := range ks {
		if i > 6 {
			s += " ..."
			break
		}
		s += fmt.Sprintf(" %x", k)
	}
	return s
}
