package chain

import (
	"bytes"
	"fmt"
	"sort"

	"github.com/oasisprotocol/oasis-core/go/common/crypto/signature"
	"github.com/oasisprotocol/oasis-core/go/common/node"
	registry "github.com/oasisprotocol/oasis-core/go/registry/api"
	staking "github.com/oasisprotocol/oasis-core/go/staking/api"
)

// RegistryInvariants recomputes the registry indexes and stake claims from the primary records of
// a committed state and returns (signature, description) of the first inconsistency, or "".
func RegistryInvariants(v *View, dump StateDump) (string, string) {
	sig, msg, _ := RegistryInvariantsEx(v, dump)
	return sig, msg
}

// WrongClaim is one stake claim whose recorded thresholds differ from the ones the registry implies.
type WrongClaim struct {
	Account staking.Address
	Claim   staking.StakeClaim
	Msg     string
}

// RegistryInvariantsEx is RegistryInvariants that reports EVERY claim with wrong thresholds (signature
// "wrong-stake-claim", message of the first one) instead of stopping at the first.
func RegistryInvariantsEx(v *View, dump StateDump) (string, string, []WrongClaim) {
	var wrong []WrongClaim
	sig, msg := registryInvariants(v, dump, &wrong)
	if sig == "" && len(wrong) > 0 {
		return "wrong-stake-claim", wrong[0].Msg, wrong
	}
	return sig, msg, wrong
}

func registryInvariants(v *View, dump StateDump, wrong *[]WrongClaim) (string, string) {
	ctx := v.Ctx()
	nodes, err := v.Reg.Nodes(ctx)
	if err != nil {
		return "registry-unreadable", err.Error()
	}
	entities, err := v.Reg.Entities(ctx)
	if err != nil {
		return "registry-unreadable", err.Error()
	}
	runtimes, err := v.Reg.AllRuntimes(ctx)
	if err != nil {
		return "registry-unreadable", err.Error()
	}
	entityByID := map[signature.PublicKey]bool{}
	for _, e := range entities {
		entityByID[e.ID] = true
	}
	sort.Slice(nodes, func(i, j int) bool { return bytes.Compare(nodes[i].ID[:], nodes[j].ID[:]) < 0 })
	owner := map[signature.PublicKey]signature.PublicKey{} // key -> node
	distinctKeys := 0
	perEntity := map[signature.PublicKey]int{}
	isNodeID := map[signature.PublicKey]bool{}
	for _, n := range nodes {
		isNodeID[n.ID] = true
	}
	for _, n := range nodes {
		for name, k := range map[string]signature.PublicKey{"consensus": n.Consensus.ID, "p2p": n.P2P.ID, "tls": n.TLS.PubKey, "vrf": n.VRF.ID} {
			if isNodeID[k] && k != n.ID {
				return SigNodeKeyAsSubKey, fmt.Sprintf("public key %s is the identity key of one registered node and the %s key of node %s", k, name, n.ID)
			}
		}
	}
	for _, n := range nodes {
		perEntity[n.EntityID]++
		if !entityByID[n.EntityID] {
			return "entity-removed-with-nodes", fmt.Sprintf("node %s is registered but its entity %s is not", n.ID, n.EntityID)
		}
		for name, k := range map[string]signature.PublicKey{"consensus": n.Consensus.ID, "p2p": n.P2P.ID, "tls": n.TLS.PubKey, "vrf": n.VRF.ID} {
			got, err := v.Reg.NodeBySubKey(ctx, k)
			if err != nil || got == nil {
				return "node-not-found-by-key", fmt.Sprintf("registered node %s is not found under its current %s key %s (err %v)", n.ID, name, k, err)
			}
			if got.ID != n.ID {
				return "key-maps-to-other-node", fmt.Sprintf("%s key %s of node %s resolves to node %s", name, k, n.ID, got.ID)
			}
			if o, ok := owner[k]; ok && o != n.ID {
				return "key-shared-by-two-nodes", fmt.Sprintf("key %s is used by nodes %s and %s", k, o, n.ID)
			} else if !ok {
				owner[k] = n.ID
				distinctKeys++
			}
		}
		got, err := v.Reg.NodeByConsensusAddress(ctx, ValidatorAddress(n.Consensus.ID))
		if err != nil || got == nil || got.ID != n.ID {
			return "node-not-found-by-key", fmt.Sprintf("registered node %s is not found under its consensus address (err %v)", n.ID, err)
		}
	}
	// raw index sizes: no dangling entries
	count := func(prefix byte) int {
		c := 0
		for k := range dump {
			if len(k) > 0 && k[0] == prefix {
				c++
			}
		}
		return c
	}
	if dump != nil {
		if c := count(0x11); c != len(nodes) {
			return "registry-unreadable", fmt.Sprintf("raw signed-node entries %d != nodes %d (key layout changed?)", c, len(nodes))
		}
		if c := count(0x17); c != distinctKeys {
			return "dangling-key-map-entry", fmt.Sprintf("%d key-map entries for %d keys of %d registered nodes", c, distinctKeys, len(nodes))
		}
		if c := count(0x14); c != len(nodes) {
			return "dangling-consensus-address-entry", fmt.Sprintf("%d consensus-address entries for %d registered nodes", c, len(nodes))
		}
		if c := count(0x12); c != len(nodes) {
			return "dangling-node-by-entity-entry", fmt.Sprintf("%d node-by-entity entries for %d registered nodes", c, len(nodes))
		}
	}
	for _, e := range entities {
		has, err := v.Reg.HasEntityNodes(ctx, e.ID)
		if err != nil || has != (perEntity[e.ID] > 0) {
			return "entity-nodes-index", fmt.Sprintf("HasEntityNodes(%s)=%v but %d registered nodes name it (err %v)", e.ID, has, perEntity[e.ID], err)
		}
		en, err := v.Reg.GetEntityNodes(ctx, e.ID)
		if err != nil || len(en) != perEntity[e.ID] {
			return "entity-nodes-index", fmt.Sprintf("GetEntityNodes(%s) returns %d nodes, %d registered nodes name it (err %v)", e.ID, len(en), perEntity[e.ID], err)
		}
	}
	for _, rt := range runtimes {
		if rt.GovernanceModel == registry.GovernanceEntity && !entityByID[rt.EntityID] {
			return "entity-removed-with-runtimes", fmt.Sprintf("runtime %s is registered but its entity %s is not", rt.ID, rt.EntityID)
		}
	}
	// stake claims: exactly those implied by registered entities, nodes and runtimes
	active, _ := v.Reg.Runtimes(ctx)
	implied := map[staking.Address]map[staking.StakeClaim][]staking.StakeThreshold{}
	add := func(a staking.Address, c staking.StakeClaim, th []staking.StakeThreshold) {
		if implied[a] == nil {
			implied[a] = map[staking.StakeClaim][]staking.StakeThreshold{}
		}
		implied[a][c] = th
	}
	for _, e := range entities {
		add(staking.NewAddress(e.ID), registry.StakeClaimRegisterEntity, staking.GlobalStakeThresholds(staking.KindEntity))
	}
	for _, n := range nodes {
		add(staking.NewAddress(n.EntityID), registry.StakeClaimForNode(n.ID), registry.StakeThresholdsForNode(n, nodeRuntimes(n, active, runtimes)))
	}
	for _, rt := range runtimes {
		switch rt.GovernanceModel {
		case registry.GovernanceEntity:
			add(staking.NewAddress(rt.EntityID), registry.StakeClaimForRuntime(rt.ID), registry.StakeThresholdsForRuntime(rt))
		case registry.GovernanceRuntime:
			// a runtime that governs itself stakes from its own account
			add(staking.NewRuntimeAddress(rt.ID), registry.StakeClaimForRuntime(rt.ID), registry.StakeThresholdsForRuntime(rt))
		}
	}
	addrs, err := v.St.Addresses(ctx)
	if err != nil {
		return "registry-unreadable", err.Error()
	}
	for _, a := range addrs {
		acct, err := v.St.Account(ctx, a)
		if err != nil {
			return "registry-unreadable", err.Error()
		}
		want := implied[a]
		got := acct.Escrow.StakeAccumulator.Claims
		for c := range got {
			if _, ok := want[c]; !ok {
				return "stale-stake-claim", fmt.Sprintf("account %s holds stake claim %q that no registered entity, node or runtime implies", a, c)
			}
		}
		for c, th := range want {
			g, ok := got[c]
			if !ok {
				return "missing-stake-claim", fmt.Sprintf("account %s lacks stake claim %q implied by the registry", a, c)
			}
			if len(g) != len(th) {
				*wrong = append(*wrong, WrongClaim{a, c, fmt.Sprintf("account %s claim %q has %d thresholds, the registry implies %d", a, c, len(g), len(th))})
				continue
			}
			for i := range g {
				if !g[i].Equal(&th[i]) {
					*wrong = append(*wrong, WrongClaim{a, c, fmt.Sprintf("account %s claim %q threshold %d is %v, the registry implies %v", a, c, i, g[i], th[i])})
					break
				}
			}
		}
		delete(implied, a)
	}
	for a := range implied {
		return "missing-stake-claim", fmt.Sprintf("account %s has no staking record although the registry implies claims for it", a)
	}
	return "", ""
}

// nodeRuntimes returns the runtime descriptors a node is registered for (active or suspended).
func nodeRuntimes(n *node.Node, _ []*registry.Runtime, all []*registry.Runtime) []*registry.Runtime {
	var out []*registry.Runtime
	for _, nr := range n.Runtimes {
		for _, rt := range all {
			if rt.ID == nr.ID {
				out = append(out, rt)
			}
		}
	}
	return out
}
