package chain

import (
	"github.com/oasisprotocol/oasis-core/go/common/quantity"
	"fmt"

	"pgregory.net/rapid"

	beacon "github.com/oasisprotocol/oasis-core/go/beacon/api"
	"github.com/oasisprotocol/oasis-core/go/common/crypto/signature"
	memorySigner "github.com/oasisprotocol/oasis-core/go/common/crypto/signature/signers/memory"
	"github.com/oasisprotocol/oasis-core/go/common/entity"
	"github.com/oasisprotocol/oasis-core/go/common/node"
	"github.com/oasisprotocol/oasis-core/go/consensus/api/transaction"
	registry "github.com/oasisprotocol/oasis-core/go/registry/api"
	staking "github.com/oasisprotocol/oasis-core/go/staking/api"
)

// RegTx is a generated registry transaction with the harness's knowledge about its authority.
type RegTx struct {
	*TxDesc
	// Unauthorized is non-empty when the transaction violates an authority rule of C17 by
	// construction (wrong signer, missing / foreign signature, node not listed by its entity ...):
	// it MUST fail.
	Unauthorized string
	// OnSuccess updates the harness's view of the world (current keys, node lists) when the
	// transaction executed successfully.
	OnSuccess func()
}

var freshKeyCounter int

func freshSigner(t *rapid.T, label string) signature.Signer {
	// a small pool so that collisions with keys used earlier happen
	return memorySigner.NewTestSigner(fmt.Sprintf("verif fresh key %d", rapid.IntRange(0, 11).Draw(t, label)))
}

// allNodes lists (entity, node) pairs of the world including nodes added at run time.
func (w *World) allNodes() (out []struct {
	E *EntityKeys
	N *NodeKeys
}) {
	for _, ek := range w.Entities {
		for _, nk := range ek.Nodes {
			out = append(out, struct {
				E *EntityKeys
				N *NodeKeys
			}{ek, nk})
		}
	}
	return
}

func (g *TxGen) sign(signer signature.Signer, addr staking.Address, method transaction.MethodName, body any, name string) *TxDesc {
	acct := g.V.Account(addr)
	nonce := acct.General.Nonce + g.nonceAdd[addr]
	tx := transaction.NewTransaction(nonce, &transaction.Fee{Gas: 0}, method, body)
	gas := uint64(2000000)
	if est, err := g.V.R.Srv.EstimateGas(signer.Public(), tx); err == nil {
		gas = uint64(est) + 64*g.W.Spec.GasTxByte
	}
	g.nonceAdd[addr]++
	return &TxDesc{Raw: SignTx(signer, nonce, &transaction.Fee{Gas: transaction.Gas(gas)}, method, body), Signer: name, Addr: addr,
		Method: method, Nonce: nonce, Gas: gas, ExpectAuthOK: true}
}

// migrationVerdict judges a node registration that names `to` (not the node's current owner) as owning entity, from
// the committed state: "" when it may legitimately succeed, otherwise the authority rule it breaks. Ambiguities
// inside the block (an epoch transition that removes the expired node first, a listing transaction earlier in the
// same block) are resolved towards "".
func (g *TxGen) migrationVerdict(nk *NodeKeys, to *EntityKeys) string {
	listedNow := false
	if ent, err := g.V.Reg.Entity(g.V.ctx, to.Signer.Public()); err == nil && ent != nil {
		for _, id := range ent.Nodes {
			if id.Equal(nk.ID.Public()) {
				listedNow = true
			}
		}
	}
	cur, err := g.V.Reg.Node(g.V.ctx, nk.ID.Public())
	switch {
	case err == nil && cur != nil && uint64(cur.Expiration)+g.W.Spec.DebondingIv >= uint64(g.V.Epoch)+1:
		// (it stays in the registry even if this block starts the next epoch)
		return "node that is still in the registry (active or expired) names another owning entity"
	case !listedNow && !g.foreignListed[nk.ID.Public()]:
		return "node claims an entity that does not list it"
	}
	return ""
}

// GenRegistry draws one registry transaction for the C17 profile.
// Signatures of the two recorded registry findings whose preconditions the generator only builds when allowed
// (TxGen.Allow), i.e. while they are not listed as known.
const (
	SigStaleNodeClaims  = "stale-node-claims-after-runtime-threshold-change"
	SigNodeKeyAsSubKey = "node-identity-key-used-as-subkey"
)

func (g *TxGen) GenRegistry(t *rapid.T) *RegTx {
	w := g.W
	nodes := w.allNodes()
	switch kind := rapid.SampledFrom([]string{"rotate", "rotate", "rotate", "badnode", "badnode", "entity", "entity", "newnode", "deregister", "runtime", "migrate", "migrate"}).Draw(t, "regKind"); kind {
	case "migrate":
		// a node (registered, expired or already removed) registers naming ANOTHER entity as its owner; preferably one that
		// lists its ID. Only a node that is not in the registry any more may do that.
		var cands []struct {
			E *EntityKeys
			N *NodeKeys
		}
		for _, n := range nodes {
			if !(n.E == w.Entities[0] && n.N == n.E.Nodes[0]) {
				cands = append(cands, n)
			}
		}
		if len(cands) == 0 || len(w.Entities) < 2 {
			ek := w.Entities[0]
			d := g.sign(ek.Signer, ek.Address(), registry.MethodProveFreshness, [32]byte{2}, ek.Name)
			d.Note = "prove freshness"
			return &RegTx{TxDesc: d}
		}
		pick := cands[rapid.IntRange(0, len(cands)-1).Draw(t, "migNode")]
		var listing, others []*EntityKeys
		for _, e := range w.Entities {
			if e == pick.E {
				continue
			}
			if e.Listed != nil && e.Listed[pick.N.ID.Public()] {
				listing = append(listing, e)
			} else {
				others = append(others, e)
			}
		}
		var to *EntityKeys
		if len(listing) > 0 && (len(others) == 0 || rapid.IntRange(0, 4).Draw(t, "migListed") > 0) {
			to = listing[rapid.IntRange(0, len(listing)-1).Draw(t, "migTo")]
		} else {
			to = others[rapid.IntRange(0, len(others)-1).Draw(t, "migToOther")]
		}
		unauthorized := g.migrationVerdict(pick.N, to)
		exp := g.V.Epoch + beacon.EpochTime(rapid.IntRange(1, int(w.Spec.MaxNodeExp)).Draw(t, "exp"))
		nd := w.NodeDescriptor(pick.E, pick.N, exp, 0, false)
		nd.EntityID = to.Signer.Public()
		sn, err := node.MultiSignNode(pick.N.Signers(), registry.RegisterNodeSignatureContext, nd)
		if err != nil {
			panic(err)
		}
		d := g.sign(pick.N.ID, staking.NewAddress(pick.N.ID.Public()), registry.MethodRegisterNode, sn, pick.N.Name)
		d.Note = fmt.Sprintf("migrate node %s from %s to %s", pick.N.Name, pick.E.Name, to.Name)
		d.Mutated = unauthorized
		rt := &RegTx{TxDesc: d, Unauthorized: unauthorized}
		{
			from, nk := pick.E, pick.N
			rt.OnSuccess = func() {
				for i, x := range from.Nodes {
					if x == nk {
						from.Nodes = append(append([]*NodeKeys{}, from.Nodes[:i]...), from.Nodes[i+1:]...)
						break
					}
				}
				to.Nodes = append(to.Nodes, nk)
			}
		}
		return rt
	case "rotate", "badnode":
		pick := nodes[rapid.IntRange(0, len(nodes)-1).Draw(t, "node")]
		ek, nk := pick.E, pick.N
		isAnchor := ek == w.Entities[0] && nk == ek.Nodes[0]
		// new key set: keep / fresh / swapped among the node's own keys / stolen from another node
		p2p, cons, vrf, tls := nk.P2P, nk.Consensus, nk.VRF, nk.TLS
		note := ""
		unauthorized := ""
		var migratedTo *EntityKeys
		if !isAnchor {
			switch rapid.IntRange(0, 8).Draw(t, "rot") {
			case 8:
				// the IDENTITY key of another node as this node's P2P key (its holder co-signs: the harness owns every key)
				if other := nodes[rapid.IntRange(0, len(nodes)-1).Draw(t, "idAsSub")].N; other != nk && g.Allow[SigNodeKeyAsSubKey] {
					p2p = other.ID
					note = "identity key of another node as p2p key"
				}
			case 0:
				p2p, tls = tls, p2p
				note = "swap p2p<->tls"
			case 1:
				p2p, vrf = vrf, p2p
				note = "swap p2p<->vrf"
			case 2:
				tls, vrf = vrf, tls
				note = "swap tls<->vrf"
			case 3:
				p2p, tls, vrf = tls, vrf, p2p
				note = "cycle p2p<-tls<-vrf"
			case 4:
				p2p = freshSigner(t, "fp2p")
				note = "fresh p2p"
			case 5:
				tls = freshSigner(t, "ftls")
				vrf = freshSigner(t, "fvrf")
				note = "fresh tls+vrf"
			case 6:
				other := nodes[rapid.IntRange(0, len(nodes)-1).Draw(t, "steal")].N
				if other != nk {
					p2p = other.P2P
					note = "p2p key of another node"
				}
			}
		}
		exp := g.V.Epoch + beacon.EpochTime(rapid.IntRange(1, int(w.Spec.MaxNodeExp)).Draw(t, "exp"))
		nd := w.NodeDescriptor(ek, nk, exp, 0, false)
		nd.P2P.ID = p2p.Public()
		for i := range nd.Consensus.Addresses {
			nd.Consensus.Addresses[i].ID = p2p.Public()
		}
		nd.Consensus.ID = cons.Public()
		nd.VRF.ID = vrf.Public()
		nd.TLS.PubKey = tls.Public()
		signers := []signature.Signer{nk.ID, p2p, cons, vrf, tls}
		txSigner, txAddr, txName := nk.ID, staking.NewAddress(nk.ID.Public()), nk.Name
		if kind == "badnode" {
			switch rapid.IntRange(0, 5).Draw(t, "bad") {
			case 5:
				// one of the node's keys did not sign, another of its own keys signed twice: still five valid signatures
				// by keys the descriptor lists (the key at index 0 is the node's identity key and must sign anyway)
				i := rapid.IntRange(1, 4).Draw(t, "dropSig2")
				j := rapid.IntRange(0, 4).Draw(t, "doubleSig")
				if j == i {
					j = (i + 1) % 5
				}
				signers = append([]signature.Signer{}, signers...)
				signers[i] = signers[j]
				unauthorized = fmt.Sprintf("descriptor lacks signature %d of 5, key %d signed twice instead", i, j)
			case 0:
				i := rapid.IntRange(0, 4).Draw(t, "dropSig")
				signers = append(append([]signature.Signer{}, signers[:i]...), signers[i+1:]...)
				unauthorized = fmt.Sprintf("descriptor lacks signature %d of 5", i)
			case 1:
				i := rapid.IntRange(0, 4).Draw(t, "wrongSig")
				signers = append([]signature.Signer{}, signers...)
				signers[i] = memorySigner.NewTestSigner("verif unrelated key")
				unauthorized = fmt.Sprintf("signature %d of 5 by an unrelated key", i)
			case 2:
				txSigner, txAddr, txName = ek.Signer, ek.Address(), ek.Name
				unauthorized = "transaction signed by the entity instead of the node"
			case 3:
				o := nodes[rapid.IntRange(0, len(nodes)-1).Draw(t, "otherNode")]
				if o.N != nk {
					txSigner, txAddr, txName = o.N.ID, staking.NewAddress(o.N.ID.Public()), o.N.Name
					unauthorized = "transaction signed by another node"
				}
			default:
				o := w.Entities[rapid.IntRange(0, len(w.Entities)-1).Draw(t, "otherEntity")]
				if o != ek {
					nd.EntityID = o.Signer.Public()
					unauthorized = g.migrationVerdict(nk, o)
					if unauthorized == "" {
						migratedTo = o
					}
				}
			}
		}
		sn, err := node.MultiSignNode(signers, registry.RegisterNodeSignatureContext, nd)
		if err != nil {
			panic(err)
		}
		d := g.sign(txSigner, txAddr, registry.MethodRegisterNode, sn, txName)
		d.Note = "register node " + nk.Name + " " + note
		d.Mutated = unauthorized
		rt := &RegTx{TxDesc: d, Unauthorized: unauthorized}
		if unauthorized == "" {
			rt.OnSuccess = func() {
				nk.P2P, nk.Consensus, nk.VRF, nk.TLS = p2p, cons, vrf, tls
				if migratedTo != nil {
					for i, x := range ek.Nodes {
						if x == nk {
							ek.Nodes = append(append([]*NodeKeys{}, ek.Nodes[:i]...), ek.Nodes[i+1:]...)
							break
						}
					}
					migratedTo.Nodes = append(migratedTo.Nodes, nk)
				}
			}
		}
		return rt
	case "entity":
		ek := w.Entities[rapid.IntRange(0, len(w.Entities)-1).Draw(t, "entity")]
		ent := &entity.Entity{Versioned: cborV(entity.LatestDescriptorVersion), ID: ek.Signer.Public()}
		var keep []*NodeKeys
		for i, nk := range ek.Nodes {
			// never drop the anchor node; others are occasionally removed from the list
			if (ek == w.Entities[0] && i == 0) || rapid.IntRange(0, 5).Draw(t, "keepNode") > 0 {
				keep = append(keep, nk)
				ent.Nodes = append(ent.Nodes, nk.ID.Public())
			}
		}
		var added *NodeKeys
		if rapid.IntRange(0, 2).Draw(t, "addNode") == 0 && len(ek.Nodes) < 4 {
			added = NewNodeKeys(fmt.Sprintf("%sX%d", ek.Name, rapid.IntRange(0, 2).Draw(t, "newNodeIdx")))
			dup := false
			for _, nk := range ek.Nodes {
				if nk.Name == added.Name {
					dup = true
				}
			}
			if dup {
				added = nil
			} else {
				ent.Nodes = append(ent.Nodes, added.ID.Public())
			}
		}
		if rapid.IntRange(0, 2).Draw(t, "listForeign") == 0 {
			// list a node that currently belongs to another entity (anyone may list any node ID; the node's own
			// signature decides)
			o := nodes[rapid.IntRange(0, len(nodes)-1).Draw(t, "foreignNode")]
			if o.E != ek && len(ent.Nodes) < 5 {
				ent.Nodes = append(ent.Nodes, o.N.ID.Public())
				if g.foreignListed == nil {
					g.foreignListed = map[signature.PublicKey]bool{}
				}
				g.foreignListed[o.N.ID.Public()] = true
			}
		}
		// every node ID this transaction lists may be (re-)listed by the time a later transaction of the same block runs
		if g.foreignListed == nil {
			g.foreignListed = map[signature.PublicKey]bool{}
		}
		for _, id := range ent.Nodes {
			g.foreignListed[id] = true
		}
		descSigner, txSigner, txAddr, txName := ek.Signer, ek.Signer, ek.Address(), ek.Name
		unauthorized := ""
		switch rapid.IntRange(0, 5).Draw(t, "badEntity") {
		case 0:
			o := w.Entities[rapid.IntRange(0, len(w.Entities)-1).Draw(t, "otherEntity")]
			if o != ek {
				descSigner = o.Signer
				unauthorized = "entity descriptor signed by another entity"
			}
		case 1:
			o := w.Entities[rapid.IntRange(0, len(w.Entities)-1).Draw(t, "otherEntity2")]
			if o != ek {
				txSigner, txAddr, txName = o.Signer, o.Address(), o.Name
				unauthorized = "entity registration transaction signed by another entity"
			}
		}
		se, err := entity.SignEntity(descSigner, registry.RegisterEntitySignatureContext, ent)
		if err != nil {
			panic(err)
		}
		d := g.sign(txSigner, txAddr, registry.MethodRegisterEntity, se, txName)
		d.Note = fmt.Sprintf("register entity %s with %d nodes", ek.Name, len(ent.Nodes))
		d.Mutated = unauthorized
		rt := &RegTx{TxDesc: d, Unauthorized: unauthorized}
		if unauthorized == "" {
			rt.OnSuccess = func() {
				ek.Listed = map[signature.PublicKey]bool{}
				for _, id := range ent.Nodes {
					ek.Listed[id] = true
				}
				if added != nil {
					ek.Candidates = append(ek.Candidates, added)
				}
			}
		}
		return rt
	case "newnode":
		// a node that its entity has whitelisted earlier registers for the first time (or one that was never whitelisted)
		ek := w.Entities[rapid.IntRange(0, len(w.Entities)-1).Draw(t, "entity")]
		var nk *NodeKeys
		unauthorized := ""
		if len(ek.Candidates) > 0 && rapid.IntRange(0, 3).Draw(t, "listed") > 0 {
			nk = ek.Candidates[rapid.IntRange(0, len(ek.Candidates)-1).Draw(t, "cand")]
			if ek.Listed != nil && !ek.Listed[nk.ID.Public()] && !g.foreignListed[nk.ID.Public()] {
				unauthorized = "node no longer listed by its entity"
			}
		} else {
			nk = NewNodeKeys(fmt.Sprintf("%sY%d", ek.Name, rapid.IntRange(0, 2).Draw(t, "strayIdx")))
			if !g.foreignListed[nk.ID.Public()] {
				unauthorized = "node not listed by its entity"
			}
		}
		for _, x := range ek.Nodes {
			if x.Name == nk.Name {
				// already registered: plain refresh
				unauthorized = ""
			}
		}
		exp := g.V.Epoch + beacon.EpochTime(rapid.IntRange(1, int(w.Spec.MaxNodeExp)).Draw(t, "exp"))
		nd := w.NodeDescriptor(ek, nk, exp, node.RoleValidator, false)
		sn, err := node.MultiSignNode(nk.Signers(), registry.RegisterNodeSignatureContext, nd)
		if err != nil {
			panic(err)
		}
		d := g.sign(nk.ID, staking.NewAddress(nk.ID.Public()), registry.MethodRegisterNode, sn, nk.Name)
		d.Note = "first registration of " + nk.Name
		d.Mutated = unauthorized
		// the fresh node account has no balance: fund-less registration fails authentication when a minimum balance is required
		rt := &RegTx{TxDesc: d, Unauthorized: unauthorized}
		if unauthorized == "" {
			rt.OnSuccess = func() {
				for _, x := range ek.Nodes {
					if x.Name == nk.Name {
						return
					}
				}
				ek.Nodes = append(ek.Nodes, nk)
			}
		}
		return rt
	case "deregister":
		ek := w.Entities[rapid.IntRange(1, len(w.Entities)-1).Draw(t, "entity")]
		d := g.sign(ek.Signer, ek.Address(), registry.MethodDeregisterEntity, &registry.DeregisterEntity{}, ek.Name)
		d.Note = "deregister entity " + ek.Name
		return &RegTx{TxDesc: d}
	default: // runtime
		if w.Runtime == nil {
			ek := w.Entities[0]
			d := g.sign(ek.Signer, ek.Address(), registry.MethodProveFreshness, [32]byte{1}, ek.Name)
			d.Note = "prove freshness"
			return &RegTx{TxDesc: d}
		}
		rt := *w.Runtime
		rt.Executor.RoundTimeout = int64(rapid.IntRange(2, 6).Draw(t, "newRoundTimeout"))
		// committee sizes change (takes effect at the next election, which may happen in the middle of an epoch)
		if rapid.IntRange(0, 2).Draw(t, "rtResize") == 0 {
			switch rapid.IntRange(0, 2).Draw(t, "rtResizeHow") {
			case 0:
				rt.Executor.GroupSize++
			case 1:
				rt.Executor.GroupBackupSize++
			default:
				if rt.Executor.GroupSize > 1 {
					rt.Executor.GroupSize--
				}
			}
			if rt.Executor.AllowedStragglers >= rt.Executor.GroupSize {
				rt.Executor.AllowedStragglers = 0
			}
		}
		thresholdsChanged := false
		toRuntimeGov := false
		if rt.GovernanceModel == registry.GovernanceEntity && rapid.IntRange(0, 2).Draw(t, "toRuntimeGov") == 0 {
			// hand the runtime over to runtime governance (same owning entity): its stake claim moves to the runtime's account
			rt.GovernanceModel = registry.GovernanceRuntime
			toRuntimeGov = true
		}
		if g.Allow[SigStaleNodeClaims] && rapid.IntRange(0, 2).Draw(t, "rtThresholds") == 0 {
			// the runtime changes what it demands of the nodes that serve it (per-runtime stake thresholds)
			rt.Staking.Thresholds = map[staking.ThresholdKind]quantity.Quantity{}
			if v := uint64(rapid.SampledFrom([]int{0, 7, 100}).Draw(t, "rtNodeThreshold")); v > 0 {
				rt.Staking.Thresholds[staking.KindNodeCompute] = q(v)
			}
			thresholdsChanged = true
		}
		overLimit := ""
		switch rapid.IntRange(0, 7).Draw(t, "rtOverLimit") {
		case 0:
			// accepted by every check of the registry, rejected afterwards by the roothash application, which is told
			// about runtime updates (its consensus parameters limit the messages of a runtime)
			rt.Executor.MaxMessages = 33 + uint32(rapid.IntRange(0, 1000).Draw(t, "rtMaxMessages"))
			overLimit = "executor max messages above the roothash limit"
		case 1:
			rt.TxnScheduler.MaxInMessages = 33 + uint32(rapid.IntRange(0, 1000).Draw(t, "rtMaxInMessages"))
			overLimit = "max incoming messages above the roothash limit"
		}
		owner := w.Entities[w.Spec.RtOwner%len(w.Entities)]
		signer := owner
		unauthorized := ""
		if rapid.IntRange(0, 2).Draw(t, "badRuntime") == 0 && len(w.Entities) > 1 {
			if o := w.Entities[rapid.IntRange(0, len(w.Entities)-1).Draw(t, "rtSigner")]; o != owner {
				signer = o
				unauthorized = "runtime update signed by an entity that does not govern it"
			}
		}
		if unauthorized != "" && rapid.Bool().Draw(t, "rtTakeover") {
			// ... which names ITSELF as the runtime's entity and offers future deployments only - what the registration of a
			// NEW runtime looks like. For a runtime that exists (active or suspended) it is an update by a stranger.
			rt.EntityID = signer.Signer.Public()
			var deps []*registry.VersionInfo
			for i, dp := range rt.Deployments {
				c := *dp
				c.ValidFrom = g.V.Epoch + 1 + beacon.EpochTime(i)
				deps = append(deps, &c)
			}
			rt.Deployments = deps
			unauthorized = "runtime taken over by an entity that does not govern it (names itself, future deployments only)"
		}
		d := g.sign(signer.Signer, signer.Address(), registry.MethodRegisterRuntime, &rt, signer.Name)
		d.Note = "update runtime"
		if toRuntimeGov {
			d.Note = "update runtime to-runtime-governance"
		}
		d.Mutated = unauthorized
		if overLimit != "" {
			d.Note += " (" + overLimit + ")"
			if d.Mutated == "" {
				d.Mutated = overLimit
			}
		}
		res := &RegTx{TxDesc: d, Unauthorized: unauthorized}
		if unauthorized == "" {
			nrt := rt
			res.OnSuccess = func() {
				// (what counts is the descriptor this update REPLACES when it executes: an update generated from the same
				// snapshot as an earlier one of the block carries the old thresholds and changes them back)
				thresholdsChanged := thresholdsChanged || !sameThresholds(w.Runtime.Staking.Thresholds, nrt.Staking.Thresholds)
				w.Runtime = &nrt
				if thresholdsChanged {
					g.W.RtThresholdsChanged = true
					g.W.RtThresholdsSeq++
				}
			}
		}
		return res
	}
}

func sameThresholds(a, b map[staking.ThresholdKind]quantity.Quantity) bool {
	if len(a) != len(b) {
		return false
	}
	for k, v := range a {
		w, ok := b[k]
		if !ok || v.Cmp(&w) != 0 {
			return false
		}
	}
	return true
}
