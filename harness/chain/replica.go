package chain

import (
	"context"
	"fmt"
	"github.com/oasisprotocol/oasis-core/go/common"
	"github.com/oasisprotocol/oasis-core/go/common/persistent"
	"github.com/oasisprotocol/oasis-core/go/roothash/api/commitment"
	"github.com/oasisprotocol/oasis-core/go/upgrade"
	upgradeAPI "github.com/oasisprotocol/oasis-core/go/upgrade/api"
	"os"
	"runtime/debug"
	"time"

	"github.com/cometbft/cometbft/abci/types"
	cmttypes "github.com/cometbft/cometbft/types"

	"github.com/oasisprotocol/oasis-core/go/common/crypto/signature"
	memorySigner "github.com/oasisprotocol/oasis-core/go/common/crypto/signature/signers/memory"
	"github.com/oasisprotocol/oasis-core/go/common/identity"
	"github.com/oasisprotocol/oasis-core/go/consensus/cometbft/abci"
	cmtapi "github.com/oasisprotocol/oasis-core/go/consensus/cometbft/api"
	beaconApp "github.com/oasisprotocol/oasis-core/go/consensus/cometbft/apps/beacon"
	governanceApp "github.com/oasisprotocol/oasis-core/go/consensus/cometbft/apps/governance"
	keymanagerApp "github.com/oasisprotocol/oasis-core/go/consensus/cometbft/apps/keymanager"
	registryApp "github.com/oasisprotocol/oasis-core/go/consensus/cometbft/apps/registry"
	roothashApp "github.com/oasisprotocol/oasis-core/go/consensus/cometbft/apps/roothash"
	schedulerApp "github.com/oasisprotocol/oasis-core/go/consensus/cometbft/apps/scheduler"
	stakingApp "github.com/oasisprotocol/oasis-core/go/consensus/cometbft/apps/staking"
	sanityApp "github.com/oasisprotocol/oasis-core/go/consensus/cometbft/apps/supplementarysanity"
	vaultApp "github.com/oasisprotocol/oasis-core/go/consensus/cometbft/apps/vault"
	tmbeacon "github.com/oasisprotocol/oasis-core/go/consensus/cometbft/beacon"
)

// ReplicaConfig is the local (non-consensus) configuration of one replica.
type ReplicaConfig struct {
	Name        string
	Backend     string // badger | pathbadger
	MemoryOnly  bool
	PruneKeep   uint64 // 0 = no pruning (only for disk-backed replicas)
	MinGasPrice uint64
	// Identity: node keys the replica runs with (validator replicas); nil = observer identity.
	Keys *NodeKeys
	// Sanity registers the in-tree supplementary sanity checker (second opinion, every block).
	Sanity bool
	// Upgrader gives the replica a real (node-local, persistent) upgrade manager, as every node has.
	Upgrader bool
	Dir      string // set by NewReplica for disk-backed replicas
}

// Replica is one node's ABCI application (real multiplexer + all apps).
type Replica struct {
	Cfg    ReplicaConfig
	World  *World
	Srv    *abci.ApplicationServer
	Mux    types.Application
	cancel context.CancelFunc
	pstore *persistent.CommonStore
}

// NewReplica creates and starts a replica for the world's genesis; InitChain is not yet called.
func NewReplica(w *World, cfg ReplicaConfig) (*Replica, error) {
	keys := cfg.Keys
	if keys == nil {
		keys = NewNodeKeys("observer-" + cfg.Name)
	}
	if cfg.Dir == "" {
		base := os.Getenv("VERIF_WORK")
		if base == "" {
			base = os.TempDir()
		}
		d, err := os.MkdirTemp(base, "replica-")
		if err != nil {
			return nil, err
		}
		cfg.Dir = d
	}
	ctx, cancel := context.WithCancel(context.Background())
	prune := abci.PruneConfig{Strategy: abci.PruneNone, PruneInterval: time.Second}
	if cfg.PruneKeep > 0 && !cfg.MemoryOnly {
		prune = abci.PruneConfig{Strategy: abci.PruneKeepN, NumKept: cfg.PruneKeep, PruneInterval: time.Millisecond}
	}
	appCfg := &abci.ApplicationConfig{
		DataDir:        cfg.Dir,
		StorageBackend: cfg.Backend,
		Pruning:        prune,
		MinGasPrice:    cfg.MinGasPrice,
		Identity: &identity.Identity{
			NodeSigner:      keys.ID,
			P2PSigner:       keys.P2P,
			ConsensusSigner: keys.Consensus,
			VRFSigner:       keys.VRF,
			TLSSigner:       keys.TLS,
		},
		DisableCheckpointer: true,
		InitialHeight:       w.Doc.Height,
		ChainContext:        w.Doc.ChainContext(),
		MemoryOnlyStorage:   cfg.MemoryOnly,
	}
	var upgrader upgradeAPI.Backend
	var pstore *persistent.CommonStore
	if cfg.Upgrader {
		var err error
		if pstore, err = persistent.NewCommonStore(cfg.Dir); err != nil {
			cancel()
			return nil, fmt.Errorf("persistent store: %w", err)
		}
		if upgrader, err = upgrade.New(pstore, cfg.Dir, false); err != nil {
			pstore.Close()
			cancel()
			return nil, fmt.Errorf("upgrade manager: %w", err)
		}
	}
	srv, err := abci.NewApplicationServer(ctx, upgrader, appCfg)
	if err != nil {
		if pstore != nil {
			pstore.Close()
		}
		cancel()
		return nil, err
	}
	state, md := srv.State(), srv.MessageDispatcher()
	sApp := stakingApp.New(state, md)
	apps := []cmtapi.Application{
		beaconApp.New(),
		governanceApp.New(state, md),
		keymanagerApp.New(state),
		registryApp.New(state, md),
		roothashApp.New(state, md, noopCommitmentNotifier{}),
		schedulerApp.New(state, md),
		sApp,
		vaultApp.New(state, md),
	}
	for _, a := range apps {
		if err := srv.Register(a); err != nil {
			cancel()
			return nil, fmt.Errorf("register %s: %w", a.Name(), err)
		}
		a.Subscribe()
	}
	if cfg.Sanity {
		if err := srv.Register(sanityApp.New(state, 1)); err != nil {
			cancel()
			return nil, err
		}
	}
	if err := srv.SetEpochtime(tmbeacon.New(w.Doc.Beacon.Base, w.Doc.Height, nil, tmbeacon.NewStateQueryFactory(state))); err != nil {
		cancel()
		return nil, err
	}
	if err := srv.SetTransactionAuthHandler(sApp); err != nil {
		cancel()
		return nil, err
	}
	if err := srv.Start(); err != nil {
		cancel()
		return nil, err
	}
	return &Replica{Cfg: cfg, World: w, Srv: srv, Mux: srv.Mux(), cancel: cancel, pstore: pstore}, nil
}

// Stop stops the replica; when remove is true its data directory is deleted.
func (r *Replica) Stop(remove bool) {
	if r.Srv != nil {
		r.Srv.Stop()
		r.Srv.Cleanup()
		r.Srv = nil
	}
	r.cancel()
	if r.pstore != nil {
		r.pstore.Close()
		r.pstore = nil
	}
	if remove {
		_ = os.RemoveAll(r.Cfg.Dir)
	}
}

// Restart stops the replica and reopens the same data directory (possibly with another local
// configuration) — the "restarted and reloaded state from disk" path.
func (r *Replica) Restart(newCfg *ReplicaConfig) (*Replica, error) {
	cfg := r.Cfg
	if newCfg != nil {
		dir := cfg.Dir
		cfg = *newCfg
		cfg.Dir = dir
	}
	r.Stop(false)
	return NewReplica(r.World, cfg)
}

// InitChainRequest builds the request CometBFT would send for the genesis document.
func InitChainRequest(w *World) (types.RequestInitChain, []types.ValidatorUpdate, error) {
	gd, err := cmtapi.GetCometBFTGenesisDocument(w.Doc)
	if err != nil {
		return types.RequestInitChain{}, nil, err
	}
	var vups []types.ValidatorUpdate
	for _, gv := range gd.Validators {
		vups = append(vups, cmttypes.TM2PB.ValidatorUpdate(cmttypes.NewValidator(gv.PubKey, gv.Power)))
	}
	cp := gd.ConsensusParams.ToProto()
	return types.RequestInitChain{
		Time:            w.Doc.Time,
		ChainId:         gd.ChainID,
		AppStateBytes:   gd.AppState,
		InitialHeight:   w.Doc.Height,
		ConsensusParams: &cp,
		Validators:      vups,
	}, vups, nil
}

// Call runs f and converts a panic into an error (block processing panics are observations).
// noopCommitmentNotifier stands in for the roothash service client that a node passes to the roothash application
// (it is told about executor commitments observed in CheckTx).
type noopCommitmentNotifier struct{}

func (noopCommitmentNotifier) DeliverExecutorCommitment(common.Namespace, *commitment.ExecutorCommitment) {
}

func Call(f func()) (err error) {
	defer func() {
		if r := recover(); r != nil {
			err = fmt.Errorf("panic: %v", r)
			if os.Getenv("VERIF_PANIC_STACK") != "" {
				err = fmt.Errorf("panic: %v\n%s", r, debug.Stack())
			}
		}
	}()
	f()
	return nil
}

var _ = signature.PublicKey{}
var _ = memorySigner.NewTestSigner
