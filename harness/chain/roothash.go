package chain

import (
	"fmt"
	"github.com/oasisprotocol/oasis-core/go/roothash/api/message"

	"github.com/oasisprotocol/oasis-core/go/common"
	"github.com/oasisprotocol/oasis-core/go/common/crypto/hash"
	"github.com/oasisprotocol/oasis-core/go/common/crypto/signature"
	"github.com/oasisprotocol/oasis-core/go/consensus/api/transaction"
	roothashState "github.com/oasisprotocol/oasis-core/go/consensus/cometbft/apps/roothash/state"
	roothash "github.com/oasisprotocol/oasis-core/go/roothash/api"
	"github.com/oasisprotocol/oasis-core/go/roothash/api/block"
	"github.com/oasisprotocol/oasis-core/go/roothash/api/commitment"
)

// Helpers for checks that drive the roothash application (add-only; nothing else in the package uses them).

// RuntimeState reads the roothash state of a runtime from the view.
func (v *View) RuntimeState(id common.Namespace) (*roothash.RuntimeState, error) {
	return roothashState.NewImmutableState(v.cx.State()).RuntimeState(v.ctx, id)
}

// NodeByID maps node identity keys to the node keys of the world (genesis nodes and nodes added at run time).
func (w *World) NodeByID() map[signature.PublicKey]*NodeKeys {
	out := map[signature.PublicKey]*NodeKeys{}
	for _, ek := range w.Entities {
		for _, nk := range ek.Nodes {
			out[nk.ID.Public()] = nk
		}
	}
	return out
}

// ExecutorResult describes what an executor commitment commits to: Failure, or the given state and I/O roots with no
// emitted and no processed incoming messages.
type ExecutorResult struct {
	Failure   bool
	StateRoot hash.Hash
	IORoot    hash.Hash
	// Messages: what the runtime emits in this round (every commitment names their hash, the scheduler's carries them).
	Messages []message.Message
}

// NewExecutorCommitment builds and signs (with the node's identity key) an executor commitment for the round after
// parent, naming scheduler as the proposer. round overrides the round number when non-nil (commitments for a wrong round).
func NewExecutorCommitment(rt common.Namespace, nk *NodeKeys, scheduler signature.PublicKey, parent *block.Block, round *uint64, res ExecutorResult) (*commitment.ExecutorCommitment, error) {
	ec := &commitment.ExecutorCommitment{NodeID: nk.ID.Public()}
	ec.Header.SchedulerID = scheduler
	ec.Header.Header.Round = parent.Header.Round + 1
	if round != nil {
		ec.Header.Header.Round = *round
	}
	ec.Header.Header.PreviousHash = parent.Header.EncodedHash()
	if res.Failure {
		ec.Header.SetFailure(commitment.FailureUnknown)
	} else {
		var empty hash.Hash
		empty.Empty()
		sr, io, mh, ih := res.StateRoot, res.IORoot, empty, empty
		if len(res.Messages) > 0 {
			mh = message.MessagesHash(res.Messages)
			if nk.ID.Public().Equal(scheduler) {
				ec.Messages = res.Messages
			}
		}
		ec.Header.Header.StateRoot = &sr
		ec.Header.Header.IORoot = &io
		ec.Header.Header.MessagesHash = &mh
		ec.Header.Header.InMessagesHash = &ih
	}
	if err := ec.Sign(nk.ID, rt); err != nil {
		return nil, fmt.Errorf("sign executor commitment: %w", err)
	}
	return ec, nil
}

// ExecutorCommitTx builds a roothash.ExecutorCommit transaction carrying the commitments, signed by signer with the given
// nonce, no fee and enough gas for the operation and the transaction's size.
func (w *World) ExecutorCommitTx(signer signature.Signer, nonce uint64, rt common.Namespace, commits []commitment.ExecutorCommitment) []byte {
	body := &roothash.ExecutorCommit{ID: rt, Commits: commits}
	probe := SignTx(signer, nonce, &transaction.Fee{Gas: 1 << 40}, roothash.MethodExecutorCommit, body)
	gas := w.Spec.GasOp + w.Spec.GasTxByte*uint64(len(probe)+16)
	return SignTx(signer, nonce, &transaction.Fee{Gas: transaction.Gas(gas)}, roothash.MethodExecutorCommit, body)
}
