package chain

import (
	"fmt"
	"github.com/oasisprotocol/oasis-core/go/common/cbor"
	"github.com/oasisprotocol/oasis-core/go/roothash/api/message"
	"strings"

	"github.com/cometbft/cometbft/abci/types"
	"pgregory.net/rapid"

	"github.com/oasisprotocol/oasis-core/go/common/crypto/hash"
	"github.com/oasisprotocol/oasis-core/go/common/crypto/signature"
	"github.com/oasisprotocol/oasis-core/go/consensus/api/transaction"
	roothash "github.com/oasisprotocol/oasis-core/go/roothash/api"
	"github.com/oasisprotocol/oasis-core/go/roothash/api/commitment"
	scheduler "github.com/oasisprotocol/oasis-core/go/scheduler/api"
	staking "github.com/oasisprotocol/oasis-core/go/staking/api"
)

// roundDriver scripts the compute committee of the runtime through whole rounds (profile "rtheavy"): the random
// executor commitments of TxGen seldom add up to a round that succeeds, is resolved by the backup workers, or fails at
// the timeout, and those outcomes are where roothash pays, slashes, counts liveness and emits runtime blocks from
// EndBlock. Per round a flavour is drawn; every block the members whose turn it is send their vote with probability 2/3.
type roundDriver struct {
	epoch   uint64
	round   uint64
	flavour string
	liar    signature.PublicKey
	hasLiar bool
	// msgs: the messages the runtime emits in this round (part of the proposal every honest member votes for)
	msgs []message.Message
	sent map[signature.PublicKey]bool
	// alignedDue: height at which a deliberately aligned round timeout (flavour "timeout-at-transition") falls due.
	alignedDue int64
	// epochStats: label describing the liveness statistics last seen in epoch epochStatsFor.
	epochStats    string
	epochStatsFor uint64
	// Outcomes counts what was scripted (for labels of the checks that use the driver).
	Outcomes map[string]int
}

var roundFlavours = []string{
	"agree", "agree", "agree", "agree", // every primary worker votes for the scheduler's proposal
	"agree-one-absent", "agree-one-absent", // as agree, but one worker (never the anchor's) stays silent: a straggler, or a timeout resolved by the backups
	"dissent-resolved",
	"scheduler-only",    // the scheduler's vote arms the timer, nobody else votes: discrepancy by timeout, then failure
	"dissent-resolved",  // one worker votes differently, the backup workers confirm the proposal (the dissenter is slashed)
	"dissent-overruled", // one worker votes differently, the backup workers confirm the dissenter's result
	"dissent-unresolved",
	"failure-votes", // workers indicate failure
	"silent",        // nobody votes
	// the scheduler's vote is timed so that the round timeout falls due exactly in the next epoch-transition block (whose
	// BeginBlock may re-elect, suspend or resume the runtime before EndBlock processes the timeouts); nobody else votes
	"timeout-at-transition",
}

func driverResult(tag int) ExecutorResult {
	return ExecutorResult{StateRoot: hash.NewFromBytes([]byte(fmt.Sprintf("driver state %d", tag))), IORoot: hash.NewFromBytes([]byte(fmt.Sprintf("driver io %d", tag)))}
}

// roundTxs returns this block's scripted executor commitments (one transaction per voting node, signed by the node).
func (s *Sim) roundTxs(t *rapid.T, view *View, g *TxGen) []*TxDesc {
	if !strings.Contains(s.Profile, "rtheavy") || s.W.Runtime == nil {
		return nil
	}
	rs, err := view.RuntimeState(s.W.Runtime.ID)
	if s.rd != nil && s.rd.alignedDue > 0 && s.E.Height > s.rd.alignedDue && err == nil && rs != nil {
		s.rd.Outcomes[fmt.Sprintf("aligned-timeout-passed:runtime-suspended=%v", rs.Suspended)]++
		s.rd.alignedDue = 0
	}
	if err != nil || rs == nil || rs.Suspended || rs.Committee == nil || rs.CommitmentPool == nil || rs.LastBlock == nil {
		return nil
	}
	if s.rd == nil {
		s.rd = &roundDriver{Outcomes: map[string]int{}}
	}
	rd := s.rd
	// what the liveness evaluation at the end of the epoch will see (for coverage labels)
	if ls := rs.LivenessStatistics; ls != nil && rs.Runtime.Executor.MinLiveRoundsPercent > 0 {
		notLive := false
		for i, m := range rs.Committee.Members {
			if m.Role == scheduler.RoleWorker && i < len(ls.LiveRounds) && ls.LiveRounds[i]*100 < ls.TotalRounds*uint64(rs.Runtime.Executor.MinLiveRoundsPercent) {
				notLive = true
			}
		}
		rd.epochStats = fmt.Sprintf("liveness-at-epoch-end:evaluated=%v,worker-not-live=%v", ls.TotalRounds > 0 && ls.TotalRounds >= rs.Runtime.Executor.MinLiveRoundsForEvaluation, notLive)
		rd.epochStatsFor = uint64(rs.Committee.ValidFor)
	}
	if rd.epochStats != "" && rd.epochStatsFor != uint64(rs.Committee.ValidFor) {
		rd.Outcomes[rd.epochStats]++
		rd.epochStats = ""
	}
	round := rs.LastBlock.Header.Round + 1
	if rd.sent == nil || rd.round != round || rd.epoch != uint64(rs.Committee.ValidFor) {
		rd.round, rd.epoch, rd.sent = round, uint64(rs.Committee.ValidFor), map[signature.PublicKey]bool{}
		rd.flavour = rapid.SampledFrom(roundFlavours).Draw(t, "roundFlavour")
		if s.darkEpoch == view.Epoch && s.darkEpoch != 0 && rapid.IntRange(0, 2).Draw(t, "roundDarkAligned") > 0 {
			rd.flavour = "timeout-at-transition"
		}
		rd.liar, rd.hasLiar = signature.PublicKey{}, false
		rd.Outcomes["round:"+rd.flavour]++
		rd.msgs = nil
		if s.W.Spec.RtAccountBalance > 0 && rapid.IntRange(0, 2).Draw(t, "roundEmitsMessages") > 0 {
			// what the runtime emits: transfers out of its account, escrow added to and reclaimed from an entity's pool
			// (refused unless the staking parameters allow escrow messages), in amounts around what the account holds
			actors := s.W.Actors()
			for n := rapid.IntRange(1, 3).Draw(t, "roundMsgs"); n > 0; n-- {
				to := actors[rapid.IntRange(0, len(actors)-1).Draw(t, "roundMsgTo")].Addr
				amt := q(uint64(rapid.SampledFrom([]int{0, 1, 7, 100, int(s.W.Spec.RtAccountBalance), int(s.W.Spec.RtAccountBalance) + 1}).Draw(t, "roundMsgAmount")))
				sm := &message.StakingMessage{Versioned: cbor.NewVersioned(0)}
				switch rapid.IntRange(0, 3).Draw(t, "roundMsgKind") {
				case 0, 1:
					sm.Transfer = &staking.Transfer{To: to, Amount: amt}
				case 2:
					sm.AddEscrow = &staking.Escrow{Account: s.W.Entities[rapid.IntRange(0, len(s.W.Entities)-1).Draw(t, "roundMsgPool")].Address(), Amount: amt}
				default:
					sm.ReclaimEscrow = &staking.ReclaimEscrow{Account: s.W.Entities[rapid.IntRange(0, len(s.W.Entities)-1).Draw(t, "roundMsgPool")].Address(), Shares: amt}
				}
				rd.msgs = append(rd.msgs, message.Message{Staking: sm})
			}
			rd.Outcomes[fmt.Sprintf("round-emits-messages:%d", len(rd.msgs))]++
		}
	}
	sched, ok := rs.Committee.Scheduler(round, 0)
	if !ok {
		return nil
	}
	var workers, backups []signature.PublicKey
	for _, m := range rs.Committee.Members {
		switch m.Role {
		case scheduler.RoleWorker:
			workers = append(workers, m.PublicKey)
		case scheduler.RoleBackupWorker:
			backups = append(backups, m.PublicKey)
		}
	}
	anchorID := s.W.Entities[0].Nodes[0].ID.Public()
	if (strings.HasPrefix(rd.flavour, "dissent") || rd.flavour == "agree-one-absent") && !rd.hasLiar {
		var others []signature.PublicKey
		for _, w := range workers {
			if !w.Equal(sched.PublicKey) && !w.Equal(anchorID) { // (the anchor's node is operated honestly and reliably)
				others = append(others, w)
			}
		}
		rd.Outcomes[fmt.Sprintf("dissenter-wanted:workers=%d,available=%v", len(workers), len(others) > 0)]++
		if len(others) == 0 {
			rd.flavour = "agree"
		} else {
			rd.liar, rd.hasLiar = others[rapid.IntRange(0, len(others)-1).Draw(t, "roundLiar")], true
		}
	}
	byID := s.W.NodeByID()
	type vote struct {
		pk  signature.PublicKey
		tag int // 0 = failure
	}
	var votes []vote
	now := map[signature.PublicKey]bool{} // votes that are not left to chance this block
	if !rs.CommitmentPool.Discrepancy {
		if !rd.sent[sched.PublicKey] && rd.flavour == "timeout-at-transition" {
			// wait for the block whose height + round timeout is the height of the scheduled epoch transition
			fe, rt := view.FutureEpochHeight(), rs.Runtime.Executor.RoundTimeout
			switch {
			case fe > 0 && s.E.Height+rt == fe:
				votes = append(votes, vote{sched.PublicKey, 1})
				now[sched.PublicKey] = true
				rd.alignedDue = fe
				rd.Outcomes["aligned-timeout-armed"]++
			case fe > 0 && s.E.Height+rt < fe:
				// not yet
			default:
				rd.flavour = "scheduler-only" // transition not scheduled yet or too close: an ordinary lone scheduler vote
				votes = append(votes, vote{sched.PublicKey, 1})
			}
		} else if !rd.sent[sched.PublicKey] && rd.flavour != "silent" {
			votes = append(votes, vote{sched.PublicKey, 1}) // (a vote counts only once the scheduler's own is in)
		} else if rd.sent[sched.PublicKey] {
			for _, w := range workers {
				if rd.sent[w] {
					continue
				}
				switch rd.flavour {
				case "agree":
					votes = append(votes, vote{w, 1})
				case "agree-one-absent":
					if !w.Equal(rd.liar) {
						votes = append(votes, vote{w, 1})
					}
				case "failure-votes":
					votes = append(votes, vote{w, 0})
				case "dissent-resolved", "dissent-overruled", "dissent-unresolved":
					if w.Equal(rd.liar) {
						votes = append(votes, vote{w, 2})
					} else {
						votes = append(votes, vote{w, 1})
					}
				}
			}
		}
	} else {
		for _, b := range backups {
			if rd.sent[b] {
				continue
			}
			switch rd.flavour {
			case "dissent-resolved", "agree", "agree-one-absent", "failure-votes":
				votes = append(votes, vote{b, 1})
			case "dissent-overruled":
				votes = append(votes, vote{b, 2})
			case "dissent-unresolved", "scheduler-only":
				if rapid.IntRange(0, 3).Draw(t, "roundLoneBackup") == 0 {
					votes = append(votes, vote{b, 1 + rapid.IntRange(0, 1).Draw(t, "roundLoneBackupTag")})
				}
			}
		}
	}
	var out []*TxDesc
	if len(rd.msgs) > 0 && rapid.IntRange(0, 3).Draw(t, "roundStrayCommit") == 0 {
		// a commitment by a node that names ITSELF as the scheduler and carries the round's messages, whatever its place in the
		// committee (mostly none, or not the scheduler's): well-formed and correctly signed, refused by the committee checks
		var all []*NodeKeys
		for _, ek := range s.W.Entities {
			all = append(all, ek.Nodes...)
		}
		nk := all[rapid.IntRange(0, len(all)-1).Draw(t, "roundStrayNode")]
		if !nk.ID.Public().Equal(sched.PublicKey) {
			res := driverResult(3)
			res.Messages = rd.msgs
			if ec, err := NewExecutorCommitment(s.W.Runtime.ID, nk, nk.ID.Public(), rs.LastBlock, nil, res); err == nil {
				addr := staking.NewAddress(nk.ID.Public())
				nonce := g.V.Account(addr).General.Nonce + g.nonceAdd[addr]
				g.nonceAdd[addr]++
				body := &roothash.ExecutorCommit{ID: s.W.Runtime.ID, Commits: []commitment.ExecutorCommitment{*ec}}
				gas := s.W.Spec.GasOp*uint64(1+len(res.Messages)) + s.W.Spec.GasTxByte*2048
				out = append(out, &TxDesc{
					Raw:    SignTx(nk.ID, nonce, &transaction.Fee{Gas: transaction.Gas(gas)}, roothash.MethodExecutorCommit, body),
					Signer: nk.Name, Addr: addr, Method: roothash.MethodExecutorCommit, Nonce: nonce, Gas: gas, Note: "stray commitment with messages by a self-named scheduler", ExpectAuthOK: true,
				})
				rd.Outcomes["stray-commitment-with-messages"]++
			}
		}
	}
	for _, v := range votes {
		nk := byID[v.pk]
		if nk == nil || (!now[v.pk] && !v.pk.Equal(anchorID) && rapid.IntRange(0, 2).Draw(t, "roundVoteNow") == 0) {
			continue
		}
		res := driverResult(v.tag)
		if v.tag == 0 {
			res = ExecutorResult{Failure: true}
		} else if v.tag == 1 {
			res.Messages = rd.msgs // (the proposal; a dissenter's result emits nothing)
		}
		ec, err := NewExecutorCommitment(s.W.Runtime.ID, nk, sched.PublicKey, rs.LastBlock, nil, res)
		if err != nil {
			continue
		}
		addr := staking.NewAddress(nk.ID.Public())
		nonce := g.V.Account(addr).General.Nonce + g.nonceAdd[addr]
		g.nonceAdd[addr]++
		body := &roothash.ExecutorCommit{ID: s.W.Runtime.ID, Commits: []commitment.ExecutorCommitment{*ec}}
		gas := s.W.Spec.GasOp*uint64(1+len(res.Messages)) + s.W.Spec.GasTxByte*2048
		out = append(out, &TxDesc{
			Raw:    SignTx(nk.ID, nonce, &transaction.Fee{Gas: transaction.Gas(gas)}, roothash.MethodExecutorCommit, body),
			Signer: nk.Name, Addr: addr, Method: roothash.MethodExecutorCommit, Nonce: nonce, Gas: gas, Note: "scripted round: " + rd.flavour, ExpectAuthOK: true,
		})
		rd.sent[v.pk] = true
	}
	return out
}

// RoothashEventKinds lists the attribute keys of the roothash events a block emitted outside transactions (EndBlock and
// BeginBlock: finalized rounds, discrepancies, failed rounds show up here), for coverage labels.
func RoothashEventKinds(out *BlockOutcome) []string {
	var kinds []string
	for _, evs := range [][]types.Event{out.BeginBlock.Events, out.EndBlock.Events} {
		for _, e := range evs {
			if !strings.HasSuffix(e.Type, "roothash") {
				continue
			}
			for _, at := range e.Attributes {
				kinds = append(kinds, at.Key)
			}
		}
	}
	return kinds
}

// GenStrayCommitWithMessages builds a roothash.ExecutorCommit by a registered node that names ITSELF as the scheduler of
// the next round and carries messages emitted "by the runtime" (transfers out of the runtime's account, escrow added to or
// reclaimed from an entity's pool): well-formed and correctly signed; the committee checks refuse it unless the node happens
// to be the round's scheduler (nil when there is no runtime block to build on).
func (g *TxGen) GenStrayCommitWithMessages(t *rapid.T) *TxDesc {
	w := g.W
	if w.Runtime == nil {
		return nil
	}
	rs, err := g.V.RuntimeState(w.Runtime.ID)
	if err != nil || rs == nil || rs.LastBlock == nil {
		return nil
	}
	var all []*NodeKeys
	for _, ek := range w.Entities {
		all = append(all, ek.Nodes...)
	}
	if len(all) == 0 {
		return nil
	}
	nk := all[rapid.IntRange(0, len(all)-1).Draw(t, "strayNode")]
	bal := w.Spec.RtAccountBalance
	var msgs []message.Message
	for n := rapid.IntRange(1, 3).Draw(t, "strayMsgs"); n > 0; n-- {
		amt := q(uint64(rapid.SampledFrom([]int{1, 7, 100, int(bal/2) + 1, int(bal)}).Draw(t, "strayMsgAmount")))
		pool := w.Entities[rapid.IntRange(0, len(w.Entities)-1).Draw(t, "strayMsgPool")].Address()
		sm := &message.StakingMessage{Versioned: cbor.NewVersioned(0)}
		switch rapid.IntRange(0, 2).Draw(t, "strayMsgKind") {
		case 0:
			sm.Transfer = &staking.Transfer{To: pool, Amount: amt}
		case 1:
			sm.AddEscrow = &staking.Escrow{Account: pool, Amount: amt}
		default:
			sm.ReclaimEscrow = &staking.ReclaimEscrow{Account: pool, Shares: amt}
		}
		msgs = append(msgs, message.Message{Staking: sm})
	}
	res := driverResult(3)
	res.Messages = msgs
	ec, err := NewExecutorCommitment(w.Runtime.ID, nk, nk.ID.Public(), rs.LastBlock, nil, res)
	if err != nil {
		return nil
	}
	addr := staking.NewAddress(nk.ID.Public())
	nonce := g.V.Account(addr).General.Nonce + g.nonceAdd[addr]
	g.nonceAdd[addr]++
	body := &roothash.ExecutorCommit{ID: w.Runtime.ID, Commits: []commitment.ExecutorCommitment{*ec}}
	gas := w.Spec.GasOp*uint64(2+len(msgs)) + w.Spec.GasTxByte*4096
	return &TxDesc{
		Raw:    SignTx(nk.ID, nonce, &transaction.Fee{Gas: transaction.Gas(gas)}, roothash.MethodExecutorCommit, body),
		Signer: nk.Name, Addr: addr, Method: roothash.MethodExecutorCommit, Nonce: nonce, Gas: gas, Note: "stray commitment with messages by a self-named scheduler", ExpectAuthOK: true,
		Resign: func(gas2 uint64) []byte {
			return SignTx(nk.ID, nonce, &transaction.Fee{Gas: transaction.Gas(gas2)}, roothash.MethodExecutorCommit, body)
		},
	}
}
