package chain

import (
	"fmt"
	"strings"
	"time"

	"github.com/cometbft/cometbft/abci/types"
	"pgregory.net/rapid"

	beacon "github.com/oasisprotocol/oasis-core/go/beacon/api"
	registryAPI "github.com/oasisprotocol/oasis-core/go/registry/api"
	"github.com/oasisprotocol/oasis-core/go/common/crypto/signature"
)

// Sim is one generated chain: world, engine and replicas.
type Sim struct {
	W     *World
	E     *Engine
	Reps  []*Replica
	Trace []string
	// lastRefreshEpoch: epoch in which the liveness refresh transactions were last emitted.
	lastRefreshEpoch beacon.EpochTime
	// Known former validators (for evidence against former validators).
	former []*Validator
	// abandoned: nodes that are no longer refreshed by their operator.
	abandoned map[*NodeKeys]bool
	vrfSitOut map[*NodeKeys]sitOut
	rd        *roundDriver
	// darkEpoch: an epoch in which the operators of all nodes but the anchor's are away (no refresh, no VRF proof), so
	// that the next election finds fewer nodes (profile "rtheavy": committees shrink or vanish at the transition).
	darkEpoch beacon.EpochTime
	// Profile tunes generation weights ("", "economy", "hostile", "registry", ...).
	Profile string
}

// RoundOutcomes: what the scripted round driver (profile "rtheavy") did so far.
func (s *Sim) RoundOutcomes() map[string]int {
	if s.rd == nil {
		return nil
	}
	return s.rd.Outcomes
}

// Logf appends to the trace.
func (s *Sim) Logf(format string, args ...any) {
	s.Trace = append(s.Trace, fmt.Sprintf(format, args...))
}

// ErrInvalidGenesis is returned when the drawn genesis does not pass SanityCheck.
type ErrInvalidGenesis struct{ Err error }

func (e ErrInvalidGenesis) Error() string { return "invalid genesis: " + e.Err.Error() }

// ErrEngineContract is returned when the validator set the application hands to the consensus engine at InitChain
// cannot be applied (a validator of power 0, a removal of an unknown validator, an empty set ...): the real engine
// would refuse to start the chain.
type ErrEngineContract struct{ Err error }

func (e ErrEngineContract) Error() string { return "engine contract: " + e.Err.Error() }

// NewSim builds the genesis for spec, starts the replicas and runs InitChain on all of them.
// The process-global chain context is reset for the new genesis, so only one Sim may be live
// per process at any time.
func NewSim(spec *Spec, cfgs []ReplicaConfig) (*Sim, error) {
	w, err := BuildGenesis(spec)
	if err != nil {
		return nil, err
	}
	if err := w.Doc.SanityCheck(); err != nil {
		return nil, ErrInvalidGenesis{err}
	}
	signature.UnsafeResetChainContext()
	w.Doc.SetChainContext()
	s := &Sim{W: w}
	req, vups, err := InitChainRequest(w)
	if err != nil {
		return nil, err
	}
	for _, cfg := range cfgs {
		r, err := NewReplica(w, cfg)
		if err != nil {
			s.Close()
			return nil, err
		}
		s.Reps = append(s.Reps, r)
		if err := Call(func() { r.Mux.InitChain(req) }); err != nil {
			s.Close()
			return nil, fmt.Errorf("InitChain on %s: %w", cfg.Name, err)
		}
	}
	s.E, err = NewEngine(w, vups)
	if err != nil {
		s.Close()
		return nil, ErrEngineContract{err}
	}
	return s, nil
}

// Close stops all replicas and removes their directories.
func (s *Sim) Close() {
	for _, r := range s.Reps {
		if r != nil {
			r.Stop(true)
		}
	}
	s.Reps = nil
}

// ReplicaFor returns the replica running with the given validator's identity, if any.
func (s *Sim) ReplicaFor(v *Validator) *Replica {
	for _, r := range s.Reps {
		if r.Cfg.Keys != nil && r.Cfg.Keys.Consensus.Public() == v.PubKey {
			return r
		}
	}
	return nil
}

// BlockGen holds what was drawn for one block.
type BlockGen struct {
	Block *Block
	Txs   []*TxDesc
	Notes []string
}

type sitOut struct {
	epoch beacon.EpochTime
	out   bool
}

// GenBlock draws the next block: time gap, proposer, votes of the previous validator set (signers
// always hold more than 2/3 of the power, as any existing commit does), misbehaviour evidence and
// transactions (liveness refreshes first). view must be a view of a replica at the engine's height.
func (s *Sim) GenBlock(t *rapid.T, view *View, maxTxs int) *BlockGen {
	e := s.E
	gap := time.Duration(rapid.SampledFrom([]int{500, 1000, 1000, 5000, 60_000, 3_600_000, 172_800_000}).Draw(t, "gapMs")) * time.Millisecond
	vals := e.Validators().Sorted()
	b := &Block{Height: e.Height, Time: e.Time.Add(gap), Proposer: vals[rapid.IntRange(0, len(vals)-1).Draw(t, "proposer")]}
	bg := &BlockGen{Block: b}

	// votes
	signed := map[string]bool{}
	if prev := e.PrevValidators(); prev != nil {
		total := prev.TotalPower()
		var absentPower int64
		for _, v := range prev.Sorted() {
			signed[string(v.Address)] = true
			if rapid.IntRange(0, 3).Draw(t, "absent") == 0 && (absentPower+v.Power)*3 < total {
				signed[string(v.Address)] = false
				absentPower += v.Power
			}
		}
	}
	b.LastCommit = e.CommitInfoFor(signed)
	b.LastCommit.Round = int32(rapid.IntRange(0, 2).Draw(t, "round"))

	// evidence (never against the anchor entity's validators: keeps the election precondition)
	nev := 0
	// (no evidence in the chain's first block: there is no earlier height it could refer to)
	if b.Height > s.W.Doc.Height && rapid.IntRange(0, 5).Draw(t, "evidence") == 0 {
		nev = rapid.IntRange(1, 2).Draw(t, "nev")
	}
	anchor := map[string]bool{}
	for _, nk := range s.W.Entities[0].Nodes {
		anchor[string(ValidatorAddress(nk.Consensus.Public()))] = true
	}
	for i := 0; i < nev; i++ {
		var target types.Validator
		switch rapid.IntRange(0, 4).Draw(t, "evTarget") {
		case 0:
			target = types.Validator{Address: []byte("unknown-validator-addr"), Power: int64(rapid.IntRange(0, 100).Draw(t, "evPower"))}
		case 1:
			if len(s.former) > 0 {
				f := s.former[rapid.IntRange(0, len(s.former)-1).Draw(t, "evFormer")]
				target = types.Validator{Address: f.Address, Power: f.Power}
				break
			}
			fallthrough
		default:
			var cands []*Validator
			for _, v := range vals {
				if !anchor[string(v.Address)] {
					cands = append(cands, v)
				}
			}
			if len(cands) == 0 {
				continue
			}
			v := cands[rapid.IntRange(0, len(cands)-1).Draw(t, "evVal")]
			target = types.Validator{Address: v.Address, Power: v.Power}
		}
		if anchor[string(target.Address)] {
			continue
		}
		typ := types.MisbehaviorType_DUPLICATE_VOTE
		if rapid.Bool().Draw(t, "evLight") {
			typ = types.MisbehaviorType_LIGHT_CLIENT_ATTACK
		}
		evh := b.Height - int64(rapid.IntRange(1, 3).Draw(t, "evAge"))
		if evh < 1 {
			evh = 1
		}
		b.Misbehavior = append(b.Misbehavior, types.Misbehavior{Type: typ, Validator: target, Height: evh, Time: b.Time.Add(-time.Second), TotalVotingPower: e.Validators().TotalPower()})
		bg.Notes = append(bg.Notes, fmt.Sprintf("evidence %v against %x", typ, target.Address))
		if rapid.IntRange(0, 3).Draw(t, "evDup") == 0 { // the same evidence twice
			b.Misbehavior = append(b.Misbehavior, b.Misbehavior[len(b.Misbehavior)-1])
		}
	}

	// transactions
	g := NewTxGen(s.W, view, s.Profile)
	if view.Epoch != s.lastRefreshEpoch {
		s.lastRefreshEpoch = view.Epoch
		if strings.Contains(s.Profile, "rtheavy") && s.W.Runtime != nil && view.Epoch > 1 && rapid.IntRange(0, 3).Draw(t, "darkEpoch") == 0 {
			s.darkEpoch = view.Epoch
			bg.Notes = append(bg.Notes, "dark epoch")
		}
		for i, ek := range s.W.Entities {
			for _, nk := range ek.Nodes {
				// the anchor registers for as long as allowed; other operators choose shorter registrations as well, so
				// that a missed refresh expires the node at one of the next transitions
				exp := view.Epoch + beacon.EpochTime(s.W.Spec.MaxNodeExp)
				if i != 0 {
					exp = view.Epoch + beacon.EpochTime(rapid.IntRange(1, int(s.W.Spec.MaxNodeExp)).Draw(t, "refreshExp"))
				}
				if i != 0 && s.darkEpoch == view.Epoch {
					continue
				}
				// the anchor entity always refreshes; others mostly do (expiry is part of the histories)
				// and a node's operator occasionally goes away for good, so that the node expires and is removed
				if i != 0 && !s.abandoned[nk] && rapid.IntRange(0, 9).Draw(t, "abandon") == 0 {
					if s.abandoned == nil {
						s.abandoned = map[*NodeKeys]bool{}
					}
					s.abandoned[nk] = true
				}
				if i == 0 || (!s.abandoned[nk] && rapid.IntRange(0, 4).Draw(t, "refresh") > 0) {
					d := g.RefreshTx(ek, nk, exp)
					bg.Txs = append(bg.Txs, d)
				}
			}
		}
	}
	// the anchor's operator unfreezes its node as soon as that is possible (runtime liveness failures freeze nodes)
	if ank := s.W.Entities[0].Nodes[0]; ank != nil {
		if st, err := view.Reg.NodeStatus(view.Ctx(), ank.ID.Public()); err == nil && st != nil && st.IsFrozen() && st.FreezeEndTime <= view.Epoch {
			ek := s.W.Entities[0]
			d := g.sign(ek.Signer, ek.Address(), registryAPI.MethodUnfreezeNode, &registryAPI.UnfreezeNode{NodeID: ank.ID.Public()}, ek.Name)
			d.Note = "liveness refresh"
			bg.Txs = append(bg.Txs, d)
		}
	}
	// VRF proofs: every node that has not yet proved for the current alpha does so (most of the time), once the
	// submission window is open; the anchor node always does
	if vs := view.VRFState(); s.W.Spec.VRF && vs != nil && b.Height > vs.SubmitAfter {
		for i, ek := range s.W.Entities {
			for j, nk := range ek.Nodes {
				if vs.Pi[nk.ID.Public()] != nil || s.abandoned[nk] || (i != 0 && s.darkEpoch == vs.Epoch && s.darkEpoch != 0) {
					continue
				}
				// a node sits out a whole epoch now and then (its entity can then have a compute node with a proof and a
				// validator node without one), and is sometimes just late
				if d, ok := s.vrfSitOut[nk]; !ok || d.epoch != vs.Epoch {
					if s.vrfSitOut == nil {
						s.vrfSitOut = map[*NodeKeys]sitOut{}
					}
					s.vrfSitOut[nk] = sitOut{vs.Epoch, !(i == 0 && j == 0) && rapid.IntRange(0, 3).Draw(t, "vrfSitOut") == 0}
				}
				if s.vrfSitOut[nk].out {
					continue
				}
				if !(i == 0 && j == 0) && rapid.IntRange(0, 4).Draw(t, "vrfLate") == 0 {
					continue
				}
				if d := g.VRFProveTx(nk, vs); d != nil {
					bg.Txs = append(bg.Txs, d)
				}
			}
		}
	}
	bg.Txs = append(bg.Txs, s.roundTxs(t, view, g)...)
	n := rapid.IntRange(0, maxTxs).Draw(t, "ntxs")
	for i := 0; i < n; i++ {
		bg.Txs = append(bg.Txs, g.Gen(t))
	}
	for _, d := range bg.Txs {
		b.Txs = append(b.Txs, d.Raw)
	}
	return bg
}

// AfterCommit advances the engine and remembers validators that left the set.
func (s *Sim) AfterCommit(b *Block, out *BlockOutcome) error {
	before := s.E.NextValidators().clone()
	if err := s.E.Advance(b, out.EndBlock.ValidatorUpdates, out.AppHash); err != nil {
		return err
	}
	after := s.E.valsAt[b.Height+2]
	for k, v := range before {
		if _, ok := after[k]; !ok {
			s.former = append(s.former, v)
		}
	}
	return nil
}
