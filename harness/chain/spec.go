package chain

import (
	"math/big"

	"pgregory.net/rapid"
)

// GenSpec draws a genesis specification. Every drawn document must pass doc.SanityCheck();
// the caller discards (and counts) draws that do not.
func GenSpec(t *rapid.T) *Spec {
	s := &Spec{}
	s.NEntities = rapid.IntRange(2, 5).Draw(t, "entities")
	// one case in eight is shaped for the interplay of the VRF beacon and the validator-set scheduling constraint: entity 1
	// runs a validator node and a separate compute node (either may sit out an epoch's proofs), the runtime only takes
	// nodes of entities in the validator set
	split := rapid.IntRange(0, 7).Draw(t, "vrfSplitShape") == 0
	for i := 0; i < s.NEntities; i++ {
		n := 1
		if i > 0 && rapid.IntRange(0, 3).Draw(t, "twoNodes") == 0 {
			n = 2
		}
		if split && i == 1 {
			n = 2
		}
		s.NodesPerEntity = append(s.NodesPerEntity, n)
	}
	s.NUsers = rapid.IntRange(3, 7).Draw(t, "users")
	// (mostly short epochs: many transitions per history; sometimes long ones: runtime rounds need several blocks to time out,
	// resolve and fail inside one epoch)
	s.EpochInterval = int64(rapid.SampledFrom([]int{2, 3, 4, 5, 2, 3, 4, 5, 9, 14}).Draw(t, "epochInterval"))
	s.DebondingIv = uint64(rapid.IntRange(1, 3).Draw(t, "debonding"))
	s.MaxNodeExp = uint64(rapid.IntRange(3, 6).Draw(t, "maxNodeExp"))
	totalNodes := 0
	for _, n := range s.NodesPerEntity {
		totalNodes += n
	}
	s.MaxValidators = rapid.IntRange(1, totalNodes).Draw(t, "maxValidators")
	s.MaxValPerEntity = rapid.IntRange(1, 2).Draw(t, "maxValPerEntity")
	s.VotingPowerSqrt = rapid.Bool().Draw(t, "sqrt")

	s.ThresholdEntity = uint64(rapid.SampledFrom([]int{1, 10, 100, 1000}).Draw(t, "thEntity"))
	s.ThresholdNode = uint64(rapid.SampledFrom([]int{1, 10, 100, 1000}).Draw(t, "thNode"))
	for i := 0; i < s.NEntities; i++ {
		need := s.ThresholdEntity + uint64(s.NodesPerEntity[i])*2*s.ThresholdNode + 2*s.ThresholdNode
		var stake uint64
		switch m := rapid.IntRange(0, 9).Draw(t, "stakeMode"); {
		case i == 0 || m <= 5:
			// comfortably staked (entity 0 is the anchor validator and always is)
			stake = need * uint64(rapid.IntRange(2, 50).Draw(t, "stakeMul"))
			if rapid.IntRange(0, 4).Draw(t, "bigStake") == 0 {
				stake += uint64(rapid.IntRange(0, 1_000_000_000).Draw(t, "stakeBig")) * 1000
			}
		case m <= 7:
			stake = need + uint64(rapid.IntRange(0, 2).Draw(t, "stakeEdge")) // exactly at / just above
		default:
			if need > 1 {
				stake = need - 1 // just below
			}
		}
		s.SelfStake = append(s.SelfStake, stake)
		// share ratio: 1:1, more shares than stake (price < 1), fewer shares (price > 1)
		shares := stake
		switch rapid.IntRange(0, 3).Draw(t, "shareRatio") {
		case 1:
			shares = stake*3 + 1
		case 2:
			shares = stake/3 + 1
		}
		if stake == 0 {
			shares = 0
		}
		s.SelfShares = append(s.SelfShares, shares)
		s.General = append(s.General, uint64(rapid.IntRange(0, 1_000_000).Draw(t, "general")))
	}
	for i := 0; i < s.NUsers; i++ {
		s.UserBalance = append(s.UserBalance, uint64(rapid.SampledFrom([]int{0, 50, 5_000, 100_000, 1_000_000, 1_000_000_000}).Draw(t, "userBal")))
	}
	s.CommonPool = uint64(rapid.SampledFrom([]int{0, 1, 1000, 1_000_000_000}).Draw(t, "commonPool"))
	// a genesis produced by dumping a running network carries the fees of its last block
	s.LastBlockFees = uint64(rapid.SampledFrom([]int{0, 0, 0, 0, 1, 7, 1000}).Draw(t, "lastBlockFees"))
	s.FeeWeights = [3]uint64{
		uint64(rapid.IntRange(0, 3).Draw(t, "fwP")), uint64(rapid.IntRange(0, 3).Draw(t, "fwV")), uint64(rapid.IntRange(0, 3).Draw(t, "fwN")),
	}
	if s.FeeWeights[0]+s.FeeWeights[1]+s.FeeWeights[2] == 0 {
		s.FeeWeights[1] = 1
	}
	s.RewardScale = uint64(rapid.SampledFrom([]int{0, 1, 1000, 100000}).Draw(t, "rewardScale"))
	s.RewardProposed = uint64(rapid.IntRange(0, 3).Draw(t, "rewardProposed"))
	s.RewardSigned = uint64(rapid.IntRange(0, 3).Draw(t, "rewardSigned"))
	s.MinCommission = uint64(rapid.SampledFrom([]int{0, 0, 0, 20000, 50000, 100000}).Draw(t, "minCommission"))
	// a nearly depleted common pool: a small multiple of the rewards the drawn stakes earn per epoch / block, so
	// that some rewards fit and others do not (the "skip this reward" branches)
	if rapid.IntRange(0, 2).Draw(t, "poolNearDepleted") == 0 && s.RewardScale > 0 {
		var sum, max uint64
		for _, st := range s.SelfStake {
			f := s.RewardSigned
			if f == 0 {
				f = s.RewardProposed
			}
			r := new(big.Int).SetUint64(st)
			r.Mul(r, new(big.Int).SetUint64(f*s.RewardScale))
			r.Quo(r, big.NewInt(100_000_000))
			if r.IsUint64() && r.Uint64() < 1<<40 {
				sum += r.Uint64()
				if r.Uint64() > max {
					max = r.Uint64()
				}
			}
		}
		if sum > 0 {
			switch rapid.IntRange(0, 2).Draw(t, "poolMode") {
			case 0:
				s.CommonPool = uint64(rapid.Uint64Range(0, 2*sum).Draw(t, "poolNear"))
			case 1:
				s.CommonPool = max - uint64(rapid.Uint64Range(0, max/2).Draw(t, "poolBelowMax"))
			default:
				s.CommonPool = sum + uint64(rapid.Uint64Range(0, max).Draw(t, "poolAboveSum"))
			}
		}
	}
	s.SlashAmount = uint64(rapid.SampledFrom([]int{1, 100, 100000, 2_000_000_000_000}).Draw(t, "slash"))
	s.SlashFreeze = uint64(rapid.SampledFrom([]int{0, 1, 2, 1000000}).Draw(t, "freeze"))
	s.MinTransact = uint64(rapid.SampledFrom([]int{0, 0, 1, 10}).Draw(t, "minTransact"))
	s.MinTransfer = uint64(rapid.SampledFrom([]int{0, 0, 1, 10}).Draw(t, "minTransfer"))
	s.MinDelegation = uint64(rapid.SampledFrom([]int{0, 1, 10}).Draw(t, "minDelegation"))
	s.MaxAllowances = uint32(rapid.IntRange(0, 3).Draw(t, "maxAllowances"))
	s.GasTxByte = uint64(rapid.IntRange(0, 2).Draw(t, "gasTxByte"))
	s.GasOp = uint64(rapid.SampledFrom([]int{0, 1, 10, 1000}).Draw(t, "gasOp"))
	s.MaxBlockGas = uint64(rapid.SampledFrom([]int{0, 0, 0, 100000, 30000}).Draw(t, "maxBlockGas"))
	s.MaxTxSize = uint64(rapid.SampledFrom([]int{32768, 32768, 4096}).Draw(t, "maxTxSize"))
	s.ConsMinGasPrice = uint64(rapid.SampledFrom([]int{0, 0, 0, 0, 1, 3}).Draw(t, "consMinGasPrice"))
	s.GovVotingPeriod = uint64(rapid.IntRange(1, 3).Draw(t, "govPeriod"))
	s.GovStakeThresh = uint8(rapid.SampledFrom([]int{67, 90, 100}).Draw(t, "govThreshold"))
	s.GovMinDeposit = uint64(rapid.SampledFrom([]int{0, 1, 100}).Draw(t, "govDeposit"))
	s.WithRuntime = rapid.IntRange(0, 2).Draw(t, "runtime") > 0 || split
	if s.WithRuntime {
		s.RtGroup = uint16(rapid.IntRange(1, 3).Draw(t, "rtGroup"))
		s.RtBackup = uint16(rapid.IntRange(1, 3).Draw(t, "rtBackup"))
		s.RtStragglers = uint16(rapid.IntRange(0, 1).Draw(t, "rtStragglers"))
		s.RtRoundTimeout = int64(rapid.IntRange(2, 5).Draw(t, "rtRoundTimeout"))
		s.RtMaxNodes = uint16(rapid.SampledFrom([]int{0, 0, 1, 1, 2}).Draw(t, "rtMaxNodes"))
		s.RtMinPoolExtra = uint16(rapid.SampledFrom([]int{0, 0, 1, 2}).Draw(t, "rtMinPoolExtra"))
		s.RtValidatorSet = rapid.IntRange(0, 3).Draw(t, "rtValidatorSet") == 0 || split
		if s.RtValidatorSet {
			// the constraint may sit on one of the two roles only
			s.RtValidatorSetRole = rapid.SampledFrom([]int{0, 0, 1, 2}).Draw(t, "rtValidatorSetRole")
		}
		s.RtOwnStake = rapid.Bool().Draw(t, "rtOwnStake")
		s.RtSlash = uint64(rapid.SampledFrom([]int{0, 1, 100, 100}).Draw(t, "rtSlash"))
		s.RtMaxInMsgs = uint32(rapid.SampledFrom([]int{0, 1, 2, 8}).Draw(t, "rtMaxInMsgs"))
		// the runtime's own account (spent by the messages the runtime emits) and whether escrow messages are allowed
		if rapid.IntRange(0, 2).Draw(t, "rtAccount") > 0 {
			s.RtAccountBalance = uint64(rapid.SampledFrom([]int{1, 50, 1000, 100000}).Draw(t, "rtAccountBalance"))
			s.RtEscrowMsgs = rapid.Bool().Draw(t, "rtEscrowMsgs")
		}
		if rapid.IntRange(0, 2).Draw(t, "rtLiveness") > 0 {
			// liveness evaluation of the committee's workers at every epoch transition: suspension from the runtime's
			// committees, and after enough failures freezing and slashing of the node
			s.RtMinLivePct = uint8(rapid.SampledFrom([]int{50, 100, 100}).Draw(t, "rtMinLivePct"))
			s.RtMinLiveEval = uint64(rapid.IntRange(1, 2).Draw(t, "rtMinLiveEval"))
			s.RtMaxLiveFail = uint8(rapid.SampledFrom([]int{0, 1, 1, 2}).Draw(t, "rtMaxLiveFail"))
			s.RtMaxMissedPct = uint8(rapid.SampledFrom([]int{0, 0, 50}).Draw(t, "rtMaxMissedPct"))
			s.RtLiveSlash = uint64(rapid.SampledFrom([]int{0, 1, 100}).Draw(t, "rtLiveSlash"))
			s.RtLiveFreeze = uint64(rapid.IntRange(0, 2).Draw(t, "rtLiveFreeze"))
		}
		if rapid.IntRange(0, 2).Draw(t, "rtForeignOwner") == 0 {
			// owned by an entity that may lose its nodes and try to deregister
			s.RtOwner = rapid.IntRange(1, s.NEntities-1).Draw(t, "rtOwner")
		}
	}
	for i := 0; i < s.NEntities; i++ {
		var roles []int
		for j := 0; j < s.NodesPerEntity[i]; j++ {
			r := 1
			if s.WithRuntime {
				r = rapid.SampledFrom([]int{1, 2, 3, 3}).Draw(t, "nodeRole")
			}
			if i == 0 && j == 0 {
				r |= 1 // the anchor node always validates
			}
			if split && i == 1 {
				r = []int{1, 2}[j]
			}
			roles = append(roles, r)
		}
		s.NodeRoles = append(s.NodeRoles, roles)
	}
	if s.WithRuntime && rapid.IntRange(0, 2).Draw(t, "rtUpgrade") == 0 {
		s.RtUpgradeAt = uint64(rapid.IntRange(1, 4).Draw(t, "rtUpgradeAt"))
		s.RtNewestFirst = rapid.Bool().Draw(t, "rtNewestFirst")
		for i := 0; i < s.NEntities; i++ {
			var vs []int
			for j := 0; j < s.NodesPerEntity[i]; j++ {
				vs = append(vs, rapid.SampledFrom([]int{1, 1, 2, 2, 3}).Draw(t, "nodeRtVer"))
			}
			s.NodeRtVer = append(s.NodeRtVer, vs)
		}
	}
	if s.WithRuntime && rapid.IntRange(0, 2).Draw(t, "rtElectable") > 0 {
		s.FitRuntime()
	}
	if split && s.EpochInterval < 3 {
		s.EpochInterval = 3
	}
	if s.EpochInterval >= 3 && (rapid.IntRange(0, 2).Draw(t, "vrf") == 0 || split) {
		s.VRF = true
		s.VRFThreshold = uint64(rapid.IntRange(1, 3).Draw(t, "vrfThreshold"))
	}
	s.WithVault = rapid.IntRange(0, 2).Draw(t, "vault") == 0
	if s.WithVault {
		for i, n := 0, rapid.IntRange(0, 2).Draw(t, "genesisVaults"); i < n; i++ {
			s.GenesisVaults = append(s.GenesisVaults, [3]uint64{
				uint64(rapid.SampledFrom([]int{0, 3, 50, 100000}).Draw(t, "gvBalance")),
				uint64(rapid.SampledFrom([]int{0, 10, 10, 1000}).Draw(t, "gvLimit")),
				uint64(rapid.SampledFrom([]int{0, 2, 10, 10}).Draw(t, "gvInterval")),
			})
		}
	}
	nc := rapid.IntRange(0, 4).Draw(t, "ncross")
	for i := 0; i < nc; i++ {
		s.CrossDelegations = append(s.CrossDelegations, [3]uint64{
			uint64(rapid.IntRange(0, s.NUsers-1).Draw(t, "cdUser")),
			uint64(rapid.IntRange(0, s.NEntities-1).Draw(t, "cdEntity")),
			uint64(rapid.SampledFrom([]int{1, 7, 1000, 123456}).Draw(t, "cdAmount")),
		})
	}
	nd := rapid.IntRange(0, 3).Draw(t, "ndeb")
	for i := 0; i < nd; i++ {
		s.Debonding = append(s.Debonding, [3]uint64{
			uint64(rapid.IntRange(0, s.NUsers-1).Draw(t, "ddUser")),
			uint64(rapid.IntRange(0, s.NEntities-1).Draw(t, "ddEntity")),
			uint64(rapid.SampledFrom([]int{1, 7, 1000, 123456}).Draw(t, "ddAmount")),
		})
	}
	for i := 0; i < s.NEntities; i++ {
		s.EntityCommission = append(s.EntityCommission, uint64(rapid.SampledFrom([]int{0, 0, 20000, 60000, 100000}).Draw(t, "entityCommission")))
	}
	if ci := uint64(rapid.SampledFrom([]int{1, 1, 1, 2, 3, 0}).Draw(t, "commissionInterval")); ci != 1 {
		s.CommissionInterval = &ci
	}
	// chains of debonding delegations maturing together: X -> A and A -> B (X a user, another entity, or A itself)
	for i, n := 0, rapid.IntRange(0, 2).Draw(t, "ndebChains"); i < n && s.NEntities >= 2; i++ {
		a := rapid.IntRange(0, s.NEntities-1).Draw(t, "dcA")
		b := rapid.IntRange(0, s.NEntities-1).Draw(t, "dcB")
		if a == b {
			b = (a + 1) % s.NEntities
		}
		x := uint64(a) // self-delegation of A
		switch rapid.IntRange(0, 2).Draw(t, "dcXKind") {
		case 0:
			x = 1000 + uint64(rapid.IntRange(0, s.NUsers-1).Draw(t, "dcXUser"))
		case 1:
			x = uint64(rapid.IntRange(0, s.NEntities-1).Draw(t, "dcXEntity"))
		}
		off := uint64(rapid.IntRange(0, 4).Draw(t, "dcEnd"))
		amt := func(l string) uint64 { return uint64(rapid.SampledFrom([]int{1, 7, 1000, 123456}).Draw(t, l)) }
		s.DebondChains = append(s.DebondChains, [4]uint64{x, uint64(a), amt("dcAmt1"), off}, [4]uint64{uint64(a), uint64(b), amt("dcAmt2"), off})
	}
	return s
}

// DefaultSpec is a small fixed genesis specification for deterministic regression cases.
func DefaultSpec() *Spec {
	return &Spec{
		NEntities: 2, NodesPerEntity: []int{1, 1}, NodeRoles: [][]int{{1}, {1}}, NUsers: 2, EpochInterval: 3, DebondingIv: 1, MaxNodeExp: 4,
		MaxValidators: 2, MaxValPerEntity: 1, SelfStake: []uint64{100000, 50000}, SelfShares: []uint64{100000, 50000}, General: []uint64{1000, 1000},
		UserBalance: []uint64{100000, 100000}, CommonPool: 1000000, ThresholdEntity: 10, ThresholdNode: 10, FeeWeights: [3]uint64{1, 1, 1},
		RewardScale: 1000, RewardProposed: 1, RewardSigned: 1, SlashAmount: 100, SlashFreeze: 1, GasOp: 10, MaxTxSize: 32768,
		GovVotingPeriod: 2, GovStakeThresh: 90, GovMinDeposit: 10,
	}
}

// FitRuntime makes the runtime electable: committee sizes and constraints are fitted to the compute nodes that exist
// (a runtime without a committee is suspended, and everything addressed to it is refused early).
func (s *Spec) FitRuntime() {
	// two thirds of the runtimes can actually get a committee: sizes and constraints fitted to the compute nodes that
	// exist (a runtime without a committee is suspended, and everything addressed to it is refused early)
	if s.NodeRoles[0][0]&2 == 0 {
		s.NodeRoles[0][0] |= 2
	}
	if s.RtUpgradeAt > 0 {
		s.NodeRtVer[0][0] = 3
	}
	// candidate pool (after the per-entity cap) before and after the upgrade: the smaller one counts
	poolFor := func(bit int) int {
		pool := 0
		for i, rs := range s.NodeRoles {
			c, validates := 0, false
			for j, r := range rs {
				if r&2 != 0 && (s.RtUpgradeAt == 0 || s.NodeRtVer[i][j]&bit != 0) {
					c++
				}
				validates = validates || r&1 != 0
			}
			if s.RtValidatorSet && !validates {
				continue // the runtime only takes nodes of entities in the validator set
			}
			if s.RtMaxNodes > 0 && c > int(s.RtMaxNodes) {
				c = int(s.RtMaxNodes)
			}
			pool += c
		}
		return pool
	}
	pool := poolFor(1)
	if p2 := poolFor(2); s.RtUpgradeAt > 0 && p2 < pool {
		pool = p2
	}
	if int(s.RtGroup) > pool {
		s.RtGroup = uint16(pool)
	}
	if int(s.RtBackup) > pool {
		s.RtBackup = uint16(pool)
	}
	for _, g := range []uint16{s.RtGroup, s.RtBackup} {
		if int(g+s.RtMinPoolExtra) > pool {
			s.RtMinPoolExtra = 0
		}
	}
	if s.RtStragglers >= s.RtGroup {
		s.RtStragglers = 0
	}
}

// AllCompute gives every node the compute role (checks that need committees with several workers) and asks for a primary
// group of the given size; FitRuntime then cuts it to what the constraints allow.
func (s *Spec) AllCompute(group, backup uint16) {
	for i := range s.NodeRoles {
		for j := range s.NodeRoles[i] {
			s.NodeRoles[i][j] |= 2
		}
	}
	s.RtGroup, s.RtBackup = group, backup
	s.FitRuntime()
}
