package chain

import (
	"fmt"
	"math/big"
	"sort"
	"strings"

	"github.com/cometbft/cometbft/abci/types"

	"github.com/oasisprotocol/oasis-core/go/consensus/api/events"
	cmtapi "github.com/oasisprotocol/oasis-core/go/consensus/cometbft/api"
	staking "github.com/oasisprotocol/oasis-core/go/staking/api"
)

// StakingSnapshot is the complete staking ledger at a block boundary, as big integers.
type StakingSnapshot struct {
	TotalSupply, CommonPool, LastBlockFees, GovDeposits *big.Int
	Accounts                                            map[staking.Address]*staking.Account
	Delegations                                         map[staking.Address]map[staking.Address]*staking.Delegation
	Debonding                                           map[staking.Address]map[staking.Address][]*staking.DebondingDelegation
}

// Snapshot reads the whole staking state through the exported state wrappers.
func (v *View) Snapshot() (*StakingSnapshot, error) {
	s := &StakingSnapshot{Accounts: map[staking.Address]*staking.Account{}}
	get := func(f func() (interface{ ToBigInt() *big.Int }, error)) (*big.Int, error) {
		q, err := f()
		if err != nil {
			return nil, err
		}
		return q.ToBigInt(), nil
	}
	var err error
	if s.TotalSupply, err = get(func() (interface{ ToBigInt() *big.Int }, error) { return v.St.TotalSupply(v.ctx) }); err != nil {
		return nil, err
	}
	if s.CommonPool, err = get(func() (interface{ ToBigInt() *big.Int }, error) { return v.St.CommonPool(v.ctx) }); err != nil {
		return nil, err
	}
	if s.LastBlockFees, err = get(func() (interface{ ToBigInt() *big.Int }, error) { return v.St.LastBlockFees(v.ctx) }); err != nil {
		return nil, err
	}
	if s.GovDeposits, err = get(func() (interface{ ToBigInt() *big.Int }, error) { return v.St.GovernanceDeposits(v.ctx) }); err != nil {
		return nil, err
	}
	addrs, err := v.St.Addresses(v.ctx)
	if err != nil {
		return nil, err
	}
	for _, a := range addrs {
		acct, err := v.St.Account(v.ctx, a)
		if err != nil {
			return nil, err
		}
		s.Accounts[a] = acct
	}
	if s.Delegations, err = v.St.Delegations(v.ctx); err != nil {
		return nil, err
	}
	if s.Debonding, err = v.St.DebondingDelegations(v.ctx); err != nil {
		return nil, err
	}
	return s, nil
}

// SortedAddrs returns the account addresses in a deterministic order.
func (s *StakingSnapshot) SortedAddrs() []staking.Address {
	var out []staking.Address
	for a := range s.Accounts {
		out = append(out, a)
	}
	sort.Slice(out, func(i, j int) bool { return string(out[i][:]) < string(out[j][:]) })
	return out
}

// CheckConservation recomputes the supply and share invariants; returns a description of the first
// violated one or "".
func (s *StakingSnapshot) CheckConservation() string {
	sum := new(big.Int)
	sum.Add(sum, s.CommonPool)
	sum.Add(sum, s.LastBlockFees)
	sum.Add(sum, s.GovDeposits)
	for _, a := range s.SortedAddrs() {
		acct := s.Accounts[a]
		for _, q := range []*big.Int{acct.General.Balance.ToBigInt(), acct.Escrow.Active.Balance.ToBigInt(), acct.Escrow.Debonding.Balance.ToBigInt()} {
			if q.Sign() < 0 {
				return fmt.Sprintf("negative balance in account %s", a)
			}
			sum.Add(sum, q)
		}
		// shares
		act := new(big.Int)
		for _, d := range s.Delegations[a] {
			act.Add(act, d.Shares.ToBigInt())
		}
		if act.Cmp(acct.Escrow.Active.TotalShares.ToBigInt()) != 0 {
			return fmt.Sprintf("account %s: active total shares %s != sum of delegations %s", a, acct.Escrow.Active.TotalShares.ToBigInt(), act)
		}
		deb := new(big.Int)
		for _, ds := range s.Debonding[a] {
			for _, d := range ds {
				deb.Add(deb, d.Shares.ToBigInt())
			}
		}
		if deb.Cmp(acct.Escrow.Debonding.TotalShares.ToBigInt()) != 0 {
			return fmt.Sprintf("account %s: debonding total shares %s != sum of debonding delegations %s", a, acct.Escrow.Debonding.TotalShares.ToBigInt(), deb)
		}
	}
	// delegations into accounts that do not exist
	for a := range s.Delegations {
		if _, ok := s.Accounts[a]; !ok {
			return fmt.Sprintf("delegations into unknown account %s", a)
		}
	}
	for a := range s.Debonding {
		if _, ok := s.Accounts[a]; !ok {
			return fmt.Sprintf("debonding delegations into unknown account %s", a)
		}
	}
	if sum.Cmp(s.TotalSupply) != 0 {
		return fmt.Sprintf("total supply %s != sum of balances, pools and fees %s (difference %s)", s.TotalSupply, sum, new(big.Int).Sub(s.TotalSupply, sum))
	}
	return ""
}

// BurnedIn sums the BurnEvent amounts in the ABCI events of one block.
func BurnedIn(out *BlockOutcome) (*big.Int, int) {
	total := new(big.Int)
	n := 0
	scan := func(evs []types.Event) {
		for _, e := range evs {
			if !strings.HasPrefix(e.Type, cmtapi.EventTypeForApp("")) || !strings.HasSuffix(e.Type, "staking") {
				continue
			}
			for _, at := range e.Attributes {
				if at.Key != (&staking.BurnEvent{}).EventKind() {
					continue
				}
				var be staking.BurnEvent
				if err := events.DecodeValue(at.Value, &be); err == nil {
					total.Add(total, be.Amount.ToBigInt())
					n++
				}
			}
		}
	}
	scan(out.BeginBlock.Events)
	for _, r := range out.TxResults {
		scan(r.Events)
	}
	scan(out.EndBlock.Events)
	return total, n
}

// StakingEventsOf decodes the staking events of one kind from a list of ABCI events, in order; dec is
// called with the raw attribute value of every match.
func StakingEventsOf(evs []types.Event, kind string, dec func(raw string)) {
	for _, e := range evs {
		if !strings.HasPrefix(e.Type, cmtapi.EventTypeForApp("")) || !strings.HasSuffix(e.Type, "staking") {
			continue
		}
		for _, at := range e.Attributes {
			if at.Key == kind {
				dec(at.Value)
			}
		}
	}
}

// DecodeEvent decodes an event attribute value.
func DecodeEvent(raw string, into events.TypedAttribute) error { return events.DecodeValue(raw, into) }
