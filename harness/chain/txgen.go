package chain

import (
	"context"
	"fmt"
	"github.com/oasisprotocol/oasis-core/go/common/crypto/hash"
	memorySigner "github.com/oasisprotocol/oasis-core/go/common/crypto/signature/signers/memory"
	"github.com/oasisprotocol/oasis-core/go/common/version"
	vaultState "github.com/oasisprotocol/oasis-core/go/consensus/cometbft/apps/vault/state"
	roothash "github.com/oasisprotocol/oasis-core/go/roothash/api"
	"github.com/oasisprotocol/oasis-core/go/roothash/api/commitment"
	upgradeAPI "github.com/oasisprotocol/oasis-core/go/upgrade/api"
	"math"
	"sort"
	"strings"
	"time"

	"pgregory.net/rapid"

	beacon "github.com/oasisprotocol/oasis-core/go/beacon/api"
	"github.com/oasisprotocol/oasis-core/go/common"
	"github.com/oasisprotocol/oasis-core/go/common/cbor"
	"github.com/oasisprotocol/oasis-core/go/common/crypto/signature"
	"github.com/oasisprotocol/oasis-core/go/common/node"
	"github.com/oasisprotocol/oasis-core/go/common/quantity"
	"github.com/oasisprotocol/oasis-core/go/consensus/api/transaction"
	cmtapi "github.com/oasisprotocol/oasis-core/go/consensus/cometbft/api"
	beaconState "github.com/oasisprotocol/oasis-core/go/consensus/cometbft/apps/beacon/state"
	governanceState "github.com/oasisprotocol/oasis-core/go/consensus/cometbft/apps/governance/state"
	registryState "github.com/oasisprotocol/oasis-core/go/consensus/cometbft/apps/registry/state"
	stakingState "github.com/oasisprotocol/oasis-core/go/consensus/cometbft/apps/staking/state"
	governance "github.com/oasisprotocol/oasis-core/go/governance/api"
	registry "github.com/oasisprotocol/oasis-core/go/registry/api"
	scheduler "github.com/oasisprotocol/oasis-core/go/scheduler/api"
	staking "github.com/oasisprotocol/oasis-core/go/staking/api"
	"github.com/oasisprotocol/oasis-core/go/storage/mkvs"
	vault "github.com/oasisprotocol/oasis-core/go/vault/api"
)

// Actor is somebody who can sign transactions.
type Actor struct {
	Name   string
	Signer signature.Signer
	Addr   staking.Address
	Entity *EntityKeys // set for entity actors
	Node   *NodeKeys   // set for node actors
	Owner  *EntityKeys // entity owning the node
}

// Actors lists entities, nodes (by identity key) and users.
func (w *World) Actors() []*Actor {
	var out []*Actor
	for _, ek := range w.Entities {
		out = append(out, &Actor{Name: ek.Name, Signer: ek.Signer, Addr: ek.Address(), Entity: ek})
		for _, nk := range ek.Nodes {
			out = append(out, &Actor{Name: nk.Name, Signer: nk.ID, Addr: staking.NewAddress(nk.ID.Public()), Node: nk, Owner: ek})
		}
	}
	for i, u := range w.Users {
		out = append(out, &Actor{Name: fmt.Sprintf("U%d", i), Signer: u, Addr: staking.NewAddress(u.Public())})
	}
	return out
}

// View is the harness's read-only view of a replica's committed state.
type View struct {
	R     *Replica
	Epoch beacon.EpochTime
	cx    *cmtapi.Context
	St    *stakingState.ImmutableState
	Gov   *governanceState.ImmutableState
	Reg   *registryState.ImmutableState
	ctx   context.Context
}

// NewView opens a view on the committed state (close it with Close).
func NewView(r *Replica) (*View, error) {
	cx := r.Srv.State().NewContext(cmtapi.ContextCheckTx)
	v := &View{R: r, cx: cx, ctx: context.Background()}
	v.St = stakingState.NewImmutableState(cx.State())
	v.Gov = governanceState.NewImmutableState(cx.State())
	v.Reg = registryState.NewImmutableState(cx.State())
	ep, _, err := beaconState.NewImmutableState(cx.State()).GetEpoch(v.ctx)
	if err != nil {
		cx.Close()
		return nil, err
	}
	v.Epoch = ep
	return v, nil
}

// VRFState returns the beacon's VRF state (nil with the insecure backend or before the first block).
func (v *View) VRFState() *beacon.VRFState {
	st, err := beaconState.NewImmutableState(v.cx.State()).VRFState(v.ctx)
	if err != nil {
		return nil
	}
	return st
}

// FutureEpochHeight returns the height at which the next epoch transition is scheduled (0 = not scheduled yet).
func (v *View) FutureEpochHeight() int64 {
	fe, err := beaconState.NewImmutableState(v.cx.State()).GetFutureEpoch(v.ctx)
	if err != nil || fe == nil {
		return 0
	}
	return fe.Height
}

// Close releases the view.
func (v *View) Close() { v.cx.Close() }

// Account reads an account (never nil).
func (v *View) Account(a staking.Address) *staking.Account {
	acct, err := v.St.Account(v.ctx, a)
	if err != nil || acct == nil {
		return &staking.Account{}
	}
	return acct
}

// SignTx signs and encodes a transaction.
func SignTx(signer signature.Signer, nonce uint64, fee *transaction.Fee, method transaction.MethodName, body any) []byte {
	tx := transaction.NewTransaction(nonce, fee, method, body)
	st, err := transaction.Sign(signer, tx)
	if err != nil {
		panic(err)
	}
	return cbor.Marshal(st)
}

// TxDesc describes a generated transaction for traces and oracles.
type TxDesc struct {
	Raw     []byte                 `json:"-"`
	Signer  string                 `json:"signer"`
	Addr    staking.Address        `json:"-"`
	Method  transaction.MethodName `json:"method"`
	Nonce   uint64                 `json:"nonce"`
	Gas     uint64                 `json:"gas"`
	Fee     uint64                 `json:"fee"`
	Mutated string                 `json:"mutated,omitempty"` // which single aspect was invalidated
	Note    string                 `json:"note,omitempty"`
	// ExpectAuthOK: the harness believes the transaction passes authentication (signature, nonce, fee balance).
	ExpectAuthOK bool `json:"expect_auth_ok"`
	// Resign re-signs the same transaction (signer, nonce, fee amount, method, body) with another gas limit.
	Resign func(gas uint64) []byte `json:"-"`
	// SweepDepth > 0: this is the n-th step of a gas sweep derived from another description.
	SweepDepth int `json:"sweep_depth,omitempty"`
}

// WithGas derives the description of the same transaction with another gas limit (nil when it cannot be re-signed).
func (d *TxDesc) WithGas(gas uint64, depth int) *TxDesc {
	if d.Resign == nil {
		return nil
	}
	c := *d
	c.Gas, c.Raw, c.SweepDepth = gas, d.Resign(gas), depth
	c.Mutated = "gas-sweep"
	return &c
}

// TxGen generates transactions against a view, tracking nonces inside the block being built.
type TxGen struct {
	W        *World
	V        *View
	Actors   []*Actor
	nonceAdd map[staking.Address]uint64
	// ExtraActors: vault accounts etc. discovered at run time are not signers.
	Vaults    []staking.Address
	vaultInfo map[staking.Address]*vault.Vault
	// Allow: preconditions of recorded findings that the generator may build (set by the check that owns the finding).
	Allow map[string]bool
	// vaultHolders: per vault, the addresses holding an enabled withdraw policy.
	vaultHolders map[staking.Address][]staking.Address
	// propNote: what the last generated parameter-change proposal carries (for labels)
	propNote string
	// Profile weights
	Profile string
	// foreignListed: node IDs that an entity transaction generated for THIS block adds to another entity's list.
	foreignListed map[signature.PublicKey]bool
}

// NewTxGen creates a generator for one block.
func NewTxGen(w *World, v *View, profile string) *TxGen {
	g := &TxGen{W: w, V: v, Actors: w.Actors(), nonceAdd: map[staking.Address]uint64{}, Profile: profile, vaultInfo: map[staking.Address]*vault.Vault{}, vaultHolders: map[staking.Address][]staking.Address{}}
	if w.Spec.WithVault {
		if vs, err := vaultState.NewImmutableState(v.cx.State()).Vaults(v.ctx); err == nil {
			sort.Slice(vs, func(i, j int) bool { a, b := vs[i].Address(), vs[j].Address(); return string(a[:]) < string(b[:]) })
			for _, vl := range vs {
				g.Vaults = append(g.Vaults, vl.Address())
				g.vaultInfo[vl.Address()] = vl
				if as, err := vaultState.NewImmutableState(v.cx.State()).AddressStates(v.ctx, vl.Address()); err == nil {
					var hs []staking.Address
					for h, st := range as {
						if !st.WithdrawPolicy.IsDisabled() {
							hs = append(hs, h)
						}
					}
					sort.Slice(hs, func(i, j int) bool { return string(hs[i][:]) < string(hs[j][:]) })
					if len(hs) > 0 {
						g.vaultHolders[vl.Address()] = hs
					}
				}
			}
		}
	}
	return g
}

// VaultStats returns the number of vaults and of enabled withdraw policies seen in the view.
func (g *TxGen) VaultStats() (vaults, holders int) {
	for _, hs := range g.vaultHolders {
		holders += len(hs)
	}
	return len(g.Vaults), holders
}

// actorByAddr returns the signing actor with the given address, if any.
func (g *TxGen) actorByAddr(a staking.Address) *Actor {
	for _, x := range g.Actors {
		if x.Addr == a {
			return x
		}
	}
	return nil
}

var extremeAmounts = func() []quantity.Quantity {
	var out []quantity.Quantity
	for _, s := range []string{"0", "1", "18446744073709551615", "18446744073709551616", "340282366920938463463374607431768211456",
		"57896044618658097711785492504343953926634992332820282019728792003956564819968",
		"115792089237316195423570985008687907853269984665640564039457584007913129639935"} {
		var qq quantity.Quantity
		if err := qq.UnmarshalText([]byte(s)); err != nil {
			panic(err)
		}
		out = append(out, qq)
	}
	return out
}()

func (g *TxGen) amount(t *rapid.T, bal *quantity.Quantity, label string) quantity.Quantity {
	b := bal.ToBigInt()
	switch m := rapid.IntRange(0, 11).Draw(t, label+"Mode"); {
	case m <= 5 && b.IsUint64() && b.Uint64() > 0:
		return q(uint64(rapid.Uint64Range(1, b.Uint64()).Draw(t, label)))
	case m == 6:
		return *bal.Clone() // everything
	case m == 7:
		out := bal.Clone()
		_ = out.Add(quantity.NewFromUint64(1)) // one more than owned
		return *out
	case m == 8:
		return extremeAmounts[rapid.IntRange(0, len(extremeAmounts)-1).Draw(t, label+"Extreme")]
	case m == 9:
		return q(0)
	default:
		return q(uint64(rapid.IntRange(1, 1000).Draw(t, label+"Small")))
	}
}

func (g *TxGen) pickActor(t *rapid.T, label string) *Actor {
	return g.Actors[rapid.IntRange(0, len(g.Actors)-1).Draw(t, label)]
}

func (g *TxGen) pickAddr(t *rapid.T, label string) staking.Address {
	switch rapid.IntRange(0, 11).Draw(t, label+"Kind") {
	case 0:
		return staking.CommonPoolAddress
	case 1:
		return staking.GovernanceDepositsAddress
	case 2:
		return staking.FeeAccumulatorAddress
	case 3:
		if len(g.Vaults) > 0 {
			return g.Vaults[rapid.IntRange(0, len(g.Vaults)-1).Draw(t, label+"Vault")]
		}
	case 4:
		var a staking.Address
		a[0] = 0
		a[20] = byte(rapid.IntRange(0, 3).Draw(t, label+"Fresh"))
		return a
	}
	return g.pickActor(t, label).Addr
}

// Gen draws one transaction: a valid template for the current state with (at a generated rate)
// exactly one aspect invalidated.
func (g *TxGen) Gen(t *rapid.T) *TxDesc {
	a := g.pickActor(t, "signer")
	acct := g.V.Account(a.Addr)
	bal := &acct.General.Balance
	var method transaction.MethodName
	var body any
	note := ""
	kinds := []string{"transfer", "transfer", "burn", "escrow", "escrow", "reclaim", "reclaim", "allow", "withdraw", "amend", "proposal", "vote", "vote",
		"vaultCreate", "vaultAction", "refresh", "unfreeze", "freshness", "deregister", "foreign"}
	if strings.Contains(g.Profile, "debond") {
		kinds = append(kinds, "escrow", "escrow", "escrow", "reclaim", "reclaim", "reclaim", "reclaim", "reclaim", "reclaim")
	}
	if g.W.Runtime != nil && !strings.Contains(g.Profile, "noroothash") {
		// (checks that keep their own model of the runtime's commitment pool switch this traffic off)
		kinds = append(kinds, "rtEvidence", "rtSubmitMsg", "rtCommit")
		if strings.Contains(g.Profile, "rtheavy") {
			kinds = append(kinds, "rtCommit", "rtCommit", "rtCommit", "rtCommit", "rtCommit", "rtCommit", "rtCommit", "rtCommit", "rtEvidence", "rtSubmitMsg", "rtSubmitMsg")
		}
	}
	if g.W.Runtime != nil && strings.Contains(g.Profile, "rtmsgs") {
		// incoming runtime messages: the runtime's queue (a few slots) fills up and further messages are refused
		kinds = append(kinds, "rtSubmitMsg", "rtSubmitMsg", "rtSubmitMsg", "rtSubmitMsg", "rtSubmitMsg", "rtSubmitMsg", "rtSubmitMsg", "rtSubmitMsg")
	}
	if strings.Contains(g.Profile, "gov") {
		// governance-heavy: proposals get submitted and (mostly) voted through by the entities
		kinds = append(kinds, "proposal", "proposal", "vote", "vote", "vote", "vote", "vote", "vote", "vote", "vote")
		// delegators take part: they vote on open proposals with the stake they delegated, and leave (reclaim everything)
		// while the proposal is still open
		kinds = append(kinds, "delegVote", "delegVote", "delegVote", "delegVote", "delegVote", "delegVote", "reclaimAll", "reclaimAll", "escrow", "escrow", "proposal", "proposal", "proposal")
	}
	if strings.Contains(g.Profile, "vault") && g.W.Spec.WithVault {
		kinds = append(kinds, "vaultCreate", "vaultAction", "vaultAction", "vaultAction", "vaultAction", "vaultAction", "vaultCancel", "withdraw", "withdraw", "withdraw", "withdraw", "fundVault", "fundVault")
	}
	if strings.Contains(g.Profile, "hostile") {
		kinds = append(kinds, "garbage", "garbage", "system", "oversized", "truncated", "newruntime", "newruntime")
	}
	kind := rapid.SampledFrom(kinds).Draw(t, "kind")
	switch kind {
	case "garbage":
		n := rapid.IntRange(0, 40).Draw(t, "garbageLen")
		raw := make([]byte, n)
		for i := range raw {
			raw[i] = rapid.Byte().Draw(t, "gb")
		}
		return &TxDesc{Raw: raw, Signer: "-", Method: "garbage", Note: "garbage bytes", Mutated: "garbage"}
	case "system":
		// a user-signed system method (only the proposer may inject these)
		raw := SignTx(a.Signer, uint64(rapid.IntRange(0, 1).Draw(t, "sysNonce")), nil, "consensus.Meta", map[string][]byte{"state_root": make([]byte, 32), "events_root": make([]byte, 32)})
		return &TxDesc{Raw: raw, Signer: a.Name, Addr: a.Addr, Method: "consensus.Meta", Note: "user-signed system method", Mutated: "system-method"}
	case "oversized":
		big := make([]byte, g.W.Spec.MaxTxSize+uint64(rapid.IntRange(1, 100).Draw(t, "over")))
		raw := SignTx(a.Signer, acct.General.Nonce, &transaction.Fee{Gas: 1000000}, staking.MethodTransfer, map[string][]byte{"pad": big})
		return &TxDesc{Raw: raw, Signer: a.Name, Addr: a.Addr, Method: staking.MethodTransfer, Note: "oversized", Mutated: "oversized"}
	case "truncated":
		d := g.finish(t, a, acct, staking.MethodTransfer, &staking.Transfer{To: a.Addr, Amount: q(1)}, "truncated", "")
		g.nonceAdd[a.Addr] = 0
		if len(d.Raw) > 2 {
			d.Raw = d.Raw[:rapid.IntRange(1, len(d.Raw)-1).Draw(t, "truncAt")]
		}
		d.Mutated, d.ExpectAuthOK = "truncated", false
		return d
	}
	if strings.Contains(g.Profile, "debond") && (kind == "escrow" || kind == "reclaim") && rapid.IntRange(0, 2).Draw(t, "debondChain") == 0 {
		// chains of delegations: an escrow account that itself delegates to another escrow account, so that one account
		// is the escrow of some debonding delegations and the delegator of others maturing at the same transition
		var ents []*Actor
		for _, x := range g.Actors {
			if x.Entity != nil {
				ents = append(ents, x)
			}
		}
		if len(ents) > 0 {
			a = ents[rapid.IntRange(0, len(ents)-1).Draw(t, "debondChainSigner")]
			acct = g.V.Account(a.Addr)
			bal = &acct.General.Balance
		}
	}
	if a.Entity == g.W.Entities[0] && (kind == "reclaim" || kind == "deregister") {
		// The anchor validator entity never reclaims its stake or deregisters: keeps the documented
		// precondition of C10 (enough stake-eligible validators remain) true by construction.
		kind = "transfer"
	}
	switch kind {
	case "transfer":
		method, body = staking.MethodTransfer, &staking.Transfer{To: g.pickAddr(t, "to"), Amount: g.amount(t, bal, "amt")}
	case "rtEvidence":
		// equivocation evidence: two different proposal headers for one round signed by the same key - a registered
		// node's key (slashed) or a key that belongs to no node at all ("fake but valid" evidence)
		var accused signature.Signer
		if na := g.nodeActor(t, a); na != nil && na.Node != nil && rapid.Bool().Draw(t, "evRegistered") {
			accused = na.Node.ID
		} else {
			accused = memorySigner.NewTestSigner(fmt.Sprintf("verif accused %d", rapid.IntRange(0, 3).Draw(t, "evAccused")))
		}
		round := uint64(rapid.IntRange(0, 3).Draw(t, "evRound"))
		mk := func(tag byte) commitment.Proposal {
			p := commitment.Proposal{NodeID: accused.Public(), Header: commitment.ProposalHeader{Round: round, PreviousHash: hash.NewFromBytes([]byte{1}), BatchHash: hash.NewFromBytes([]byte{tag})}}
			if err := p.Sign(accused, g.W.Runtime.ID); err != nil {
				panic(err)
			}
			return p
		}
		tagB := byte(3)
		if rapid.IntRange(0, 5).Draw(t, "evSameHeader") == 0 {
			tagB = 2 // no equivocation: rejected by the stateless check
		}
		method, body = roothash.MethodEvidence, &roothash.Evidence{ID: g.W.Runtime.ID, EquivocationProposal: &roothash.EquivocationProposalEvidence{ProposalA: mk(2), ProposalB: mk(tagB)}}
	case "rtCommit":
		// an executor commitment by some node (committee member or not) naming some node as the scheduler, for the
		// round after the runtime's latest block (or another round), with an agreeing-looking, odd or failure result
		rs, err := g.V.RuntimeState(g.W.Runtime.ID)
		na := g.nodeActor(t, a)
		if err != nil || rs == nil || rs.LastBlock == nil || na == nil || na.Node == nil {
			method, body = staking.MethodTransfer, &staking.Transfer{To: g.pickAddr(t, "to"), Amount: g.amount(t, bal, "amt")}
			break
		}
		sched := g.nodeActor(t, g.Actors[rapid.IntRange(0, len(g.Actors)-1).Draw(t, "commitSched")])
		if rs.Committee != nil && rapid.IntRange(0, 3).Draw(t, "commitMember") > 0 {
			// mostly: a committee member commits, naming the highest-priority scheduler of the next round (itself, in
			// half of these cases), so that rounds actually start, time out, resolve and fail
			var members []*Actor
			var top *Actor
			for _, x := range g.Actors {
				if x.Node == nil {
					continue
				}
				for _, m := range rs.Committee.Members {
					if m.PublicKey.Equal(x.Node.ID.Public()) {
						members = append(members, x)
						if rank, ok := rs.Committee.SchedulerRank(rs.LastBlock.Header.Round+1, m.PublicKey); ok && rank == 0 {
							top = x
						}
						break
					}
				}
			}
			if len(members) > 0 {
				na = members[rapid.IntRange(0, len(members)-1).Draw(t, "commitWho")]
				if top != nil {
					sched = top
					if rapid.Bool().Draw(t, "commitByScheduler") {
						na = top
					}
				}
			}
		}
		a, acct = na, g.V.Account(na.Addr)
		bal = &acct.General.Balance
		var round *uint64
		if rapid.IntRange(0, 4).Draw(t, "commitOtherRound") == 0 {
			rr := rs.LastBlock.Header.Round + uint64(rapid.IntRange(0, 3).Draw(t, "commitRound"))
			round = &rr
		}
		res := ExecutorResult{Failure: rapid.IntRange(0, 4).Draw(t, "commitFailure") == 0,
			StateRoot: hash.NewFromBytes([]byte{byte(rapid.IntRange(0, 1).Draw(t, "commitState"))}), IORoot: hash.NewFromBytes([]byte{9})}
		ec, err := NewExecutorCommitment(g.W.Runtime.ID, na.Node, sched.Node.ID.Public(), rs.LastBlock, round, res)
		if err != nil {
			panic(err)
		}
		method, body = roothash.MethodExecutorCommit, &roothash.ExecutorCommit{ID: g.W.Runtime.ID, Commits: []commitment.ExecutorCommitment{*ec}}
	case "rtSubmitMsg":
		method, body = roothash.MethodSubmitMsg, &roothash.SubmitMsg{ID: g.W.Runtime.ID, Tag: uint64(rapid.IntRange(0, 2).Draw(t, "msgTag")),
			Fee: q(uint64(rapid.IntRange(0, 3).Draw(t, "msgFee"))), Tokens: q(uint64(rapid.SampledFrom([]int{0, 1, 7, 50}).Draw(t, "msgTokens"))), Data: []byte{byte(rapid.IntRange(0, 255).Draw(t, "msgData"))}}
	case "fundVault":
		to := a.Addr
		if len(g.Vaults) > 0 {
			to = g.Vaults[rapid.IntRange(0, len(g.Vaults)-1).Draw(t, "fundVaultIdx")]
		}
		method, body = staking.MethodTransfer, &staking.Transfer{To: to, Amount: q(uint64(rapid.SampledFrom([]int{1, 3, 7, 50}).Draw(t, "fundVaultAmt")))}
	case "burn":
		method, body = staking.MethodBurn, &staking.Burn{Amount: g.amount(t, bal, "amt")}
	case "escrow":
		to := g.W.Entities[rapid.IntRange(0, len(g.W.Entities)-1).Draw(t, "escrowTo")].Address()
		if rapid.IntRange(0, 9).Draw(t, "escrowOdd") == 0 {
			to = g.pickAddr(t, "escrowToAny")
		}
		method, body = staking.MethodAddEscrow, &staking.Escrow{Account: to, Amount: g.amount(t, bal, "amt")}
	case "reclaim":
		// prefer an existing delegation of the signer
		dels, _ := g.V.St.DelegationsFor(g.V.ctx, a.Addr)
		var tos []staking.Address
		for to := range dels {
			tos = append(tos, to)
		}
		sort.Slice(tos, func(i, j int) bool { return string(tos[i][:]) < string(tos[j][:]) })
		if len(tos) > 0 && rapid.IntRange(0, 9).Draw(t, "reclaimReal") > 0 {
			to := tos[rapid.IntRange(0, len(tos)-1).Draw(t, "reclaimTo")]
			method, body = staking.MethodReclaimEscrow, &staking.ReclaimEscrow{Account: to, Shares: g.amount(t, &dels[to].Shares, "shares")}
		} else {
			method, body = staking.MethodReclaimEscrow, &staking.ReclaimEscrow{Account: g.pickAddr(t, "reclaimAny"), Shares: g.amount(t, bal, "shares")}
		}
	case "delegVote", "reclaimAll":
		// A delegator takes part in a vote and leaves: a script whose next step is derived from the chain state. For an
		// open proposal P the delegator D(P) (a user account, not an entity) first delegates most of its balance to a
		// current validator entity E(P), then votes on P, then reclaims its WHOLE delegation while P is still open.
		// (kind "reclaimAll" jumps to the last step for any signer that holds a delegation.)
		props, _ := g.V.Gov.ActiveProposals(g.V.ctx)
		var users []*Actor
		for _, x := range g.Actors {
			if x.Entity == nil && x.Node == nil {
				users = append(users, x)
			}
		}
		scripted := false
		if kind == "delegVote" && len(props) > 0 && len(users) > 0 && len(g.W.Entities) > 0 {
			p := props[rapid.IntRange(0, len(props)-1).Draw(t, "dvoteProp")]
			a = users[int(p.ID)%len(users)]
			acct = g.V.Account(a.Addr)
			bal = &acct.General.Balance
			to := g.W.Entities[int(p.ID)%len(g.W.Entities)].Address()
			dels, _ := g.V.St.DelegationsFor(g.V.ctx, a.Addr)
			voted := false
			if votes, err := g.V.Gov.Votes(g.V.ctx, p.ID); err == nil {
				for _, v := range votes {
					voted = voted || v.Voter == a.Addr
				}
			}
			switch {
			case dels[to] == nil || dels[to].Shares.IsZero():
				amt := bal.Clone()
				if rest := quantity.NewFromUint64(g.W.Spec.MinTransact + 2000); amt.Cmp(rest) > 0 {
					_ = amt.Sub(rest)
				}
				if voted {
					break // the script is over for this proposal
				}
				method, body, note, scripted = staking.MethodAddEscrow, &staking.Escrow{Account: to, Amount: *amt}, "delegator script: delegate", true
			case !voted:
				method, body, note, scripted = governance.MethodCastVote, &governance.ProposalVote{ID: p.ID, Vote: governance.Vote(rapid.SampledFrom([]int{1, 2, 3, 1, 2, 3, 1, 0, 4, 255}).Draw(t, "dvote"))}, "by a delegator", true
			default:
				method, body, note, scripted = staking.MethodReclaimEscrow, &staking.ReclaimEscrow{Account: to, Shares: *dels[to].Shares.Clone()}, "whole delegation", true
			}
		}
		if !scripted {
			var cands []*Actor
			for _, x := range g.Actors {
				if x.Entity != nil && !AllowZeroVotingStake {
					continue // (entities leaving with their whole self-delegation: precondition of SigZeroVotingStake)
				}
				if dels, err := g.V.St.DelegationsFor(g.V.ctx, x.Addr); err == nil && len(dels) > 0 {
					cands = append(cands, x)
				}
			}
			if len(cands) > 0 {
				a = cands[rapid.IntRange(0, len(cands)-1).Draw(t, "delegator")]
				acct = g.V.Account(a.Addr)
				bal = &acct.General.Balance
			}
			dels, _ := g.V.St.DelegationsFor(g.V.ctx, a.Addr)
			var tos []staking.Address
			for to := range dels {
				tos = append(tos, to)
			}
			sort.Slice(tos, func(i, j int) bool { return string(tos[i][:]) < string(tos[j][:]) })
			if len(tos) > 0 {
				to := tos[rapid.IntRange(0, len(tos)-1).Draw(t, "reclaimAllTo")]
				method, body = staking.MethodReclaimEscrow, &staking.ReclaimEscrow{Account: to, Shares: *dels[to].Shares.Clone()}
				note = "whole delegation"
			} else {
				method, body = staking.MethodReclaimEscrow, &staking.ReclaimEscrow{Account: g.pickAddr(t, "reclaimAny"), Shares: g.amount(t, bal, "shares")}
			}
		}
	case "allow":
		method, body = staking.MethodAllow, &staking.Allow{Beneficiary: g.pickAddr(t, "beneficiary"), Negative: rapid.Bool().Draw(t, "neg"), AmountChange: g.amount(t, bal, "amt")}
	case "withdraw":
		if len(g.Vaults) > 0 && rapid.Bool().Draw(t, "withdrawFromVault") {
			// withdraw from a vault (the vault application's withdraw hook authorizes against the signer's policy and
			// accounts the amount; the vault may well hold less than the authorized amount)
			va := g.Vaults[rapid.IntRange(0, len(g.Vaults)-1).Draw(t, "withdrawVault")]
			if hs := g.vaultHolders[va]; len(hs) > 0 && rapid.IntRange(0, 3).Draw(t, "withdrawByPolicyHolder") > 0 {
				if x := g.actorByAddr(hs[rapid.IntRange(0, len(hs)-1).Draw(t, "withdrawHolder")]); x != nil {
					a, acct = x, g.V.Account(x.Addr)
					bal = &acct.General.Balance
				}
			} else if rapid.Bool().Draw(t, "withdrawByLikelyHolder") {
				x := g.Actors[rapid.IntRange(0, minInt(len(g.Actors)-1, 3)).Draw(t, "withdrawLikelyHolder")]
				a, acct = x, g.V.Account(x.Addr)
				bal = &acct.General.Balance
			}
			amt := q(uint64(rapid.SampledFrom([]int{0, 1, 5, 10, 11, 1000}).Draw(t, "withdrawVaultAmt")))
			method, body = staking.MethodWithdraw, &staking.Withdraw{From: va, Amount: amt}
			note = "from vault"
			break
		}
		from := g.pickActor(t, "withdrawFrom")
		fb := g.V.Account(from.Addr)
		amt := g.amount(t, &fb.General.Balance, "amt")
		if al, ok := fb.General.Allowances[a.Addr]; ok && rapid.Bool().Draw(t, "withinAllowance") {
			amt = g.amount(t, &al, "amtAllow")
		}
		method, body = staking.MethodWithdraw, &staking.Withdraw{From: from.Addr, Amount: amt}
	case "amend":
		start := g.V.Epoch + beacon.EpochTime(rapid.IntRange(0, 5).Draw(t, "amendStart"))
		rate := q(uint64(rapid.SampledFrom([]int{0, 1, 5000, 50000, 100000, 100001}).Draw(t, "rate")))
		am := staking.CommissionSchedule{Rates: []staking.CommissionRateStep{{Start: start, Rate: rate}}}
		if rapid.Bool().Draw(t, "withBounds") {
			am.Bounds = []staking.CommissionRateBoundStep{{Start: start, RateMin: q(0), RateMax: q(uint64(rapid.SampledFrom([]int{0, 50000, 100000}).Draw(t, "rateMax")))}}
		}
		method, body = staking.MethodAmendCommissionSchedule, &staking.AmendCommissionSchedule{Amendment: am}
	case "proposal":
		pc := g.proposal(t)
		method, body = governance.MethodSubmitProposal, pc
		if pc.ChangeParameters != nil {
			note = "change-parameters:" + pc.ChangeParameters.Module + g.propNote
		}
	case "vote":
		props, _ := g.V.Gov.ActiveProposals(g.V.ctx)
		id := uint64(rapid.IntRange(0, 4).Draw(t, "voteID"))
		if len(props) > 0 && rapid.IntRange(0, 9).Draw(t, "voteReal") > 0 {
			id = props[rapid.IntRange(0, len(props)-1).Draw(t, "voteProp")].ID
		}
		// (vote kinds outside yes/no/abstain are accepted and stored by the application: they must not matter when the proposal closes)
		vote := governance.Vote(rapid.SampledFrom([]int{0, 1, 2, 3, 4, 1, 2, 3, 255}).Draw(t, "vote"))
		if strings.Contains(g.Profile, "gov") && rapid.IntRange(0, 3).Draw(t, "voteYes") > 0 {
			vote = governance.VoteYes
			// (votes count for validator entities: let an entity sign)
			if ents := g.W.Entities; len(ents) > 0 {
				if x := g.actorByAddr(ents[rapid.IntRange(0, len(ents)-1).Draw(t, "voteEntity")].Address()); x != nil {
					a, acct = x, g.V.Account(x.Addr)
					bal = &acct.General.Balance
				}
			}
		}
		method, body = governance.MethodCastVote, &governance.ProposalVote{ID: id, Vote: vote}
	case "vaultCreate":
		other := g.pickActor(t, "vaultAdmin2")
		auth := vault.Authority{Addresses: []staking.Address{a.Addr, other.Addr}, Threshold: uint8(rapid.SampledFrom([]int{1, 1, 1, 2, 0, 3}).Draw(t, "vaultThreshold"))}
		method, body = vault.MethodCreate, &vault.Create{AdminAuthority: auth, SuspendAuthority: vault.Authority{Addresses: []staking.Address{a.Addr}, Threshold: 1}}
	case "vaultAction":
		va := g.pickAddr(t, "vault")
		nonce := uint64(rapid.IntRange(0, 2).Draw(t, "vaultNonce"))
		if len(g.Vaults) > 0 && rapid.IntRange(0, 5).Draw(t, "vaultReal") > 0 {
			// an existing vault, its current action nonce, signed by one of its admins (mostly)
			va = g.Vaults[rapid.IntRange(0, len(g.Vaults)-1).Draw(t, "vaultIdx")]
			vl := g.vaultInfo[va]
			if rapid.IntRange(0, 5).Draw(t, "vaultNonceReal") > 0 {
				nonce = vl.Nonce
			}
			if rapid.IntRange(0, 5).Draw(t, "vaultAdmin") > 0 && len(vl.AdminAuthority.Addresses) > 0 {
				adm := vl.AdminAuthority.Addresses[rapid.IntRange(0, len(vl.AdminAuthority.Addresses)-1).Draw(t, "vaultAdminIdx")]
				if x := g.actorByAddr(adm); x != nil {
					a, acct = x, g.V.Account(x.Addr)
					bal = &acct.General.Balance
				}
			}
		}
		var act vault.Action
		switch rapid.IntRange(0, 5).Draw(t, "vaultAct") {
		case 0:
			act.Suspend = &vault.ActionSuspend{}
		case 1:
			act.Resume = &vault.ActionResume{}
		case 2:
			act.ExecuteMessage = &vault.ActionExecuteMessage{Method: staking.MethodTransfer, Body: cbor.Marshal(&staking.Transfer{To: a.Addr, Amount: q(uint64(rapid.IntRange(0, 100).Draw(t, "vaultAmt")))})}
		default:
			// (content drawn from a small domain so that several admins can authorize the SAME action)
			who := g.Actors[rapid.IntRange(0, minInt(len(g.Actors)-1, 3)).Draw(t, "vaultPolicyFor")]
			act.UpdateWithdrawPolicy = &vault.ActionUpdateWithdrawPolicy{Address: who.Addr, Policy: vault.WithdrawPolicy{
				LimitAmount:   q(uint64(rapid.SampledFrom([]int{0, 10, 10, 1000}).Draw(t, "vaultLimit"))),
				LimitInterval: uint64(rapid.SampledFrom([]int{0, 2, 10, 10}).Draw(t, "vaultInterval")),
			}}
		}
		method, body = vault.MethodAuthorizeAction, &vault.AuthorizeAction{Vault: va, Nonce: nonce, Action: act}
	case "vaultCancel":
		va := g.pickAddr(t, "vaultC")
		nonce := uint64(rapid.IntRange(0, 2).Draw(t, "vaultCNonce"))
		if len(g.Vaults) > 0 && rapid.IntRange(0, 5).Draw(t, "vaultCReal") > 0 {
			va = g.Vaults[rapid.IntRange(0, len(g.Vaults)-1).Draw(t, "vaultCIdx")]
			if vl := g.vaultInfo[va]; rapid.Bool().Draw(t, "vaultCNonceReal") {
				nonce = vl.Nonce
			}
		}
		method, body = vault.MethodCancelAction, &vault.CancelAction{Vault: va, Nonce: nonce}
	case "refresh":
		// a node (re-)registers itself; when the signer is not a node, pick one and sign with it
		na := g.nodeActor(t, a)
		a, acct = na, g.V.Account(na.Addr)
		exp := g.V.Epoch + beacon.EpochTime(rapid.IntRange(1, int(g.W.Spec.MaxNodeExp)).Draw(t, "exp"))
		nd := g.W.NodeDescriptor(na.Owner, na.Node, exp, node.RoleValidator, true)
		if g.Profile != "" && rapid.IntRange(0, 2).Draw(t, "changeRoles") == 0 {
			// an update that changes the node's roles / runtimes (role removal of an active node is rejected after
			// the stake claims have been recomputed)
			roles := node.RolesMask(0)
			if rapid.Bool().Draw(t, "roleVal") {
				roles |= node.RoleValidator
			}
			if g.W.Runtime != nil && rapid.Bool().Draw(t, "roleCompute") {
				roles |= node.RoleComputeWorker
			}
			if rapid.IntRange(0, 3).Draw(t, "roleObserver") == 0 && g.W.Runtime != nil {
				roles |= node.RoleObserver
			}
			if roles != 0 {
				nd = g.W.NodeDescriptorWithRoles(na.Owner, na.Node, exp, roles)
				if roles&node.RoleObserver != 0 && len(nd.Runtimes) == 0 {
					nd.Runtimes = []*node.Runtime{{ID: g.W.Runtime.ID}}
				}
				note = "role change"
			}
		}
		sn, err := node.MultiSignNode(na.Node.Signers(), registry.RegisterNodeSignatureContext, nd)
		if err != nil {
			panic(err)
		}
		method, body = registry.MethodRegisterNode, sn
	case "unfreeze":
		na := g.nodeActor(t, a)
		method, body = registry.MethodUnfreezeNode, &registry.UnfreezeNode{NodeID: na.Node.ID.Public()}
		if na.Owner != nil {
			// unfreeze is signed by the entity
			for _, x := range g.Actors {
				if x.Entity == na.Owner {
					a, acct = x, g.V.Account(x.Addr)
				}
			}
		}
	case "freshness":
		var blob [32]byte
		blob[0] = byte(rapid.IntRange(0, 255).Draw(t, "fresh"))
		method, body = registry.MethodProveFreshness, blob
	case "deregister":
		method, body = registry.MethodDeregisterEntity, &registry.DeregisterEntity{}
	case "newruntime":
		// a new compute runtime registered by an entity (deployment in the future, as required for new runtimes)
		rt := g.NewRuntimeDescriptor(t, a)
		switch rapid.IntRange(0, 5).Draw(t, "newRtOverLimit") {
		case 0:
			// passes every check of the registry and is rejected by the roothash application it is announced to
			rt.Executor.MaxMessages = 33 + uint32(rapid.IntRange(0, 1000).Draw(t, "newRtMaxMessages"))
			note = "new runtime: executor max messages above the roothash limit"
		case 1:
			rt.TxnScheduler.MaxInMessages = 33 + uint32(rapid.IntRange(0, 1000).Draw(t, "newRtMaxInMessages"))
			note = "new runtime: max incoming messages above the roothash limit"
		}
		method, body = registry.MethodRegisterRuntime, rt
	default:
		// methods the harness cannot build validly: must fail cleanly
		m := rapid.SampledFrom([]string{"beacon.SetEpoch", "beacon.VRFProve", "keymanager.UpdatePolicy", "roothash.ExecutorCommit", "staking.Nope", "x"}).Draw(t, "foreignMethod")
		method, body = transaction.MethodName(m), map[string]int{"a": 1}
		note = "unbuildable method"
	}
	if strings.Contains(g.Profile, "hostile") && rapid.IntRange(0, 3).Draw(t, "altenc") == 0 {
		// the same body in an alternative CBOR encoding a lenient decoder may accept (byte strings as integer arrays)
		if alt, changed := AltEncode(t, body); changed {
			body, note = alt, note+" alt-encoded"
		}
	}
	return g.finish(t, a, acct, method, body, kind, note)
}

// AltEncode re-encodes a transaction body with some byte strings (<= 64 bytes) written as CBOR arrays of
// integers, optionally one element longer or shorter. Fixed-size byte array types are filled from such
// arrays by the decoder without going through their own validation.
func AltEncode(t *rapid.T, body any) (cbor.RawMessage, bool) {
	var generic any
	if err := cbor.Unmarshal(cbor.Marshal(body), &generic); err != nil {
		return nil, false
	}
	changed := false
	var walk func(v any) any
	walk = func(v any) any {
		switch x := v.(type) {
		case []byte:
			if len(x) == 0 || len(x) > 64 || rapid.IntRange(0, 2).Draw(t, "altThis") != 0 {
				return x
			}
			changed = true
			arr := make([]any, 0, len(x)+1)
			for _, b := range x {
				arr = append(arr, uint64(b))
			}
			switch rapid.IntRange(0, 5).Draw(t, "altLen") {
			case 0:
				arr = append(arr, uint64(1))
			case 1:
				arr = arr[:len(arr)-1]
			case 2, 3:
				// (leading bytes often carry flags / type tags)
				hi := len(arr) - 1
				if rapid.Bool().Draw(t, "altHead") && hi > 7 {
					hi = 7
				}
				arr[rapid.IntRange(0, hi).Draw(t, "altPos")] = uint64(rapid.IntRange(0, 255).Draw(t, "altVal"))
			}
			return arr
		case map[any]any:
			keys := make([]string, 0, len(x))
			byName := map[string]any{}
			for k := range x {
				ks := fmt.Sprint(k)
				keys = append(keys, ks)
				byName[ks] = k
			}
			sort.Strings(keys)
			for _, ks := range keys {
				x[byName[ks]] = walk(x[byName[ks]])
			}
			return x
		case []any:
			for i := range x {
				x[i] = walk(x[i])
			}
			return x
		}
		return v
	}
	out := walk(generic)
	if !changed {
		return nil, false
	}
	return cbor.Marshal(out), true
}

func (g *TxGen) nodeActor(t *rapid.T, a *Actor) *Actor {
	if a.Node != nil {
		return a
	}
	var nodes []*Actor
	for _, x := range g.Actors {
		if x.Node != nil {
			nodes = append(nodes, x)
		}
	}
	return nodes[rapid.IntRange(0, len(nodes)-1).Draw(t, "nodeActor")]
}

func (g *TxGen) proposal(t *rapid.T) *governance.ProposalContent {
	pc := &governance.ProposalContent{Metadata: &governance.ProposalMetadata{Title: "verif proposal", Description: "generated"}}
	propKind := rapid.IntRange(0, 7).Draw(t, "propKind")
	if strings.Contains(g.Profile, "gov") && rapid.IntRange(0, 3).Draw(t, "propOtherModule") == 0 {
		propKind = 8 + rapid.IntRange(0, 1).Draw(t, "propOtherKind")
	}
	if strings.Contains(g.Profile, "gov") && rapid.Bool().Draw(t, "propCancelPending") {
		if ups, err := g.V.Gov.PendingUpgrades(g.V.ctx); err == nil && len(ups) > 0 {
			propKind = 0 // a pending upgrade exists: cancellations of it are what makes the pending-upgrade records matter
		}
	}
	switch propKind {
	case 6, 7:
		// a software upgrade scheduled far in the future (never reached inside a generated history)
		pc.Upgrade = &governance.UpgradeProposal{Descriptor: upgradeAPI.Descriptor{
			Versioned: cbor.NewVersioned(upgradeAPI.LatestDescriptorVersion),
			Handler:   upgradeAPI.HandlerName(fmt.Sprintf("verif-upgrade-%d", rapid.IntRange(0, 2).Draw(t, "upgHandler"))),
			Target:    version.Versions,
			Epoch:     g.V.Epoch + 5000 + beacon.EpochTime(rapid.IntRange(0, 3).Draw(t, "upgEpoch")),
		}}
		if strings.Contains(g.Profile, "gov") && rapid.IntRange(0, 2).Draw(t, "upgReachable") > 0 {
			// ... or one that is REACHED inside the history and executed in place: the running binary is the target version and
			// the migration handler is one that is built in and has no startup stage (two of the three change consensus
			// state in their EndBlock stage; replicas without an upgrade manager skip upgrades altogether)
			pc.Upgrade.Descriptor.Epoch = g.V.Epoch + beacon.EpochTime(g.W.Spec.GovVotingPeriod+1) + beacon.EpochTime(rapid.IntRange(0, 2).Draw(t, "upgSoon"))
			pc.Upgrade.Descriptor.Handler = upgradeAPI.HandlerName(rapid.SampledFrom([]string{"consensus261", "consensus240", "empty"}).Draw(t, "upgRealHandler"))
		}
	case 0:
		pc.CancelUpgrade = &governance.CancelUpgradeProposal{ProposalID: uint64(rapid.IntRange(0, 3).Draw(t, "cancelID"))}
		// mostly aimed at an upgrade proposal that really passed (a pending upgrade exists for it)
		if props, err := g.V.Gov.Proposals(g.V.ctx); err == nil && rapid.IntRange(0, 3).Draw(t, "cancelReal") > 0 {
			var ids []uint64
			for _, p := range props {
				if p.Content.Upgrade != nil && p.State == governance.StatePassed {
					ids = append(ids, p.ID)
				}
			}
			if len(ids) > 0 {
				pc.CancelUpgrade.ProposalID = ids[rapid.IntRange(0, len(ids)-1).Draw(t, "cancelRealID")]
			}
		}
	case 1, 2:
		v := q(uint64(rapid.IntRange(0, 20).Draw(t, "newMin")))
		ch := staking.ConsensusParameterChanges{MinTransferAmount: &v}
		if rapid.Bool().Draw(t, "alsoDeleg") {
			v2 := q(uint64(rapid.IntRange(0, 20).Draw(t, "newMinDeleg")))
			ch.MinDelegationAmount = &v2
		}
		// further staking parameters that later transactions of the same block would notice (transfers disabled, a
		// minimum transact balance, delegation disabled, an allowance limit) ...
		g.propNote = ""
		if rapid.Bool().Draw(t, "propWide") {
			g.propNote += "+block-visible"
			yes := true
			switch rapid.IntRange(0, 4).Draw(t, "propWideKind") {
			case 4:
				// another split of the transaction fees between the proposer, the voters and the next proposer (any
				// combination that is not all zero is a valid parameter set) - fees persisted for the next block under the
				// old weights are then disbursed under the new ones
				g.propNote += "+fee-split"
				wp, wv, wq := q(uint64(rapid.IntRange(0, 2).Draw(t, "newWP"))), q(uint64(rapid.IntRange(0, 2).Draw(t, "newWV"))), q(uint64(rapid.IntRange(0, 2).Draw(t, "newWQ")))
				if wp.IsZero() && wv.IsZero() && wq.IsZero() {
					wp = q(1)
				}
				ch.FeeSplitWeightPropose, ch.FeeSplitWeightVote, ch.FeeSplitWeightNextPropose = &wp, &wv, &wq
			case 0:
				ch.DisableTransfers = &yes
			case 1:
				v3 := q(uint64(rapid.SampledFrom([]int{1, 1000, 1 << 40}).Draw(t, "newMinTransact")))
				ch.MinTransactBalance = &v3
			case 2:
				ch.DisableDelegation = &yes
			default:
				var n uint32
				ch.MaxAllowances = &n
			}
		}
		// ... and change sets that are well-formed but give an INVALID parameter set (the proposal must be refused)
		if rapid.IntRange(0, 2).Draw(t, "propInvalid") == 0 {
			g.propNote += "+invalid-result"
			v4 := q(uint64(100_001 + rapid.IntRange(0, 5).Draw(t, "overUnity")))
			ch.MinCommissionRate = &v4
		}
		pc.ChangeParameters = &governance.ChangeParametersProposal{Module: staking.ModuleName, Changes: cbor.Marshal(ch)}
	case 8:
		// parameters of the other modules, changed in the middle of a history to other ordinary values: what was
		// elected, stored or set aside under the old values meets the new ones
		g.propNote = "+other-values"
		switch rapid.IntRange(0, 2).Draw(t, "otherModule") {
		case 0:
			maxV := rapid.IntRange(1, 4).Draw(t, "newMaxValidators")
			minV := 1
			ch := scheduler.ConsensusParameterChanges{MaxValidators: &maxV, MinValidators: &minV}
			if rapid.Bool().Draw(t, "newDistribution") {
				d := scheduler.VotingPowerDistribution(rapid.SampledFrom([]scheduler.VotingPowerDistribution{scheduler.VotingPowerDistributionLinear, scheduler.VotingPowerDistributionSqrt}).Draw(t, "vpd"))
				ch.VotingPowerDistribution = &d
			}
			pc.ChangeParameters = &governance.ChangeParametersProposal{Module: scheduler.ModuleName, Changes: cbor.Marshal(ch)}
		case 1:
			exp := beacon.EpochTime(rapid.IntRange(1, 8).Draw(t, "newMaxNodeExp"))
			ch := registry.ConsensusParameterChanges{MaxNodeExpiration: &exp}
			if rapid.Bool().Draw(t, "newMaxDeployments") {
				n := uint8(rapid.IntRange(1, 5).Draw(t, "maxDeployments"))
				ch.MaxRuntimeDeployments = &n
			}
			pc.ChangeParameters = &governance.ChangeParametersProposal{Module: registry.ModuleName, Changes: cbor.Marshal(ch)}
		default:
			mm, mi := uint32(rapid.IntRange(0, 40).Draw(t, "newMaxMsgs")), uint32(rapid.IntRange(0, 40).Draw(t, "newMaxInMsgs"))
			age, past := uint64(rapid.IntRange(0, 10).Draw(t, "newEvidenceAge")), uint64(rapid.IntRange(0, 10).Draw(t, "newPastRoots"))
			ch := roothash.ConsensusParameterChanges{MaxRuntimeMessages: &mm, MaxInRuntimeMessages: &mi, MaxEvidenceAge: &age, MaxPastRootsStored: &past}
			pc.ChangeParameters = &governance.ChangeParametersProposal{Module: roothash.ModuleName, Changes: cbor.Marshal(ch)}
		}
	case 9:
		// further staking parameters with ordinary values: debonding interval, reward factors, commission floor, allowances
		g.propNote = "+other-values"
		ch := staking.ConsensusParameterChanges{}
		if rapid.Bool().Draw(t, "chDebonding") {
			d := beacon.EpochTime(rapid.IntRange(1, 4).Draw(t, "newDebonding"))
			ch.DebondingInterval = &d
		}
		if rapid.Bool().Draw(t, "chRewardFactors") {
			a, b := q(uint64(rapid.IntRange(0, 3).Draw(t, "newFactorSigned"))), q(uint64(rapid.IntRange(0, 3).Draw(t, "newFactorProposed")))
			ch.RewardFactorEpochSigned, ch.RewardFactorBlockProposed = &a, &b
		}
		if rapid.Bool().Draw(t, "chMinCommission") {
			c := q(uint64(rapid.SampledFrom([]int{0, 1, 50_000, 100_000}).Draw(t, "newMinCommission")))
			ch.MinCommissionRate = &c
		}
		if rapid.Bool().Draw(t, "chAllowances") {
			n := uint32(rapid.IntRange(0, 3).Draw(t, "newMaxAllowances"))
			ch.MaxAllowances = &n
		}
		esc := rapid.Bool().Draw(t, "newAllowEscrowMessages")
		ch.AllowEscrowMessages = &esc
		pc.ChangeParameters = &governance.ChangeParametersProposal{Module: staking.ModuleName, Changes: cbor.Marshal(ch)}
	case 3:
		vp := beacon.EpochTime(rapid.IntRange(1, 3).Draw(t, "newVoting"))
		ch := governance.ConsensusParameterChanges{VotingPeriod: &vp}
		pc.ChangeParameters = &governance.ChangeParametersProposal{Module: governance.ModuleName, Changes: cbor.Marshal(ch)}
	case 4:
		pc.ChangeParameters = &governance.ChangeParametersProposal{Module: rapid.SampledFrom([]string{"staking", "nope", "registry"}).Draw(t, "badModule"), Changes: cbor.Marshal(map[string]int{"bogus": 1})}
	default:
		pc.Metadata = nil // invalid: metadata required
		pc.CancelUpgrade = &governance.CancelUpgradeProposal{ProposalID: 0}
	}
	return pc
}

// GenRefusedParameterChange builds a governance.SubmitProposal by an account that can afford the deposit, carrying a
// staking parameter change that later transactions of the same block would notice (transfers disabled, a huge minimum
// transact balance, ...) together with a change that makes the resulting parameter set INVALID: the proposal passes
// authentication and every governance check and is refused by the module it concerns. nil when nobody can afford it.
func (g *TxGen) GenRefusedParameterChange(t *rapid.T) *TxDesc {
	var rich []*Actor
	for _, x := range g.Actors {
		if bal := g.V.Account(x.Addr).General.Balance.ToBigInt(); bal.IsUint64() && bal.Uint64() >= g.W.Spec.GovMinDeposit+g.W.Spec.MinTransact+2000 {
			rich = append(rich, x)
		}
	}
	if len(rich) == 0 {
		return nil
	}
	a := rich[rapid.IntRange(0, len(rich)-1).Draw(t, "refusedPropSigner")]
	acct := g.V.Account(a.Addr)
	yes := true
	ch := staking.ConsensusParameterChanges{}
	switch rapid.IntRange(0, 3).Draw(t, "refusedPropKind") {
	case 0:
		ch.DisableTransfers = &yes
	case 1:
		v := q(1 << 40)
		ch.MinTransactBalance = &v
	case 2:
		ch.DisableDelegation = &yes
	default:
		v := q(uint64(rapid.IntRange(1, 50).Draw(t, "refusedPropMinTransfer")))
		ch.MinTransferAmount = &v
	}
	over := q(uint64(100_001 + rapid.IntRange(0, 5).Draw(t, "refusedPropOverUnity")))
	ch.MinCommissionRate = &over
	pc := &governance.ProposalContent{Metadata: &governance.ProposalMetadata{Title: "verif proposal", Description: "generated"},
		ChangeParameters: &governance.ChangeParametersProposal{Module: staking.ModuleName, Changes: cbor.Marshal(ch)}}
	return g.finish(t, a, acct, governance.MethodSubmitProposal, pc, "proposal", "change-parameters:staking+block-visible+invalid-result")
}

// GenVaultSubcallGas builds (when a vault with a known admin exists) a vault.AuthorizeAction by one of the vault's
// admins that carries an ExecuteMessage action - a call into the staking application - with a gas limit drawn around
// the point where the vault's own operation is paid for and the inner call runs out: every exhaustion point includes
// the ones INSIDE a nested call. nil when no such vault exists.
func (g *TxGen) GenVaultSubcallGas(t *rapid.T) *TxDesc {
	if len(g.Vaults) == 0 {
		return nil
	}
	va := g.Vaults[rapid.IntRange(0, len(g.Vaults)-1).Draw(t, "scVault")]
	vl := g.vaultInfo[va]
	if vl == nil || len(vl.AdminAuthority.Addresses) == 0 {
		return nil
	}
	a := g.actorByAddr(vl.AdminAuthority.Addresses[rapid.IntRange(0, len(vl.AdminAuthority.Addresses)-1).Draw(t, "scAdmin")])
	if a == nil {
		return nil
	}
	acct := g.V.Account(a.Addr)
	to := g.pickActor(t, "scTo")
	var act vault.Action
	if rapid.Bool().Draw(t, "scWithdraw") {
		act.ExecuteMessage = &vault.ActionExecuteMessage{Method: staking.MethodWithdraw, Body: cbor.Marshal(&staking.Withdraw{From: to.Addr, Amount: q(uint64(rapid.IntRange(0, 5).Draw(t, "scAmt")))})}
	} else {
		act.ExecuteMessage = &vault.ActionExecuteMessage{Method: staking.MethodTransfer, Body: cbor.Marshal(&staking.Transfer{To: to.Addr, Amount: q(uint64(rapid.IntRange(0, 5).Draw(t, "scAmt")))})}
	}
	body := &vault.AuthorizeAction{Vault: va, Nonce: vl.Nonce, Action: act}
	nonce := acct.General.Nonce + g.nonceAdd[a.Addr]
	tx := transaction.NewTransaction(nonce, &transaction.Fee{Gas: 0}, vault.MethodAuthorizeAction, body)
	est, err := g.V.R.Srv.EstimateGas(a.Signer.Public(), tx)
	if err != nil {
		return nil
	}
	// the estimate covers the whole execution; limits from "vault operation just paid" to "one short of everything"
	inner := g.W.Spec.GasOp
	gas := uint64(est) + 64*g.W.Spec.GasTxByte
	if inner > 0 {
		k := rapid.Uint64Range(0, inner+64*g.W.Spec.GasTxByte+2).Draw(t, "scShortBy")
		if k <= gas {
			gas -= k
		}
	}
	d := &TxDesc{Signer: a.Name, Addr: a.Addr, Method: vault.MethodAuthorizeAction, Note: "vault authorize-action with nested call, gas around the nested call's cost", ExpectAuthOK: true,
		Mutated: "gas-short-in-nested-call", Nonce: nonce, Gas: gas}
	d.Raw = SignTx(a.Signer, nonce, &transaction.Fee{Gas: transaction.Gas(gas)}, vault.MethodAuthorizeAction, body)
	g.nonceAdd[a.Addr]++
	return d
}

// finish picks nonce, gas and fee, possibly invalidating exactly one of them, and signs.
func (g *TxGen) finish(t *rapid.T, a *Actor, acct *staking.Account, method transaction.MethodName, body any, kind, note string) *TxDesc {
	nonce := acct.General.Nonce + g.nonceAdd[a.Addr]
	d := &TxDesc{Signer: a.Name, Addr: a.Addr, Method: method, Note: kind + " " + note, ExpectAuthOK: true}
	// gas: estimate via the replica (also exercises EstimateGas), fall back to a generous constant
	tx := transaction.NewTransaction(nonce, &transaction.Fee{Gas: 0}, method, body)
	gas := uint64(100000)
	if est, err := g.V.R.Srv.EstimateGas(a.Signer.Public(), tx); err == nil {
		gas = uint64(est) + 64*g.W.Spec.GasTxByte // room for the gas/fee fields themselves
	}
	feeAmt := uint64(0)
	if bal := acct.General.Balance.ToBigInt(); bal.IsUint64() && bal.Uint64() > g.W.Spec.MinTransact && rapid.IntRange(0, 2).Draw(t, "payFee") > 0 {
		feeAmt = rapid.Uint64Range(1, minU64(bal.Uint64()-g.W.Spec.MinTransact, 1000)).Draw(t, "fee")
	}
	if p := g.W.Spec.ConsMinGasPrice; p > 0 && gas < 1<<40 && rapid.IntRange(0, 3).Draw(t, "payMinGasPrice") > 0 {
		// a consensus-wide minimum gas price is in force: mostly pay it (when affordable), sometimes stay below it
		if bal := acct.General.Balance.ToBigInt(); bal.IsUint64() && bal.Uint64() >= gas*p+g.W.Spec.MinTransact {
			feeAmt = gas * p
		}
	}
	signer := a.Signer
	if bal := acct.General.Balance.ToBigInt(); !bal.IsUint64() || bal.Uint64() < feeAmt+g.W.Spec.MinTransact {
		d.ExpectAuthOK = false // below fee + minimum transact balance
	}
	switch m := rapid.IntRange(0, 29).Draw(t, "invalidate"); m {
	case 0:
		nonce++
		d.Mutated, d.ExpectAuthOK = "nonce+1", false
	case 1:
		if nonce > 0 {
			nonce--
			d.Mutated, d.ExpectAuthOK = "nonce-1", false
		}
	case 2:
		nonce = math.MaxUint64
		d.Mutated, d.ExpectAuthOK = "nonce-max", false
	case 3:
		if bal := acct.General.Balance.ToBigInt(); bal.IsUint64() && bal.Uint64() < math.MaxUint64-10 {
			feeAmt = bal.Uint64() + 1
			d.Mutated, d.ExpectAuthOK = "fee>balance", false
		}
	case 7:
		// the fee is affordable but what remains is below the minimum transact balance: rejected at authentication
		if bal := acct.General.Balance.ToBigInt(); g.W.Spec.MinTransact > 0 && bal.IsUint64() && bal.Uint64() > 0 {
			k := rapid.Uint64Range(0, minU64(g.W.Spec.MinTransact-1, bal.Uint64()-1)).Draw(t, "belowMin")
			feeAmt = bal.Uint64() - k
			d.Mutated, d.ExpectAuthOK = "fee-leaves-less-than-minimum", false
		}
	case 4, 5:
		if gas > 0 {
			gas = rapid.Uint64Range(0, gas-1).Draw(t, "gasShort")
			d.Mutated = "gas-short"
		}
	case 6:
		other := g.pickActor(t, "wrongSigner")
		if other != a {
			signer = other.Signer
			d.Mutated = "wrong-signer"
			// the transaction is now authentic for `other`: nonce of a is most likely wrong for other
			d.ExpectAuthOK = false
		}
	}
	d.Nonce, d.Gas, d.Fee = nonce, gas, feeAmt
	d.Raw = SignTx(signer, nonce, &transaction.Fee{Gas: transaction.Gas(gas), Amount: q(feeAmt)}, method, body)
	d.Resign = func(gas2 uint64) []byte {
		return SignTx(signer, nonce, &transaction.Fee{Gas: transaction.Gas(gas2), Amount: q(feeAmt)}, method, body)
	}
	if d.Mutated == "" && rapid.IntRange(0, 19).Draw(t, "noFeeField") == 0 {
		// the fee field left out altogether (a hand-made transaction; submission through a node always fills it in): no fee
		// and a gas limit of zero - it executes only where nothing costs gas, and is authenticated like any other
		d.Gas, d.Fee, d.Resign = 0, 0, nil
		d.Raw = SignTx(signer, nonce, nil, method, body)
		d.Note += " no-fee-field"
		if bal := acct.General.Balance.ToBigInt(); bal.IsUint64() && bal.Uint64() >= g.W.Spec.MinTransact {
			d.ExpectAuthOK = d.ExpectAuthOK || signer == a.Signer
		}
	}
	if d.ExpectAuthOK {
		g.nonceAdd[a.Addr]++
	}
	return d
}

func minInt(a, b int) int {
	if a < b {
		return a
	}
	return b
}

func minU64(a, b uint64) uint64 {
	if a < b {
		return a
	}
	return b
}

// RefreshTx builds a valid node re-registration (liveness keeping): roles and runtimes as in genesis.
func (g *TxGen) RefreshTx(ek *EntityKeys, nk *NodeKeys, expiration beacon.EpochTime) *TxDesc {
	addr := staking.NewAddress(nk.ID.Public())
	acct := g.V.Account(addr)
	nonce := acct.General.Nonce + g.nonceAdd[addr]
	nd := g.W.NodeDescriptor(ek, nk, expiration, node.RoleValidator, true)
	sn, err := node.MultiSignNode(nk.Signers(), registry.RegisterNodeSignatureContext, nd)
	if err != nil {
		panic(err)
	}
	tx := transaction.NewTransaction(nonce, &transaction.Fee{Gas: 0}, registry.MethodRegisterNode, sn)
	gas := uint64(1000000)
	if est, err := g.V.R.Srv.EstimateGas(nk.ID.Public(), tx); err == nil {
		gas = uint64(est) + 64*g.W.Spec.GasTxByte
	}
	g.nonceAdd[addr]++
	return &TxDesc{
		Raw:    SignTx(nk.ID, nonce, &transaction.Fee{Gas: transaction.Gas(gas)}, registry.MethodRegisterNode, sn),
		Signer: nk.Name, Addr: addr, Method: registry.MethodRegisterNode, Nonce: nonce, Gas: gas, Note: "liveness refresh", ExpectAuthOK: true,
	}
}

// VRFProveTx builds the node's VRF proof transaction for the current alpha (nil when the node's VRF key cannot prove).
func (g *TxGen) VRFProveTx(nk *NodeKeys, vs *beacon.VRFState) *TxDesc {
	if ms, ok := nk.VRF.(*memorySigner.Signer); ok {
		ms.UnsafeSetRole(signature.SignerVRF) // test signers carry no role; signing does not look at it, proving does
	}
	proof, err := signature.Prove(nk.VRF, vs.Alpha)
	if err != nil {
		return nil
	}
	pi, err := proof.Proof.MarshalBinary()
	if err != nil {
		return nil
	}
	addr := staking.NewAddress(nk.ID.Public())
	acct := g.V.Account(addr)
	nonce := acct.General.Nonce + g.nonceAdd[addr]
	body := &beacon.VRFProve{Epoch: vs.Epoch, Pi: pi}
	gas := g.W.Spec.GasOp + g.W.Spec.GasTxByte*512
	g.nonceAdd[addr]++
	return &TxDesc{
		Raw:    SignTx(nk.ID, nonce, &transaction.Fee{Gas: transaction.Gas(gas)}, beacon.MethodVRFProve, body),
		Signer: nk.Name, Addr: addr, Method: beacon.MethodVRFProve, Nonce: nonce, Gas: gas, Note: "vrf proof", ExpectAuthOK: true,
	}
}

// NewWorkingView opens a view on the WORKING state of the block currently being executed (valid
// between BeginBlock and Commit); it shows what an application sees at that point.
func NewWorkingView(r *Replica) (*View, error) {
	cx := r.Srv.State().NewContext(cmtapi.ContextEndBlock)
	v := &View{R: r, cx: cx, ctx: context.Background()}
	v.St = stakingState.NewImmutableState(cx.State())
	v.Gov = governanceState.NewImmutableState(cx.State())
	v.Reg = registryState.NewImmutableState(cx.State())
	ep, _, err := beaconState.NewImmutableState(cx.State()).GetEpoch(v.ctx)
	if err != nil {
		cx.Close()
		return nil, err
	}
	v.Epoch = ep
	return v, nil
}

// Ctx returns the context to use with the typed state accessors of the view.
func (v *View) Ctx() context.Context { return v.ctx }

// Tree returns the raw state tree of the view.
func (v *View) Tree() cmtapiTree { return v.cx.State() }

type cmtapiTree = interface {
	Get(ctx context.Context, key []byte) ([]byte, error)
}

// KV returns the view's state as an immutable key-value tree (for typed state wrappers).
func (v *View) KV() mkvs.ImmutableKeyValueTree { return v.cx.State() }

// Bump records that one more transaction of addr (expected to pass authentication) precedes the
// ones generated next in the same block.
func (g *TxGen) Bump(addr staking.Address) { g.nonceAdd[addr]++ }

// NewRuntimeDescriptor builds the descriptor of a further compute runtime governed by the signer's entity (or by
// entity 0 when the signer is not an entity).
func (g *TxGen) NewRuntimeDescriptor(t *rapid.T, a *Actor) *registry.Runtime {
	owner := g.W.Entities[0]
	if a.Entity != nil {
		owner = a.Entity
	}
	var id common.Namespace
	copy(id[8:], []byte("verif-extra-rt"))
	id[31] = byte(rapid.IntRange(0, 3).Draw(t, "rtIdx"))
	return &registry.Runtime{
		Versioned:       cborV(registry.LatestRuntimeDescriptorVersion),
		ID:              id,
		EntityID:        owner.Signer.Public(),
		Kind:            registry.KindCompute,
		TEEHardware:     node.TEEHardwareInvalid,
		Executor:        registry.ExecutorParameters{GroupSize: 1, GroupBackupSize: 1, RoundTimeout: 3, MaxMessages: 8},
		TxnScheduler:    registry.TxnSchedulerParameters{BatchFlushTimeout: time.Second, MaxBatchSize: 10, MaxBatchSizeBytes: 1 << 16, ProposerTimeout: 2 * time.Second},
		AdmissionPolicy: registry.RuntimeAdmissionPolicy{AnyNode: &registry.AnyNodeRuntimeAdmissionPolicy{}},
		Constraints: map[scheduler.CommitteeKind]map[scheduler.Role]registry.SchedulingConstraints{
			scheduler.KindComputeExecutor: {
				scheduler.RoleWorker:       {MinPoolSize: &registry.MinPoolSizeConstraint{Limit: 1}},
				scheduler.RoleBackupWorker: {MinPoolSize: &registry.MinPoolSizeConstraint{Limit: 1}},
			},
		},
		GovernanceModel: registry.GovernanceEntity,
		Deployments:     []*registry.VersionInfo{{ValidFrom: g.V.Epoch + beacon.EpochTime(rapid.IntRange(1, 3).Draw(t, "rtValidFrom"))}},
	}
}
