// Package ev is the evidence recorder shared by all property checks.
//
// Every test keeps counters that are measured on the run itself:
//   - evaluations: cases whose property body ran to its end,
//   - a set of 8-byte fingerprints of the drawn case of every evaluation that was
//     non-trivial by the property's stated rule (distinct_nontrivial = set size,
//     merged across shard processes by union in the driver),
//   - label histograms, discard counts by reason, up to N verbatim samples.
//
// The driver passes VERIF_EVIDENCE_OUT (path prefix of the shard output), VERIF_TIER and
// VERIF_SEED. Without VERIF_EVIDENCE_OUT nothing is written (plain `go test` use).
package ev

import (
	"crypto/sha256"
	"encoding/binary"
	"encoding/json"
	"fmt"
	"os"
	"sort"
	"strconv"
	"strings"
	"sync"
	"time"
)

// Failer is the part of testing.TB / rapid.T the recorder needs.
type Failer interface {
	Fatalf(format string, args ...any)
}

// Recorder accumulates the evidence of one test function in one shard process.
type Recorder struct {
	mu sync.Mutex

	Property string
	Test     string
	Rule     string
	Assume   []string

	evaluations uint64
	nontrivial  uint64
	fps         map[[8]byte]struct{}
	labels      map[string]uint64
	discards    map[string]uint64
	samples     []any
	ntSamples   []any
	maxSamples  int
	extra       map[string]any
	start       time.Time
}

// New creates a recorder for one test of one property.
func New(property, test, rule string, assumptions ...string) *Recorder {
	return &Recorder{
		Property:   property,
		Test:       test,
		Rule:       rule,
		Assume:     assumptions,
		fps:        make(map[[8]byte]struct{}),
		labels:     make(map[string]uint64),
		discards:   make(map[string]uint64),
		extra:      make(map[string]any),
		maxSamples: 3,
		start:      time.Now(),
	}
}

// Tier returns "quick" or "thorough".
func Tier() string {
	if t := os.Getenv("VERIF_TIER"); t == "thorough" {
		return t
	}
	return "quick"
}

// Thorough reports whether the thorough tier is running.
func Thorough() bool { return Tier() == "thorough" }

// Pick returns q in the quick tier and t in the thorough tier.
func Pick(q, t int) int {
	if Thorough() {
		return t
	}
	return q
}

// Excluded reports whether the known-finding signature sig is excluded by construction from
// the generators of this run (VERIF_EXCLUDE is set by the driver from known_findings.json,
// entries with status "known" only).
//
// VERIF_EXCLUDE_EXTRA (comma separated, passed through by the driver unchanged) adds signatures by
// hand while a finding is being investigated and is not yet listed in known_findings.json.
func Excluded(sig string) bool {
	for _, env := range []string{"VERIF_EXCLUDE", "VERIF_EXCLUDE_EXTRA"} {
		for _, s := range strings.Split(os.Getenv(env), ",") {
			if s == sig && s != "" {
				return true
			}
		}
	}
	return false
}

// Fingerprint hashes the parts describing a drawn case.
func Fingerprint(parts ...any) [8]byte {
	h := sha256.New()
	for _, p := range parts {
		switch v := p.(type) {
		case []byte:
			var l [4]byte
			binary.LittleEndian.PutUint32(l[:], uint32(len(v)))
			h.Write(l[:])
			h.Write(v)
		case string:
			var l [4]byte
			binary.LittleEndian.PutUint32(l[:], uint32(len(v)))
			h.Write(l[:])
			h.Write([]byte(v))
		default:
			fmt.Fprintf(h, "%T|%v|", p, p)
		}
	}
	var out [8]byte
	copy(out[:], h.Sum(nil))
	return out
}

// Case records one completed evaluation. fp identifies the drawn case (only used when
// nontrivial is true). sample, when non-nil, is a candidate for the verbatim samples.
func (r *Recorder) Case(nontrivial bool, fp [8]byte, sample any) {
	r.mu.Lock()
	defer r.mu.Unlock()
	r.evaluations++
	if nontrivial {
		r.nontrivial++
		r.fps[fp] = struct{}{}
		if sample != nil && len(r.ntSamples) < r.maxSamples {
			r.ntSamples = append(r.ntSamples, sample)
		}
	} else if sample != nil && len(r.samples) < 1 {
		r.samples = append(r.samples, sample)
	}
}

// WantSample reports whether another non-trivial sample would still be kept (lets callers
// avoid building expensive sample values).
func (r *Recorder) WantSample() bool {
	r.mu.Lock()
	defer r.mu.Unlock()
	return len(r.ntSamples) < r.maxSamples
}

// Label increments a histogram bucket.
func (r *Recorder) Label(name string) { r.LabelN(name, 1) }

// LabelN adds n to a histogram bucket.
func (r *Recorder) LabelN(name string, n uint64) {
	r.mu.Lock()
	r.labels[name] += n
	r.mu.Unlock()
}

// Discard counts a discarded case by reason.
func (r *Recorder) Discard(reason string) {
	r.mu.Lock()
	r.discards[reason]++
	r.mu.Unlock()
}

// Extra stores an additional coverage key.
func (r *Recorder) Extra(key string, v any) {
	r.mu.Lock()
	r.extra[key] = v
	r.mu.Unlock()
}

// Violation fails the test with a tagged message the driver recognises:
// "VIOL[<signature>]: ...". The signature is the structural class of the violation that is
// matched against known_findings.json.
func Violation(t Failer, sig, format string, args ...any) {
	msg := fmt.Sprintf(format, args...)
	writeTrace("VIOL[" + sig + "]: " + msg)
	t.Fatalf("VIOL[%s]: %s", sig, msg)
}

// Infra fails the test with a message the driver maps to exit code 2 (harness problem,
// never a violation).
func Infra(t Failer, format string, args ...any) {
	msg := fmt.Sprintf(format, args...)
	writeTrace("INFRA: " + msg)
	t.Fatalf("INFRA: %s", msg)
}

// Trace, when set by a test, returns a human-readable description of the case currently
// being evaluated; it is saved next to the rapid fail file when a violation is raised.
var Trace func() any

func writeTrace(msg string) {
	path := os.Getenv("VERIF_FAIL_TRACE")
	if path == "" {
		return
	}
	out := map[string]any{"message": msg}
	if Trace != nil {
		func() {
			defer func() { _ = recover() }()
			out["case"] = Trace()
		}()
	}
	b, err := json.MarshalIndent(out, "", " ")
	if err != nil {
		b = []byte(fmt.Sprintf("{\"message\": %q}", msg))
	}
	_ = os.WriteFile(path, b, 0o644)
}

type shardFile struct {
	Property    string            `json:"property"`
	Test        string            `json:"test"`
	Tier        string            `json:"tier"`
	Seed        int64             `json:"seed"`
	Rule        string            `json:"rule"`
	Assumptions []string          `json:"assumptions"`
	Evaluations uint64            `json:"evaluations"`
	Nontrivial  uint64            `json:"nontrivial_total"`
	Distinct    int               `json:"distinct_nontrivial"`
	Labels      map[string]uint64 `json:"labels"`
	Discards    map[string]uint64 `json:"discards"`
	Samples     []any             `json:"samples"`
	Extra       map[string]any    `json:"extra"`
	WallS       float64           `json:"wall_s"`
}

// Flush writes the shard evidence (JSON + binary fingerprint file). Safe to call once at
// the end of the test function (use defer).
func (r *Recorder) Flush() {
	out := os.Getenv("VERIF_EVIDENCE_OUT")
	if out == "" {
		return
	}
	r.mu.Lock()
	defer r.mu.Unlock()
	seed, _ := strconv.ParseInt(os.Getenv("VERIF_SEED"), 10, 64)
	samples := append([]any{}, r.ntSamples...)
	samples = append(samples, r.samples...)
	sf := shardFile{
		Property: r.Property, Test: r.Test, Tier: Tier(), Seed: seed, Rule: r.Rule,
		Assumptions: r.Assume, Evaluations: r.evaluations, Nontrivial: r.nontrivial,
		Distinct: len(r.fps), Labels: r.labels, Discards: r.discards, Samples: samples,
		Extra: r.extra, WallS: time.Since(r.start).Seconds(),
	}
	b, err := json.Marshal(sf)
	if err != nil {
		// A sample that cannot be marshalled must not lose the counters.
		sf.Samples = []any{fmt.Sprintf("%v", samples)}
		b, _ = json.Marshal(sf)
	}
	base := out + "." + r.Test
	_ = os.WriteFile(base+".json", b, 0o644)
	keys := make([][8]byte, 0, len(r.fps))
	for k := range r.fps {
		keys = append(keys, k)
	}
	sort.Slice(keys, func(i, j int) bool { return string(keys[i][:]) < string(keys[j][:]) })
	buf := make([]byte, 0, 8*len(keys))
	for _, k := range keys {
		buf = append(buf, k[:]...)
	}
	_ = os.WriteFile(base+".fp", buf, 0o644)
}
