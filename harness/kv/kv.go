// Package kv is the shared engine for the storage properties (C02, C03, C04, C06, C07, C12, C13):
// key/value generators with adversarial prefix structure, a reference ordered map, an independent
// reference root hash, and NodeDB helpers.
package kv

import (
	"bytes"
	"context"
	"crypto/sha512"
	"encoding/binary"
	"fmt"
	"os"
	"sort"

	"pgregory.net/rapid"

	"github.com/oasisprotocol/oasis-core/go/common"
	"github.com/oasisprotocol/oasis-core/go/common/crypto/hash"
	"github.com/oasisprotocol/oasis-core/go/storage/mkvs"
	dbApi "github.com/oasisprotocol/oasis-core/go/storage/mkvs/db/api"
	"github.com/oasisprotocol/oasis-core/go/storage/mkvs/db/badger"
	"github.com/oasisprotocol/oasis-core/go/storage/mkvs/db/pathbadger"
	"github.com/oasisprotocol/oasis-core/go/storage/mkvs/node"
)

// Namespace used by all storage checks.
var Namespace = func() common.Namespace {
	var ns common.Namespace
	// The first 8 bytes are flag bits (all reserved except test / key manager): keep them zero, otherwise the
	// namespace cannot be decoded when an on-disk database is reopened.
	copy(ns[8:], []byte("verif-harness-namespace1"))
	return ns
}()

// Backends lists the node database backends.
var Backends = []string{"badger", "pathbadger"}

// OpenDB opens a node database of the given backend.
func OpenDB(backend, dir string, memoryOnly bool) (dbApi.NodeDB, error) {
	return OpenDBOpts(backend, dir, memoryOnly, false)
}

// OpenDBOpts opens a node database; discardWriteLogs is the configuration the consensus state storage runs with (no
// write logs are stored, GetWriteLog is not available).
func OpenDBOpts(backend, dir string, memoryOnly, discardWriteLogs bool) (dbApi.NodeDB, error) {
	cfg := &dbApi.Config{DB: dir, Namespace: Namespace, MaxCacheSize: 16 << 20, NoFsync: true, MemoryOnly: memoryOnly, DiscardWriteLogs: discardWriteLogs}
	switch backend {
	case "badger":
		return badger.New(cfg)
	case "pathbadger":
		return pathbadger.New(cfg)
	}
	return nil, fmt.Errorf("unknown backend %q", backend)
}

// TempDir creates a scratch directory below VERIF_WORK (or the system temp dir).
func TempDir(prefix string) string {
	base := os.Getenv("VERIF_WORK")
	if base == "" {
		base = os.TempDir()
	}
	d, err := os.MkdirTemp(base, prefix)
	if err != nil {
		panic(err)
	}
	return d
}

// Root builds a node.Root.
func Root(version uint64, typ node.RootType, h hash.Hash) node.Root {
	return node.Root{Namespace: Namespace, Version: version, Type: typ, Hash: h}
}

// EmptyRoot returns the empty root at a version.
func EmptyRoot(version uint64, typ node.RootType) node.Root {
	r := node.Root{Namespace: Namespace, Version: version, Type: typ}
	r.Hash.Empty()
	return r
}

// ---------------------------------------------------------------------------------------
// Generators.

var alphabet = []byte{0x00, 0x01, 0x40, 0x7f, 0x80, 0xff}

// GenUniverse draws n distinct keys with heavy prefix sharing: fresh short keys over a small
// alphabet, derivations of earlier keys (extension, truncation, last-bit flip), the empty key,
// long keys with a common 32-byte prefix and (rarely) very long keys.
func GenUniverse(t *rapid.T, n int, allowHuge bool) [][]byte {
	seen := map[string]bool{}
	var uni [][]byte
	longPrefix := bytes.Repeat([]byte{0xA5}, 32)
	for tries := 0; len(uni) < n && tries < n*6; tries++ {
		var k []byte
		mode := rapid.IntRange(0, 11).Draw(t, "kmode")
		switch {
		case mode <= 3 || len(uni) == 0:
			l := rapid.IntRange(0, 6).Draw(t, "klen")
			k = make([]byte, l)
			for i := range k {
				k[i] = rapid.SampledFrom(alphabet).Draw(t, "kb")
			}
		case mode <= 6:
			base := uni[rapid.IntRange(0, len(uni)-1).Draw(t, "kbase")]
			k = append(append([]byte{}, base...), rapid.SampledFrom(alphabet).Draw(t, "kext"))
		case mode == 7:
			base := uni[rapid.IntRange(0, len(uni)-1).Draw(t, "kbase")]
			if len(base) > 0 {
				k = append([]byte{}, base[:rapid.IntRange(0, len(base)-1).Draw(t, "ktrunc")]...)
			}
		case mode == 8:
			base := uni[rapid.IntRange(0, len(uni)-1).Draw(t, "kbase")]
			k = append([]byte{}, base...)
			if len(k) > 0 {
				k[len(k)-1] ^= byte(1) << uint(rapid.IntRange(0, 7).Draw(t, "kbit"))
			}
		case mode == 9:
			k = []byte{}
		case mode == 10:
			l := rapid.IntRange(1, 38).Draw(t, "ksuf")
			k = append(append([]byte{}, longPrefix...), make([]byte, l)...)
			k[len(k)-1] = rapid.SampledFrom(alphabet).Draw(t, "kb")
			if l > 1 {
				k[32] = rapid.SampledFrom(alphabet).Draw(t, "kb2")
			}
		default:
			if allowHuge && rapid.IntRange(0, 3).Draw(t, "huge") == 0 {
				l := rapid.IntRange(200, 600).Draw(t, "khuge")
				k = bytes.Repeat([]byte{rapid.SampledFrom(alphabet).Draw(t, "kb")}, l)
				k[l-1] = rapid.Byte().Draw(t, "kb3")
			} else {
				k = []byte{rapid.Byte().Draw(t, "kb4")}
			}
		}
		if k == nil {
			k = []byte{}
		}
		if seen[string(k)] {
			continue
		}
		seen[string(k)] = true
		uni = append(uni, k)
	}
	return uni
}

// GenValue draws a value: mostly short (incl. empty), occasionally 1-4 KiB.
func GenValue(t *rapid.T) []byte {
	m := rapid.IntRange(0, 19).Draw(t, "vmode")
	switch {
	case m == 0:
		return []byte{}
	case m == 1:
		l := rapid.IntRange(1024, 4096).Draw(t, "vbig")
		v := bytes.Repeat([]byte{rapid.Byte().Draw(t, "vb")}, l)
		return v
	default:
		l := rapid.IntRange(1, 40).Draw(t, "vlen")
		v := make([]byte, l)
		x := rapid.Uint32().Draw(t, "vseed")
		for i := range v {
			x = x*1664525 + 1013904223
			v[i] = byte(x >> 24)
		}
		return v
	}
}

// ---------------------------------------------------------------------------------------
// Reference model.

// Model is the reference map (absent = not in map; values are never nil).
type Model map[string][]byte

// Clone copies the model.
func (m Model) Clone() Model {
	c := make(Model, len(m))
	for k, v := range m {
		c[k] = v
	}
	return c
}

// SortedKeys returns the keys in ascending byte order.
func (m Model) SortedKeys() []string {
	ks := make([]string, 0, len(m))
	for k := range m {
		ks = append(ks, k)
	}
	sort.Strings(ks)
	return ks
}

// Equal compares two models.
func (m Model) Equal(o Model) bool {
	if len(m) != len(o) {
		return false
	}
	for k, v := range m {
		ov, ok := o[k]
		if !ok || !bytes.Equal(v, ov) {
			return false
		}
	}
	return true
}

// KV is one key/value pair.
type KV struct {
	K, V []byte
}

// Scan iterates a whole tree from the beginning.
func Scan(ctx context.Context, tr mkvs.ImmutableKeyValueTree) ([]KV, error) {
	it := tr.NewIterator(ctx)
	defer it.Close()
	var out []KV
	for it.Rewind(); it.Valid(); it.Next() {
		out = append(out, KV{append([]byte{}, it.Key()...), append([]byte{}, it.Value()...)})
	}
	return out, it.Err()
}

// CompareScan compares a full scan with the model; returns "" when equal.
func CompareScan(got []KV, m Model) string {
	ks := m.SortedKeys()
	if len(got) != len(ks) {
		return fmt.Sprintf("scan returned %d keys, model has %d (got %s, want %s)", len(got), len(ks), fmtKVs(got), fmtKeys(ks))
	}
	for i, kv := range got {
		if string(kv.K) != ks[i] {
			return fmt.Sprintf("scan position %d: key %x, model %x", i, kv.K, ks[i])
		}
		if !bytes.Equal(kv.V, m[ks[i]]) {
			return fmt.Sprintf("scan position %d key %x: value %x, model %x", i, kv.K, trunc(kv.V), trunc(m[ks[i]]))
		}
	}
	return ""
}

func trunc(b []byte) []byte {
	if len(b) > 12 {
		return b[:12]
	}
	return b
}

func fmtKVs(kvs []KV) string {
	s := "["
	for i, kv := range kvs {
		if i > 8 {
			s += " ..."
			break
		}
		s += fmt.Sprintf(" %x", kv.K)
	}
	return s + " ]"
}

func fmtKeys(ks []string) string {
	s := "["
	for i, k := range ks {
		if i > 8 {
			s += " ..."
			break
		}
		s += fmt.Sprintf(" %x", k)
	}
	return s + " ]"
}

// ---------------------------------------------------------------------------------------
// Independent reference root hash (compressed binary Patricia trie over the final key set).
// Shares no code with insert.go / remove.go / commit.go / node.go.

func h512_256(parts ...[]byte) hash.Hash {
	d := sha512.New512_256()
	for _, p := range parts {
		d.Write(p)
	}
	var out hash.Hash
	copy(out[:], d.Sum(nil))
	return out
}

func getBit(k []byte, i int) bool {
	return k[i/8]&(1<<(7-uint(i%8))) != 0
}

// RefRoot computes the root hash the tree must have for exactly these contents.
func RefRoot(m Model) hash.Hash {
	ks := m.SortedKeys()
	keys := make([][]byte, len(ks))
	for i, k := range ks {
		keys[i] = []byte(k)
	}
	return refNode(m, keys, 0)
}

func refLeaf(k, v []byte) hash.Hash {
	var kl, vl [4]byte
	binary.LittleEndian.PutUint32(kl[:], uint32(len(k)))
	binary.LittleEndian.PutUint32(vl[:], uint32(len(v)))
	return h512_256([]byte{0x00}, kl[:], k, vl[:], v)
}

func refNode(m Model, keys [][]byte, depth int) hash.Hash {
	switch len(keys) {
	case 0:
		return h512_256()
	case 1:
		return refLeaf(keys[0], m[string(keys[0])])
	}
	// longest common bit prefix of all keys, bounded by the shortest key
	cp := len(keys[0]) * 8
	for _, k := range keys[1:] {
		if len(k)*8 < cp {
			cp = len(k) * 8
		}
	}
	for _, k := range keys[1:] {
		i := depth
		for i < cp && getBit(k, i) == getBit(keys[0], i) {
			i++
		}
		cp = i
	}
	nbits := cp - depth
	label := make([]byte, (nbits+7)/8)
	for i := 0; i < nbits; i++ {
		if getBit(keys[0], depth+i) {
			label[i/8] |= 1 << (7 - uint(i%8))
		}
	}
	var leafKeys, left, right [][]byte
	for _, k := range keys {
		switch {
		case len(k)*8 == cp:
			leafKeys = append(leafKeys, k)
		case getBit(k, cp):
			right = append(right, k)
		default:
			left = append(left, k)
		}
	}
	var lb [2]byte
	binary.LittleEndian.PutUint16(lb[:], uint16(nbits))
	lh := refNode(m, leafKeys, cp)
	l := refNode(m, left, cp)
	r := refNode(m, right, cp)
	return h512_256([]byte{0x01}, lb[:], label, lh[:], l[:], r[:])
}

// ---------------------------------------------------------------------------------------
// Cache capacity strata (see DESIGN.md 3.1 and the known findings on tiny capacities).

// MaxPathDepth returns the maximum number of internal nodes on any root-to-leaf path of the trie
// holding ALL given keys (a subset of the keys never has a deeper path).
func MaxPathDepth(keys [][]byte) int {
	sorted := make([][]byte, len(keys))
	copy(sorted, keys)
	sort.Slice(sorted, func(i, j int) bool { return bytes.Compare(sorted[i], sorted[j]) < 0 })
	return pathDepth(sorted, 0)
}

func pathDepth(keys [][]byte, depth int) int {
	if len(keys) <= 1 {
		return 0
	}
	cp := len(keys[0]) * 8
	for _, k := range keys[1:] {
		if len(k)*8 < cp {
			cp = len(k) * 8
		}
	}
	for _, k := range keys[1:] {
		i := depth
		for i < cp && getBit(k, i) == getBit(keys[0], i) {
			i++
		}
		cp = i
	}
	var left, right [][]byte
	for _, k := range keys {
		switch {
		case len(k)*8 == cp:
		case getBit(k, cp):
			right = append(right, k)
		default:
			left = append(left, k)
		}
	}
	l, r := pathDepth(left, cp), pathDepth(right, cp)
	if r > l {
		l = r
	}
	return 1 + l
}

// PrefixFree reports whether no key is a proper prefix of another (then no internal node ever
// carries a leaf of its own).
func PrefixFree(keys [][]byte) bool {
	for i, a := range keys {
		for j, b := range keys {
			if i != j && len(a) < len(b) && bytes.Equal(a, b[:len(a)]) {
				return false
			}
		}
	}
	return true
}

// Known-finding signatures of the node cache (excluded by construction while status=known).
const (
	SigNodeCapBelowPath = "cache-node-capacity-below-path"
	SigLeafEvictedDirty = "cache-leaf-evicted-under-dirty-internal"
)

// Capacity describes a drawn cache configuration.
type Capacity struct {
	Node, Value uint64
	// Stratum: "unbounded", "evicting" (off-path eviction only), "tiny-node", "tiny-value".
	Stratum string
}

// GenCapacity draws a cache capacity for trees over the given universe.
//
//   - node capacity 0 (unbounded) or MaxPathDepth+3..+6 (smaller than the tree for all but small
//     cases, so off-path nodes are evicted while the path being walked always fits);
//   - node capacity 1..MaxPathDepth+2 ("tiny-node") only when excludeNodeFinding is false;
//   - value capacity 0 or >= 1 MiB (more than any generated tree holds); small value capacities (1..512 bytes, "tiny-value") when the
//     universe is prefix-free, or always when excludeLeafFinding is false.
func GenCapacity(t *rapid.T, uni [][]byte, excludeNodeFinding, excludeLeafFinding bool) Capacity {
	d := MaxPathDepth(uni)
	c := Capacity{Stratum: "unbounded"}
	switch m := rapid.IntRange(0, 9).Draw(t, "ncapMode"); {
	case m <= 2:
		c.Node = 0
	case m <= 7 || excludeNodeFinding:
		c.Node = uint64(d + 3 + rapid.IntRange(0, 3).Draw(t, "ncapSlack"))
		c.Stratum = "evicting"
	default:
		c.Node = uint64(rapid.IntRange(1, d+2).Draw(t, "ncapTiny"))
		c.Stratum = "tiny-node"
	}
	tinyValueOK := !excludeLeafFinding || PrefixFree(uni)
	switch m := rapid.IntRange(0, 9).Draw(t, "vcapMode"); {
	case m <= 3:
		c.Value = 0
	case m <= 6 || !tinyValueOK:
		c.Value = uint64(rapid.SampledFrom([]int{1 << 20, 4 << 20}).Draw(t, "vcapBig"))
	default:
		c.Value = uint64(rapid.SampledFrom([]int{1, 8, 40, 128, 512}).Draw(t, "vcapTiny"))
		if c.Stratum != "tiny-node" {
			c.Stratum = "tiny-value"
		}
	}
	return c
}
