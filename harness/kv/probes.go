package kv

import (
	"context"
	"fmt"

	"github.com/oasisprotocol/oasis-core/go/storage/mkvs"
	"github.com/oasisprotocol/oasis-core/go/storage/mkvs/node"
)

// Deterministic minimal reproductions of the two known node-cache findings. Each returns a
// description of the wrong behaviour, or "" when the tree behaved like the model.

func buildCommitted(backend string, m Model) (ndbClose func(), open func(opts ...mkvs.Option) mkvs.Tree, err error) {
	ndb, err := OpenDB(backend, "", true)
	if err != nil {
		return nil, nil, err
	}
	ctx := context.Background()
	tree := mkvs.New(nil, ndb, node.RootTypeState)
	for _, k := range m.SortedKeys() {
		_ = tree.Insert(ctx, []byte(k), m[k])
	}
	_, rh, err := tree.Commit(ctx, Namespace, 1)
	if err != nil {
		return nil, nil, err
	}
	if err := ndb.Finalize([]node.Root{Root(1, node.RootTypeState, rh)}); err != nil {
		return nil, nil, err
	}
	tree.Close()
	return ndb.Close, func(opts ...mkvs.Option) mkvs.Tree {
		return mkvs.NewWithRoot(nil, ndb, Root(1, node.RootTypeState, rh), opts...)
	}, nil
}

func compareAll(tree mkvs.Tree, m Model) string {
	ctx := context.Background()
	for _, k := range m.SortedKeys() {
		v, err := tree.Get(ctx, []byte(k))
		if err != nil || string(v) != string(m[k]) {
			return fmt.Sprintf("get %q returned %q (err %v), model %q", k, v, err, m[k])
		}
	}
	got, err := Scan(ctx, tree)
	if err != nil {
		return fmt.Sprintf("scan failed: %v", err)
	}
	if msg := CompareScan(got, m); msg != "" {
		return msg
	}
	_, rh, err := tree.Commit(ctx, Namespace, 2, mkvs.NoPersist())
	if err != nil {
		return fmt.Sprintf("commit failed: %v", err)
	}
	if want := RefRoot(m); rh != want {
		return fmt.Sprintf("root %s, reference root of the contents %s", rh, want)
	}
	return ""
}

// ProbeNodeCapacityBelowPath: keys a, b, c (two internal nodes on the path to c); reopen with node
// capacity 1 and overwrite c. Fetching the second internal node evicts the root that the insert
// still holds.
func ProbeNodeCapacityBelowPath(backend string) (msg string) {
	defer func() {
		if r := recover(); r != nil {
			msg = fmt.Sprintf("panic: %v", r)
		}
	}()
	m := Model{"a": []byte("1"), "b": []byte("2"), "c": []byte("3")}
	closeDB, open, err := buildCommitted(backend, m)
	if err != nil {
		return "INFRA: " + err.Error()
	}
	defer closeDB()
	tree := open(mkvs.Capacity(1, 0))
	defer tree.Close()
	m["c"] = []byte("33")
	if err := tree.Insert(context.Background(), []byte("c"), m["c"]); err != nil {
		return fmt.Sprintf("insert failed: %v", err)
	}
	return compareAll(tree, m)
}

// ProbeLeafEvictedUnderDirtyInternal: keys "", a, z; reopen with value capacity 250 bytes (two small leaves), add b and
// re-add the "" leaf so that it is cached as a clean node after a commit, make the root dirty again and
// read z and a from the database: caching them evicts the clean "" leaf of the dirty root.
func ProbeLeafEvictedUnderDirtyInternal(backend string) (msg string) {
	defer func() {
		if r := recover(); r != nil {
			msg = fmt.Sprintf("panic: %v", r)
		}
	}()
	ctx := context.Background()
	m := Model{"a": []byte("1"), "z": []byte("2")}
	ndb, err := OpenDB(backend, "", true)
	if err != nil {
		return "INFRA: " + err.Error()
	}
	defer ndb.Close()
	opt := mkvs.Capacity(0, 250) // room for two small leaves, not three
	tree := mkvs.New(nil, ndb, node.RootTypeState, opt)
	for _, k := range m.SortedKeys() {
		_ = tree.Insert(ctx, []byte(k), m[k])
	}
	_, rh, err := tree.Commit(ctx, Namespace, 1)
	if err != nil {
		return "INFRA: " + err.Error()
	}
	_ = ndb.Finalize([]node.Root{Root(1, node.RootTypeState, rh)})
	tree.Close()
	tree = mkvs.NewWithRoot(nil, ndb, Root(1, node.RootTypeState, rh), opt)
	defer tree.Close()
	m[""] = []byte("empty-key")
	m["b"] = []byte("3")
	_ = tree.Insert(ctx, []byte(""), m[""])
	_ = tree.Insert(ctx, []byte("b"), m["b"])
	if _, rh, err = tree.Commit(ctx, Namespace, 2); err != nil {
		return "INFRA: " + err.Error()
	}
	_ = ndb.Finalize([]node.Root{Root(2, node.RootTypeState, rh)})
	m["b"] = []byte("4") // same size: the root becomes dirty, the "" leaf stays clean and cached
	_ = tree.Insert(ctx, []byte("b"), m["b"])
	for _, k := range []string{"z", "a"} {
		if _, err := tree.Get(ctx, []byte(k)); err != nil {
			return fmt.Sprintf("get %s: %v", k, err)
		}
	}
	for _, k := range m.SortedKeys() {
		v, err := tree.Get(ctx, []byte(k))
		if err != nil || string(v) != string(m[k]) {
			return fmt.Sprintf("get %q returned %q (err %v), model %q", k, v, err, m[k])
		}
	}
	got, err := Scan(ctx, tree)
	if err != nil {
		return fmt.Sprintf("scan failed: %v", err)
	}
	if msg := CompareScan(got, m); msg != "" {
		return msg
	}
	_, rh, err = tree.Commit(ctx, Namespace, 3)
	if err != nil {
		return fmt.Sprintf("commit failed: %v", err)
	}
	if want := RefRoot(m); rh != want {
		return fmt.Sprintf("root %s, reference root of the contents %s", rh, want)
	}
	return ""
}
