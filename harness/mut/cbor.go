package mut

import (
	"encoding/binary"
	"errors"
)

// Item is one CBOR data item located inside a byte slice.
type Item struct {
	Start, HeadEnd, End int // [Start,End) is the whole item, [Start,HeadEnd) its head
	Major               byte
	Info                byte // additional information (0..31)
	Arg                 uint64
	Indef               bool
	// Kids: array elements; map keys and values alternating; the tagged item; the chunks of an
	// indefinite-length string.
	Kids  []*Item
	Depth int
}

// Content returns the payload bytes of a definite-length string item.
func (it *Item) Content(b []byte) []byte { return b[it.HeadEnd:it.End] }

var (
	errTrunc = errors.New("mut: truncated CBOR")
	errDeep  = errors.New("mut: CBOR nested too deep for the mutator")
	errMany  = errors.New("mut: too many CBOR items for the mutator")
	errBad   = errors.New("mut: malformed CBOR")
)

const (
	parseMaxDepth = 200
	parseMaxItems = 30000
)

type parser struct {
	b     []byte
	items int
}

// Parse parses the first CBOR item of b (lenient: tags, indefinite lengths and duplicate keys are
// fine; it only needs item boundaries). It returns the item and the number of bytes consumed.
func Parse(b []byte) (*Item, int, error) {
	p := &parser{b: b}
	it, err := p.item(0, 0)
	if err != nil {
		return nil, 0, err
	}
	return it, it.End, nil
}

// ParseSeq parses a sequence of concatenated items (a CBOR sequence) covering all of b.
func ParseSeq(b []byte) ([]*Item, error) {
	p := &parser{b: b}
	var out []*Item
	pos := 0
	for pos < len(b) {
		it, err := p.item(pos, 0)
		if err != nil {
			return out, err
		}
		out = append(out, it)
		pos = it.End
	}
	return out, nil
}

func (p *parser) item(pos, depth int) (*Item, error) {
	if depth > parseMaxDepth {
		return nil, errDeep
	}
	p.items++
	if p.items > parseMaxItems {
		return nil, errMany
	}
	b := p.b
	if pos >= len(b) {
		return nil, errTrunc
	}
	it := &Item{Start: pos, Major: b[pos] >> 5, Info: b[pos] & 31, Depth: depth}
	pos++
	switch {
	case it.Info < 24:
		it.Arg = uint64(it.Info)
	case it.Info == 24:
		if pos+1 > len(b) {
			return nil, errTrunc
		}
		it.Arg = uint64(b[pos])
		pos++
	case it.Info == 25:
		if pos+2 > len(b) {
			return nil, errTrunc
		}
		it.Arg = uint64(binary.BigEndian.Uint16(b[pos:]))
		pos += 2
	case it.Info == 26:
		if pos+4 > len(b) {
			return nil, errTrunc
		}
		it.Arg = uint64(binary.BigEndian.Uint32(b[pos:]))
		pos += 4
	case it.Info == 27:
		if pos+8 > len(b) {
			return nil, errTrunc
		}
		it.Arg = binary.BigEndian.Uint64(b[pos:])
		pos += 8
	case it.Info == 31:
		if it.Major < 2 || it.Major == 6 {
			return nil, errBad
		}
		if it.Major == 7 {
			return nil, errBad // a stray break
		}
		it.Indef = true
	default:
		return nil, errBad
	}
	it.HeadEnd = pos
	switch it.Major {
	case 0, 1, 7:
		it.End = pos
	case 2, 3:
		if it.Indef {
			for {
				if pos >= len(b) {
					return nil, errTrunc
				}
				if b[pos] == 0xff {
					pos++
					break
				}
				k, err := p.item(pos, depth+1)
				if err != nil {
					return nil, err
				}
				it.Kids = append(it.Kids, k)
				pos = k.End
			}
			it.End = pos
		} else {
			if it.Arg > uint64(len(b)-pos) {
				return nil, errTrunc
			}
			it.End = pos + int(it.Arg)
		}
	case 4, 5:
		mult := uint64(1)
		if it.Major == 5 {
			mult = 2
		}
		if it.Indef {
			for {
				if pos >= len(b) {
					return nil, errTrunc
				}
				if b[pos] == 0xff {
					pos++
					break
				}
				k, err := p.item(pos, depth+1)
				if err != nil {
					return nil, err
				}
				it.Kids = append(it.Kids, k)
				pos = k.End
			}
		} else {
			if it.Arg > uint64(len(b)) { // every element needs at least one byte
				return nil, errTrunc
			}
			n := it.Arg * mult
			for i := uint64(0); i < n; i++ {
				k, err := p.item(pos, depth+1)
				if err != nil {
					return nil, err
				}
				it.Kids = append(it.Kids, k)
				pos = k.End
			}
		}
		it.End = pos
	case 6:
		k, err := p.item(pos, depth+1)
		if err != nil {
			return nil, err
		}
		it.Kids = []*Item{k}
		it.End = k.End
	}
	return it, nil
}

// Flatten lists the item and all of its descendants in pre-order.
func Flatten(it *Item) []*Item {
	var out []*Item
	var walk func(*Item)
	walk = func(x *Item) {
		out = append(out, x)
		for _, k := range x.Kids {
			walk(k)
		}
	}
	walk(it)
	return out
}

// Head encodes a CBOR head with the shortest encoding of arg.
func Head(major byte, arg uint64) []byte {
	switch {
	case arg < 24:
		return []byte{major<<5 | byte(arg)}
	case arg <= 0xff:
		return []byte{major<<5 | 24, byte(arg)}
	case arg <= 0xffff:
		return HeadW(major, arg, 2)
	case arg <= 0xffffffff:
		return HeadW(major, arg, 4)
	}
	return HeadW(major, arg, 8)
}

// HeadW encodes a CBOR head with an argument of the given width in bytes (1, 2, 4, 8), possibly
// non-minimal. arg is truncated to the width.
func HeadW(major byte, arg uint64, width int) []byte {
	switch width {
	case 1:
		return []byte{major<<5 | 24, byte(arg)}
	case 2:
		out := []byte{major<<5 | 25, 0, 0}
		binary.BigEndian.PutUint16(out[1:], uint16(arg))
		return out
	case 4:
		out := []byte{major<<5 | 26, 0, 0, 0, 0}
		binary.BigEndian.PutUint32(out[1:], uint32(arg))
		return out
	}
	out := make([]byte, 9)
	out[0] = major<<5 | 27
	binary.BigEndian.PutUint64(out[1:], arg)
	return out
}

// Bstr wraps content into a definite-length byte string.
func Bstr(content []byte) []byte { return append(Head(2, uint64(len(content))), content...) }

// Nest wraps inner into n levels of the given kind: 'a' one-element arrays, 'm' one-pair maps
// (key 0), 't' tag 1, 'i' indefinite-length arrays, 'b' byte strings holding the encoded inner item.
func Nest(inner []byte, n int, kind byte) []byte {
	switch kind {
	case 'a', 't':
		h := byte(0x81)
		if kind == 't' {
			h = 0xc1
		}
		out := make([]byte, n, n+len(inner))
		for i := range out {
			out[i] = h
		}
		return append(out, inner...)
	case 'm':
		out := make([]byte, 0, 2*n+len(inner))
		for i := 0; i < n; i++ {
			out = append(out, 0xa1, 0x00)
		}
		return append(out, inner...)
	case 'i':
		out := make([]byte, n, 2*n+len(inner))
		for i := range out {
			out[i] = 0x9f
		}
		out = append(out, inner...)
		for i := 0; i < n; i++ {
			out = append(out, 0xff)
		}
		return out
	default: // 'b'
		out := inner
		for i := 0; i < n; i++ {
			out = Bstr(out)
		}
		return out
	}
}

func rep(b byte, n int) []byte {
	out := make([]byte, n)
	for i := range out {
		out[i] = b
	}
	return out
}

func cat(parts ...[]byte) []byte {
	var out []byte
	for _, p := range parts {
		out = append(out, p...)
	}
	return out
}

// Hostile returns hostile CBOR constants: huge declared lengths, deep nesting, indefinite lengths,
// duplicate map keys, tags, reserved and malformed heads. Every entry is at most 64 KiB. The map is
// shared: callers must not modify it.
func Hostile() map[string][]byte { return hostileMap }

var hostileMap = buildHostile()

func buildHostile() map[string][]byte {
	h := map[string][]byte{
		"empty":                 {},
		"break-alone":           {0xff},
		"bstr-len-2^64-1":       cat([]byte{0x5b}, rep(0xff, 8)),
		"bstr-len-2^63-1":       cat([]byte{0x5b, 0x7f}, rep(0xff, 7)),
		"bstr-len-2^32-1+data":  cat([]byte{0x5a}, rep(0xff, 4), rep(0x41, 64)),
		"tstr-len-2^64-1":       cat([]byte{0x7b}, rep(0xff, 8)),
		"array-len-2^64-1":      cat([]byte{0x9b}, rep(0xff, 8)),
		"array-len-2^31-1":      {0x9a, 0x7f, 0xff, 0xff, 0xff},
		"array-len-10M+1":       {0x9a, 0x00, 0x98, 0x96, 0x81},
		"array-len-10M+1+data":  cat([]byte{0x9a, 0x00, 0x98, 0x96, 0x81}, rep(0x00, 60000)),
		"array-len-131073+data": cat([]byte{0x9a, 0x00, 0x02, 0x00, 0x01}, rep(0x00, 60000)),
		"map-len-2^64-1":        cat([]byte{0xbb}, rep(0xff, 8)),
		"map-len-10M+1":         {0xba, 0x00, 0x98, 0x96, 0x81},
		"array-60000-zeros":     cat([]byte{0x99, 0xea, 0x60}, rep(0x00, 60000)),
		"array-30000-empty-arr": cat([]byte{0x99, 0x75, 0x30}, rep(0x80, 30000)),
		"array-30000-empty-map": cat([]byte{0x99, 0x75, 0x30}, rep(0xa0, 30000)),
		"nest-array-33":         Nest([]byte{0x00}, 33, 'a'),
		"nest-array-64":         Nest([]byte{0x00}, 64, 'a'),
		"nest-array-1000":       Nest([]byte{0x00}, 1000, 'a'),
		"nest-array-60000":      Nest([]byte{0x00}, 60000, 'a'),
		"nest-map-1000":         Nest([]byte{0x00}, 1000, 'm'),
		"nest-map-30000":        Nest([]byte{0x00}, 30000, 'm'),
		"nest-tag-1000":         Nest([]byte{0x00}, 1000, 't'),
		"nest-tag-60000":        Nest([]byte{0x00}, 60000, 't'),
		"nest-indef-1000":       Nest([]byte{0x00}, 1000, 'i'),
		"nest-indef-30000":      Nest([]byte{0x00}, 30000, 'i'),
		"nest-indef-open-60000": rep(0x9f, 60000),
		"nest-bstr-2000":        Nest([]byte{0x00}, 2000, 'b'),
		"indef-bstr":            {0x5f, 0x41, 0x00, 0x41, 0x01, 0xff},
		"indef-bstr-nobreak":    {0x5f, 0x41, 0x00},
		"indef-bstr-nested":     {0x5f, 0x5f, 0x41, 0x00, 0xff, 0xff},
		"indef-tstr":            {0x7f, 0x61, 0x61, 0xff},
		"indef-array":           {0x9f, 0x00, 0x01, 0xff},
		"indef-map":             {0xbf, 0x00, 0x00, 0xff},
		"indef-map-odd":         {0xbf, 0x00, 0xff},
		"dup-key-int":           {0xa2, 0x00, 0x00, 0x00, 0x01},
		"dup-key-text":          {0xa2, 0x61, 0x61, 0x00, 0x61, 0x61, 0x01},
		"dup-key-noncanon":      {0xa2, 0x00, 0x00, 0x18, 0x00, 0x01},
		"tag-0-text":            {0xc0, 0x61, 0x61},
		"tag-bignum":            {0xc2, 0x42, 0x01, 0x00},
		"tag-bignum-huge":       cat([]byte{0xc2, 0x59, 0xea, 0x60}, rep(0xff, 60000)),
		"tag-24-embedded":       {0xd8, 0x18, 0x41, 0x00},
		"tag-selfdescribe":      {0xd9, 0xd9, 0xf7, 0x00},
		"tag-2^64-1":            cat([]byte{0xdb}, rep(0xff, 8), []byte{0x00}),
		"reserved-28":           {0x1c},
		"reserved-30-array":     {0x9e},
		"simple-255":            {0xf8, 0xff},
		"simple-invalid-24":     {0xf8, 0x18},
		"undefined":             {0xf7},
		"null":                  {0xf6},
		"float16-nan":           {0xf9, 0x7e, 0x00},
		"float64-inf":           {0xfb, 0x7f, 0xf0, 0, 0, 0, 0, 0, 0},
		"uint-2^64-1":           cat([]byte{0x1b}, rep(0xff, 8)),
		"negint-2^64":           cat([]byte{0x3b}, rep(0xff, 8)),
		"tstr-bad-utf8":         {0x62, 0xc3, 0x28},
		"map-any-keys":          {0xa3, 0x80, 0x00, 0xa0, 0x00, 0xf6, 0x00},
	}
	return h
}

// HostileNames returns the names of Hostile() in a fixed order.
func HostileNames() []string { return hostileNames }

var hostileNames = func() []string {
	m := hostileMap
	out := make([]string, 0, len(m))
	for k := range m {
		out = append(out, k)
	}
	// insertion sort (no dependency on sort order of the map)
	for i := 1; i < len(out); i++ {
		for j := i; j > 0 && out[j] < out[j-1]; j-- {
			out[j], out[j-1] = out[j-1], out[j]
		}
	}
	return out
}()

// Features summarises the structural features of the first CBOR item of b that strict decoders
// are expected to refuse.
type Features struct {
	Parsed  bool // b starts with a well-delimited item (within the mutator's own limits)
	TooDeep bool // nesting exceeds the mutator's parser limit (200)
	Indef   bool // contains an indefinite-length item
	Tag     bool // contains a tag
	Depth   int  // maximum nesting depth (a scalar has depth 0)
	DupTop  bool // the top-level item is a map with two byte-identical keys
	Used    int  // bytes consumed by the item
}

// Scan computes the Features of b.
func Scan(b []byte) Features {
	it, used, err := Parse(b)
	if err != nil {
		return Features{TooDeep: err == errDeep}
	}
	f := Features{Parsed: true, Used: used}
	for _, x := range Flatten(it) {
		if x.Indef {
			f.Indef = true
		}
		if x.Major == 6 {
			f.Tag = true
		}
		if x.Depth > f.Depth {
			f.Depth = x.Depth
		}
	}
	if it.Major == 5 {
		seen := map[string]bool{}
		for i := 0; i+1 < len(it.Kids); i += 2 {
			k := string(b[it.Kids[i].Start:it.Kids[i].End])
			if seen[k] {
				f.DupTop = true
			}
			seen[k] = true
		}
	}
	return f
}
