// Package mut provides structured byte-level and CBOR-aware mutators driven by rapid draws. A
// mutation is a pure function of the input and the draws, so every mutant is reproducible from
// the rapid seed (or fail file).
//
// Byte level: bit flip, byte set to {00,01,7f,80,ff}, truncate tail, extend, duplicate / swap /
// drop a slice, integer field +-1 / max (1,2,4,8 bytes, little and big endian), splice from another
// valid encoding, insertion of a hostile constant.
//
// CBOR aware (needs only item boundaries, so it also works on already hostile input): rewrite a
// length header (definite -> huge, -> indefinite, off by a few, non-minimal), nest N levels,
// duplicate a map key, add a tag, replace an item by another type, integer argument +-1 / max,
// drop / duplicate / swap elements, splice an item from another document, replace an item by a
// hostile constant, resize string contents, and recursion into byte strings that hold CBOR.
package mut

import (
	"encoding/binary"
	"math/bits"

	"pgregory.net/rapid"
)

// MaxLen is the default cap on the size of a mutant.
const MaxLen = 64 << 10

// Opts tunes a mutation.
type Opts struct {
	// Hot lists offsets of interesting fields (length fields, type bytes). Positional byte-level
	// mutations pick one of them with probability 1/3.
	Hot []int
	// Others are other valid encodings to splice from.
	Others [][]byte
	// MaxLen caps the size of the result (default MaxLen).
	MaxLen int
	// CBORPercent is the percentage of CBOR-aware steps in Mutate (default 60; 0 means default, a
	// negative value disables CBOR-aware steps).
	CBORPercent int
	// Seq makes the CBOR-aware mutators treat the input as a sequence of items.
	Seq bool
	// MaxSteps bounds the number of stacked mutations in Mutate (default 3).
	MaxSteps int
}

func (o Opts) maxLen() int {
	if o.MaxLen > 0 {
		return o.MaxLen
	}
	return MaxLen
}

var bitGen = rapid.Bool()

// Uniform draws an integer uniformly from [0, n) out of single-bit draws. rapid's own integer
// generators are deliberately biased towards small values and bounds, which would concentrate
// positional mutations on the first bytes of an input and the choice of seeds, targets and mutation
// kinds on the first list entries.
func Uniform(t *rapid.T, label string, n int) int {
	if n <= 1 {
		return 0
	}
	k := bits.Len(uint(n - 1))
	for try := 0; try < 32; try++ {
		v := 0
		for i := 0; i < k; i++ {
			v <<= 1
			if bitGen.Draw(t, label) {
				v |= 1
			}
		}
		if v < n {
			return v
		}
	}
	return n - 1
}

// Intn draws from [lo, hi]: uniformly three times out of four, with rapid's bias towards small
// values and the bounds (headers, first elements, extreme lengths) otherwise.
func Intn(t *rapid.T, label string, lo, hi int) int {
	if hi <= lo {
		return lo
	}
	if Uniform(t, label+"?", 4) == 0 {
		return rapid.IntRange(lo, hi).Draw(t, label)
	}
	return lo + Uniform(t, label, hi-lo+1)
}

func intn(t *rapid.T, label string, lo, hi int) int { return Intn(t, label, lo, hi) }

// Pick draws one element of xs uniformly.
func Pick[T any](t *rapid.T, label string, xs []T) T {
	return xs[Uniform(t, label, len(xs))]
}

func pick[T any](t *rapid.T, label string, xs []T) T { return Pick(t, label, xs) }

var specialBytes = []byte{0x00, 0x01, 0x7f, 0x80, 0xff}

// ByteKinds lists the byte-level mutation kinds.
var ByteKinds = []string{"bitflip", "byteset", "truncate", "extend", "dup-slice", "swap-slice", "drop-slice", "int-field", "splice", "insert-const"}

func clone(b []byte) []byte { return append([]byte{}, b...) }

func (o Opts) pos(t *rapid.T, n int) int {
	if len(o.Hot) > 0 && intn(t, "hot", 0, 2) == 0 {
		p := pick(t, "hotpos", o.Hot)
		if p >= 0 && p < n {
			return p
		}
	}
	return intn(t, "pos", 0, n-1)
}

func clip(b []byte, max int) []byte {
	if len(b) > max {
		return b[:max]
	}
	return b
}

// Bytes applies one byte-level mutation. The kind is returned for labelling; when the drawn
// kind is not applicable (e.g. empty input) the input is returned with kind suffixed "/na".
func Bytes(t *rapid.T, in []byte, o Opts) ([]byte, string) {
	kind := pick(t, "bkind", ByteKinds)
	out, ok := applyBytes(t, kind, in, o)
	if !ok {
		return clone(in), kind + "/na"
	}
	return clip(out, o.maxLen()), kind
}

func applyBytes(t *rapid.T, kind string, in []byte, o Opts) ([]byte, bool) {
	n := len(in)
	switch kind {
	case "bitflip":
		if n == 0 {
			return nil, false
		}
		out := clone(in)
		out[o.pos(t, n)] ^= 1 << uint(intn(t, "bit", 0, 7))
		return out, true
	case "byteset":
		if n == 0 {
			return nil, false
		}
		out := clone(in)
		out[o.pos(t, n)] = pick(t, "bv", specialBytes)
		return out, true
	case "truncate":
		if n == 0 {
			return nil, false
		}
		// Biased towards cutting only a few bytes and towards cutting at a hot offset.
		switch intn(t, "tmode", 0, 3) {
		case 0:
			return clone(in[:n-intn(t, "tcut", 1, min(n, 8))]), true
		case 1:
			if len(o.Hot) > 0 {
				p := pick(t, "thot", o.Hot) + intn(t, "tdelta", 0, 8)
				if p >= 0 && p < n {
					return clone(in[:p]), true
				}
			}
		}
		return clone(in[:intn(t, "tlen", 0, n-1)]), true
	case "extend":
		l := pick(t, "xl", []int{1, 1, 2, 4, 8, 32, 33, 255, 256, 4096})
		var ext []byte
		switch intn(t, "xmode", 0, 2) {
		case 0:
			ext = rep(pick(t, "xb", specialBytes), l)
		case 1:
			ext = make([]byte, l)
			for i := range ext {
				ext[i] = byte(intn(t, "xr", 0, 255))
				if i > 16 { // long tails repeat, keeps the number of draws small
					ext[i] = ext[i%16]
				}
			}
		default:
			if n == 0 {
				return nil, false
			}
			a := intn(t, "xa", 0, n-1)
			ext = clone(in[a:min(n, a+l)])
		}
		return append(clone(in), ext...), true
	case "dup-slice", "drop-slice":
		if n == 0 {
			return nil, false
		}
		a := o.pos(t, n)
		l := intn(t, "sl", 1, min(n-a, pick(t, "slmax", []int{1, 2, 4, 8, 32, 64, 512})))
		if kind == "drop-slice" {
			return append(clone(in[:a]), in[a+l:]...), true
		}
		out := append(clone(in[:a+l]), in[a:a+l]...)
		return append(out, in[a+l:]...), true
	case "swap-slice":
		if n < 2 {
			return nil, false
		}
		l := intn(t, "sl", 1, min(n/2, pick(t, "slmax", []int{1, 2, 4, 8, 32, 64})))
		a := intn(t, "sa", 0, n-2*l)
		b := intn(t, "sb", a+l, n-l)
		out := clone(in)
		copy(out[a:a+l], in[b:b+l])
		copy(out[b:b+l], in[a:a+l])
		return out, true
	case "int-field":
		w := pick(t, "iw", []int{1, 2, 2, 4, 4, 8})
		if n < w {
			return nil, false
		}
		p := o.pos(t, n-w+1)
		if p > n-w {
			p = n - w
		}
		le := intn(t, "ile", 0, 1) == 0
		out := clone(in)
		f := out[p : p+w]
		var v uint64
		switch w {
		case 1:
			v = uint64(f[0])
		case 2:
			if le {
				v = uint64(binary.LittleEndian.Uint16(f))
			} else {
				v = uint64(binary.BigEndian.Uint16(f))
			}
		case 4:
			if le {
				v = uint64(binary.LittleEndian.Uint32(f))
			} else {
				v = uint64(binary.BigEndian.Uint32(f))
			}
		default:
			if le {
				v = binary.LittleEndian.Uint64(f)
			} else {
				v = binary.BigEndian.Uint64(f)
			}
		}
		max := uint64(1)<<(uint(w)*8) - 1
		if w == 8 {
			max = ^uint64(0)
		}
		rest := uint64(n - p - w)
		switch intn(t, "iop", 0, 8) {
		case 0:
			v++
		case 1:
			v--
		case 2:
			v = max
		case 3:
			v = max >> 1 // largest positive signed value
		case 4:
			v = max>>1 + 1 // sign bit only
		case 5:
			v = 0
		case 6:
			v = rest + 1 // one more than what follows the field
		case 7:
			v = rest
		default:
			v = uint64(n)
		}
		switch w {
		case 1:
			f[0] = byte(v)
		case 2:
			if le {
				binary.LittleEndian.PutUint16(f, uint16(v))
			} else {
				binary.BigEndian.PutUint16(f, uint16(v))
			}
		case 4:
			if le {
				binary.LittleEndian.PutUint32(f, uint32(v))
			} else {
				binary.BigEndian.PutUint32(f, uint32(v))
			}
		default:
			if le {
				binary.LittleEndian.PutUint64(f, v)
			} else {
				binary.BigEndian.PutUint64(f, v)
			}
		}
		return out, true
	case "splice":
		if len(o.Others) == 0 {
			return nil, false
		}
		other := pick(t, "sother", o.Others)
		if len(other) == 0 || n == 0 {
			return nil, false
		}
		switch intn(t, "smode", 0, 2) {
		case 0: // crossover: head of in, tail of other
			a := intn(t, "sa", 0, n)
			b := intn(t, "sb", 0, len(other))
			return append(clone(in[:a]), other[b:]...), true
		case 1: // overwrite a range in place with a range of other
			l := intn(t, "sl", 1, min(n, min(len(other), 64)))
			a := intn(t, "sa", 0, n-l)
			b := intn(t, "sb", 0, len(other)-l)
			out := clone(in)
			copy(out[a:a+l], other[b:b+l])
			return out, true
		default: // insert a range of other
			l := intn(t, "sl", 1, min(len(other), 256))
			a := intn(t, "sa", 0, n)
			b := intn(t, "sb", 0, len(other)-l)
			out := append(clone(in[:a]), other[b:b+l]...)
			return append(out, in[a:]...), true
		}
	case "insert-const":
		name := pick(t, "hconst", hostileNames)
		c := Hostile()[name]
		if len(c) == 0 {
			return nil, false
		}
		a := 0
		if n > 0 {
			a = o.pos(t, n+1)
			if a > n {
				a = n
			}
		}
		if intn(t, "hover", 0, 1) == 0 && a+len(c) <= n { // overwrite
			out := clone(in)
			copy(out[a:], c)
			return out, true
		}
		out := append(clone(in[:a]), c...)
		return append(out, in[a:]...), true
	}
	return nil, false
}

// CBORKinds lists the CBOR-aware mutation kinds.
var CBORKinds = []string{"len-huge", "len-indef", "len-off", "nest", "dup-key", "tag", "retype", "int-arg", "drop-elem", "dup-elem", "swap-elem",
	"splice-item", "const-item", "str-resize", "str-bytes", "nested-bstr", "recode"}

// cborKindDraw biases the draw towards mutations that keep the document well typed (values,
// string contents, element lists), so that a good share of the mutants gets past the outer decoder.
var cborKindDraw = func() []string {
	w := map[string]int{"int-arg": 4, "str-bytes": 4, "str-resize": 3, "drop-elem": 2, "dup-elem": 2, "swap-elem": 2, "nested-bstr": 4, "splice-item": 2, "len-off": 2}
	var out []string
	for _, k := range CBORKinds {
		n := w[k]
		if n == 0 {
			n = 1
		}
		for i := 0; i < n; i++ {
			out = append(out, k)
		}
	}
	return out
}()

var hugeLens = []uint64{1 << 16, 131073, 10_000_001, 1<<31 - 1, 1 << 31, 1<<32 - 1, 1 << 32, 1<<63 - 1, 1 << 63, ^uint64(0)}

var nestLevels = []int{1, 2, 3, 8, 15, 16, 17, 30, 31, 32, 33, 64, 127, 128, 129, 1000, 20000}

var tagNumbers = []uint64{0, 1, 2, 3, 4, 5, 21, 24, 32, 55799, 1 << 32, ^uint64(0)}

// primitives are replacement items of every type.
var primitives = [][]byte{
	{0x00}, {0x01}, {0x17}, {0x18, 0x18}, {0x18, 0xff}, {0x19, 0x01, 0x00}, {0x1a, 0xff, 0xff, 0xff, 0xff}, {0x1b, 0xff, 0xff, 0xff, 0xff, 0xff, 0xff, 0xff, 0xff},
	{0x1b, 0x80, 0, 0, 0, 0, 0, 0, 0}, {0x18, 0x05} /* non-minimal */, {0x20}, {0x38, 0xff}, {0x3b, 0xff, 0xff, 0xff, 0xff, 0xff, 0xff, 0xff, 0xff},
	{0x40}, {0x41, 0x00}, cat([]byte{0x58, 0x20}, rep(0x00, 32)), cat([]byte{0x58, 0x20}, rep(0xff, 32)), cat([]byte{0x58, 0x1f}, rep(0x01, 31)), cat([]byte{0x58, 0x21}, rep(0x01, 33)),
	cat([]byte{0x58, 0x40}, rep(0x00, 64)), cat([]byte{0x59, 0x10, 0x00}, rep(0xa5, 4096)),
	{0x60}, {0x61, 0x61}, {0x61, 0x76}, {0x62, 0xc3, 0x28}, cat([]byte{0x78, 0x40}, rep('a', 64)),
	{0x80}, {0x81, 0x00}, {0x82, 0x00, 0x01}, {0x81, 0x80}, {0xa0}, {0xa1, 0x00, 0x00}, {0xa1, 0x61, 0x76, 0x00}, {0xa1, 0x61, 0x76, 0x18, 0xff}, {0xa1, 0x61, 0x76, 0x19, 0xff, 0xff},
	{0xf4}, {0xf5}, {0xf6}, {0xf7}, {0xf8, 0xff}, {0xf9, 0x7e, 0x00}, {0xfa, 0x7f, 0x80, 0, 0}, {0xfb, 0x3f, 0xf0, 0, 0, 0, 0, 0, 0},
	{0xff}, {0x1c}, {0x5f, 0x41, 0x00, 0xff}, {0x9f, 0xff}, {0xbf, 0xff}, {0xc2, 0x41, 0x01},
}

// CBOR applies one CBOR-aware mutation. ok is false when the input is not parseable as CBOR (the
// caller falls back to byte-level mutation) or the drawn kind does not apply.
func CBOR(t *rapid.T, in []byte, o Opts) (out []byte, kind string, ok bool) {
	return cborDepth(t, in, o, 0)
}

func cborDepth(t *rapid.T, in []byte, o Opts, rec int) ([]byte, string, bool) {
	var roots []*Item
	if o.Seq {
		rs, _ := ParseSeq(in)
		roots = rs
	} else if it, _, err := Parse(in); err == nil {
		roots = []*Item{it}
	}
	if len(roots) == 0 {
		return nil, "unparseable", false
	}
	var all []*Item
	for _, r := range roots {
		all = append(all, Flatten(r)...)
	}
	kind := pick(t, "ckind", cborKindDraw)
	// candidates for the kind
	var cand []*Item
	for _, it := range all {
		ok := false
		switch kind {
		case "len-huge", "len-off":
			ok = it.Major >= 2 && it.Major <= 5 && !it.Indef
		case "len-indef":
			ok = it.Major >= 2 && it.Major <= 5 && !it.Indef
		case "dup-key":
			ok = it.Major == 5 && len(it.Kids) >= 2
		case "int-arg":
			ok = it.Major <= 1 || (it.Major == 7 && it.Info < 24)
		case "drop-elem", "dup-elem":
			ok = (it.Major == 4 || it.Major == 5) && len(it.Kids) >= 1
		case "swap-elem":
			ok = (it.Major == 4 && len(it.Kids) >= 2) || (it.Major == 5 && len(it.Kids) >= 4)
		case "str-resize", "str-bytes":
			ok = (it.Major == 2 || it.Major == 3) && !it.Indef && (kind == "str-resize" || it.End > it.HeadEnd)
		case "recode":
			ok = !it.Indef && ((it.Major == 2 || it.Major == 3) && it.End-it.HeadEnd <= 128 || it.Major == 0)
		case "nested-bstr":
			if it.Major == 2 && !it.Indef && it.End-it.HeadEnd >= 1 && rec < 3 {
				c := in[it.HeadEnd:it.End]
				if sub, used, err := Parse(c); err == nil && used == len(c) && (sub.Major >= 4 || len(c) > 8) {
					ok = true
				}
			}
		default: // nest, tag, retype, splice-item, const-item: any item
			ok = true
		}
		if ok {
			cand = append(cand, it)
		}
	}
	if len(cand) == 0 {
		return nil, kind + "/na", false
	}
	it := cand[intn(t, "citem", 0, len(cand)-1)]
	raw := in[it.Start:it.End]
	body := in[it.HeadEnd:it.End]
	var repl []byte
	switch kind {
	case "len-huge":
		repl = cat(Head(it.Major, pick(t, "huge", hugeLens)), body)
	case "len-off":
		switch intn(t, "lop", 0, 4) {
		case 0:
			repl = cat(Head(it.Major, it.Arg+uint64(intn(t, "ld", 1, 3))), body)
		case 1:
			d := uint64(intn(t, "ld", 1, 3))
			if d > it.Arg {
				d = it.Arg
			}
			repl = cat(Head(it.Major, it.Arg-d), body)
		case 2:
			repl = cat(HeadW(it.Major, it.Arg, pick(t, "lw", []int{1, 2, 4, 8})), body) // non-minimal width
		case 3:
			repl = cat(Head(it.Major, 0), body)
		default:
			repl = cat(Head(it.Major, it.Arg*2+1), body)
		}
	case "len-indef":
		switch it.Major {
		case 2, 3:
			repl = cat([]byte{it.Major<<5 | 31}, raw, []byte{0xff}) // one definite chunk
		default:
			repl = cat([]byte{it.Major<<5 | 31}, body, []byte{0xff})
		}
		if intn(t, "nobreak", 0, 5) == 0 {
			repl = repl[:len(repl)-1]
		}
	case "nest":
		n := pick(t, "nlevels", nestLevels)
		k := pick(t, "nkind", []byte{'a', 'a', 'm', 't', 'i', 'b'})
		per := 1
		if k == 'm' || k == 'i' {
			per = 2
		}
		if room := (o.maxLen() - len(in)) / per; n > room {
			n = room
		}
		if k == 'b' && n > 2000 {
			n = 2000
		}
		if n < 1 {
			return nil, kind + "/na", false
		}
		repl = Nest(raw, n, k)
	case "dup-key":
		pairs := len(it.Kids) / 2
		p := intn(t, "pair", 0, pairs-1)
		k, v := it.Kids[2*p], it.Kids[2*p+1]
		dupv := in[v.Start:v.End]
		if intn(t, "dupval", 0, 1) == 0 {
			dupv = pick(t, "dupprim", primitives)
		}
		where := intn(t, "dupat", 0, 2) // 0 right after the original, 1 at the end, 2 at the front
		var kidsBytes []byte
		dup := cat(in[k.Start:k.End], dupv)
		if where == 2 {
			kidsBytes = append(kidsBytes, dup...)
		}
		for i := 0; i < pairs; i++ {
			kidsBytes = append(kidsBytes, in[it.Kids[2*i].Start:it.Kids[2*i+1].End]...)
			if where == 0 && i == p {
				kidsBytes = append(kidsBytes, dup...)
			}
		}
		if where == 1 {
			kidsBytes = append(kidsBytes, dup...)
		}
		if it.Indef {
			repl = cat([]byte{0xbf}, kidsBytes, []byte{0xff})
		} else {
			repl = cat(Head(5, uint64(pairs+1)), kidsBytes)
		}
	case "tag":
		repl = cat(Head(6, pick(t, "tagno", tagNumbers)), raw)
	case "retype":
		repl = pick(t, "prim", primitives)
	case "const-item":
		repl = Hostile()[pick(t, "hconst", hostileNames)]
		if len(repl) == 0 {
			repl = []byte{0xff}
		}
	case "int-arg":
		major := it.Major
		var v uint64
		switch intn(t, "iop", 0, 9) {
		case 0:
			v = it.Arg + 1
		case 1:
			v = it.Arg - 1
		case 2:
			v = 0
		case 3:
			v = ^uint64(0)
		case 4:
			v = 1<<63 - 1
		case 5:
			v = 1 << 63
		case 6:
			v = 1<<32 - 1
		case 7:
			v = 1 << 32
		case 8:
			v = it.Arg
			if major <= 1 {
				major ^= 1 // sign flip
			}
		default:
			v = pick(t, "ival", []uint64{23, 24, 255, 256, 65535, 65536})
		}
		if intn(t, "iwide", 0, 5) == 0 {
			repl = HeadW(major, v, pick(t, "iw", []int{1, 2, 4, 8}))
		} else {
			repl = Head(major, v)
		}
	case "drop-elem", "dup-elem", "swap-elem":
		per := 1
		if it.Major == 5 {
			per = 2
		}
		cnt := len(it.Kids) / per
		if cnt == 0 {
			return nil, kind + "/na", false
		}
		elem := func(i int) []byte { return in[it.Kids[per*i].Start:it.Kids[per*i+per-1].End] }
		var order []int
		for i := 0; i < cnt; i++ {
			order = append(order, i)
		}
		e := intn(t, "elem", 0, cnt-1)
		switch kind {
		case "drop-elem":
			order = append(order[:e], order[e+1:]...)
		case "dup-elem":
			times := pick(t, "dtimes", []int{1, 1, 2, 16, 1000})
			if per*times*len(elem(e)) > o.maxLen()-len(in) {
				times = 1
			}
			for i := 0; i < times; i++ {
				order = append(order, e)
			}
		default:
			f := intn(t, "elem2", 0, cnt-1)
			order[e], order[f] = order[f], order[e]
		}
		var kb []byte
		for _, i := range order {
			kb = append(kb, elem(i)...)
		}
		if intn(t, "keepcount", 0, 7) == 0 { // count left stale on purpose
			repl = cat(in[it.Start:it.HeadEnd], kb)
			if it.Indef {
				repl = append(repl, 0xff)
			}
		} else if it.Indef {
			repl = cat([]byte{it.Major<<5 | 31}, kb, []byte{0xff})
		} else {
			repl = cat(Head(it.Major, uint64(len(order))), kb)
		}
	case "splice-item":
		src := in
		if len(o.Others) > 0 && intn(t, "sself", 0, 3) != 0 {
			src = pick(t, "sother", o.Others)
		}
		var sitems []*Item
		if o.Seq {
			rs, _ := ParseSeq(src)
			for _, r := range rs {
				sitems = append(sitems, Flatten(r)...)
			}
		} else if sit, _, err := Parse(src); err == nil {
			sitems = Flatten(sit)
		}
		if len(sitems) == 0 {
			return nil, kind + "/na", false
		}
		s := sitems[intn(t, "sitem", 0, len(sitems)-1)]
		repl = clone(src[s.Start:s.End])
	case "str-resize":
		l := len(body)
		var nb []byte
		switch intn(t, "rop", 0, 5) {
		case 0:
			nb = []byte{}
		case 1:
			if l > 0 {
				nb = body[:l-1]
			}
		case 2:
			nb = cat(body, []byte{pick(t, "rb", specialBytes)})
		case 3:
			nb = cat(body, body)
		case 4:
			if l > 0 {
				nb = body[:intn(t, "rl", 0, l-1)]
			}
		default:
			nb = cat(body, rep(pick(t, "rb", specialBytes), pick(t, "rn", []int{31, 32, 33, 64, 1024, 16384})))
		}
		repl = cat(Head(it.Major, uint64(len(nb))), nb)
	case "recode":
		// the same information under another major type (schema checks that only look at one form)
		switch it.Major {
		case 0:
			var be [8]byte
			binary.BigEndian.PutUint64(be[:], it.Arg)
			i := 0
			for i < 7 && be[i] == 0 {
				i++
			}
			if intn(t, "rcint", 0, 1) == 0 {
				repl = Bstr(be[i:])
			} else {
				repl = append(Head(3, uint64(8-i)), be[i:]...)
			}
		default:
			switch intn(t, "rcstr", 0, 3) {
			case 0, 1: // array of small integers, optionally with one element changed
				nb := clone(body)
				if len(nb) > 0 && intn(t, "rcflip", 0, 1) == 0 {
					nb[intn(t, "rcpos", 0, min(len(nb)-1, 7))] ^= 1 << uint(intn(t, "rcbit", 0, 7))
				}
				switch intn(t, "rclen", 0, 5) {
				case 0:
					if len(nb) > 0 {
						nb = nb[:len(nb)-1]
					}
				case 1:
					nb = append(nb, 0x01)
				}
				repl = Head(4, uint64(len(nb)))
				for _, c := range nb {
					repl = append(repl, Head(0, uint64(c))...)
				}
			case 2: // bytes <-> text
				repl = cat(Head(it.Major^1, uint64(len(body))), body)
			default: // one-element array holding the string
				repl = cat([]byte{0x81}, raw)
			}
		}
	case "str-bytes":
		nb, bk := Bytes(t, body, Opts{MaxLen: o.maxLen(), Others: o.Others})
		kind = "str-bytes:" + bk
		repl = cat(Head(it.Major, uint64(len(nb))), nb)
	case "nested-bstr":
		sub := o
		sub.Seq = false
		sub.Hot = nil
		nb, nk, ok := cborDepth(t, body, sub, rec+1)
		if !ok {
			return nil, "nested-bstr>" + nk, false
		}
		kind = "nested-bstr>" + nk
		repl = Bstr(nb)
	}
	out := cat(in[:it.Start], repl, in[it.End:])
	if len(out) > o.maxLen() {
		out = out[:o.maxLen()]
	}
	return out, kind, true
}

// Mutate applies 1..MaxSteps stacked mutations, mixing CBOR-aware and byte-level steps.
func Mutate(t *rapid.T, in []byte, o Opts) ([]byte, []string) {
	steps := o.MaxSteps
	if steps <= 0 {
		steps = 3
	}
	n := pick(t, "nsteps", []int{1, 1, 1, 2, 2, 3, 4, 6})
	if n > steps {
		n = steps
	}
	pct := o.CBORPercent
	if pct == 0 {
		pct = 60
	}
	cur := in
	var kinds []string
	for i := 0; i < n; i++ {
		if pct > 0 && intn(t, "cbor?", 0, 99) < pct {
			if out, k, ok := CBOR(t, cur, o); ok {
				cur = out
				kinds = append(kinds, k)
				continue
			}
		}
		out, k := Bytes(t, cur, o)
		cur = out
		kinds = append(kinds, k)
	}
	return cur, kinds
}
