// Package c01 decides property C01: replicas compute identical state and results for identical blocks.
package c01

import (
	"bytes"
	"errors"
	"fmt"
	"os"
	"sort"
	"strings"
	"sync"
	"testing"
	"time"

	"github.com/cometbft/cometbft/abci/types"
	"pgregory.net/rapid"

	"github.com/oasisprotocol/oasis-core/go/common/cbor"
	"github.com/oasisprotocol/oasis-core/go/consensus/api/transaction"

	"verifharness/chain"
	"verifharness/ev"
)

func valUpdatesAsSet(ups []types.ValidatorUpdate) string {
	var s []string
	for _, u := range ups {
		s = append(s, fmt.Sprintf("%x=%d", u.PubKey.GetEd25519(), u.Power))
	}
	sort.Strings(s)
	return strings.Join(s, ",")
}

func txResultKey(r types.ResponseDeliverTx) string {
	return fmt.Sprintf("code=%d space=%s data=%x gasUsed=%d gasWanted=%d", r.Code, r.Codespace, r.Data, r.GasUsed, r.GasWanted)
}

const rule = "case = generated production-mode genesis (2-5 staked entities with 1-2 validator nodes, users, delegations, fees, rewards, slashing, governance, optional vault; both voting-power distributions) + 8-40 blocks (quick) of generated " +
	"transactions of every buildable method (valid or with one aspect invalidated), votes, evidence, time gaps; 3-4 replicas on both backends (memory / disk, pruning keep-N, different local MinGasPrice, validator and observer identities); " +
	"per block each replica gets a generated execution path (propose+cached, process-proposal, process-another-proposal-first, plain replay) and disk-backed replicas are restarted at generated heights; one replica receives harness-scheduled " +
	"side traffic between ABCI calls (CheckTx new/recheck of arbitrary generated transactions, EstimateGas, committed-state reads, historical queries at earlier heights) and in a third of the cases a real goroutine that estimates gas and queries historical state during the whole block including Commit (CheckTx is serialised with the other ABCI calls by CometBFT's local client, so only its interleaving BETWEEN calls exists). oracle = at every height all replicas agree byte-for-byte on AppHash, on every transaction's code/codespace/data/gas, " +
	"on validator updates as a set, every non-proposer ACCEPTs the proposal, and nobody fails alone. non-trivial = >=2 distinct paths AND (a restart or a cached proposer block) AND >=1 epoch transition AND >=3 successful non-refresh transactions; " +
	"distinct = hash of genesis spec, blocks and path assignment"

type sideAction struct {
	stage int
	kind  int // 0 CheckTx new, 1 CheckTx recheck, 2 EstimateGas, 3 state dump, 4 historical query at a generated earlier height
	back  int64
	tx    []byte
}

func TestC01Determinism(t *testing.T) {
	rec := ev.New("C01", "TestC01Determinism", rule,
		"same genesis and same block sequence on every replica; CheckTx is never issued during Commit (CometBFT holds the mempool lock there)",
		"commits are feasible (signers of the previous block hold > 2/3 of the power); the anchor validator entity keeps the election precondition of C10",
		"production-mode genesis (no unsafe debug parameters); total supply <= 10^19")
	defer rec.Flush()
	var cur *chain.Sim
	var curSpec *chain.Spec
	ev.Trace = func() any {
		if cur == nil {
			return nil
		}
		return map[string]any{"spec": curSpec, "trace": cur.Trace}
	}
	rapid.Check(t, func(t *rapid.T) {
		spec := chain.GenSpec(t)
		curSpec = spec
		nrep := rapid.IntRange(3, 4).Draw(t, "nrep")
		w0, err := chain.BuildGenesis(spec)
		if err != nil {
			ev.Infra(t, "build genesis: %v", err)
		}
		var cfgs []chain.ReplicaConfig
		for i := 0; i < nrep; i++ {
			cfg := chain.ReplicaConfig{Name: fmt.Sprintf("R%d", i), Backend: chain.Backends[i%2], MinGasPrice: uint64(rapid.SampledFrom([]int{0, 0, 1, 1000}).Draw(t, "minGasPrice")),
				Upgrader: true} // every node has its own persistent upgrade manager (node-local state that survives restarts)
			switch i {
			case 0:
				cfg.MemoryOnly = true
				cfg.Keys = w0.Entities[0].Nodes[0]
			case 1:
				cfg.PruneKeep = uint64(rapid.IntRange(0, 3).Draw(t, "pruneKeep"))
				if len(w0.Entities) > 1 {
					cfg.Keys = w0.Entities[1].Nodes[0]
				}
			case 2:
				cfg.MemoryOnly = rapid.Bool().Draw(t, "r2mem")
			default:
				cfg.PruneKeep = uint64(rapid.IntRange(0, 2).Draw(t, "pruneKeep3"))
			}
			cfgs = append(cfgs, cfg)
		}
		sim, err := chain.NewSim(spec, cfgs)
		if err != nil {
			var ig chain.ErrInvalidGenesis
			if errors.As(err, &ig) {
				rec.Discard("invalid-genesis:" + firstWords(ig.Err.Error(), 16))
				return
			}
			var ec chain.ErrEngineContract
			if errors.As(err, &ec) {
				rec.Discard("engine-contract-at-genesis:" + chain.Why(ec.Err)) // C10 / C14 report it
				return
			}
			ev.Infra(t, "new sim: %v", err)
		}
		cur = sim
		defer sim.Close()
		if rapid.IntRange(0, 3).Draw(t, "govTraffic") == 0 {
			sim.Profile = "gov" // proposals (parameter changes, upgrades, cancellations) that actually pass
			rec.Label("traffic:gov")
		}
		noisy := rapid.IntRange(0, nrep-1).Draw(t, "noisy")
		bgTraffic := rapid.IntRange(0, 2).Draw(t, "bgTraffic") == 0
		bgCalls := 0
		nblocks := rapid.IntRange(8, ev.Pick(40, 150)).Draw(t, "nblocks")
		pathsUsed := map[chain.Path]bool{}
		restarts, cachedBlocks, epochTransitions, okTxs := 0, 0, 0, 0
		var fp []any
		fp = append(fp, fmt.Sprintf("%+v", *spec))
		fail := func(sig, format string, args ...any) {
			ev.Violation(t, sig, "%s; spec=%+v trace=%v", fmt.Sprintf(format, args...), *spec, tail(sim.Trace, 40))
		}
		lastEpoch := uint64(0)
		for bi := 0; bi < nblocks; bi++ {
			// restarts (disk-backed replicas only)
			for i, r := range sim.Reps {
				if !r.Cfg.MemoryOnly && bi > 0 && rapid.IntRange(0, 11).Draw(t, "restart") == 0 { // (before the first commit CometBFT would simply run InitChain again)
					nr, err := r.Restart(nil)
					if err != nil {
						fail("restart-failed", "replica %s failed to restart at height %d: %v", r.Cfg.Name, sim.E.Height, err)
					}
					sim.Reps[i] = nr
					restarts++
					sim.Logf("restart %s before height %d", r.Cfg.Name, sim.E.Height)
				}
			}
			view, err := chain.NewView(sim.Reps[0])
			if err != nil {
				ev.Infra(t, "view: %v", err)
			}
			if uint64(view.Epoch) != lastEpoch {
				if lastEpoch != 0 {
					epochTransitions++
				}
				lastEpoch = uint64(view.Epoch)
			}
			if ups, err := view.Gov.PendingUpgrades(view.Ctx()); err == nil {
				for _, u := range ups {
					if u.Epoch == view.Epoch+1 && view.FutureEpochHeight() == sim.E.Height {
						// the next block is the upgrade block of a pending upgrade (handler runs in BeginBlock and EndBlock)
						rec.Label("upgrade-block:handler=" + firstWords(string(u.Handler), 1))
					}
				}
			}
			bg := sim.GenBlock(t, view, ev.Pick(8, 12))
			view.Close()
			b := bg.Block
			// an alternative proposal for the same height (failed round)
			var other *chain.Block
			if rapid.IntRange(0, 3).Draw(t, "withOther") == 0 {
				ob := *b
				ob.Txs = nil
				ob.Time = b.Time.Add(1)
				if _, err := sim.E.Propose(&ob, nil, sim.Reps[rapid.IntRange(0, nrep-1).Draw(t, "otherHelper")]); err == nil {
					other = &ob
				}
			}
			propRep := sim.ReplicaFor(b.Proposer)
			helper := sim.Reps[rapid.IntRange(0, nrep-1).Draw(t, "helper")]
			own, err := sim.E.Propose(b, propRep, helper)
			if err != nil {
				rec.Discard("proposal-failed:" + firstWords(err.Error(), 30))
				sim.Logf("h=%d proposal failed: %v", b.Height, err)
				if os.Getenv("VERIF_DEBUG") != "" {
					fmt.Printf("PROPOSAL FAILED own=%v helper=%s propRep=%v spec=%+v\n", own, helper.Cfg.Name, propRep != nil, *spec)
					for _, l := range sim.Trace {
						fmt.Println("   ", l)
					}
				}
				return
			}
			sim.Logf("h=%d proposer=%x own=%v txs=%d ev=%d notes=%v", b.Height, b.Proposer.Address[:4], own, len(b.Txs), len(b.Misbehavior), bg.Notes)
			fp = append(fp, b.Hash)
			if own && propRep != nil && len(b.Txs) > 0 && rapid.IntRange(0, 2).Draw(t, "staleOwn") == 0 {
				// a later round of the same height in which the proposer proposes AGAIN, something else of the same shape
				// (same time, proposer, last commit, number of transactions), and then the FIRST proposal - re-proposed by a
				// validator that saw a polka for it - is what gets processed and decided: the proposer's cached execution
				// is that of the other proposal and must not be taken for the decided block's
				var alt [][]byte
				if len(b.Txs) >= 2 && !bytes.Equal(b.Txs[0], b.Txs[len(b.Txs)-1]) {
					alt = append(append(alt, b.Txs[1:]...), b.Txs[0])
				} else {
					alt = append(append(alt, b.Txs[:len(b.Txs)-1]...), []byte{0xa0})
				}
				if n, err := sim.E.PrepareAlt(propRep, b, alt); err == nil && n == len(b.Full) {
					rec.Label("own-proposal-replaced-by-another-of-the-same-shape")
					sim.Logf("h=%d proposer prepared another proposal of the same shape afterwards", b.Height)
					fp = append(fp, "stale-own")
				}
			}
			// side traffic for the noisy replica
			var sides []sideAction
			ns := rapid.IntRange(0, 5).Draw(t, "nside")
			for i := 0; i < ns; i++ {
				sa := sideAction{stage: rapid.IntRange(0, len(b.Full)+3).Draw(t, "sideStage"), kind: rapid.IntRange(0, 4).Draw(t, "sideKind"), back: int64(rapid.IntRange(0, 4).Draw(t, "sideBack"))}
				if len(bg.Txs) > 0 {
					sa.tx = bg.Txs[rapid.IntRange(0, len(bg.Txs)-1).Draw(t, "sideTx")].Raw
				} else {
					sa.tx = []byte{0xa0}
				}
				sides = append(sides, sa)
			}
			outs := make([]*chain.BlockOutcome, nrep)
			for i, r := range sim.Reps {
				path := chain.Path(rapid.IntRange(0, 2).Draw(t, "path"))
				if own && r == propRep {
					path = chain.PathPropose
					cachedBlocks++
				}
				pathsUsed[path] = true
				fp = append(fp, int(path))
				var side func(int)
				if i == noisy {
					rr := r
					side = func(stage int) {
						for _, sa := range sides {
							if sa.stage != stage {
								continue
							}
							_ = chain.Call(func() {
								switch sa.kind {
								case 0:
									rr.Mux.CheckTx(types.RequestCheckTx{Tx: sa.tx, Type: types.CheckTxType_New})
								case 1:
									rr.Mux.CheckTx(types.RequestCheckTx{Tx: sa.tx, Type: types.CheckTxType_Recheck})
								case 2:
									var st transaction.SignedTransaction
									var tx transaction.Transaction
									if cborUnmarshal(sa.tx, &st) == nil && cborUnmarshal(st.Blob, &tx) == nil {
										_, _ = rr.Srv.EstimateGas(st.Signature.PublicKey, &tx)
									}
								case 3:
									_, _ = chain.DumpCommitted(rr)
								default:
									// historical query (pruned heights answer "version not found")
									if h := b.Height - 1 - sa.back; h >= 1 {
										_, _ = chain.DumpAtVersion(rr, h)
									}
								}
							})
						}
					}
				}
				execPath := path
				if path == chain.PathPropose {
					execPath = chain.PathProcess // ProcessProposal of its own proposal reuses the cached results
				}
				// truly concurrent traffic: what a node serves over gRPC while blocks execute is NOT serialised with the ABCI
				// calls (CheckTx is: CometBFT's local ABCI client holds one mutex for all connections) - gas estimation and
				// historical state queries run from a real goroutine during the whole block, Commit included
				var wg sync.WaitGroup
				stop := make(chan struct{})
				if i == noisy && bgTraffic {
					rr, txs, hh := r, bg.Txs, b.Height
					wg.Add(1)
					go func() {
						defer wg.Done()
						for n := 0; ; n++ {
							select {
							case <-stop:
								return
							default:
							}
							_ = chain.Call(func() {
								if n%2 == 0 && len(txs) > 0 {
									var st transaction.SignedTransaction
									var tx transaction.Transaction
									if cborUnmarshal(txs[(n/2)%len(txs)].Raw, &st) == nil && cborUnmarshal(st.Blob, &tx) == nil {
										_, _ = rr.Srv.EstimateGas(st.Signature.PublicKey, &tx)
									}
								} else if h := hh - 1 - int64(n%4); h >= 1 {
									_, _ = chain.DumpAtVersion(rr, h)
								}
							})
							bgCalls++
						time.Sleep(200 * time.Microsecond) // (pacing only: the schedule is not part of the case)
						}
					}()
				}
				outs[i] = sim.E.ExecuteWithSide(r, b, execPath, other, side)
				close(stop)
				wg.Wait()
				outs[i].Path = path
			}
			// ---- oracle
			ref := outs[0]
			allErr := true
			for _, o := range outs {
				if o.Err == nil {
					allErr = false
				}
			}
			if allErr {
				rec.Discard("block-failed-everywhere:" + firstWords(ref.Err.Error(), 6))
				sim.Logf("h=%d failed on every replica: %v", b.Height, ref.Err)
				return
			}
			for i, o := range outs {
				name := sim.Reps[i].Cfg.Name
				if o.Err != nil {
					fail("replica-failed-alone", "height %d: replica %s (%s, path %s) failed: %v while others succeeded", b.Height, name, sim.Reps[i].Cfg.Backend, o.Path, o.Err)
				}
				if !o.Accepted {
					fail("proposal-rejected", "height %d: replica %s (path %s) REJECTED the block proposed by %x (own=%v)", b.Height, name, o.Path, b.Proposer.Address[:4], own)
				}
				if !bytes.Equal(o.AppHash, ref.AppHash) {
					d0, _ := chain.DumpCommitted(sim.Reps[0])
					di, _ := chain.DumpCommitted(sim.Reps[i])
					diff := chain.Diff(d0, di)
					first := ""
					if len(diff) > 0 {
						first = fmt.Sprintf("%x", diff[0])
					}
					fail("apphash-diverged", "height %d: AppHash of %s (path %s) = %x, of %s (path %s) = %x; %d differing keys, first %s", b.Height, name, o.Path, o.AppHash, sim.Reps[0].Cfg.Name, ref.Path, ref.AppHash, len(diff), first)
				}
				if len(o.TxResults) != len(ref.TxResults) {
					fail("txresult-diverged", "height %d: %d vs %d transaction results", b.Height, len(o.TxResults), len(ref.TxResults))
				}
				for j := range o.TxResults {
					if txResultKey(o.TxResults[j]) != txResultKey(ref.TxResults[j]) {
						fail("txresult-diverged", "height %d tx %d: %s (path %s) says {%s}, %s (path %s) says {%s}", b.Height, j, name, o.Path, txResultKey(o.TxResults[j]), sim.Reps[0].Cfg.Name, ref.Path, txResultKey(ref.TxResults[j]))
					}
				}
				if valUpdatesAsSet(o.EndBlock.ValidatorUpdates) != valUpdatesAsSet(ref.EndBlock.ValidatorUpdates) {
					fail("valupdates-diverged", "height %d: validator updates differ: %s vs %s", b.Height, valUpdatesAsSet(o.EndBlock.ValidatorUpdates), valUpdatesAsSet(ref.EndBlock.ValidatorUpdates))
				}
			}
			for j, d := range bg.Txs {
				if j < len(ref.TxResults) && ref.TxResults[j].Code == 0 && d.Note != "liveness refresh" {
					okTxs++
				}
				if j < len(ref.TxResults) {
					rec.Label(fmt.Sprintf("tx:%s:%s/%d", d.Method, ref.TxResults[j].Codespace, ref.TxResults[j].Code))
				}
			}
			if err := sim.AfterCommit(b, ref); err != nil {
				rec.Discard("engine-contract:" + firstWords(err.Error(), 5))
				return
			}
		}
		nt := len(pathsUsed) >= 2 && (restarts > 0 || cachedBlocks > 0) && epochTransitions >= 1 && okTxs >= 3
		if restarts > 0 {
			rec.Label("restart")
		}
		if cachedBlocks > 0 {
			rec.Label("cached-proposer-block")
		}
		rec.LabelN("epoch-transitions", uint64(epochTransitions))
		if bgTraffic {
			rec.Label("concurrent-query-goroutine")
			rec.LabelN("concurrent-query-calls", uint64(bgCalls))
		}
		rec.LabelN("blocks", uint64(nblocks))
		var sample any
		if nt && rec.WantSample() {
			sample = map[string]any{"spec": spec, "trace": tail(sim.Trace, 30)}
		}
		rec.Case(nt, ev.Fingerprint(fp...), sample)
	})
}

func firstWords(s string, n int) string {
	f := strings.Fields(s)
	if len(f) > n {
		f = f[:n]
	}
	return strings.Join(f, " ")
}

func tail(s []string, n int) []string {
	if len(s) > n {
		return s[len(s)-n:]
	}
	return s
}

func cborUnmarshal(b []byte, v any) error { return cbor.Unmarshal(b, v) }
