// Package c02 decides property C02: the MKVS root hash depends only on the key/value contents.
package c02

import (
	"context"
	"errors"
	"fmt"
	"os"
	"testing"

	"pgregory.net/rapid"

	"github.com/oasisprotocol/oasis-core/go/common/crypto/hash"
	"github.com/oasisprotocol/oasis-core/go/storage/mkvs"
	"github.com/oasisprotocol/oasis-core/go/storage/mkvs/node"
	"github.com/oasisprotocol/oasis-core/go/storage/mkvs/writelog"

	"verifharness/ev"
	"verifharness/kv"
)

type op struct {
	Kind string `json:"k"` // I, R, C (commit), O (commit + reopen tree)
	Key  int    `json:"key,omitempty"`
	Val  []byte `json:"-"`
	VLen int    `json:"vlen,omitempty"`
}

type history struct {
	Backend  string `json:"backend"`
	NodeCap  uint64 `json:"node_cap"`
	ValueCap uint64 `json:"value_cap"`
	NoWL     bool   `json:"without_writelog"`
	Ops      []op   `json:"ops"`
}

type caseDesc struct {
	Universe  []string  `json:"universe_hex"`
	Final     []string  `json:"final_keys_hex"`
	Histories []history `json:"histories"`
}

var ctx = context.Background()

func applyOps(t *rapid.T, h *history, uni [][]byte, withLogs bool) (rootHash hash.Hash, wls []writelog.WriteLog, final kv.Model, failure string) {
	defer func() {
		// A panic inside the tree (e.g. committing a node whose leaf was evicted) is a failure of
		// this history, attributed to its capacity stratum by the caller.
		if r := recover(); r != nil {
			failure = fmt.Sprintf("panic: %v", r)
		}
	}()
	ndb, err := kv.OpenDB(h.Backend, "", true)
	if err != nil {
		ev.Infra(t, "open db: %v", err)
	}
	defer ndb.Close()
	opts := []mkvs.Option{mkvs.Capacity(h.NodeCap, h.ValueCap)}
	if h.NoWL {
		opts = append(opts, mkvs.WithoutWriteLog())
	}
	tree := mkvs.New(nil, ndb, node.RootTypeState, opts...)
	defer func() { tree.Close() }()
	model := kv.Model{}
	version := uint64(1)
	var logs []writelog.WriteLog
	commit := func() (hash.Hash, string) {
		wl, rh, err := tree.Commit(ctx, kv.Namespace, version)
		if err != nil {
			return rh, fmt.Sprintf("commit v%d: %v", version, err)
		}
		if err := ndb.Finalize([]node.Root{kv.Root(version, node.RootTypeState, rh)}); err != nil {
			return rh, fmt.Sprintf("finalize v%d: %v", version, err)
		}
		if withLogs {
			logs = append(logs, wl)
		}
		if want := kv.RefRoot(model); rh != want {
			return rh, fmt.Sprintf("root after commit v%d is %s, reference root of the contents is %s", version, rh, want)
		}
		version++
		return rh, ""
	}
	for i, o := range h.Ops {
		switch o.Kind {
		case "I":
			if err := tree.Insert(ctx, uni[o.Key], o.Val); err != nil {
				return hash.Hash{}, nil, nil, fmt.Sprintf("op %d insert: %v", i, err)
			}
			model[string(uni[o.Key])] = o.Val
		case "R":
			if err := tree.Remove(ctx, uni[o.Key]); err != nil {
				return hash.Hash{}, nil, nil, fmt.Sprintf("op %d remove: %v", i, err)
			}
			delete(model, string(uni[o.Key]))
		case "C", "O":
			rh, msg := commit()
			if msg != "" {
				return rh, nil, nil, fmt.Sprintf("op %d: %s", i, msg)
			}
			if o.Kind == "O" {
				tree.Close()
				tree = mkvs.NewWithRoot(nil, ndb, kv.Root(version-1, node.RootTypeState, rh), opts...)
			}
		}
	}
	rh, msg := commit()
	if msg != "" {
		return rh, nil, nil, "final " + msg
	}
	return rh, logs, model, ""
}

// genHistory draws a history over the universe that ends with exactly the contents `final`.
func genHistory(t *rapid.T, uni [][]byte, final kv.Model) (history, bool, string) {
	h := history{Backend: rapid.SampledFrom(kv.Backends).Draw(t, "backend")}
	cp := kv.GenCapacity(t, uni, ev.Excluded(kv.SigNodeCapBelowPath), ev.Excluded(kv.SigLeafEvictedDirty))
	h.NodeCap, h.ValueCap = cp.Node, cp.Value
	h.NoWL = rapid.IntRange(0, 4).Draw(t, "nowl") == 0
	n := rapid.IntRange(0, ev.Pick(40, 160)).Draw(t, "nops")
	cur := map[int]bool{}
	committed := map[int]bool{}
	removedCommitted := false
	for i := 0; i < n; i++ {
		k := rapid.IntRange(0, len(uni)-1).Draw(t, "key")
		switch m := rapid.IntRange(0, 11).Draw(t, "opkind"); {
		case m <= 5:
			v := kv.GenValue(t)
			h.Ops = append(h.Ops, op{Kind: "I", Key: k, Val: v, VLen: len(v)})
			cur[k] = true
		case m <= 9:
			if committed[k] && cur[k] {
				removedCommitted = true
			}
			h.Ops = append(h.Ops, op{Kind: "R", Key: k})
			delete(cur, k)
		default:
			kind := "C"
			if m == 11 {
				kind = "O"
			}
			h.Ops = append(h.Ops, op{Kind: kind})
			committed = map[int]bool{}
			for x := range cur {
				committed[x] = true
			}
		}
	}
	// fix-up suffix in a drawn order: every universe key is brought to its final state
	perm := rapid.Permutation(intRange(len(uni))).Draw(t, "fixorder")
	for _, k := range perm {
		if v, ok := final[string(uni[k])]; ok {
			h.Ops = append(h.Ops, op{Kind: "I", Key: k, Val: v, VLen: len(v)})
		} else {
			if committed[k] && cur[k] {
				removedCommitted = true
			}
			h.Ops = append(h.Ops, op{Kind: "R", Key: k})
		}
		if rapid.IntRange(0, 14).Draw(t, "fixcommit") == 0 {
			h.Ops = append(h.Ops, op{Kind: "C"})
			committed = map[int]bool{}
		}
	}
	return h, removedCommitted, cp.Stratum
}

func intRange(n int) []int {
	r := make([]int, n)
	for i := range r {
		r[i] = i
	}
	return r
}

func hasPrefixPairOrEmpty(final kv.Model) bool {
	ks := final.SortedKeys()
	for i, a := range ks {
		if a == "" {
			return true
		}
		for _, b := range ks[i+1:] {
			if len(b) > len(a) && b[:len(a)] == a {
				return true
			}
		}
	}
	return false
}

// memRoot computes the implementation's root for given contents with a purely in-memory tree.
func memRoot(m kv.Model) (hash.Hash, error) {
	tree := mkvs.New(nil, nil, node.RootTypeState)
	defer tree.Close()
	for _, k := range m.SortedKeys() {
		if err := tree.Insert(ctx, []byte(k), m[k]); err != nil {
			return hash.Hash{}, err
		}
	}
	_, rh, err := tree.Commit(ctx, kv.Namespace, 1, mkvs.NoPersist())
	return rh, err
}

const rule = "case = final contents F (0-60 keys quick / 0-200 thorough from a prefix-heavy universe: small alphabet, prefix chains, empty key, 33-70 byte keys with a shared 32-byte prefix, rare 200-600 byte keys) " +
	"+ 2-4 generated histories (inserts/overwrites/removes over the universe, random commit/finalize and commit+reopen points, shuffled fix-up suffix) each with its own backend, cache capacity and write-log option; " +
	"variants: write-log replay of history 1 into a fresh tree, CommitKnown with right/wrong root, NoPersist commit; oracle = every root (also after every intermediate commit) equals the independent reference root hash " +
	"of the contents, and F +/- one key / one value byte / one value length changes both implementation and reference root; non-trivial = F has >=3 keys incl. a proper-prefix pair or the empty key AND some history removes a " +
	"key that had been committed; distinct = hash of universe, F and all histories"

func TestC02RootHash(t *testing.T) {
	rec := ev.New("C02", "TestC02RootHash", rule,
		"keys <= 8191 bytes (node.Depth is a uint16 bit length); values non-nil",
		"cache capacity strata as in kv.GenCapacity: node capacity below the walked path and small value capacity with prefix keys are drawn only when the corresponding known finding is not excluded")
	defer rec.Flush()
	var cur *caseDesc
	ev.Trace = func() any { return cur }
	rapid.Check(t, func(t *rapid.T) {
		nUni := rapid.IntRange(1, ev.Pick(60, 200)).Draw(t, "nuni")
		uni := kv.GenUniverse(t, nUni, true)
		final := kv.Model{}
		for i, k := range uni {
			if rapid.IntRange(0, 2).Draw(t, fmt.Sprintf("inF%d", i)) > 0 {
				final[string(k)] = kv.GenValue(t)
			}
		}
		c := &caseDesc{}
		cur = c
		for _, k := range uni {
			c.Universe = append(c.Universe, fmt.Sprintf("%x", k))
		}
		for _, k := range final.SortedKeys() {
			c.Final = append(c.Final, fmt.Sprintf("%x", k))
		}
		want := kv.RefRoot(final)
		nh := rapid.IntRange(2, 4).Draw(t, "nhist")
		removedCommitted := false
		var firstLogs []writelog.WriteLog
		for i := 0; i < nh; i++ {
			h, rc, stratum := genHistory(t, uni, final)
			c.Histories = append(c.Histories, h)
			removedCommitted = removedCommitted || rc
			rec.Label("capacity:" + stratum)
			rh, logs, model, msg := applyOps(t, &h, uni, i == 0 && !h.NoWL)
			sig := "root-history-dependent"
			switch stratum {
			case "tiny-node":
				sig = kv.SigNodeCapBelowPath
			case "tiny-value":
				if !kv.PrefixFree(uni) {
					sig = kv.SigLeafEvictedDirty
				}
			}
			if msg != "" {
				ev.Violation(t, sig, "history %d (%s, cap %d/%d): %s", i, h.Backend, h.NodeCap, h.ValueCap, msg)
			}
			if !model.Equal(final) {
				ev.Infra(t, "generator bug: history does not end in F")
			}
			if rh != want {
				ev.Violation(t, sig, "history %d (%s, cap %d/%d): final root %s != reference root %s", i, h.Backend, h.NodeCap, h.ValueCap, rh, want)
			}
			if i == 0 {
				firstLogs = logs
			}
		}
		// (b) write-log replay of history 1 into a fresh tree
		if firstLogs != nil {
			tree := mkvs.New(nil, nil, node.RootTypeState)
			for _, wl := range firstLogs {
				if err := tree.ApplyWriteLog(ctx, writelog.NewStaticIterator(wl)); err != nil {
					ev.Violation(t, "writelog-replay", "applying returned write log: %v", err)
				}
			}
			_, rh, err := tree.Commit(ctx, kv.Namespace, 1, mkvs.NoPersist())
			tree.Close()
			if err != nil || rh != want {
				ev.Violation(t, "writelog-replay", "replaying the write logs of history 0 gives root %s (err %v), reference %s", rh, err, want)
			}
			rec.Label("writelog-replay")
		}
		// (c) CommitKnown with the right and a wrong root; (e) NoPersist
		{
			ndb, err := kv.OpenDB(rapid.SampledFrom(kv.Backends).Draw(t, "ckBackend"), "", true)
			if err != nil {
				ev.Infra(t, "open db: %v", err)
			}
			tree := mkvs.New(nil, ndb, node.RootTypeState)
			for _, k := range final.SortedKeys() {
				_ = tree.Insert(ctx, []byte(k), final[k])
			}
			wrong := want
			wrong[rapid.IntRange(0, 31).Draw(t, "wrongByte")] ^= 0x01
			if _, err := tree.CommitKnown(ctx, kv.Root(1, node.RootTypeState, wrong)); !errors.Is(err, mkvs.ErrKnownRootMismatch) {
				ev.Violation(t, "commit-known", "CommitKnown with a wrong root returned %v", err)
			}
			if ndb.HasRoot(kv.Root(1, node.RootTypeState, wrong)) {
				ev.Violation(t, "commit-known", "wrong root present after failed CommitKnown")
			}
			if _, err := tree.CommitKnown(ctx, kv.Root(1, node.RootTypeState, want)); err != nil {
				ev.Violation(t, "commit-known", "CommitKnown with the reference root failed: %v", err)
			}
			tree.Close()
			ndb.Close()
		}
		// sensitivity: any change of the contents changes the root (implementation and reference)
		if len(uni) > 0 {
			f2 := final.Clone()
			k := string(uni[rapid.IntRange(0, len(uni)-1).Draw(t, "sensKey")])
			kind := "add"
			if v, ok := f2[k]; ok {
				switch rapid.IntRange(0, 2).Draw(t, "sensKind") {
				case 0:
					delete(f2, k)
					kind = "remove"
				case 1:
					nv := append([]byte{}, v...)
					if len(nv) == 0 {
						nv = []byte{0}
					} else {
						nv[rapid.IntRange(0, len(nv)-1).Draw(t, "sensPos")] ^= 1 << uint(rapid.IntRange(0, 7).Draw(t, "sensBit"))
					}
					f2[k] = nv
					kind = "value-bit"
				default:
					f2[k] = append(append([]byte{}, v...), 0)
					kind = "value-len"
				}
			} else {
				f2[k] = kv.GenValue(t)
			}
			r2, err := memRoot(f2)
			if err != nil {
				ev.Infra(t, "memRoot: %v", err)
			}
			if r2 == want || kv.RefRoot(f2) == want || r2 != kv.RefRoot(f2) {
				ev.Violation(t, "root-insensitive", "contents changed (%s key %x) but root did not change accordingly: impl %s ref %s original %s", kind, k, r2, kv.RefRoot(f2), want)
			}
			rec.Label("sens:" + kind)
		}
		nt := len(final) >= 3 && hasPrefixPairOrEmpty(final) && removedCommitted
		if removedCommitted {
			rec.Label("remove-of-committed-key")
		}
		if hasPrefixPairOrEmpty(final) {
			rec.Label("prefix-pair-or-empty-key")
		}
		var sample any
		if nt && rec.WantSample() {
			sample = c
		}
		rec.Case(nt, ev.Fingerprint(fmt.Sprintf("%v|%v|%+v", c.Universe, c.Final, c.Histories)), sample)
	})
	_ = os.Stdout
}

// TestC02ValueSizeAccounting is the shrunk reproduction of a defect found by TestC02RootHash on the
// original tree (repaired in /repo by "fix: mkvs cache accounts for the old value size ..."):
// overwriting a cached clean leaf with a larger value made the value-size counter wrap around, after
// which every leaf (including the prefix-key leaf of a dirty internal node) was evicted at ANY finite
// value capacity and the next commit produced a wrong root or panicked.
func TestC02ValueSizeAccounting(t *testing.T) {
	rec := ev.New("C02", "TestC02ValueSizeAccounting", "deterministic regression case: commit {a,z}; reopen, add '' and b, commit; overwrite b with a larger value, read z from the database, read everything, commit; value capacity 1 MiB / 16 MiB; root must equal the reference root", "")
	defer rec.Flush()
	for _, backend := range kv.Backends {
		for _, vcap := range []uint64{1 << 20, 16 << 20} {
			func() {
				defer func() {
					if r := recover(); r != nil {
						ev.Violation(t, "cache-valuesize-accounting", "%s value capacity %d: panic at second commit: %v", backend, vcap, r)
					}
				}()
				ndb, err := kv.OpenDB(backend, "", true)
				if err != nil {
					ev.Infra(t, "open: %v", err)
				}
				defer ndb.Close()
				opt := mkvs.Capacity(0, vcap)
				// version 1: {a, z}
				tree := mkvs.New(nil, ndb, node.RootTypeState, opt)
				m := kv.Model{"a": []byte("1"), "z": []byte("2")}
				for _, k := range m.SortedKeys() {
					_ = tree.Insert(ctx, []byte(k), m[k])
				}
				_, rh, err := tree.Commit(ctx, kv.Namespace, 1)
				if err != nil || rh != kv.RefRoot(m) {
					ev.Violation(t, "cache-valuesize-accounting", "first commit: %v root %s want %s", err, rh, kv.RefRoot(m))
				}
				_ = ndb.Finalize([]node.Root{kv.Root(1, node.RootTypeState, rh)})
				tree.Close()
				// version 2 on a reopened tree (nothing cached): add the prefix key "" and b; after the commit
				// both new leaves are cached as clean nodes, a and z are still only in the database.
				tree = mkvs.NewWithRoot(nil, ndb, kv.Root(1, node.RootTypeState, rh), opt)
				defer tree.Close()
				m[""] = []byte("empty-key")
				m["b"] = []byte("3")
				_ = tree.Insert(ctx, []byte(""), m[""])
				_ = tree.Insert(ctx, []byte("b"), m["b"])
				_, rh, err = tree.Commit(ctx, kv.Namespace, 2)
				if err != nil || rh != kv.RefRoot(m) {
					ev.Violation(t, "cache-valuesize-accounting", "second commit: %v root %s want %s", err, rh, kv.RefRoot(m))
				}
				_ = ndb.Finalize([]node.Root{kv.Root(2, node.RootTypeState, rh)})
				// Overwrite b with a larger value (on the original tree the size counter is decremented by the
				// NEW size and wraps around); the root is dirty now while the "" leaf is clean and cached. Then read
				// z, which has to be fetched from the database and committed to the cache.
				big := make([]byte, 4000)
				m["b"] = big
				_ = tree.Insert(ctx, []byte("b"), big)
				if v, err := tree.Get(ctx, []byte("z")); err != nil || string(v) != "2" {
					ev.Violation(t, "cache-valuesize-accounting", "%s value capacity %d: get z: %q %v", backend, vcap, v, err)
				}
				for _, k := range m.SortedKeys() {
					if v, err := tree.Get(ctx, []byte(k)); err != nil || string(v) != string(m[k]) {
						ev.Violation(t, "cache-valuesize-accounting", "%s value capacity %d: after overwriting b with a larger value and reading z, get %q returns %d bytes, err %v (want %d bytes)", backend, vcap, k, len(v), err, len(m[k]))
					}
				}
				_, rh, err = tree.Commit(ctx, kv.Namespace, 3)
				if err != nil || rh != kv.RefRoot(m) {
					ev.Violation(t, "cache-valuesize-accounting", "%s value capacity %d: third commit: err %v root %s, reference %s", backend, vcap, err, rh, kv.RefRoot(m))
				}
				got, err := kv.Scan(ctx, tree)
				if err != nil {
					ev.Violation(t, "cache-valuesize-accounting", "scan: %v", err)
				}
				if msg := kv.CompareScan(got, m); msg != "" {
					ev.Violation(t, "cache-valuesize-accounting", "%s", msg)
				}
				rec.Case(true, ev.Fingerprint(backend, vcap), fmt.Sprintf("%s vcap=%d ok", backend, vcap))
			}()
		}
	}
}

// Known-finding probes: deterministic minimal reproductions (see known_findings.json). While they
// reproduce they raise the finding's signature, which the driver reports as KNOWN-FINDING.
func TestC02KFNodeCapacity(t *testing.T) {
	rec := ev.New("C02", "TestC02KFNodeCapacity", "deterministic probe of known finding cache-node-capacity-below-path (both backends)", "")
	defer rec.Flush()
	for _, b := range kv.Backends {
		msg := kv.ProbeNodeCapacityBelowPath(b)
		rec.Case(true, ev.Fingerprint(b), fmt.Sprintf("%s: %s", b, msg))
		if msg != "" {
			ev.Violation(t, kv.SigNodeCapBelowPath, "%s: node capacity 1, keys a,b,c, reopen, overwrite c: %s", b, msg)
		}
	}
}

func TestC02KFLeafEviction(t *testing.T) {
	rec := ev.New("C02", "TestC02KFLeafEviction", "deterministic probe of known finding cache-leaf-evicted-under-dirty-internal (both backends)", "")
	defer rec.Flush()
	for _, b := range kv.Backends {
		msg := kv.ProbeLeafEvictedUnderDirtyInternal(b)
		rec.Case(true, ev.Fingerprint(b), fmt.Sprintf("%s: %s", b, msg))
		if msg != "" {
			ev.Violation(t, kv.SigLeafEvictedDirty, "%s: value capacity 250, prefix key '' cached clean under a dirty root, fetch z and a: %s", b, msg)
		}
	}
}
