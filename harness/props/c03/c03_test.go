// Package c03 decides property C03: an MKVS tree and any stack of overlays behave like an ordered map.
package c03

import (
	"bytes"
	"context"
	"fmt"
	"sort"
	"testing"

	"pgregory.net/rapid"

	"github.com/oasisprotocol/oasis-core/go/common/crypto/hash"
	"github.com/oasisprotocol/oasis-core/go/storage/mkvs"
	dbApi "github.com/oasisprotocol/oasis-core/go/storage/mkvs/db/api"
	"github.com/oasisprotocol/oasis-core/go/storage/mkvs/node"

	"verifharness/ev"
	"verifharness/kv"
)

var ctx = context.Background()

type layer struct {
	tree  mkvs.KeyValueTree
	ov    mkvs.OverlayTree // nil for the base tree
	model kv.Model
	dirty map[string]bool // keys written/removed in this overlay (model side bookkeeping only)
}

type machine struct {
	t       *rapid.T
	backend string
	ndb     dbApi.NodeDB
	base    mkvs.Tree
	opts    func(t *rapid.T) []mkvs.Option
	uni     [][]byte
	stack   []*layer // stack[0] = base tree
	version uint64
	root    hash.Hash
	trace   []string
	noWL    bool

	// non-triviality bookkeeping
	reopened, evicting, ovCommitShadow, seekOnDirty, getDuringIter, forked, refused bool
	noPersist, secondCommitter, cancelled                                           bool
	// committed: contents of the last committed (and finalized) version
	committed kv.Model
	stratum                                                                         string
}

func (m *machine) top() *layer { return m.stack[len(m.stack)-1] }

func (m *machine) log(format string, args ...any) {
	m.trace = append(m.trace, fmt.Sprintf(format, args...))
}

func (m *machine) sig() string {
	switch m.stratum {
	case "tiny-node":
		return kv.SigNodeCapBelowPath
	case "tiny-value":
		if !kv.PrefixFree(m.uni) {
			return kv.SigLeafEvictedDirty
		}
	}
	return "ordered-map"
}

func (m *machine) fail(format string, args ...any) {
	ev.Violation(m.t, m.sig(), "%s; backend=%s stratum=%s trace=%v", fmt.Sprintf(format, args...), m.backend, m.stratum, m.trace)
}

func (m *machine) key(t *rapid.T) []byte {
	return m.uni[rapid.IntRange(0, len(m.uni)-1).Draw(t, "key")]
}

func (m *machine) insert(t *rapid.T) {
	k, v := m.key(t), kv.GenValue(t)
	l := m.top()
	m.log("L%d insert %x len=%d", len(m.stack)-1, k, len(v))
	if err := l.tree.Insert(ctx, k, v); err != nil {
		m.fail("insert %x: %v", k, err)
	}
	l.model[string(k)] = v
	if l.dirty != nil {
		l.dirty[string(k)] = true
	}
}

func (m *machine) remove(t *rapid.T) {
	k := m.key(t)
	l := m.top()
	m.log("L%d remove %x", len(m.stack)-1, k)
	if err := l.tree.Remove(ctx, k); err != nil {
		m.fail("remove %x: %v", k, err)
	}
	delete(l.model, string(k))
	if l.dirty != nil {
		l.dirty[string(k)] = true
	}
}

func (m *machine) removeExisting(t *rapid.T) {
	k := m.key(t)
	l := m.top()
	m.log("L%d removeExisting %x", len(m.stack)-1, k)
	got, err := l.tree.RemoveExisting(ctx, k)
	if err != nil {
		m.fail("removeExisting %x: %v", k, err)
	}
	want, had := l.model[string(k)]
	if had != (got != nil) || !bytes.Equal(got, want) {
		m.fail("removeExisting %x returned %x (nil=%v), model previous value %x (present=%v)", k, trunc(got), got == nil, trunc(want), had)
	}
	delete(l.model, string(k))
	if l.dirty != nil && had {
		l.dirty[string(k)] = true
	}
}

func trunc(b []byte) []byte {
	if len(b) > 10 {
		return b[:10]
	}
	return b
}

func (m *machine) checkGet(li int, k []byte) {
	l := m.stack[li]
	got, err := l.tree.Get(ctx, k)
	if err != nil {
		m.fail("L%d get %x: %v", li, k, err)
	}
	want, had := l.model[string(k)]
	if had != (got != nil) || !bytes.Equal(got, want) {
		m.fail("L%d get %x returned %x (nil=%v), model %x (present=%v)", li, k, trunc(got), got == nil, trunc(want), had)
	}
}

func (m *machine) get(t *rapid.T) {
	li := rapid.IntRange(0, len(m.stack)-1).Draw(t, "layer")
	k := m.key(t)
	m.log("L%d get %x", li, k)
	m.checkGet(li, k)
}

// seekKey draws a seek position: a universe key, a neighbour of one, or an arbitrary short key.
func (m *machine) seekKey(t *rapid.T, l *layer) []byte {
	if len(l.dirty) > 0 && rapid.IntRange(0, 2).Draw(t, "seekDirty") == 0 {
		ds := make([]string, 0, len(l.dirty))
		for k := range l.dirty {
			ds = append(ds, k)
		}
		sort.Strings(ds)
		return []byte(ds[rapid.IntRange(0, len(ds)-1).Draw(t, "dirtyKey")])
	}
	k := append([]byte{}, m.key(t)...)
	switch rapid.IntRange(0, 5).Draw(t, "seekmode") {
	case 0:
		return append(k, 0x00) // extension of a key
	case 1:
		if len(k) > 0 {
			return k[:len(k)-1] // prefix of a key
		}
	case 2:
		if len(k) > 0 {
			k[len(k)-1]++ // just after (or wraps to 0: before)
		}
	case 3:
		return []byte{} // before everything
	case 4:
		return []byte{0xff, 0xff, 0xff, 0xff, 0xff, 0xff, 0xff, 0xff} // after (almost) everything
	}
	return k
}

func (m *machine) iterate(t *rapid.T) {
	li := rapid.IntRange(0, len(m.stack)-1).Draw(t, "layer")
	l := m.stack[li]
	it := l.tree.NewIterator(ctx)
	defer it.Close()
	keys := l.model.SortedKeys()
	rounds := rapid.IntRange(1, 3).Draw(t, "rounds")
	for r := 0; r < rounds; r++ {
		var pos int
		if rapid.IntRange(0, 3).Draw(t, "rewind") == 0 {
			m.log("L%d it.Rewind", li)
			it.Rewind()
			pos = 0
		} else {
			sk := m.seekKey(t, l)
			m.log("L%d it.Seek %x", li, sk)
			it.Seek(sk)
			pos = sort.SearchStrings(keys, string(sk))
			if l.dirty != nil && l.dirty[string(sk)] {
				m.seekOnDirty = true
			}
		}
		steps := rapid.IntRange(0, len(keys)+1).Draw(t, "steps")
		for s := 0; ; s++ {
			if it.Err() != nil {
				m.fail("L%d iterator error: %v", li, it.Err())
			}
			if pos >= len(keys) {
				if it.Valid() {
					m.fail("L%d iterator valid at %x, model exhausted", li, it.Key())
				}
				break
			}
			if !it.Valid() {
				m.fail("L%d iterator exhausted, model expects key %x", li, keys[pos])
			}
			if string(it.Key()) != keys[pos] || !bytes.Equal(it.Value(), l.model[keys[pos]]) {
				m.fail("L%d iterator at %x=%x, model expects %x=%x", li, it.Key(), trunc(it.Value()), keys[pos], trunc(l.model[keys[pos]]))
			}
			if s >= steps {
				break
			}
			// reads interleaved with iterator steps are in the domain (the staking app does this)
			if rapid.IntRange(0, 3).Draw(t, "getDuring") == 0 {
				gk := m.key(t)
				gl := rapid.IntRange(0, len(m.stack)-1).Draw(t, "glayer")
				m.log("  L%d get %x (during iteration)", gl, gk)
				m.checkGet(gl, gk)
				m.getDuringIter = true
			}
			it.Next()
			pos++
		}
	}
}

func (m *machine) fullCheck() {
	for li, l := range m.stack {
		got, err := kv.Scan(ctx, l.tree)
		if err != nil {
			m.fail("L%d scan: %v", li, err)
		}
		if msg := kv.CompareScan(got, l.model); msg != "" {
			m.fail("L%d %s", li, msg)
		}
		for _, k := range m.uni {
			m.checkGet(li, k)
		}
	}
}

func (m *machine) push(t *rapid.T) {
	if len(m.stack) >= 4 {
		t.Skip("overlay stack full")
	}
	p := m.top()
	ov := mkvs.NewOverlay(p.tree)
	m.stack = append(m.stack, &layer{tree: ov, ov: ov, model: p.model.Clone(), dirty: map[string]bool{}})
	m.log("push overlay L%d", len(m.stack)-1)
}

func (m *machine) ovCommit(t *rapid.T) {
	if len(m.stack) < 2 {
		t.Skip("no overlay")
	}
	l := m.top()
	parent := m.stack[len(m.stack)-2]
	viaCopy := rapid.IntRange(0, 3).Draw(t, "viaCopy") == 0
	m.log("commit overlay L%d (via copy=%v)", len(m.stack)-1, viaCopy)
	for k := range l.dirty {
		if _, inParent := parent.model[k]; inParent {
			m.ovCommitShadow = true
		}
	}
	ov := l.ov
	if viaCopy {
		ov = l.ov.Copy(nil)
		l.ov.Close()
	}
	if _, err := ov.Commit(ctx); err != nil {
		m.fail("overlay commit: %v", err)
	}
	ov.Close()
	parent.model = l.model
	if parent.dirty != nil {
		for k := range l.dirty {
			parent.dirty[k] = true
		}
	}
	m.stack = m.stack[:len(m.stack)-1]
}

// ovFork duplicates the top overlay with Copy (as the consensus layer does with its init / check states), writes
// through ONE of the two while both stay open, and checks that each still reads as its own model: the copy is a
// snapshot, writes on one side are invisible on the other.
func (m *machine) ovFork(t *rapid.T) {
	if len(m.stack) < 2 {
		t.Skip("no overlay")
	}
	l := m.top()
	twin := l.ov.Copy(nil)
	defer twin.Close()
	twinModel := l.model.Clone()
	m.forked = true
	m.log("fork overlay L%d", len(m.stack)-1)
	nops := rapid.IntRange(1, 4).Draw(t, "forkOps")
	for i := 0; i < nops; i++ {
		k := m.key(t)
		onTwin := rapid.Bool().Draw(t, "forkOnTwin")
		var tree mkvs.KeyValueTree = l.tree
		model := l.model
		if onTwin {
			tree, model = twin, twinModel
		}
		if rapid.IntRange(0, 2).Draw(t, "forkRemove") == 0 {
			m.log("  fork(twin=%v) remove %x", onTwin, k)
			if err := tree.Remove(ctx, k); err != nil {
				m.fail("fork remove %x: %v", k, err)
			}
			delete(model, string(k))
		} else {
			v := kv.GenValue(t)
			m.log("  fork(twin=%v) insert %x len=%d", onTwin, k, len(v))
			if err := tree.Insert(ctx, k, v); err != nil {
				m.fail("fork insert %x: %v", k, err)
			}
			model[string(k)] = v
		}
		if !onTwin {
			l.dirty[string(k)] = true
		}
	}
	for _, side := range []struct {
		name  string
		tree  mkvs.KeyValueTree
		model kv.Model
	}{{"original", l.tree, l.model}, {"copy", twin, twinModel}} {
		got, err := kv.Scan(ctx, side.tree)
		if err != nil {
			m.fail("fork %s scan: %v", side.name, err)
		}
		if msg := kv.CompareScan(got, side.model); msg != "" {
			m.fail("after writes on a forked overlay the %s reads wrongly: %s", side.name, msg)
		}
		for _, k := range m.uni {
			v, err := side.tree.Get(ctx, k)
			want, had := side.model[string(k)]
			if err != nil || had != (v != nil) || !bytes.Equal(v, want) {
				m.fail("after writes on a forked overlay the %s: get %x returned %x (nil=%v, err %v), model %x (present=%v)", side.name, k, trunc(v), v == nil, err, trunc(want), had)
			}
		}
	}
}

func (m *machine) ovDiscard(t *rapid.T) {
	if len(m.stack) < 2 {
		t.Skip("no overlay")
	}
	m.log("discard overlay L%d", len(m.stack)-1)
	m.top().ov.Close()
	m.stack = m.stack[:len(m.stack)-1]
}

// countdownCtx is a context that becomes cancelled at the n-th call of Err(): a caller that gives up (timeout, shutdown)
// while an operation is walking down the tree.
type countdownCtx struct {
	context.Context
	left int
}

func (c *countdownCtx) Err() error {
	c.left--
	if c.left < 0 {
		return context.Canceled
	}
	return nil
}

// writeCancelled: an insert or remove on the base tree whose caller gives up part of the way down. The operation may
// fail; whether it took effect for ITS key is then not specified (the key is written again right away), but no other key
// may be affected - the full scan after the action shows it.
func (m *machine) writeCancelled(t *rapid.T) {
	if len(m.stack) != 1 {
		t.Skip("overlays open")
	}
	k := m.key(t)
	cctx := &countdownCtx{Context: context.Background(), left: rapid.IntRange(0, 6).Draw(t, "givesUpAfter")}
	l := m.top()
	if rapid.Bool().Draw(t, "cancelledRemove") {
		err := l.tree.Remove(cctx, k)
		m.log("remove %x by a caller that gives up after %d steps: %v", k, cctx.left, err)
		if err != nil {
			m.cancelled = true
			if err2 := l.tree.Remove(ctx, k); err2 != nil {
				m.fail("remove %x after a cancelled remove of the same key: %v", k, err2)
			}
		}
		delete(l.model, string(k))
	} else {
		v := kv.GenValue(t)
		err := l.tree.Insert(cctx, k, v)
		m.log("insert %x by a caller that gives up: %v", k, err)
		if err != nil {
			m.cancelled = true
			if err2 := l.tree.Insert(ctx, k, v); err2 != nil {
				m.fail("insert %x after a cancelled insert of the same key: %v", k, err2)
			}
		}
		l.model[string(k)] = v
	}
}

func (m *machine) treeCommit(t *rapid.T) {
	if len(m.stack) != 1 {
		t.Skip("overlays open")
	}
	m.version++
	switch rapid.IntRange(0, 5).Draw(t, "beforeCommit") {
	case 0:
		// what the consensus layer does for every proposal: the root of the working state computed WITHOUT storing
		// anything, after which the tree is written further and committed for real
		_, nh, err := m.base.Commit(ctx, kv.Namespace, m.version, mkvs.NoPersist())
		if err != nil {
			m.fail("no-persist commit v%d: %v", m.version, err)
		}
		if want := kv.RefRoot(m.stack[0].model); nh != want {
			m.fail("root computed by the no-persist commit %s, reference root of the model %s", nh, want)
		}
		m.noPersist = true
		m.log("no-persist commit v%d", m.version)
		m.fullCheck()
		for i := rapid.IntRange(0, 2).Draw(t, "writesAfterNoPersist"); i > 0; i-- {
			m.insert(t)
		}
	case 1:
		// the same contents are committed FIRST by another tree, built from the last committed contents by plain
		// inserts and removes: this tree's commit then finds its root in place and the tree goes on
		var other mkvs.Tree
		if m.version == 1 {
			other = mkvs.New(nil, m.ndb, node.RootTypeState)
		} else {
			other = mkvs.NewWithRoot(nil, m.ndb, kv.Root(m.version-1, node.RootTypeState, m.root))
		}
		var keys []string
		for k := range m.committed {
			if _, in := m.stack[0].model[k]; !in {
				keys = append(keys, k)
			}
		}
		sort.Strings(keys)
		for _, k := range keys {
			_ = other.Remove(ctx, []byte(k))
		}
		keys = keys[:0]
		for k, v := range m.stack[0].model {
			if ov, was := m.committed[k]; !was || !bytes.Equal(ov, v) {
				keys = append(keys, k)
			}
		}
		sort.Strings(keys)
		for _, k := range keys {
			_ = other.Insert(ctx, []byte(k), m.stack[0].model[k])
		}
		_, oh, err := other.Commit(ctx, kv.Namespace, m.version)
		other.Close()
		if err != nil {
			m.fail("commit of the same contents by another tree v%d: %v", m.version, err)
		}
		if want := kv.RefRoot(m.stack[0].model); oh != want {
			m.fail("root committed by the other tree %s, reference root of the model %s", oh, want)
		}
		m.secondCommitter = true
		m.log("v%d committed first by another tree", m.version)
	}
	_, rh, err := m.base.Commit(ctx, kv.Namespace, m.version)
	if err != nil {
		m.fail("tree commit v%d: %v", m.version, err)
	}
	if err := m.ndb.Finalize([]node.Root{kv.Root(m.version, node.RootTypeState, rh)}); err != nil {
		m.fail("finalize v%d: %v", m.version, err)
	}
	m.root = rh
	m.committed = m.stack[0].model.Clone()
	m.log("tree commit v%d", m.version)
	if want := kv.RefRoot(m.stack[0].model); rh != want {
		m.fail("root after commit %s, reference root of the model %s", rh, want)
	}
	if rapid.IntRange(0, 1).Draw(t, "reopen") == 0 {
		m.base.Close()
		opts := m.opts(t)
		m.base = mkvs.NewWithRoot(nil, m.ndb, kv.Root(m.version, node.RootTypeState, rh), opts...)
		m.stack[0].tree = m.base
		m.reopened = true
		m.log("reopen at v%d (%s)", m.version, m.stratum)
	}
}

// treeCommitRefused: a commit that the node database refuses (into the version that is already finalized). The tree must
// go on behaving like the map - nothing written so far is lost or changed - and a later commit stores all of it.
func (m *machine) treeCommitRefused(t *rapid.T) {
	if len(m.stack) != 1 || m.version == 0 {
		t.Skip("overlays open / nothing finalized yet")
	}
	if _, _, err := m.base.Commit(ctx, kv.Namespace, m.version); err == nil {
		// (an unchanged tree may be "committed" again into its own version: the root exists)
		m.log("commit into finalized v%d accepted (root exists)", m.version)
		return
	}
	m.refused = true
	m.log("commit into finalized v%d refused", m.version)
}

const rule = "case = rapid state machine: one tree on a node database (both backends, generated cache capacity stratum, write log on/off) and a stack of 0-3 overlays created exactly as Context.NewTransaction does; " +
	"actions on the top object: insert, remove, remove-existing; reads on any layer: get, iterator Rewind/Seek (present, absent, prefix, extension, before-first, after-last keys) + Next with gets interleaved; " +
	"overlay push / commit (directly or via Copy) / discard / fork (Copy with both sides kept open and written); tree commit+finalize with optional close and reopen at the committed root with a new capacity; a commit the database REFUSES (into the finalized version) after which the tree goes on; a NoPersist commit (root computed, nothing stored) followed by further writes; the same contents committed first by ANOTHER tree (this tree's commit finds its root stored) after which the tree goes on; an insert or remove whose caller's context is cancelled part of the way down (the key is then written again); universe 1-40 prefix-heavy keys. " +
	"oracle = reference ordered map per layer: every result, and after every action a full scan and a get of every universe key on every layer; root after each commit equals the reference root. " +
	"non-trivial = (commit+reopen or evicting capacity) AND an overlay commit over a key present in its parent AND a Seek to a key written/removed in that overlay; distinct = hash of the action trace"

func TestC03OrderedMap(t *testing.T) {
	rec := ev.New("C03", "TestC03OrderedMap", rule,
		"no writes to a tree/overlay while one of its iterators is open; only the top of the overlay stack is written; values non-nil; single-threaded use",
		"cache capacity strata as in kv.GenCapacity (known findings on tiny capacities excluded by construction while listed as known)")
	defer rec.Flush()
	var cur *machine
	ev.Trace = func() any {
		if cur == nil {
			return nil
		}
		return cur.trace
	}
	rapid.Check(t, func(t *rapid.T) {
		m := &machine{t: t}
		cur = m
		m.backend = rapid.SampledFrom(kv.Backends).Draw(t, "backend")
		m.uni = kv.GenUniverse(t, rapid.IntRange(1, 40).Draw(t, "nuni"), false)
		m.noWL = rapid.IntRange(0, 3).Draw(t, "nowl") == 0
		m.opts = func(t *rapid.T) []mkvs.Option {
			cp := kv.GenCapacity(t, m.uni, ev.Excluded(kv.SigNodeCapBelowPath), ev.Excluded(kv.SigLeafEvictedDirty))
			m.stratum = cp.Stratum
			if cp.Stratum != "unbounded" {
				m.evicting = true
			}
			o := []mkvs.Option{mkvs.Capacity(cp.Node, cp.Value)}
			if m.noWL {
				o = append(o, mkvs.WithoutWriteLog())
			}
			return o
		}
		var err error
		m.ndb, err = kv.OpenDB(m.backend, "", true)
		if err != nil {
			ev.Infra(t, "open db: %v", err)
		}
		defer m.ndb.Close()
		m.base = mkvs.New(nil, m.ndb, node.RootTypeState, m.opts(t)...)
		defer func() { m.base.Close() }()
		m.stack = []*layer{{tree: m.base, model: kv.Model{}}}
		m.log("backend=%s stratum=%s nowl=%v universe=%d", m.backend, m.stratum, m.noWL, len(m.uni))
		// A panic inside the tree under test is a failure of this case (attributed to the stratum).
		func() {
			defer func() {
				if r := recover(); r != nil {
					if s, ok := r.(string); ok && len(s) > 5 && s[:5] == "VIOL[" {
						panic(r)
					}
					if fmt.Sprintf("%T", r) == "rapid.stopTest" || fmt.Sprintf("%T", r) == "rapid.invalidData" {
						panic(r)
					}
					m.fail("panic: %v", r)
				}
			}()
			t.Repeat(map[string]func(*rapid.T){
				"insert":            m.insert,
				"insert2":           m.insert,
				"remove":            m.remove,
				"removeExisting":    m.removeExisting,
				"get":               m.get,
				"iterate":           m.iterate,
				"push":              m.push,
				"ovCommit":          m.ovCommit,
				"ovDiscard":         m.ovDiscard,
				"ovFork":            m.ovFork,
				"treeCommit":        m.treeCommit,
				"treeCommitRefused": m.treeCommitRefused,
				"writeCancelled":    m.writeCancelled,
				"":                  func(*rapid.T) { m.fullCheck() },
			})
		}()
		nt := (m.reopened || m.evicting) && m.ovCommitShadow && m.seekOnDirty
		for _, l := range []struct {
			on   bool
			name string
		}{{m.reopened, "commit+reopen"}, {m.refused, "commit-refused-then-continued"}, {m.evicting, "evicting-capacity"}, {m.ovCommitShadow, "overlay-commit-over-parent-key"},
			{m.seekOnDirty, "seek-on-overlay-written-key"}, {m.getDuringIter, "get-during-iteration"}, {m.forked, "overlay-forked-with-copy"}, {m.noWL, "without-writelog"}, {m.noPersist, "no-persist-commit-then-continued"}, {m.secondCommitter, "committed-second-then-continued"}, {m.cancelled, "write-failed-for-a-cancelled-caller"}} {
			if l.on {
				rec.Label(l.name)
			}
		}
		rec.Label("backend:" + m.backend)
		var sample any
		if nt && rec.WantSample() {
			sample = m.trace
		}
		rec.Case(nt, ev.Fingerprint(fmt.Sprintf("%v", m.trace)), sample)
	})
}

// Known-finding probes (ordered-map view of the same two cache findings as C02).
func TestC03KFNodeCapacity(t *testing.T) {
	rec := ev.New("C03", "TestC03KFNodeCapacity", "deterministic probe of known finding cache-node-capacity-below-path (both backends)", "")
	defer rec.Flush()
	for _, b := range kv.Backends {
		msg := kv.ProbeNodeCapacityBelowPath(b)
		rec.Case(true, ev.Fingerprint(b), fmt.Sprintf("%s: %s", b, msg))
		if msg != "" {
			ev.Violation(t, kv.SigNodeCapBelowPath, "%s: node capacity 1, keys a,b,c, reopen, overwrite c: %s", b, msg)
		}
	}
}

func TestC03KFLeafEviction(t *testing.T) {
	rec := ev.New("C03", "TestC03KFLeafEviction", "deterministic probe of known finding cache-leaf-evicted-under-dirty-internal (both backends)", "")
	defer rec.Flush()
	for _, b := range kv.Backends {
		msg := kv.ProbeLeafEvictedUnderDirtyInternal(b)
		rec.Case(true, ev.Fingerprint(b), fmt.Sprintf("%s: %s", b, msg))
		if msg != "" {
			ev.Violation(t, kv.SigLeafEvictedDirty, "%s: value capacity 250, prefix key '' cached clean under a dirty root, fetch z and a: %s", b, msg)
		}
	}
}
