// Package c04 decides property C04: Merkle proofs are complete and cannot be made to lie.
package c04

import (
	"os"
	"bytes"
	"context"
	"fmt"
	"sort"
	"testing"

	"pgregory.net/rapid"

	"github.com/oasisprotocol/oasis-core/go/common/crypto/hash"
	"github.com/oasisprotocol/oasis-core/go/storage/mkvs"
	"github.com/oasisprotocol/oasis-core/go/storage/mkvs/node"
	"github.com/oasisprotocol/oasis-core/go/storage/mkvs/syncer"

	"verifharness/ev"
	"verifharness/kv"
)

var ctx = context.Background()

// ---------------------------------------------------------------------------------------
// Independent lookup in a verified (partial) subtree.

type answer struct {
	Determined bool
	Present    bool
	Value      []byte
}

func (a answer) String() string {
	switch {
	case !a.Determined:
		return "undetermined"
	case !a.Present:
		return "absent"
	}
	return fmt.Sprintf("value(%d bytes)", len(a.Value))
}

func bit(k []byte, i int) bool { return k[i/8]&(1<<(7-uint(i%8))) != 0 }

var emptyHash = func() hash.Hash { var h hash.Hash; h.Empty(); return h }()

// walk looks key up in the verified subtree rooted at ptr, which sits at bit depth `depth`.
func walk(ptr *node.Pointer, depth int, key []byte) answer {
	if ptr == nil {
		return answer{Determined: true}
	}
	if ptr.Node == nil {
		if ptr.Hash.Equal(&emptyHash) {
			return answer{Determined: true}
		}
		return answer{}
	}
	switch n := ptr.Node.(type) {
	case *node.LeafNode:
		if bytes.Equal(n.Key, key) {
			return answer{Determined: true, Present: true, Value: n.Value}
		}
		return answer{Determined: true}
	case *node.InternalNode:
		ll := int(n.LabelBitLength)
		if len(key)*8 < depth+ll {
			return answer{Determined: true}
		}
		for i := 0; i < ll; i++ {
			if bit(n.Label, i) != bit(key, depth+i) {
				return answer{Determined: true}
			}
		}
		d2 := depth + ll
		if len(key)*8 == d2 {
			return walk(n.LeafNode, d2, key)
		}
		if bit(key, d2) {
			return walk(n.Right, d2, key)
		}
		return walk(n.Left, d2, key)
	}
	return answer{}
}

// pathNodes returns (hash, depth) of the internal nodes on the path of key.
func pathNodes(ptr *node.Pointer, depth int, key []byte, out *[]posAt) {
	if ptr == nil || ptr.Node == nil {
		return
	}
	n, ok := ptr.Node.(*node.InternalNode)
	if !ok {
		return
	}
	*out = append(*out, posAt{ptr.Hash, depth})
	ll := int(n.LabelBitLength)
	if len(key)*8 < depth+ll {
		return
	}
	for i := 0; i < ll; i++ {
		if bit(n.Label, i) != bit(key, depth+i) {
			return
		}
	}
	d2 := depth + ll
	if len(key)*8 == d2 {
		return
	}
	if bit(key, d2) {
		pathNodes(n.Right, d2, key, out)
	} else {
		pathNodes(n.Left, d2, key, out)
	}
}

type posAt struct {
	h     hash.Hash
	depth int
}

// preorder lists the pointers of a verified subtree in the order their entries appear in a proof.
func preorder(ptr *node.Pointer, v uint16, out *[]*node.Pointer) {
	*out = append(*out, ptr)
	if ptr == nil || ptr.Node == nil {
		return
	}
	if n, ok := ptr.Node.(*node.InternalNode); ok {
		if v == 1 {
			preorder(n.LeafNode, v, out)
		}
		preorder(n.Left, v, out)
		preorder(n.Right, v, out)
	}
}

func modelAnswer(m kv.Model, k []byte) answer {
	v, ok := m[string(k)]
	return answer{Determined: true, Present: ok, Value: v}
}

func sameAnswer(a, b answer) bool {
	return a.Determined == b.Determined && a.Present == b.Present && bytes.Equal(a.Value, b.Value)
}

// ---------------------------------------------------------------------------------------
// Fixture: a committed tree served by a lazily loading tree object.

type fixture struct {
	model kv.Model
	uni   [][]byte
	root  node.Root
	srv   mkvs.Tree
	close func()
}

func build(t *rapid.T, uni [][]byte, m kv.Model, backend string) *fixture {
	ndb, err := kv.OpenDB(backend, "", true)
	if err != nil {
		ev.Infra(t, "open: %v", err)
	}
	tree := mkvs.New(nil, ndb, node.RootTypeState)
	for _, k := range m.SortedKeys() {
		_ = tree.Insert(ctx, []byte(k), m[k])
	}
	_, rh, err := tree.Commit(ctx, kv.Namespace, 1)
	if err != nil {
		ev.Infra(t, "commit: %v", err)
	}
	tree.Close()
	root := kv.Root(1, node.RootTypeState, rh)
	if err := ndb.Finalize([]node.Root{root}); err != nil {
		ev.Infra(t, "finalize: %v", err)
	}
	if rh != kv.RefRoot(m) {
		ev.Infra(t, "fixture root differs from the reference root (C02's business)")
	}
	srv := mkvs.NewWithRoot(nil, ndb, root)
	return &fixture{model: m, uni: uni, root: root, srv: srv, close: func() { srv.Close(); ndb.Close() }}
}

func genContents(t *rapid.T, maxKeys int) ([][]byte, kv.Model) {
	uni := kv.GenUniverse(t, rapid.IntRange(1, maxKeys).Draw(t, "nuni"), false)
	m := kv.Model{}
	for i, k := range uni {
		if rapid.IntRange(0, 3).Draw(t, fmt.Sprintf("in%d", i)) > 0 {
			m[string(k)] = kv.GenValue(t)
		}
	}
	return uni, m
}

// queryKey draws a key to ask about: present, absent, prefix-of-present, extension-of-present.
func queryKey(t *rapid.T, uni [][]byte) []byte {
	k := append([]byte{}, uni[rapid.IntRange(0, len(uni)-1).Draw(t, "qk")]...)
	switch rapid.IntRange(0, 5).Draw(t, "qmode") {
	case 0:
		return append(k, rapid.SampledFrom([]byte{0x00, 0x80, 0xff}).Draw(t, "qext"))
	case 1:
		if len(k) > 0 {
			return k[:len(k)-1]
		}
	case 2:
		if len(k) > 0 {
			k[len(k)-1] ^= 1 << uint(rapid.IntRange(0, 7).Draw(t, "qbit"))
		}
	}
	return k
}

type query struct {
	Kind     string   `json:"kind"` // get, prefixes, iterate
	Key      []byte   `json:"key,omitempty"`
	Prefixes [][]byte `json:"prefixes,omitempty"`
	Limit    uint16   `json:"limit,omitempty"`
	Siblings bool     `json:"siblings,omitempty"`
	V        uint16   `json:"v"`
}

func genQuery(t *rapid.T, uni [][]byte) query {
	q := query{V: uint16(rapid.IntRange(0, 1).Draw(t, "pv"))}
	switch rapid.IntRange(0, 3).Draw(t, "qkind") {
	case 0, 1:
		q.Kind = "get"
		q.Key = queryKey(t, uni)
		q.Siblings = rapid.Bool().Draw(t, "siblings")
	case 2:
		q.Kind = "prefixes"
		n := rapid.IntRange(1, 3).Draw(t, "nprefixes")
		for i := 0; i < n; i++ {
			q.Prefixes = append(q.Prefixes, queryKey(t, uni))
		}
		q.Limit = uint16(rapid.IntRange(0, 12).Draw(t, "limit"))
	default:
		q.Kind = "iterate"
		q.Key = queryKey(t, uni)
		q.Limit = uint16(rapid.IntRange(0, 12).Draw(t, "prefetch"))
	}
	return q
}

func (f *fixture) ask(q query, position hash.Hash) (*syncer.Proof, error) {
	tid := syncer.TreeID{Root: f.root, Position: position}
	var rsp *syncer.ProofResponse
	var err error
	switch q.Kind {
	case "get":
		rsp, err = f.srv.SyncGet(ctx, &syncer.GetRequest{Tree: tid, Key: q.Key, IncludeSiblings: q.Siblings, ProofVersion: q.V})
	case "prefixes":
		rsp, err = f.srv.SyncGetPrefixes(ctx, &syncer.GetPrefixesRequest{Tree: tid, Prefixes: q.Prefixes, Limit: q.Limit, ProofVersion: q.V})
	default:
		rsp, err = f.srv.SyncIterate(ctx, &syncer.IterateRequest{Tree: tid, Key: q.Key, Prefetch: q.Limit, ProofVersion: q.V})
	}
	if err != nil {
		return nil, err
	}
	return &rsp.Proof, nil
}

// askedKeys returns the keys whose answer the response must determine.
func (f *fixture) askedKeys(q query) [][]byte {
	keys := f.model.SortedKeys()
	switch q.Kind {
	case "get":
		return [][]byte{q.Key}
	case "prefixes":
		var out [][]byte
		total := 0
		if q.Limit == 0 {
			return nil
		}
	loop:
		for _, p := range q.Prefixes {
			i := sort.SearchStrings(keys, string(p))
			for ; i < len(keys); total++ {
				if total >= int(q.Limit) {
					break loop
				}
				if !bytes.HasPrefix([]byte(keys[i]), p) {
					break
				}
				out = append(out, []byte(keys[i]))
				i++
			}
		}
		return out
	default:
		var out [][]byte
		i := sort.SearchStrings(keys, string(q.Key))
		for n := 0; i < len(keys) && n <= int(q.Limit); n++ {
			out = append(out, []byte(keys[i]))
			i++
		}
		return out
	}
}

// ---------------------------------------------------------------------------------------
// Mutations.

func cloneProof(p *syncer.Proof) *syncer.Proof {
	c := &syncer.Proof{V: p.V, UntrustedRoot: p.UntrustedRoot}
	for _, e := range p.Entries {
		if e == nil {
			c.Entries = append(c.Entries, nil)
		} else {
			c.Entries = append(c.Entries, append([]byte{}, e...))
		}
	}
	return c
}

// noncompact re-encodes full internal-node entries in the STORED (non-compact) form, i.e. with the two child hashes
// appended (and, where the verified node is available, with the node's leaf embedded): the form a node database holds
// and a hostile peer can copy into a proof. The hashes are the true ones, so on its own this is a truthful proof; the
// point is what the verifier does when FURTHER entries below such a node are forged (it must still bind the children
// it is given, not the hashes carried by the entry).
func noncompact(t *rapid.T, p *syncer.Proof, ptrs []*node.Pointer) *syncer.Proof {
	m := cloneProof(p)
	all := rapid.Bool().Draw(t, "ncAll")
	only := rapid.IntRange(0, len(m.Entries)-1).Draw(t, "ncIdx")
	embedLeaf := rapid.Bool().Draw(t, "ncLeaf")
	done := 0
	for i, e := range m.Entries {
		if len(e) < 2 || e[0] != 0x01 || e[1] != node.PrefixInternalNode || i >= len(ptrs) || ptrs[i] == nil {
			continue
		}
		if !all && i < only {
			continue
		}
		in, ok := ptrs[i].Node.(*node.InternalNode)
		if !ok {
			continue
		}
		var enc []byte
		if embedLeaf && (in.LeafNode == nil || in.LeafNode.Node != nil) {
			full, err := in.MarshalBinary()
			if err != nil {
				continue
			}
			enc = append([]byte{0x01}, full...)
		} else {
			lh, rh := in.Left.GetHash(), in.Right.GetHash()
			enc = append(append(append([]byte{}, e...), lh[:]...), rh[:]...)
		}
		m.Entries[i] = enc
		done++
		if !all {
			break
		}
	}
	if done == 0 {
		return nil
	}
	return m
}

// mutate applies one generated mutation; other is a proof of a different tree (may be nil);
// ptrs are the verified pointers of p in entry order (for "replace by correct hash").
func mutate(t *rapid.T, p *syncer.Proof, other *syncer.Proof, ptrs []*node.Pointer) (*syncer.Proof, string) {
	m := cloneProof(p)
	n := len(m.Entries)
	idx := rapid.IntRange(0, n-1).Draw(t, "midx")
	kinds := []string{"bitflip", "byteset", "truncate-entry", "extend-entry", "drop", "duplicate", "swap", "full-to-random-hash", "full-to-correct-hash",
		"nil-to-emptyhash", "hash-to-nil", "nil-to-garbage", "truncate-proof", "extend-proof", "version-switch", "untrusted-root", "splice-other", "type-byte", "leaf-value", "leaf-value", "none"}
	kind := rapid.SampledFrom(kinds).Draw(t, "mkind")
	e := m.Entries[idx]
	switch kind {
	case "bitflip":
		if len(e) == 0 {
			return nil, kind
		}
		e[rapid.IntRange(0, len(e)-1).Draw(t, "pos")] ^= 1 << uint(rapid.IntRange(0, 7).Draw(t, "bit"))
	case "byteset":
		if len(e) == 0 {
			return nil, kind
		}
		e[rapid.IntRange(0, len(e)-1).Draw(t, "pos")] = rapid.SampledFrom([]byte{0x00, 0x01, 0x02, 0x7f, 0x80, 0xff}).Draw(t, "bv")
	case "truncate-entry":
		if len(e) < 2 {
			return nil, kind
		}
		m.Entries[idx] = e[:rapid.IntRange(1, len(e)-1).Draw(t, "tl")]
	case "extend-entry":
		if e == nil {
			return nil, kind
		}
		m.Entries[idx] = append(e, bytes.Repeat([]byte{rapid.Byte().Draw(t, "xb")}, rapid.IntRange(1, 4).Draw(t, "xl"))...)
	case "drop":
		m.Entries = append(m.Entries[:idx], m.Entries[idx+1:]...)
		if len(m.Entries) == 0 {
			return nil, kind
		}
	case "duplicate":
		m.Entries = append(m.Entries[:idx+1], m.Entries[idx:]...)
	case "swap":
		j := rapid.IntRange(0, n-1).Draw(t, "swapj")
		if j == idx || bytes.Equal(m.Entries[idx], m.Entries[j]) {
			return nil, kind
		}
		m.Entries[idx], m.Entries[j] = m.Entries[j], m.Entries[idx]
	case "full-to-random-hash":
		if len(e) == 0 || e[0] != 0x01 {
			return nil, kind
		}
		h := hash.NewFromBytes([]byte{rapid.Byte().Draw(t, "rh")})
		m.Entries[idx] = append([]byte{0x02}, h[:]...)
	case "full-to-correct-hash":
		// Replace a whole verified subtree by its hash: a valid, less informative proof.
		if len(e) == 0 || e[0] != 0x01 || idx >= len(ptrs) || ptrs[idx] == nil || idx == 0 {
			return nil, kind
		}
		var sub []*node.Pointer
		preorder(ptrs[idx], p.V, &sub)
		h := ptrs[idx].Hash
		rest := append([][]byte{}, m.Entries[idx+len(sub):]...)
		m.Entries = append(append(m.Entries[:idx], append([]byte{0x02}, h[:]...)), rest...)
	case "nil-to-emptyhash":
		if e != nil {
			return nil, kind
		}
		m.Entries[idx] = append([]byte{0x02}, emptyHash[:]...)
	case "hash-to-nil":
		if len(e) == 0 || e[0] != 0x02 {
			return nil, kind
		}
		m.Entries[idx] = nil
	case "nil-to-garbage":
		if e != nil {
			return nil, kind
		}
		m.Entries[idx] = []byte{}
	case "truncate-proof":
		if n < 2 {
			return nil, kind
		}
		m.Entries = m.Entries[:rapid.IntRange(1, n-1).Draw(t, "tp")]
	case "extend-proof":
		m.Entries = append(m.Entries, m.Entries[idx])
	case "version-switch":
		m.V = 1 - m.V
	case "untrusted-root":
		m.UntrustedRoot[rapid.IntRange(0, 31).Draw(t, "ur")] ^= 0x01
	case "splice-other":
		if other == nil || len(other.Entries) == 0 {
			return nil, kind
		}
		j := rapid.IntRange(0, len(other.Entries)-1).Draw(t, "oj")
		if bytes.Equal(other.Entries[j], m.Entries[idx]) {
			return nil, kind
		}
		m.Entries[idx] = other.Entries[j]
	case "none":
		// identity: only meaningful on top of a re-encoded (non-compact) proof, which must verify and stay truthful
	case "leaf-value":
		// a well-formed lie: change the last byte of some full leaf entry's value (or of the leaf embedded in an internal
		// node entry of a version 0 proof), keeping every length field intact
		var cand []int
		for i, x := range m.Entries {
			if len(x) > 8 && x[0] == 0x01 {
				cand = append(cand, i)
			}
		}
		if len(cand) == 0 {
			return nil, kind
		}
		i := cand[rapid.IntRange(0, len(cand)-1).Draw(t, "lv")]
		x := m.Entries[i]
		pos := len(x) - 1
		if x[1] == node.PrefixInternalNode {
			// stored-form entries end with 64 bytes of child hashes; the embedded leaf's value ends right before them
			if n, err := node.UnmarshalBinary(x[1:]); err == nil {
				if in, ok := n.(*node.InternalNode); ok && in.LeafNode != nil && (in.Left != nil || in.Right != nil) && len(x) > 65 {
					pos = len(x) - 65
				}
			}
		}
		x[pos] ^= 0x01
	case "type-byte":
		if len(e) == 0 {
			return nil, kind
		}
		e[0] = rapid.SampledFrom([]byte{0x00, 0x01, 0x02, 0x03}).Draw(t, "tb")
	}
	return m, kind
}

// ---------------------------------------------------------------------------------------

const ruleProofs = "case = committed tree (1-60 keys quick / 1-300 thorough, prefix-heavy universe, both backends) + 1-4 queries (SyncGet present/absent/prefix/extension key with siblings on/off, SyncGetPrefixes with limits, " +
	"SyncIterate with prefetch; proof version 0/1; position = root or an internal node on the key's path) + up to 12 (quick) mutants per proof (bit/byte/truncate/extend entry, drop/duplicate/swap entries, full node -> random or correct hash, nil<->hash, " +
	"truncate/extend proof, version switch, untrusted root, entries spliced from the proof of a tree differing in one key or value, well-formed leaf value changes; a quarter of the mutants are applied on top of the proof re-encoded with internal nodes in the stored (non-compact, child hashes included) form); oracle A: the honest proof verifies (VerifyProof and VerifyProofToWriteLog) and an independent " +
	"walker over the verified subtree determines every asked key with the true value/absence; oracle B: a mutant is rejected, or for EVERY universe key (and neighbours) the walker returns 'undetermined' or the true answer, " +
	"and every write-log entry it yields is a true key/value pair; a proof of the differing tree never verifies against this root. non-trivial = mutant whose entries all still decode (verification reached the hash comparison) or that was accepted; " +
	"distinct = hash of contents, query and mutation"

func TestC04Proofs(t *testing.T) {
	rec := ev.New("C04", "TestC04Proofs", ruleProofs,
		"tree depth <= 128 nodes (the verifier's documented maxProofDepth); the trusted root is the real root of the contents")
	defer rec.Flush()
	var pv syncer.ProofVerifier
	var trace []string
	ev.Trace = func() any { return trace }
	rapid.Check(t, func(t *rapid.T) {
		trace = nil
		uni, m := genContents(t, ev.Pick(60, 300))
		if kv.MaxPathDepth(uni) > 120 {
			rec.Discard("deeper-than-maxProofDepth")
			return
		}
		backend := rapid.SampledFrom(kv.Backends).Draw(t, "backend")
		f := build(t, uni, m, backend)
		defer f.close()
		// a neighbouring tree T' for splicing and cross-verification
		m2 := m.Clone()
		ck := uni[rapid.IntRange(0, len(uni)-1).Draw(t, "t2key")]
		if v, ok := m2[string(ck)]; ok && rapid.Bool().Draw(t, "t2del") {
			delete(m2, string(ck))
			_ = v
		} else {
			m2[string(ck)] = append(append([]byte{}, m2[string(ck)]...), 0x5a)
		}
		f2 := build(t, uni, m2, backend)
		defer f2.close()
		trace = append(trace, fmt.Sprintf("backend=%s keys=%d root=%s", backend, len(m), f.root.Hash))
		fail := func(sig, format string, args ...any) {
			ev.Violation(t, sig, "%s; trace=%v", fmt.Sprintf(format, args...), trace)
		}

		nq := rapid.IntRange(1, 4).Draw(t, "nq")
		nontrivial, accepted := false, 0
		var fpParts []any
		for qi := 0; qi < nq; qi++ {
			q := genQuery(t, uni)
			trace = append(trace, fmt.Sprintf("query %+v", q))
			fpParts = append(fpParts, fmt.Sprintf("%+v", q))
			proof, err := f.ask(q, f.root.Hash)
			if err != nil {
				fail("proof-not-produced", "honest query failed: %v", err)
			}
			rootPtr, err := pv.VerifyProof(ctx, f.root.Hash, proof)
			if err != nil {
				fail("honest-proof-rejected", "proof produced by the tree does not verify against its own root: %v", err)
			}
			wl, err := pv.VerifyProofToWriteLog(ctx, f.root.Hash, proof)
			if err != nil {
				fail("honest-proof-rejected", "VerifyProofToWriteLog rejects the honest proof: %v", err)
			}
			for _, e := range wl {
				if v, ok := m[string(e.Key)]; !ok || !bytes.Equal(v, e.Value) {
					fail("writelog-lies", "honest proof write log contains %x=%x which is not in the tree", e.Key, e.Value)
				}
				if e.Value == nil {
					// (a nil value is how a write log spells a DELETION: LogEntry.Type() == LogDelete, ApplyWriteLog removes the key)
					fail("writelog-lies", "honest proof write log reports the present key %x (empty value) as deleted (nil value)", e.Key)
				}
			}
			for _, k := range f.askedKeys(q) {
				if got, want := walk(rootPtr, 0, k), modelAnswer(m, k); !sameAnswer(got, want) {
					fail("proof-incomplete", "honest %s proof (v%d) does not determine asked key %x: walker says %s, truth %s", q.Kind, q.V, k, got, want)
				}
			}
			rec.Label("query:" + q.Kind)
			// position = an internal node on the key's path (SyncGet only)
			if q.Kind == "get" {
				var path []posAt
				pathNodes(rootPtr, 0, q.Key, &path)
				if len(path) > 1 {
					pa := path[rapid.IntRange(1, len(path)-1).Draw(t, "pos")]
					p2, err := f.ask(q, pa.h)
					if err != nil {
						fail("proof-not-produced", "honest positioned query failed: %v", err)
					}
					exp := f.root.Hash
					depth := 0
					if p2.UntrustedRoot.Equal(&pa.h) {
						exp, depth = pa.h, pa.depth
					}
					sub, err := pv.VerifyProof(ctx, exp, p2)
					if err != nil {
						fail("honest-proof-rejected", "positioned proof does not verify: %v", err)
					}
					if got, want := walk(sub, depth, q.Key), modelAnswer(m, q.Key); !sameAnswer(got, want) {
						fail("proof-incomplete", "positioned proof does not determine key %x: %s vs %s", q.Key, got, want)
					}
					rec.Label("query:get-positioned")
				}
			}
			// proofs of the other tree must not verify here
			if other, err := f2.ask(q, f2.root.Hash); err == nil {
				if _, err := pv.VerifyProof(ctx, f.root.Hash, other); err == nil {
					fail("foreign-proof-accepted", "proof of a different tree verified against this root")
				}
				forged := cloneProof(other)
				forged.UntrustedRoot = f.root.Hash
				if sub, err := pv.VerifyProof(ctx, f.root.Hash, forged); err == nil {
					for _, k := range uni {
						if got := walk(sub, 0, k); got.Determined && !sameAnswer(got, modelAnswer(m, k)) {
							fail("foreign-proof-accepted", "relabelled proof of a different tree verified and lies about %x", k)
						}
					}
				}
			}
			// oracle B
			var ptrs []*node.Pointer
			preorder(rootPtr, proof.V, &ptrs)
			otherProof, _ := f2.ask(q, f2.root.Hash)
			nm := rapid.IntRange(1, ev.Pick(12, 30)).Draw(t, "nmut")
			for mi := 0; mi < nm; mi++ {
				base, prefix := proof, ""
				if rapid.IntRange(0, 3).Draw(t, "nc") == 0 {
					if nc := noncompact(t, proof, ptrs); nc != nil {
						base, prefix = nc, "noncompact+"
					}
				}
				mp, kind := mutate(t, base, otherProof, ptrs)
				if prefix == "" && kind == "none" {
					mp = nil
				}
				kind = prefix + kind
				if mp == nil {
					rec.Discard("mutation-not-applicable:" + kind)
					continue
				}
				fpParts = append(fpParts, kind, fmt.Sprint(mp.Entries))
				sub, err := pv.VerifyProof(ctx, f.root.Hash, mp)
				wl, err2 := pv.VerifyProofToWriteLog(ctx, f.root.Hash, mp)
				if (err == nil) != (err2 == nil) {
					fail("verifier-inconsistent", "VerifyProof err=%v but VerifyProofToWriteLog err=%v for mutant %s", err, err2, kind)
				}
				if err != nil {
					rec.Label("mutant-rejected:" + kind)
					if reachedHashCheck(err) {
						nontrivial = true
					}
					continue
				}
				accepted++
				nontrivial = true
				rec.Label("mutant-accepted:" + kind)
				for _, k := range append(append([][]byte{}, uni...), q.Key) {
					if k == nil {
						continue
					}
					if got := walk(sub, 0, k); got.Determined && !sameAnswer(got, modelAnswer(m, k)) {
						fail("proof-lies", "accepted mutant (%s) makes key %x appear as %s, truth %s", kind, k, got, modelAnswer(m, k))
					}
				}
				for _, e := range wl {
					if v, ok := m[string(e.Key)]; !ok || !bytes.Equal(v, e.Value) {
						fail("writelog-lies", "accepted mutant (%s) yields write log entry %x=%x which is not in the tree", kind, e.Key, e.Value)
					}
					if e.Value == nil {
						fail("writelog-lies", "accepted mutant (%s) yields a DELETION entry for the present key %x", kind, e.Key)
					}
				}
			}
		}
		var sample any
		if nontrivial && rec.WantSample() {
			sample = append([]string{}, trace...)
		}
		fpParts = append(fpParts, f.root.Hash.String())
		rec.Case(nontrivial, ev.Fingerprint(fpParts...), sample)
		_ = accepted
	})
}

func reachedHashCheck(err error) bool {
	s := err.Error()
	return bytes.Contains([]byte(s), []byte("bad root")) || bytes.Contains([]byte(s), []byte("unused entries"))
}

// ---------------------------------------------------------------------------------------
// Oracle C: remote reader behind an adversarial peer.

type adversary struct {
	honest *fixture
	other  *fixture
	script []int // per call: 0 honest, 1 error, 2 mutated, 3 answer of the other tree, 4 valid answer to ANOTHER question
	decoys [][]byte
	calls  int
	t      *rapid.T
	log    *[]string
	bad    int
}

func (a *adversary) next() int {
	i := a.calls
	a.calls++
	if i < len(a.script) {
		return a.script[i]
	}
	return 0
}

func (a *adversary) respond(mode int, honest func(f *fixture) (*syncer.ProofResponse, error)) (*syncer.ProofResponse, error) {
	switch mode {
	case 1:
		a.bad++
		*a.log = append(*a.log, "  peer: error")
		return nil, fmt.Errorf("adversary: refusing")
	case 3:
		a.bad++
		*a.log = append(*a.log, "  peer: answer from a different tree")
		rsp, err := honest(a.other)
		if err != nil {
			return nil, err
		}
		if a.calls%2 == 0 {
			rsp.Proof.UntrustedRoot = a.honest.root.Hash
		}
		return rsp, nil
	}
	if mode == 4 && len(a.decoys) > 0 {
		// a perfectly valid proof under the trusted root - of something else: the honest answer to a Get of a decoy key,
		// anchored at the root (a replayed / stale response). It verifies, but does not contain what was asked for.
		a.bad++
		k := a.decoys[a.calls%len(a.decoys)]
		*a.log = append(*a.log, fmt.Sprintf("  peer: valid root-anchored proof for decoy key %x", k))
		return a.honest.srv.SyncGet(ctx, &syncer.GetRequest{Tree: syncer.TreeID{Root: a.honest.root, Position: a.honest.root.Hash}, Key: k, ProofVersion: uint16(a.calls % 2)})
	}
	rsp, err := honest(a.honest)
	if err != nil || mode == 0 {
		*a.log = append(*a.log, "  peer: honest")
		return rsp, err
	}
	a.bad++
	// deterministic mutation derived from the call number (no draws here: calls happen inside tree code)
	p := cloneProof(&rsp.Proof)
	n := len(p.Entries)
	idx := (a.calls * 7) % n
	switch a.calls % 6 {
	case 5:
		// stored-form forgery: internal nodes re-encoded with their true child hashes, then one leaf value changed
		var pv syncer.ProofVerifier
		if rootPtr, err := pv.VerifyProof(ctx, rsp.Proof.UntrustedRoot, &rsp.Proof); err == nil {
			var ptrs []*node.Pointer
			preorder(rootPtr, rsp.Proof.V, &ptrs)
			for i, e := range p.Entries {
				if len(e) < 2 || e[0] != 0x01 || e[1] != node.PrefixInternalNode || i >= len(ptrs) || ptrs[i] == nil {
					continue
				}
				if in, ok := ptrs[i].Node.(*node.InternalNode); ok {
					lh, rh := in.Left.GetHash(), in.Right.GetHash()
					p.Entries[i] = append(append(append([]byte{}, e...), lh[:]...), rh[:]...)
				}
			}
		}
		for i := n - 1; i >= 0; i-- {
			if e := p.Entries[i]; len(e) > 8 && e[0] == 0x01 && e[1] == node.PrefixLeafNode {
				e[len(e)-1] ^= 0x01
				break
			}
		}
	case 0:
		if len(p.Entries[idx]) > 2 {
			p.Entries[idx][len(p.Entries[idx])-1] ^= 0x01
		} else {
			p.Entries = p.Entries[:n-1]
		}
	case 1:
		p.Entries = append(p.Entries[:idx], p.Entries[idx+1:]...)
	case 2:
		p.Entries = append(p.Entries, p.Entries[idx])
	case 3:
		if len(p.Entries[idx]) > 3 {
			p.Entries[idx][2] ^= 0x80
		} else {
			p.Entries[idx] = []byte{0x02}
		}
	default:
		j := (idx + 1) % n
		p.Entries[idx], p.Entries[j] = p.Entries[j], p.Entries[idx]
	}
	*a.log = append(*a.log, fmt.Sprintf("  peer: mutated proof (mode %d)", a.calls%6))
	return &syncer.ProofResponse{Proof: *p}, nil
}

func retarget(f *fixture, tid syncer.TreeID) syncer.TreeID {
	out := syncer.TreeID{Root: f.root, Position: tid.Position}
	if tid.Position.Equal(&tid.Root.Hash) {
		out.Position = f.root.Hash
	}
	return out
}

func (a *adversary) SyncGet(_ context.Context, r *syncer.GetRequest) (*syncer.ProofResponse, error) {
	return a.respond(a.next(), func(f *fixture) (*syncer.ProofResponse, error) {
		rr := *r
		rr.Tree = retarget(f, r.Tree)
		return f.srv.SyncGet(ctx, &rr)
	})
}

func (a *adversary) SyncGetPrefixes(_ context.Context, r *syncer.GetPrefixesRequest) (*syncer.ProofResponse, error) {
	return a.respond(a.next(), func(f *fixture) (*syncer.ProofResponse, error) {
		rr := *r
		rr.Tree = retarget(f, r.Tree)
		return f.srv.SyncGetPrefixes(ctx, &rr)
	})
}

func (a *adversary) SyncIterate(_ context.Context, r *syncer.IterateRequest) (*syncer.ProofResponse, error) {
	return a.respond(a.next(), func(f *fixture) (*syncer.ProofResponse, error) {
		rr := *r
		rr.Tree = retarget(f, r.Tree)
		return f.srv.SyncIterate(ctx, &rr)
	})
}

const ruleRemote = "case = committed tree + a reader created with only the trusted root (mkvs.NewWithRoot(peer, nil, root, Capacity(generated incl. tiny))) reading through an adversarial ReadSyncer that per call is honest, returns an error, " +
	"returns a mutated proof, returns an answer taken from a tree differing in one key/value (optionally relabelled with the trusted root), or returns a VALID root-anchored proof that answers another question (replayed response for a decoy key), following a generated script; reader operations: Get, iterator Seek+Next, full scan, PrefetchPrefixes, and LOCAL Insert/Remove on the reader (keys that split compressed labels, extend or collapse nodes above subtrees not fetched yet; the truth is then the replica's contents with the same writes applied, a failed write ends the case); " +
	"oracle: every operation returns the full replica's answer or an error - never a wrong value, a wrong absence, or a wrong/short iteration without error; after the script is exhausted (peer honest) every key reads correctly (no poisoned cache). " +
	"non-trivial = script with >=1 corrupt response that was actually consumed, followed by >=1 honest one; distinct = hash of contents, script and operations"

func TestC04RemoteReader(t *testing.T) {
	rec := ev.New("C04", "TestC04RemoteReader", ruleRemote, "an error from the reader is always acceptable; only wrong answers count")
	defer rec.Flush()
	var trace []string
	ev.Trace = func() any { return trace }
	rapid.Check(t, func(t *rapid.T) {
		trace = nil
		uni, m := genContents(t, ev.Pick(40, 150))
		if kv.MaxPathDepth(uni) > 120 {
			rec.Discard("deeper-than-maxProofDepth")
			return
		}
		f := build(t, uni, m, "badger")
		defer f.close()
		m2 := m.Clone()
		ck := uni[rapid.IntRange(0, len(uni)-1).Draw(t, "t2key")]
		if _, ok := m2[string(ck)]; ok && rapid.Bool().Draw(t, "t2del") {
			delete(m2, string(ck))
		} else {
			m2[string(ck)] = append(append([]byte{}, m2[string(ck)]...), 0x5a)
		}
		f2 := build(t, uni, m2, "badger")
		defer f2.close()
		adv := &adversary{honest: f, other: f2, t: t, log: &trace}
		for i, nd := 0, rapid.IntRange(1, 3).Draw(t, "ndecoys"); i < nd; i++ {
			adv.decoys = append(adv.decoys, uni[rapid.IntRange(0, len(uni)-1).Draw(t, "decoy")])
		}
		ns := rapid.IntRange(0, 12).Draw(t, "nscript")
		for i := 0; i < ns; i++ {
			adv.script = append(adv.script, rapid.SampledFrom([]int{0, 0, 0, 1, 2, 2, 3, 3, 4, 4}).Draw(t, "mode"))
		}
		// A node capacity smaller than what one remote merge brings in gives wrong answers even with an honest
		// peer (known finding cache-node-capacity-below-path, probe TestC04KFRemoteTinyCache). While that finding is
		// excluded the reader's node capacity is unbounded or at least the number of keys (an upper bound on the
		// number of internal nodes), so no internal node is ever evicted; leaf eviction (value capacity) is
		// still generated freely.
		safe := len(m) + 12 // up to 10 local inserts may add internal nodes
		ncaps := []int{0, safe, safe + 5}
		if !ev.Excluded(kv.SigNodeCapBelowPath) {
			ncaps = append(ncaps, 1, 2, 3, 5, kv.MaxPathDepth(uni)+3)
		}
		ncap := uint64(rapid.SampledFrom(ncaps).Draw(t, "ncap"))
		vcap := uint64(rapid.SampledFrom([]int{0, 1, 100, 400, 1 << 20}).Draw(t, "vcap"))
		// Local writes under value-cache pressure hit known finding cache-leaf-evicted-under-dirty-internal (probe
		// TestC04KFRemoteLeafEviction): while it is excluded, readers with a small value capacity stay read-only.
		mayWrite := vcap == 0 || vcap >= 1<<20 || !ev.Excluded(kv.SigLeafEvictedDirty)
		reader := mkvs.NewWithRoot(adv, nil, f.root, mkvs.Capacity(ncap, vcap))
		defer reader.Close()
		trace = append(trace, fmt.Sprintf("keys=%d script=%v cap=%d/%d", len(m), adv.script, ncap, vcap))
		if os.Getenv("VERIF_DEBUG_CONTENTS") != "" {
			for _, k := range m.SortedKeys() {
				trace = append(trace, fmt.Sprintf("  content %x = %d bytes", k, len(m[k])))
			}
		}
		fail := func(sig, format string, args ...any) {
			ev.Violation(t, sig, "%s; trace=%v", fmt.Sprintf(format, args...), trace)
		}
		// Local writes on the remote-backed reader (how a runtime works on top of a remote state root): from the first
		// write on, the truth is the full replica's contents with the same writes applied (m is this case's private copy).
		m = m.Clone()
		keys := m.SortedKeys()
		errs := 0
		wrote := false
		// unspec: keys of local writes that FAILED (the reader returned an error): whether such a write took effect is not
		// specified, so answers about that key are not judged until it is written successfully again - every other key is
		unspec := map[string]bool{}
		doGet := func(k []byte) {
			v, err := reader.Get(ctx, k)
			if err != nil {
				errs++
				trace = append(trace, fmt.Sprintf("get %x -> error", k))
				return
			}
			trace = append(trace, fmt.Sprintf("get %x -> %d bytes nil=%v", k, len(v), v == nil))
			if unspec[string(k)] {
				return
			}
			if want := modelAnswer(m, k); want.Present != (v != nil) || !bytes.Equal(v, want.Value) {
				fail("remote-wrong-answer", "remote Get(%x) returned %x (nil=%v), truth %s", k, v, v == nil, want)
			}
		}
		doIter := func(seek []byte, steps int) {
			it := reader.NewIterator(ctx, mkvs.IteratorPrefetch(uint16(rapid.IntRange(0, 5).Draw(t, "itprefetch"))))
			defer it.Close()
			it.Seek(seek)
			keys := keys
			if len(unspec) > 0 {
				keys = nil
				for _, k := range m.SortedKeys() {
					if !unspec[k] {
						keys = append(keys, k)
					}
				}
			}
			pos := sort.SearchStrings(keys, string(seek))
			for s := 0; s <= steps; s++ {
				for it.Err() == nil && it.Valid() && unspec[string(it.Key())] {
					it.Next()
				}
				if it.Err() != nil {
					errs++
					trace = append(trace, fmt.Sprintf("iter from %x -> error after %d", seek, s))
					return
				}
				if pos >= len(keys) {
					if it.Valid() {
						fail("remote-wrong-answer", "remote iterator yields %x beyond the last key", it.Key())
					}
					return
				}
				if !it.Valid() {
					fail("remote-wrong-answer", "remote iterator ends before key %x without an error", keys[pos])
				}
				if string(it.Key()) != keys[pos] || !bytes.Equal(it.Value(), m[keys[pos]]) {
					fail("remote-wrong-answer", "remote iterator at %x=%x, truth %x=%x", it.Key(), it.Value(), keys[pos], m[keys[pos]])
				}
				it.Next()
				pos++
			}
			trace = append(trace, fmt.Sprintf("iter from %x ok", seek))
		}
		nops := rapid.IntRange(1, 10).Draw(t, "nops")
		writeFailed := false
		for i := 0; i < nops; i++ {
			op := rapid.IntRange(0, 5).Draw(t, "op")
			if op >= 4 && !mayWrite {
				op -= 4
			}
			switch op {
			case 0, 1:
				doGet(queryKey(t, uni))
			case 2:
				doIter(queryKey(t, uni), rapid.IntRange(0, len(keys)+1).Draw(t, "steps"))
			case 4:
				// local insert: a key of the universe, or one that diverges inside a compressed label / extends a key
				k := queryKey(t, uni)
				v := []byte(fmt.Sprintf("local-%d", i))
				if rapid.IntRange(0, 3).Draw(t, "emptyval") == 0 {
					v = []byte{}
				}
				if err := reader.Insert(ctx, k, v); err != nil {
					// the property allows an error; whether the failed write took effect for ITS key is not specified
					trace = append(trace, fmt.Sprintf("local insert %x -> error", k))
					rec.Label("local-write-error")
					errs++
					writeFailed = true
					unspec[string(k)] = true
					break
				}
				wrote = true
				delete(unspec, string(k))
				m[string(k)] = v
				keys = m.SortedKeys()
				trace = append(trace, fmt.Sprintf("local insert %x (%d bytes)", k, len(v)))
			case 5:
				k := queryKey(t, uni)
				if err := reader.Remove(ctx, k); err != nil {
					trace = append(trace, fmt.Sprintf("local remove %x -> error", k))
					rec.Label("local-write-error")
					errs++
					writeFailed = true
					unspec[string(k)] = true
					break
				}
				wrote = true
				delete(unspec, string(k))
				delete(m, string(k))
				keys = m.SortedKeys()
				trace = append(trace, fmt.Sprintf("local remove %x", k))
			default:
				p := [][]byte{queryKey(t, uni)}
				err := reader.PrefetchPrefixes(ctx, p, uint16(rapid.IntRange(0, 10).Draw(t, "plimit")))
				trace = append(trace, fmt.Sprintf("prefetch %x -> %v", p[0], err))
			}
		}
		consumedBad := adv.bad
		// exhaust the script, then everything must read correctly from the now honest peer
		adv.script = nil
		honestAfter := false
		if wrote {
			rec.Label("local-writes-on-remote-reader")
		}
		if writeFailed {
			rec.Label("local-write-error-then-continued")
		}
		if ncap == 0 || ncap >= uint64(safe) {
			before := errs
			for _, k := range uni {
				doGet(k)
			}
			doIter([]byte{}, len(keys)+1)
			// after local writes the tree may refuse to merge a fetched subtree into a modified one (an error, allowed)
			if errs != before && !wrote && !writeFailed {
				fail("remote-poisoned", "with an honest peer and sufficient cache the reader still fails (%d errors) after earlier corrupt responses", errs-before)
			}
			honestAfter = true
		}
		nt := consumedBad > 0 && honestAfter
		if consumedBad > 0 {
			rec.Label("corrupt-response-consumed")
		}
		if errs > 0 {
			rec.Label("reader-returned-error")
		}
		var sample any
		if nt && rec.WantSample() {
			sample = append([]string{}, trace...)
		}
		rec.Case(nt, ev.Fingerprint(fmt.Sprint(trace), f.root.Hash.String()), sample)
	})
}

// TestC04KFRemoteTinyCache: deterministic probe of the known finding for the remote reader: with an
// honest peer and a node capacity of 1 a present key reads as absent without an error.
func TestC04KFRemoteTinyCache(t *testing.T) {
	rec := ev.New("C04", "TestC04KFRemoteTinyCache", "deterministic probe of known finding cache-node-capacity-below-path for a remote-backed reader (honest peer, node capacity 1-3, ten prefix-related keys)", "")
	defer rec.Flush()
	m := kv.Model{}
	for i, k := range []string{"", "\x00", "\x00\x00", "\x00\x01", "\x40", "\x80", "\x80\x00", "\x80\x00\x01", "\xff", "\xff\x7f"} {
		m[k] = []byte{byte('0' + i)}
	}
	ndb, err := kv.OpenDB("badger", "", true)
	if err != nil {
		ev.Infra(t, "open: %v", err)
	}
	defer ndb.Close()
	tree := mkvs.New(nil, ndb, node.RootTypeState)
	for _, k := range m.SortedKeys() {
		_ = tree.Insert(ctx, []byte(k), m[k])
	}
	_, rh, err := tree.Commit(ctx, kv.Namespace, 1)
	if err != nil {
		ev.Infra(t, "commit: %v", err)
	}
	tree.Close()
	root := kv.Root(1, node.RootTypeState, rh)
	_ = ndb.Finalize([]node.Root{root})
	srv := mkvs.NewWithRoot(nil, ndb, root)
	defer srv.Close()
	var wrong []string
	for _, ncap := range []uint64{1, 2, 3} {
		reader := mkvs.NewWithRoot(srv, nil, root, mkvs.Capacity(ncap, 0))
		for round := 0; round < 2; round++ {
			for _, k := range m.SortedKeys() {
				v, err := reader.Get(ctx, []byte(k))
				if err == nil && string(v) != string(m[k]) {
					wrong = append(wrong, fmt.Sprintf("cap=%d Get(%x)=%q want %q", ncap, k, v, m[k]))
				}
			}
			if got, err := kv.Scan(ctx, reader); err == nil {
				if msg := kv.CompareScan(got, m); msg != "" {
					wrong = append(wrong, fmt.Sprintf("cap=%d %s", ncap, msg))
				}
			}
		}
		reader.Close()
	}
	rec.Case(true, ev.Fingerprint("probe"), fmt.Sprint(wrong))
	if len(wrong) > 0 {
		ev.Violation(t, kv.SigNodeCapBelowPath, "remote reader with node capacity 1-3 and an honest peer returns wrong answers without error: %v", wrong)
	}
}

// TestC04KFRemoteLeafEviction: deterministic probe of known finding cache-leaf-evicted-under-dirty-internal as it
// shows on a remote-backed reader with LOCAL writes: honest peer, unbounded node capacity, a value capacity of 100
// bytes and prefix-related keys. A local insert makes the internal nodes on its path dirty; value-cache pressure
// then evicts the clean prefix-key leaf embedded in such a node and the key reads as absent without an error.
func TestC04KFRemoteLeafEviction(t *testing.T) {
	rec := ev.New("C04", "TestC04KFRemoteLeafEviction", "deterministic probe of known finding cache-leaf-evicted-under-dirty-internal for a remote-backed reader with local writes (honest peer, value capacity 100, ten prefix-related keys with 60-byte values)", "")
	defer rec.Flush()
	m := kv.Model{}
	for i, k := range []string{"", "\x00", "\x00\x00", "\x00\x01", "\x40", "\x80", "\x80\x00", "\x80\x00\x01", "\xff", "\xff\x7f"} {
		m[k] = bytes.Repeat([]byte{byte('0' + i)}, 60)
	}
	ndb, err := kv.OpenDB("badger", "", true)
	if err != nil {
		ev.Infra(t, "open: %v", err)
	}
	defer ndb.Close()
	tree := mkvs.New(nil, ndb, node.RootTypeState)
	for _, k := range m.SortedKeys() {
		_ = tree.Insert(ctx, []byte(k), m[k])
	}
	_, rh, err := tree.Commit(ctx, kv.Namespace, 1)
	if err != nil {
		ev.Infra(t, "commit: %v", err)
	}
	tree.Close()
	root := kv.Root(1, node.RootTypeState, rh)
	_ = ndb.Finalize([]node.Root{root})
	srv := mkvs.NewWithRoot(nil, ndb, root)
	defer srv.Close()
	var wrong []string
	base := m.SortedKeys()
	for _, wk := range base {
		cur := m.Clone()
		reader := mkvs.NewWithRoot(srv, nil, root, mkvs.Capacity(0, 100))
		for _, k := range base { // bring the tree in
			_, _ = reader.Get(ctx, []byte(k))
		}
		nk := wk + "\x01\x02"
		if err := reader.Insert(ctx, []byte(nk), []byte("local")); err != nil {
			reader.Close()
			continue
		}
		cur[nk] = []byte("local")
		for round := 0; round < 2; round++ {
			for _, k := range cur.SortedKeys() {
				v, err := reader.Get(ctx, []byte(k))
				if err == nil && string(v) != string(cur[k]) {
					wrong = append(wrong, fmt.Sprintf("after local insert %x: Get(%x) returns %d bytes (nil=%v), truth %d bytes", nk, k, len(v), v == nil, len(cur[k])))
				}
			}
		}
		reader.Close()
	}
	rec.Case(true, ev.Fingerprint("probe"), fmt.Sprint(wrong))
	if len(wrong) > 0 {
		ev.Violation(t, kv.SigLeafEvictedDirty, "remote reader with local writes, value capacity 100 and an honest peer returns wrong answers without error: %v", wrong[:1])
	}
}
