package c04

import (
	"context"
	"fmt"
	"testing"

	"github.com/oasisprotocol/oasis-core/go/storage/mkvs"
	"github.com/oasisprotocol/oasis-core/go/storage/mkvs/node"
	"github.com/oasisprotocol/oasis-core/go/storage/mkvs/syncer"

	"verifharness/ev"
	"verifharness/kv"
)

// versionPeer answers the FIRST SyncGet with a genuine, root-anchored proof of the given version for another key
// (a replayed response in the proof version the reader did not ask for) and is honest afterwards.
type versionPeer struct {
	srv   syncer.ReadSyncer
	root  node.Root
	decoy []byte
	pv    uint16
	calls int
}

func (d *versionPeer) SyncGet(_ context.Context, r *syncer.GetRequest) (*syncer.ProofResponse, error) {
	d.calls++
	if d.calls == 1 {
		return d.srv.SyncGet(ctx, &syncer.GetRequest{Tree: syncer.TreeID{Root: d.root, Position: d.root.Hash}, Key: d.decoy, ProofVersion: d.pv})
	}
	return d.srv.SyncGet(ctx, r)
}

func (d *versionPeer) SyncGetPrefixes(_ context.Context, r *syncer.GetPrefixesRequest) (*syncer.ProofResponse, error) {
	return d.srv.SyncGetPrefixes(ctx, r)
}

func (d *versionPeer) SyncIterate(_ context.Context, r *syncer.IterateRequest) (*syncer.ProofResponse, error) {
	return d.srv.SyncIterate(ctx, r)
}

func regressFixture(t *testing.T) (kv.Model, node.Root, mkvs.Tree, func()) {
	m := kv.Model{}
	for i, k := range []string{"", "\x00\x00", "\x00\x00\x00\x01", "\x00\xff", "\x01\x00", "\x07", "\x80"} {
		m[k] = []byte{byte('0' + i), 1}
	}
	ndb, err := kv.OpenDB("badger", "", true)
	if err != nil {
		ev.Infra(t, "open: %v", err)
	}
	tree := mkvs.New(nil, ndb, node.RootTypeState)
	for _, k := range m.SortedKeys() {
		_ = tree.Insert(ctx, []byte(k), m[k])
	}
	_, rh, err := tree.Commit(ctx, kv.Namespace, 1)
	if err != nil {
		ev.Infra(t, "commit: %v", err)
	}
	tree.Close()
	root := kv.Root(1, node.RootTypeState, rh)
	_ = ndb.Finalize([]node.Root{root})
	srv := mkvs.NewWithRoot(nil, ndb, root)
	return m, root, srv, func() { srv.Close(); ndb.Close() }
}

// TestC04ProofVersionMismatch is the shrunk reproduction of a defect found by TestC04RemoteReader once readers
// also wrote locally (repaired in /repo by "fix: mkvs merges sync proofs of the requested version only"): the cache
// requests version 0 proofs but merged whatever version the peer sent. A genuine VERSION 1 proof for another key
// carries the leaf of the root's internal node as a bare hash; the cache takes that for an evicted leaf. After one
// local Insert (root dirty) the node could no longer be re-fetched, was dropped, and EVERY key of the trusted root
// read as absent without an error - with an unbounded cache and one replayed response.
func TestC04ProofVersionMismatch(t *testing.T) {
	rec := ev.New("C04", "TestC04ProofVersionMismatch", "deterministic regression case: 7 prefix-related keys; first response = genuine root-anchored proof for key 0100 in proof version 0 or 1, honest afterwards; local Insert(0000); every key must read as in the replica or with an error", "")
	defer rec.Flush()
	m, root, srv, done := regressFixture(t)
	defer done()
	var wrong []string
	for pv := uint16(0); pv < 2; pv++ {
		p := &versionPeer{srv: srv, root: root, decoy: []byte("\x01\x00"), pv: pv}
		reader := mkvs.NewWithRoot(p, nil, root)
		cur := m.Clone()
		if err := reader.Insert(ctx, []byte("\x00\x00"), []byte("local")); err == nil {
			cur["\x00\x00"] = []byte("local")
			for _, k := range cur.SortedKeys() {
				v, err := reader.Get(ctx, []byte(k))
				if err == nil && string(v) != string(cur[k]) {
					wrong = append(wrong, fmt.Sprintf("proof version %d: Get(%x) returns %x (nil=%v), truth %x", pv, k, v, v == nil, cur[k]))
				}
			}
		}
		reader.Close()
	}
	rec.Case(true, ev.Fingerprint("regress-proof-version"), fmt.Sprint(wrong))
	if len(wrong) > 0 {
		ev.Violation(t, "remote-wrong-answer", "after a replayed proof of the other version and one local insert: %v", wrong)
	}
}

// TestC04PrefetchEmptyLocal: regression of "fix: mkvs PrefetchPrefixes on a locally emptied remote-backed tree":
// a remote-backed tree whose keys were all removed locally has no pending root; PrefetchPrefixes dereferenced it.
func TestC04PrefetchEmptyLocal(t *testing.T) {
	rec := ev.New("C04", "TestC04PrefetchEmptyLocal", "deterministic regression case: remote-backed reader, all keys removed locally, then PrefetchPrefixes: an answer or an error, never a panic", "")
	defer rec.Flush()
	m, root, srv, done := regressFixture(t)
	defer done()
	reader := mkvs.NewWithRoot(srv, nil, root)
	defer reader.Close()
	for _, k := range m.SortedKeys() {
		if err := reader.Remove(ctx, []byte(k)); err != nil {
			ev.Infra(t, "remove: %v", err)
		}
	}
	func() {
		defer func() {
			if r := recover(); r != nil {
				ev.Violation(t, "remote-reader-panic", "PrefetchPrefixes on a locally emptied remote-backed tree panics: %v", r)
			}
		}()
		_ = reader.PrefetchPrefixes(ctx, [][]byte{{0x00}}, 10)
	}()
	for _, k := range m.SortedKeys() {
		if v, err := reader.Get(ctx, []byte(k)); err == nil && v != nil {
			ev.Violation(t, "remote-wrong-answer", "removed key %x reads %x after the prefetch", k, v)
		}
	}
	rec.Case(true, ev.Fingerprint("regress-prefetch-empty"), nil)
}
