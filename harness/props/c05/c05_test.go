// Package c05 decides property C05: token supply is conserved and share bookkeeping stays consistent.
package c05

import (
	"errors"
	"fmt"
	"math/big"
	"strings"
	"testing"

	"pgregory.net/rapid"

	"verifharness/chain"
	"verifharness/ev"
)

const rule = "case = generated production-mode genesis (fees, fee-split weights incl. zero, rewards, commission, slashing table, delegations with share price != 1, debonding delegations, governance deposits, optional vault) + 10-60 blocks (quick) of " +
	"generated staking/governance/registry/vault transactions (valid or with one aspect invalidated, zero and huge amounts, reserved and equal source/destination addresses), partial vote participation, misbehaviour evidence and epoch transitions on ONE replica " +
	"(determinism is C01's business; the in-tree supplementary sanity checker runs every block as a second opinion). oracle = after EVERY commit the complete staking state is read back and recomputed with math/big: total supply = sum of general + active escrow + " +
	"debonding escrow balances + common pool + governance deposits + last block fees; every escrow pool's total shares = sum of (debonding) delegations into it; total supply(h) = total supply(h-1) - sum of BurnEvent amounts emitted in block h (never increases). " +
	"non-trivial = history with a fee-paying transaction AND an epoch transition AND one of {slash, reclaim, burn, governance deposit}; distinct = hash of spec and block hashes"

func TestC05Supply(t *testing.T) {
	rec := ev.New("C05", "TestC05Supply", rule,
		"observed at block boundaries only (inside a block the fee accumulator legitimately holds value)",
		"production-mode genesis; total supply <= 10^19; feasible commits; anchor validator keeps the election precondition")
	defer rec.Flush()
	var cur *chain.Sim
	var curSpec *chain.Spec
	ev.Trace = func() any {
		if cur == nil {
			return nil
		}
		return map[string]any{"spec": curSpec, "trace": cur.Trace}
	}
	rapid.Check(t, func(t *rapid.T) {
		spec := chain.GenSpec(t)
		curSpec = spec
		w0, err := chain.BuildGenesis(spec)
		if err != nil {
			ev.Infra(t, "build genesis: %v", err)
		}
		sim, err := chain.NewSim(spec, []chain.ReplicaConfig{{Name: "R0", Backend: rapid.SampledFrom(chain.Backends).Draw(t, "backend"), MemoryOnly: true,
			// (the in-tree sanity checker is a second opinion in half of the cases; in the other half the harness's
			// own recomputation is the only judge, so that it is exercised on states the checker would have stopped)
			Keys: w0.Entities[0].Nodes[0], Sanity: rapid.Bool().Draw(t, "sanityApp")}})
		if err != nil {
			var ig chain.ErrInvalidGenesis
			if errors.As(err, &ig) {
				rec.Discard("invalid-genesis")
				return
			}
			var ec chain.ErrEngineContract
			if errors.As(err, &ec) {
				rec.Discard("engine-contract-at-genesis:" + chain.Why(ec.Err)) // C10 / C14 report it
				return
			}
			ev.Infra(t, "new sim: %v", err)
		}
		cur = sim
		defer sim.Close()
		sim.Profile = "economy"
		r := sim.Reps[0]
		fail := func(sig, format string, args ...any) {
			ev.Violation(t, sig, "%s; spec=%+v trace=%v", fmt.Sprintf(format, args...), *spec, tail(sim.Trace, 30))
		}
		check := func(when string) *chain.StakingSnapshot {
			v, err := chain.NewView(r)
			if err != nil {
				ev.Infra(t, "view: %v", err)
			}
			defer v.Close()
			snap, err := v.Snapshot()
			if err != nil {
				fail("state-unreadable", "%s: cannot read staking state: %v", when, err)
			}
			if msg := snap.CheckConservation(); msg != "" {
				fail("supply-not-conserved", "%s: %s", when, msg)
			}
			return snap
		}
		// (the state written by InitChain becomes readable with the first commit; the genesis total is the
		// reference for block 1)
		prev := &chain.StakingSnapshot{TotalSupply: sim.W.Doc.Staking.TotalSupply.ToBigInt()}
		nblocks := rapid.IntRange(10, ev.Pick(60, 300)).Draw(t, "nblocks")
		feePaid, epochs, special := false, 0, map[string]bool{}
		lastEpoch := uint64(0)
		var fp []any
		fp = append(fp, fmt.Sprintf("%+v", *spec))
		for bi := 0; bi < nblocks; bi++ {
			view, err := chain.NewView(r)
			if err != nil {
				ev.Infra(t, "view: %v", err)
			}
			if uint64(view.Epoch) != lastEpoch {
				if lastEpoch != 0 {
					epochs++
				}
				lastEpoch = uint64(view.Epoch)
			}
			bg := sim.GenBlock(t, view, ev.Pick(8, 12))
			view.Close()
			b := bg.Block
			if _, err := sim.E.Propose(b, r, r); err != nil {
				if strings.Contains(err.Error(), "supplementarysanity") {
					if !sanityAboutC05(err.Error()) {
						rec.Discard("sanity-checker-other-invariant:" + sanityClass(err.Error()))
						return
					}
					fail("sanity-checker-disagrees", "height %d: the in-tree sanity checker failed while the block was being proposed: %v", b.Height, err)
				}
				rec.Discard("proposal-failed:" + firstWords(err.Error(), 12))
				return
			}
			out := sim.E.Execute(r, b, chain.PathProcess, nil)
			if out.Err != nil || !out.Accepted {
				if out.Err != nil && strings.Contains(out.Err.Error(), "supplementarysanity") {
					if !sanityAboutC05(out.Err.Error()) {
						rec.Discard("sanity-checker-other-invariant:" + sanityClass(out.Err.Error()))
						return
					}
					fail("sanity-checker-disagrees", "height %d: the in-tree sanity checker failed: %v", b.Height, out.Err)
				}
				rec.Discard("block-failed:" + firstWords(fmt.Sprint(out.Err), 8))
				return
			}
			fp = append(fp, b.Hash)
			okc := 0
			for j, d := range bg.Txs {
				if out.TxResults[j].Code == 0 {
					okc++
					if d.Fee > 0 {
						feePaid = true
					}
					switch string(d.Method) {
					case "staking.ReclaimEscrow", "staking.Burn", "governance.SubmitProposal":
						special[string(d.Method)] = true
					}
				} else if d.Fee > 0 && d.ExpectAuthOK {
					feePaid = true
				}
			}
			if len(b.Misbehavior) > 0 {
				special["evidence"] = true
			}
			sim.Logf("h=%d txs=%d ok=%d ev=%d", b.Height, len(bg.Txs), okc, len(b.Misbehavior))
			snap := check(fmt.Sprintf("after block %d", b.Height))
			burned, nburn := chain.BurnedIn(out)
			want := new(big.Int).Sub(prev.TotalSupply, burned)
			if snap.TotalSupply.Cmp(want) != 0 {
				fail("supply-changed", "block %d: total supply went from %s to %s but %d burn events account for %s", b.Height, prev.TotalSupply, snap.TotalSupply, nburn, burned)
			}
			if snap.TotalSupply.Cmp(prev.TotalSupply) > 0 {
				fail("supply-increased", "block %d: total supply increased from %s to %s", b.Height, prev.TotalSupply, snap.TotalSupply)
			}
			prev = snap
			if err := sim.AfterCommit(b, out); err != nil {
				rec.Discard("engine-contract")
				return
			}
		}
		nt := feePaid && epochs >= 1 && len(special) > 0
		for k := range special {
			rec.Label("saw:" + k)
		}
		if feePaid {
			rec.Label("fee-paid")
		}
		rec.LabelN("blocks", uint64(nblocks))
		rec.LabelN("epoch-transitions", uint64(epochs))
		var sample any
		if nt && rec.WantSample() {
			sample = map[string]any{"spec": spec, "trace": tail(sim.Trace, 25)}
		}
		rec.Case(nt, ev.Fingerprint(fp...), sample)
	})
}

func firstWords(s string, n int) string {
	f := strings.Fields(s)
	if len(f) > n {
		f = f[:n]
	}
	return strings.Join(f, " ")
}

func tail(s []string, n int) []string {
	if len(s) > n {
		return s[len(s)-n:]
	}
	return s
}

// The in-tree supplementary sanity checker is a second opinion on what C05 states (balances add up to the total supply,
// share totals equal the delegations). It also enforces invariants C05 does not state - e.g. "no allowance exceeds the
// total supply", which the Allow handler ensures when the allowance is set but which a later Burn legitimately breaks
// (observed on the unchanged tree at VERIF_SEED=2). Only failures about C05's own clauses are violations; any other
// failure ends the case (the checker aborts the block) and is counted by class.
func sanityAboutC05(msg string) bool {
	for _, m := range []string{
		"add up", "don't match account's total", "but non-zero active escrow balance", "but non-zero debonding escrow balance",
		"balance is invalid", "total supply is invalid", "common pool is invalid", "last block fees is invalid",
		"specified for a nonexisting account", "burn address has non-zero balance",
	} {
		if strings.Contains(msg, m) {
			return true
		}
	}
	return false
}

func sanityClass(msg string) string {
	if i := strings.Index(msg, "check failed"); i >= 0 {
		msg = msg[i:]
	}
	// drop addresses and numbers: keep the wording
	f := strings.Fields(msg)
	var out []string
	for _, w := range f {
		if strings.HasPrefix(w, "oasis1") || strings.ContainsAny(w, "0123456789") {
			continue
		}
		out = append(out, w)
	}
	if len(out) > 14 {
		out = out[:14]
	}
	return strings.Join(out, " ")
}
