package c05

import (
	"fmt"
	"math/big"
	"testing"

	"pgregory.net/rapid"

	"github.com/oasisprotocol/oasis-core/go/common/crypto/hash"
	"github.com/oasisprotocol/oasis-core/go/common/crypto/signature"
	"github.com/oasisprotocol/oasis-core/go/roothash/api/commitment"
	scheduler "github.com/oasisprotocol/oasis-core/go/scheduler/api"

	"verifharness/chain"
	"verifharness/ev"
)

// Slashing and rewarding the SAME entity in one block, around the point where its escrow pool is emptied: an entity
// runs the compute nodes of a runtime with a stake near the runtime's penalty for incorrect results; one of its primary
// workers votes against the proposal, its backup workers resolve the discrepancy. The entity is slashed (possibly to a
// pool with outstanding shares and no balance) and then rewarded as a resolver from the slashed funds through the common
// pool, into its escrow, with its commission rate between 0 and 100%. Random traffic practically never lines this up
// (TestC11App needed VERIF_SEED=3 to see the halt this construction once caused), so it is scripted, with drawn amounts.

const slashedRule = "case = fixed two-entity genesis with a compute runtime (2 primary, 3 backup workers); drawn: the compute entity's stake around the runtime's penalty (1..1000 vs 100), further delegators in its pool, the commission rate " +
	"that applies to it (minimum rate 0 / 50% / 100%), common pool size incl. tiny ones, the number of attacked rounds (1-3) and idle blocks / epoch transitions in between; scripted rounds: the scheduler's proposal, a dissenting vote of " +
	"the compute entity's other primary worker, resolution by the backup workers. oracle = after EVERY block the staking ledger recomputed with big integers balances (total supply = all general, escrow, debonding balances + common pool + " +
	"governance deposits + last block fees; pool share totals = sums of delegations), the total supply only falls by burn events, and every block executes. non-trivial = a round in which the slashed entity was also rewarded; distinct = the drawn parameters"

// TestC05SlashedPools: supply conservation when an entity is slashed and rewarded in the same block.
func TestC05SlashedPools(t *testing.T) {
	rec := ev.New("C05", "TestC05SlashedPools", slashedRule, "the runtime's executor commitments are signed with the real node keys; the harness plays all committee members")
	defer rec.Flush()
	var cur *chain.Sim
	ev.Trace = func() any {
		if cur == nil {
			return nil
		}
		return cur.Trace
	}
	rapid.Check(t, func(t *rapid.T) {
		spec := chain.DefaultSpec()
		spec.NodesPerEntity = []int{1, 3}
		spec.NodeRoles = [][]int{{3}, {2, 2, 2}}
		stake := uint64(rapid.SampledFrom([]int{1, 50, 90, 99, 100, 101, 150, 199, 200, 201, 1000}).Draw(t, "computeEntityStake"))
		shares := stake
		if rapid.IntRange(0, 2).Draw(t, "sharePrice") == 0 {
			shares = stake*3 + 1 // a pool whose shares are not worth one base unit each
		}
		spec.SelfStake, spec.SelfShares = []uint64{100000, stake}, []uint64{100000, shares}
		spec.EpochInterval = int64(rapid.SampledFrom([]int{6, 12}).Draw(t, "epochInterval"))
		spec.MaxNodeExp = 6
		spec.WithRuntime = true
		spec.RtGroup, spec.RtBackup, spec.RtStragglers, spec.RtRoundTimeout, spec.RtSlash = 2, 3, 0, 5, 100
		spec.MinCommission = uint64(rapid.SampledFrom([]int{100000, 100000, 50000, 0, 99999}).Draw(t, "minCommission"))
		spec.CommonPool = uint64(rapid.SampledFrom([]int{1000000, 1000000, 1000, 10, 0}).Draw(t, "commonPool"))
		if rapid.Bool().Draw(t, "otherDelegators") {
			// users delegating into the compute entity's pool: shares outstanding that are not the entity's own
			spec.CrossDelegations = [][3]uint64{{0, 1, uint64(rapid.SampledFrom([]int{1, 7, 100, 1000}).Draw(t, "crossAmount"))}}
		}
		w0, err := chain.BuildGenesis(spec)
		if err != nil {
			ev.Infra(t, "genesis: %v", err)
		}
		sim, err := chain.NewSim(spec, []chain.ReplicaConfig{{Name: "R0", Backend: rapid.SampledFrom(chain.Backends).Draw(t, "backend"), MemoryOnly: true, Keys: w0.Entities[0].Nodes[0]}})
		if err != nil {
			rec.Discard("genesis-refused:" + firstWords(err.Error(), 8))
			return
		}
		cur = sim
		defer sim.Close()
		r := sim.Reps[0]
		fail := func(sig, format string, args ...any) {
			ev.Violation(t, sig, "%s; spec=%+v trace=%v", fmt.Sprintf(format, args...), *spec, tail(sim.Trace, 30))
		}
		rtID := sim.W.Runtime.ID
		byID := sim.W.NodeByID()
		e1 := sim.W.Entities[1].Address()
		e1Node := map[signature.PublicKey]bool{}
		for _, nk := range sim.W.Entities[1].Nodes {
			e1Node[nk.ID.Public()] = true
		}
		users := sim.W.Actors()
		user := users[len(users)-1]
		nonce := uint64(0)
		prev := &chain.StakingSnapshot{TotalSupply: sim.W.Doc.Staking.TotalSupply.ToBigInt()}
		commit := func(txs [][]byte, what string) bool {
			vals := sim.E.Validators().Sorted()
			b := &chain.Block{Height: sim.E.Height, Time: sim.E.Time.Add(1e9), Proposer: vals[0], Txs: txs}
			signed := map[string]bool{}
			for _, v := range sim.E.PrevValidators() {
				signed[string(v.Address)] = true
			}
			b.LastCommit = sim.E.CommitInfoFor(signed)
			if _, err := sim.E.Propose(b, sim.ReplicaFor(b.Proposer), r); err != nil {
				if chain.PreconditionLost(err.Error()) {
					rec.Discard("precondition-lost")
					return false
				}
				fail("block-failed", "height %d (%s): the proposal cannot be built: %v", b.Height, what, err)
			}
			out := sim.E.Execute(r, b, chain.PathProcess, nil)
			if out.Err != nil || !out.Accepted {
				fail("block-failed", "height %d (%s): block execution failed: %v", b.Height, what, out.Err)
			}
			sim.Logf("h=%d %s", b.Height, what)
			v, err := chain.NewView(r)
			if err != nil {
				ev.Infra(t, "view: %v", err)
			}
			snap, err := v.Snapshot()
			v.Close()
			if err != nil {
				fail("state-unreadable", "after block %d: cannot read staking state: %v", b.Height, err)
			}
			if msg := snap.CheckConservation(); msg != "" {
				fail("supply-not-conserved", "after block %d (%s): %s", b.Height, what, msg)
			}
			burned, nburn := chain.BurnedIn(out)
			if want := new(big.Int).Sub(prev.TotalSupply, burned); snap.TotalSupply.Cmp(want) != 0 {
				fail("supply-changed", "block %d (%s): total supply went from %s to %s but %d burn events account for %s", b.Height, what, prev.TotalSupply, snap.TotalSupply, nburn, burned)
			}
			prev = snap
			if err := sim.AfterCommit(b, out); err != nil {
				rec.Discard("engine-contract")
				return false
			}
			return true
		}
		result := func(tag int) chain.ExecutorResult {
			return chain.ExecutorResult{StateRoot: hash.NewFromBytes([]byte(fmt.Sprintf("slashed state %d", tag))), IORoot: hash.NewFromBytes([]byte(fmt.Sprintf("slashed io %d", tag)))}
		}
		wantRounds := rapid.IntRange(1, 3).Draw(t, "attackedRounds")
		attacked, rewardedAfterSlash := 0, 0
		for step := 0; step < 90 && attacked < wantRounds; step++ {
			view, err := chain.NewView(r)
			if err != nil {
				if !commit(nil, "first block") {
					return
				}
				continue
			}
			rt, err := view.RuntimeState(rtID)
			acct := view.Account(e1)
			view.Close()
			if err != nil || rt == nil || rt.Suspended || rt.Committee == nil || rt.CommitmentPool == nil {
				if !commit(nil, "no committee") {
					return
				}
				continue
			}
			if rapid.IntRange(0, 3).Draw(t, "idle") == 0 {
				if !commit(nil, "idle") {
					return
				}
				continue
			}
			var workers, backups []signature.PublicKey
			for _, m := range rt.Committee.Members {
				switch m.Role {
				case scheduler.RoleWorker:
					workers = append(workers, m.PublicKey)
				case scheduler.RoleBackupWorker:
					backups = append(backups, m.PublicKey)
				}
			}
			sched, ok := rt.Committee.Scheduler(rt.LastBlock.Header.Round+1, 0)
			if !ok || len(workers) != 2 || len(backups) == 0 {
				rec.Discard(fmt.Sprintf("committee-shape:%d/%d", len(workers), len(backups)))
				return
			}
			other := workers[0]
			if other == sched.PublicKey {
				other = workers[1]
			}
			attack := e1Node[other]
			mk := func(pk signature.PublicKey, tag int) commitment.ExecutorCommitment {
				ec, err := chain.NewExecutorCommitment(rtID, byID[pk], sched.PublicKey, rt.LastBlock, nil, result(tag))
				if err != nil {
					ev.Infra(t, "%v", err)
				}
				return *ec
			}
			send := func(ecs []commitment.ExecutorCommitment, what string) bool {
				ok := commit([][]byte{sim.W.ExecutorCommitTx(user.Signer, nonce, rtID, ecs)}, what)
				nonce++
				return ok
			}
			if !rt.CommitmentPool.Discrepancy {
				tag := 1
				if attack {
					tag = 2
				}
				if !send([]commitment.ExecutorCommitment{mk(sched.PublicKey, 1), mk(other, tag)}, fmt.Sprintf("primary votes, dissent=%v", attack)) {
					return
				}
				continue
			}
			var ecs []commitment.ExecutorCommitment
			resolverOfE1 := false
			for _, bk := range backups {
				resolverOfE1 = resolverOfE1 || (e1Node[bk] && bk != other)
				if bk == workers[0] || bk == workers[1] {
					continue
				}
				ecs = append(ecs, mk(bk, 1))
			}
			before := acct.Escrow.Active.Balance.String()
			if !send(ecs, fmt.Sprintf("discrepancy resolved, resolver of the slashed entity=%v, its escrow before=%s", resolverOfE1, before)) {
				return
			}
			attacked++
			if resolverOfE1 {
				rewardedAfterSlash++
			}
			v2, _ := chain.NewView(r)
			after := v2.Account(e1)
			v2.Close()
			rec.Label(fmt.Sprintf("slashed-pool-after:balance-zero=%v,shares-zero=%v", after.Escrow.Active.Balance.IsZero(), after.Escrow.Active.TotalShares.IsZero()))
		}
		// a few more blocks incl. an epoch transition (debonding of what was slashed, rewards)
		for i, n := 0, rapid.IntRange(0, int(spec.EpochInterval)+2).Draw(t, "tailBlocks"); i < n; i++ {
			if !commit(nil, "tail") {
				return
			}
		}
		rec.LabelN("attacked-rounds", uint64(attacked))
		rec.Case(rewardedAfterSlash > 0, ev.Fingerprint(fmt.Sprintf("%+v", *spec), wantRounds), fmt.Sprintf("stake=%d shares=%d minCommission=%d commonPool=%d rounds=%d rewarded-after-slash=%d", stake, shares, spec.MinCommission, spec.CommonPool, attacked, rewardedAfterSlash))
	})
}
