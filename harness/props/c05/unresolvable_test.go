package c05

import (
	"fmt"
	"math/big"
	"testing"

	"pgregory.net/rapid"

	beacon "github.com/oasisprotocol/oasis-core/go/beacon/api"
	"github.com/oasisprotocol/oasis-core/go/consensus/api/transaction"
	staking "github.com/oasisprotocol/oasis-core/go/staking/api"

	"verifharness/chain"
	"verifharness/ev"
)

// Fees carried over to the next block when NONE of the signers of the last commit can be paid: with epochs of one block
// a validator whose node registration runs out leaves the validator set two blocks after the epoch in which it expired,
// and (debonding interval 1) its node is removed from the registry one block after that epoch - so the last block it
// signs arrives in a commit whose signer no longer resolves to a registered node. When that validator holds more than two
// thirds of the voting power and the other one did not sign, the block's fee share for voters has nobody to go to. Random
// traffic does not line this up (the anchor validator of the generated chains never expires and epochs are longer), so the
// history is scripted, with drawn amounts and votes.

const unresolvableRule = "case = fixed two-entity genesis, one validator node each, epochs of ONE block, debonding interval 1; the second entity holds >2/3 of the voting power and its node is never re-registered (drawn expiration 2-4 " +
	"epochs), the first entity's node is refreshed every epoch; every block carries a fee-paying transfer (drawn fee 1..1000, drawn fee split weights) and the first validator's vote is drawn absent whenever the commit stays above 2/3; " +
	"oracle = after EVERY block the staking ledger recomputed with big integers balances (total supply = all general, escrow, debonding balances + common pool + governance deposits + last block fees), the total supply " +
	"only falls by burn events, and every block executes. non-trivial = a block with carried-over fees whose commit has no signer that resolves to a registered node; distinct = the drawn parameters"

// TestC05UnresolvableSigners: supply conservation when the carried-over fee share finds no voter to pay.
func TestC05UnresolvableSigners(t *testing.T) {
	rec := ev.New("C05", "TestC05UnresolvableSigners", unresolvableRule, "")
	defer rec.Flush()
	var cur *chain.Sim
	ev.Trace = func() any {
		if cur == nil {
			return nil
		}
		return cur.Trace
	}
	rapid.Check(t, func(t *rapid.T) {
		spec := chain.DefaultSpec()
		spec.EpochInterval = 1
		spec.MaxNodeExp = uint64(rapid.IntRange(2, 4).Draw(t, "maxNodeExp"))
		spec.SelfStake, spec.SelfShares = []uint64{1000, 100000}, []uint64{1000, 100000}
		spec.FeeWeights = [3]uint64{uint64(rapid.IntRange(0, 2).Draw(t, "wP")), uint64(rapid.IntRange(0, 2).Draw(t, "wV")), uint64(rapid.IntRange(1, 2).Draw(t, "wQ"))}
		spec.CommonPool = uint64(rapid.SampledFrom([]int{1000000, 1000, 0}).Draw(t, "commonPool"))
		w0, err := chain.BuildGenesis(spec)
		if err != nil {
			ev.Infra(t, "genesis: %v", err)
		}
		sim, err := chain.NewSim(spec, []chain.ReplicaConfig{{Name: "R0", Backend: rapid.SampledFrom(chain.Backends).Draw(t, "backend"), MemoryOnly: true, Keys: w0.Entities[0].Nodes[0]}})
		if err != nil {
			rec.Discard("genesis-refused:" + firstWords(err.Error(), 8))
			return
		}
		cur = sim
		defer sim.Close()
		r := sim.Reps[0]
		fail := func(sig, format string, args ...any) {
			ev.Violation(t, sig, "%s; spec=%+v trace=%v", fmt.Sprintf(format, args...), *spec, tail(sim.Trace, 30))
		}
		users := sim.W.Actors()
		user, other := users[len(users)-1], users[len(users)-2]
		anchorE, anchorN := sim.W.Entities[0], sim.W.Entities[0].Nodes[0]
		anchorAddr := string(chain.ValidatorAddress(anchorN.Consensus.Public()))
		prev := &chain.StakingSnapshot{TotalSupply: sim.W.Doc.Staking.TotalSupply.ToBigInt()}
		nblocks := rapid.IntRange(6, 10).Draw(t, "nblocks")
		hits := 0
		var fp []any
		fp = append(fp, spec.MaxNodeExp, spec.FeeWeights, spec.CommonPool)
		for bi := 0; bi < nblocks; bi++ {
			view, err := chain.NewView(r)
			var txs [][]byte
			carried := new(big.Int)
			resolvable := map[string]bool{}
			if err == nil {
				g := chain.NewTxGen(sim.W, view, "staking")
				// the first entity keeps its node registered; the second entity's node is left to expire
				txs = append(txs, g.RefreshTx(anchorE, anchorN, view.Epoch+chainEpoch(spec.MaxNodeExp)).Raw)
				fee := uint64(rapid.IntRange(1, 1000).Draw(t, "fee"))
				acct := view.Account(user.Addr)
				txs = append(txs, chain.SignTx(user.Signer, acct.General.Nonce, &transaction.Fee{Gas: 100000, Amount: *chain.Q(fee)}, staking.MethodTransfer, &staking.Transfer{To: other.Addr, Amount: *chain.Q(1)}))
				fp = append(fp, fee)
				if q, err := view.St.LastBlockFees(view.Ctx()); err == nil {
					carried = q.ToBigInt()
				}
				if nodes, err := view.Reg.Nodes(view.Ctx()); err == nil {
					for _, n := range nodes {
						resolvable[string(chain.ValidatorAddress(n.Consensus.ID))] = true
					}
				}
				view.Close()
			}
			vals := sim.E.Validators().Sorted()
			b := &chain.Block{Height: sim.E.Height, Time: sim.E.Time.Add(1e9), Proposer: vals[rapid.IntRange(0, len(vals)-1).Draw(t, "proposer")], Txs: txs}
			signed := map[string]bool{}
			anyResolvable := false
			if pv := sim.E.PrevValidators(); pv != nil {
				total, anchorPower := pv.TotalPower(), int64(0)
				for _, v := range pv {
					signed[string(v.Address)] = true
					if string(v.Address) == anchorAddr {
						anchorPower = v.Power
					}
				}
				if anchorPower > 0 && anchorPower*3 < total && rapid.IntRange(0, 3).Draw(t, "anchorSigns") > 0 {
					signed[anchorAddr] = false
				}
				for a, s := range signed {
					if s && resolvable[a] {
						anyResolvable = true
					}
				}
				fp = append(fp, signed[anchorAddr])
			} else {
				anyResolvable = true // (first block: no commit at all)
			}
			b.LastCommit = sim.E.CommitInfoFor(signed)
			what := fmt.Sprintf("carried fees %s, a signer of the commit resolves to a registered node: %v", carried, anyResolvable)
			if _, err := sim.E.Propose(b, sim.ReplicaFor(b.Proposer), r); err != nil {
				if chain.PreconditionLost(err.Error()) {
					rec.Discard("precondition-lost")
					return
				}
				fail("block-failed", "height %d (%s): the proposal cannot be built: %v", b.Height, what, err)
			}
			out := sim.E.Execute(r, b, chain.PathProcess, nil)
			if out.Err != nil || !out.Accepted {
				fail("block-failed", "height %d (%s): block execution failed: %v", b.Height, what, out.Err)
			}
			sim.Logf("h=%d %s", b.Height, what)
			if !anyResolvable && carried.Sign() > 0 {
				hits++
				rec.Label("carried-fees-and-no-signer-resolves")
			}
			v, err := chain.NewView(r)
			if err != nil {
				ev.Infra(t, "view: %v", err)
			}
			snap, err := v.Snapshot()
			v.Close()
			if err != nil {
				fail("state-unreadable", "after block %d: cannot read staking state: %v", b.Height, err)
			}
			if msg := snap.CheckConservation(); msg != "" {
				fail("supply-not-conserved", "after block %d (%s): %s", b.Height, what, msg)
			}
			burned, nburn := chain.BurnedIn(out)
			if want := new(big.Int).Sub(prev.TotalSupply, burned); snap.TotalSupply.Cmp(want) != 0 {
				fail("supply-changed", "block %d (%s): total supply went from %s to %s but %d burn events account for %s", b.Height, what, prev.TotalSupply, snap.TotalSupply, nburn, burned)
			}
			prev = snap
			if err := sim.AfterCommit(b, out); err != nil {
				rec.Discard("engine-contract:" + firstWords(err.Error(), 6))
				return
			}
		}
		var sample any
		if hits > 0 && rec.WantSample() {
			sample = map[string]any{"spec": spec, "trace": tail(sim.Trace, 12)}
		}
		rec.Case(hits > 0, ev.Fingerprint(fp...), sample)
	})
}

func chainEpoch(v uint64) beacon.EpochTime { return beacon.EpochTime(v) }
