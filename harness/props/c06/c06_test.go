// Package c06 decides property C06: finalized storage versions stay fully readable until pruned.
//
// Files: c06_test.go (helpers, reference node set, deterministic probes of the findings), machine_test.go (the
// model-based state machine TestC06Versions and the two-backend differential TestC06BackendDiff),
// concurrent_test.go (TestC06Concurrent, thorough tier, race detector).
//
// Findings of this check (each has a probe TestC06KF*; a finding listed as known / named in VERIF_EXCLUDE_EXTRA is
// excluded by construction from the generators, the probes of repaired findings are regression tests):
//
//   - SigForeign / SigListed (repaired in /repo, "fix: pathbadger node database removes the root nodes of roots discarded
//     at finalization"): Finalize never deleted the root node key of a non-finalized root; the root stayed present and
//     listed, and after the pending sequence numbers were dropped its child pointers resolved to the FINALIZED sibling's
//     nodes, so reads succeeded with foreign contents. Probes: TestC06KFForeignContents, TestC06KFListedDiscarded.
//   - SigShared (repaired, "fix: badger node database keeps nodes that a discarded root merely rewrote"): Finalize deleted
//     a node that a discarded root re-put with an unchanged hash although the finalized root inherits it untouched.
//     Probe: TestC06KFSharedNode. The generator-side precondition analysis (observed PutNode traffic vs the reference
//     node set) is kept: it measures non-triviality and would attribute a regression.
//   - SigCross (known): badger node keys are plain hashes shared by state and IO trees. Prune of version v walks the
//     finalized IO root (no successors) and tombstones, at v's timestamp, a leaf that the state root of v holds too; later
//     state versions that inherit the leaf lose it. Precondition avoided while excluded: an IO root finalized together
//     with a state root holding an identical key/value pair (the IO candidates of that version are then discarded).
//     Probe: TestC06KFCrossType.
//
// Observation (not a violation, counted): badger Prune of a version whose finalized root is an explicitly committed
// empty root fails with "node not found" forever (label not-accepted:prune:finalized-empty-root:badger:...).
package c06

import (
	"bytes"
	"context"
	"crypto/sha512"
	"encoding/binary"
	"errors"
	"fmt"
	"os"
	"sort"
	"strings"
	"testing"

	"github.com/oasisprotocol/oasis-core/go/common/crypto/hash"
	"github.com/oasisprotocol/oasis-core/go/storage/mkvs"
	dbApi "github.com/oasisprotocol/oasis-core/go/storage/mkvs/db/api"
	"github.com/oasisprotocol/oasis-core/go/storage/mkvs/node"
	"github.com/oasisprotocol/oasis-core/go/storage/mkvs/syncer"

	"verifharness/ev"
	"verifharness/kv"
)

var ctx = context.Background()

// Signatures of the findings of this property (see the probes TestC06KF*).
const (
	// pathbadger: a discarded sibling candidate stays "present" and reads succeed with contents that are
	// not its own (its child pointers resolve to the finalized sibling's nodes).
	SigForeign = "pathbadger-discarded-root-foreign-contents"
	// pathbadger: GetRootsForVersion of a finalized version keeps listing the discarded candidates.
	SigListed = "pathbadger-lists-discarded-root"
	// badger: Finalize deletes a node that the finalized root still references because a discarded
	// sibling re-put it with an unchanged hash.
	SigShared = "badger-finalize-deletes-shared-node"
	// badger: Prune of a version deletes a leaf of the finalized IO root that the state tree holds too (node keys are
	// plain hashes shared by state and IO trees).
	SigCross = "badger-cross-type-shared-node"
)

// silenced reports whether a probe is silenced by hand (VERIF_EXCLUDE_EXTRA only; a signature listed in
// VERIF_EXCLUDE comes from known_findings.json and the probe must keep reporting it so that the
// driver prints KNOWN-FINDING).
func silenced(sig string) bool {
	for _, s := range strings.Split(os.Getenv("VERIF_EXCLUDE_EXTRA"), ",") {
		if s == sig && s != "" {
			return true
		}
	}
	return false
}

// ---------------------------------------------------------------------------------------
// Observation of the traffic between the tree and the node database: which node hashes a commit
// puts. Only used to decide preconditions of known findings and non-triviality, never as an oracle.

type spyDB struct {
	dbApi.NodeDB
	last *spyBatch
}

func (s *spyDB) NewBatch(oldRoot node.Root, version uint64, chunk bool) (dbApi.Batch, error) {
	b, err := s.NodeDB.NewBatch(oldRoot, version, chunk)
	if err != nil {
		return nil, err
	}
	s.last = &spyBatch{Batch: b}
	return s.last, nil
}

type spyBatch struct {
	dbApi.Batch
	puts []hash.Hash
}

func (b *spyBatch) PutNode(ptr *node.Pointer) error {
	if ptr != nil && ptr.Node != nil {
		b.puts = append(b.puts, ptr.Node.GetHash())
	}
	return b.Batch.PutNode(ptr)
}

// ---------------------------------------------------------------------------------------
// Reference node set: hashes of all nodes (internal nodes and leaves) of the tree holding exactly
// the given contents. Independent of insert.go/remove.go/commit.go (same construction as kv.RefRoot).

func h512(parts ...[]byte) hash.Hash {
	d := sha512.New512_256()
	for _, p := range parts {
		d.Write(p)
	}
	var out hash.Hash
	copy(out[:], d.Sum(nil))
	return out
}

func bit(k []byte, i int) bool { return k[i/8]&(1<<(7-uint(i%8))) != 0 }

func refNodes(m kv.Model) (hash.Hash, map[hash.Hash]bool) {
	ks := m.SortedKeys()
	keys := make([][]byte, len(ks))
	for i, k := range ks {
		keys[i] = []byte(k)
	}
	set := map[hash.Hash]bool{}
	root := refNode(m, keys, 0, set)
	return root, set
}

func refNode(m kv.Model, keys [][]byte, depth int, set map[hash.Hash]bool) hash.Hash {
	switch len(keys) {
	case 0:
		return h512()
	case 1:
		var kl, vl [4]byte
		k, v := keys[0], m[string(keys[0])]
		binary.LittleEndian.PutUint32(kl[:], uint32(len(k)))
		binary.LittleEndian.PutUint32(vl[:], uint32(len(v)))
		h := h512([]byte{0x00}, kl[:], k, vl[:], v)
		set[h] = true
		return h
	}
	cp := len(keys[0]) * 8
	for _, k := range keys[1:] {
		if len(k)*8 < cp {
			cp = len(k) * 8
		}
	}
	for _, k := range keys[1:] {
		i := depth
		for i < cp && bit(k, i) == bit(keys[0], i) {
			i++
		}
		cp = i
	}
	nbits := cp - depth
	label := make([]byte, (nbits+7)/8)
	for i := 0; i < nbits; i++ {
		if bit(keys[0], depth+i) {
			label[i/8] |= 1 << (7 - uint(i%8))
		}
	}
	var leafKeys, left, right [][]byte
	for _, k := range keys {
		switch {
		case len(k)*8 == cp:
			leafKeys = append(leafKeys, k)
		case bit(k, cp):
			right = append(right, k)
		default:
			left = append(left, k)
		}
	}
	var lb [2]byte
	binary.LittleEndian.PutUint16(lb[:], uint16(nbits))
	lh := refNode(m, leafKeys, cp, set)
	l := refNode(m, left, cp, set)
	r := refNode(m, right, cp, set)
	h := h512([]byte{0x01}, lb[:], label, lh[:], l[:], r[:])
	set[h] = true
	return h
}

// ---------------------------------------------------------------------------------------
// Batches.

type op struct {
	Ins bool
	Key []byte
	Val []byte
}

func (o op) String() string {
	if o.Ins {
		return fmt.Sprintf("ins(%x,%d:%x)", o.Key, len(o.Val), trunc(o.Val))
	}
	return fmt.Sprintf("rem(%x)", o.Key)
}

func trunc(b []byte) []byte {
	if len(b) > 6 {
		return b[:6]
	}
	return b
}

func applyOps(m kv.Model, ops []op) kv.Model {
	out := m.Clone()
	for _, o := range ops {
		if o.Ins {
			out[string(o.Key)] = o.Val
		} else {
			delete(out, string(o.Key))
		}
	}
	return out
}

// commitOn opens the tree at parent (nil or empty hash: a new empty tree), applies ops and commits at
// version. Returns the committed root hash and the node hashes put by the commit (when the database is
// a spyDB).
func commitOn(ndb dbApi.NodeDB, parent *node.Root, typ node.RootType, version uint64, ops []op) (hash.Hash, []hash.Hash, error) {
	var tree mkvs.Tree
	if parent == nil || parent.Hash.IsEmpty() {
		tree = mkvs.New(nil, ndb, typ)
	} else {
		tree = mkvs.NewWithRoot(nil, ndb, *parent)
	}
	defer tree.Close()
	for _, o := range ops {
		var err error
		if o.Ins {
			err = tree.Insert(ctx, o.Key, o.Val)
		} else {
			err = tree.Remove(ctx, o.Key)
		}
		if err != nil {
			return hash.Hash{}, nil, fmt.Errorf("apply %s: %w", o, err)
		}
	}
	if s, ok := ndb.(*spyDB); ok {
		s.last = nil
	}
	_, rh, err := tree.Commit(ctx, kv.Namespace, version)
	if err != nil {
		return hash.Hash{}, nil, err
	}
	var puts []hash.Hash
	if s, ok := ndb.(*spyDB); ok && s.last != nil {
		puts = s.last.puts
	}
	return rh, puts, nil
}

// ---------------------------------------------------------------------------------------
// Reading a root completely.

type readResult struct {
	// Err is the first error met ("" = every read succeeded).
	Err string
	// Diff describes the first difference from the expected contents among the reads that succeeded.
	Diff string
	// Reads / Failed count the individual read operations.
	Reads, Failed int
}

var pv syncer.ProofVerifier

// readRoot performs a full scan, a Get of every universe key and SyncGet proofs for proofKeys on a fresh
// tree opened at root, and compares every successful answer with want.
func readRoot(ndb dbApi.NodeDB, root node.Root, want kv.Model, uni, proofKeys [][]byte) readResult {
	var r readResult
	note := func(err error) {
		r.Failed++
		if r.Err == "" {
			r.Err = err.Error()
		}
	}
	diff := func(format string, args ...any) {
		if r.Diff == "" {
			r.Diff = fmt.Sprintf(format, args...)
		}
	}
	tree := mkvs.NewWithRoot(nil, ndb, root)
	r.Reads++
	got, err := kv.Scan(ctx, tree)
	if err != nil {
		note(fmt.Errorf("scan: %w", err))
	} else if msg := kv.CompareScan(got, want); msg != "" {
		diff("%s", msg)
	}
	tree.Close()
	// Gets on a second fresh tree so that they do not profit from the nodes the scan cached.
	tree = mkvs.NewWithRoot(nil, ndb, root)
	for _, k := range uni {
		r.Reads++
		v, err := tree.Get(ctx, k)
		if err != nil {
			note(fmt.Errorf("get %x: %w", k, err))
			continue
		}
		w, had := want[string(k)]
		if had != (v != nil) || !bytes.Equal(v, w) {
			diff("get %x returned %x (nil=%v), expected %x (present=%v)", k, trunc(v), v == nil, trunc(w), had)
		}
	}
	tree.Close()
	tree = mkvs.NewWithRoot(nil, ndb, root)
	for _, k := range proofKeys {
		r.Reads++
		rsp, err := tree.SyncGet(ctx, &syncer.GetRequest{Tree: syncer.TreeID{Root: root, Position: root.Hash}, Key: k, ProofVersion: 1})
		if err != nil {
			note(fmt.Errorf("syncget %x: %w", k, err))
			continue
		}
		wl, err := pv.VerifyProofToWriteLog(ctx, root.Hash, &rsp.Proof)
		if err != nil {
			diff("SyncGet proof for %x does not verify against root %s: %v", k, root.Hash, err)
			continue
		}
		found := false
		for _, e := range wl {
			if w, ok := want[string(e.Key)]; !ok || !bytes.Equal(w, e.Value) {
				diff("SyncGet proof for %x proves %x=%x which is not in the expected contents", k, e.Key, trunc(e.Value))
			}
			if bytes.Equal(e.Key, k) {
				found = true
			}
		}
		if _, had := want[string(k)]; had != found {
			diff("SyncGet proof for %x: key proven present=%v, expected present=%v", k, found, had)
		}
	}
	tree.Close()
	return r
}

func newTree(ndb dbApi.NodeDB, root node.Root) mkvs.Tree {
	return mkvs.NewWithRoot(nil, ndb, root)
}

func errClass(err error) string {
	switch {
	case err == nil:
		return "ok"
	case errors.Is(err, dbApi.ErrNodeNotFound):
		return "node-not-found"
	case errors.Is(err, dbApi.ErrRootNotFound):
		return "root-not-found"
	}
	s := err.Error()
	if len(s) > 70 {
		s = s[:70]
	}
	return s
}

func listed(ndb dbApi.NodeDB, root node.Root) (bool, []node.Root, error) {
	rs, err := ndb.GetRootsForVersion(root.Version)
	if err != nil {
		return false, nil, err
	}
	for _, r := range rs {
		if r.Equal(&root) {
			return true, rs, nil
		}
	}
	return false, rs, nil
}

func sortedHashes(rs []node.Root) []string {
	var s []string
	for _, r := range rs {
		s = append(s, fmt.Sprintf("%d/%s", r.Type, r.Hash.String()[:8]))
	}
	sort.Strings(s)
	return s
}

// ---------------------------------------------------------------------------------------
// Deterministic probes of the findings.

func mustOpen(t *testing.T, backend string) dbApi.NodeDB {
	ndb, err := kv.OpenDB(backend, "", true)
	if err != nil {
		ev.Infra(t, "open %s: %v", backend, err)
	}
	return ndb
}

func ins(k, v string) op { return op{Ins: true, Key: []byte(k), Val: []byte(v)} }
func rem(k string) op    { return op{Key: []byte(k)} }

// TestC06KFForeignContents: pathbadger, version 1 finalized with {a,b}; version 2 has two candidates derived
// from it, X = +c (finalized) and Y = +d (discarded). After Finalize([X]) the discarded root Y is still
// reported present and a full read of Y succeeds but returns X's contents.
func TestC06KFForeignContents(t *testing.T) {
	rec := ev.New("C06", "TestC06KFForeignContents", "deterministic probe of finding "+SigForeign+": two sibling candidates with new non-root nodes on pathbadger, finalize one, read the other", "")
	defer rec.Flush()
	ndb := mustOpen(t, "pathbadger")
	defer ndb.Close()
	base := []op{ins("a", "1"), ins("b", "2")}
	h1, _, err := commitOn(ndb, nil, node.RootTypeState, 1, base)
	if err != nil {
		ev.Infra(t, "commit v1: %v", err)
	}
	r1 := kv.Root(1, node.RootTypeState, h1)
	if err = ndb.Finalize([]node.Root{r1}); err != nil {
		ev.Infra(t, "finalize v1: %v", err)
	}
	mBase := applyOps(kv.Model{}, base)
	hx, _, err := commitOn(ndb, &r1, node.RootTypeState, 2, []op{ins("c", "3")})
	if err != nil {
		ev.Infra(t, "commit X: %v", err)
	}
	hy, _, err := commitOn(ndb, &r1, node.RootTypeState, 2, []op{ins("d", "4")})
	if err != nil {
		ev.Infra(t, "commit Y: %v", err)
	}
	x, y := kv.Root(2, node.RootTypeState, hx), kv.Root(2, node.RootTypeState, hy)
	mx, my := applyOps(mBase, []op{ins("c", "3")}), applyOps(mBase, []op{ins("d", "4")})
	if err = ndb.Finalize([]node.Root{x}); err != nil {
		ev.Infra(t, "finalize X: %v", err)
	}
	uni := [][]byte{[]byte("a"), []byte("b"), []byte("c"), []byte("d")}
	if rr := readRoot(ndb, x, mx, uni, uni); rr.Err != "" || rr.Diff != "" {
		ev.Violation(t, "finalized-root-unreadable", "finalized root X: err=%q diff=%q", rr.Err, rr.Diff)
	}
	has := ndb.HasRoot(y)
	rr := readRoot(ndb, y, my, uni, uni)
	sample := fmt.Sprintf("HasRoot(Y)=%v reads=%d failed=%d err=%q diff=%q", has, rr.Reads, rr.Failed, rr.Err, rr.Diff)
	rec.Case(true, ev.Fingerprint("foreign"), sample)
	if has && rr.Diff != "" {
		if silenced(SigForeign) {
			rec.Label("silenced:" + SigForeign)
			return
		}
		ev.Violation(t, SigForeign, "pathbadger: v1={a,b} finalized; v2 candidates X=+c, Y=+d; Finalize([X]); HasRoot(Y)=true and reading Y succeeds with foreign contents: %s (failed reads: %d of %d, first error %q)", rr.Diff, rr.Failed, rr.Reads, rr.Err)
	}
}

// TestC06KFListedDiscarded: pathbadger keeps listing a discarded candidate in GetRootsForVersion of the
// finalized version (badger lists the finalized root only).
func TestC06KFListedDiscarded(t *testing.T) {
	rec := ev.New("C06", "TestC06KFListedDiscarded", "deterministic probe of finding "+SigListed+": two single-key sibling candidates in version 1, finalize one, list the roots of version 1 on both backends", "")
	defer rec.Flush()
	var out []string
	var bad string
	for _, b := range kv.Backends {
		ndb := mustOpen(t, b)
		hx, _, err := commitOn(ndb, nil, node.RootTypeState, 1, []op{ins("a", "1")})
		if err != nil {
			ev.Infra(t, "commit: %v", err)
		}
		hy, _, err := commitOn(ndb, nil, node.RootTypeState, 1, []op{ins("b", "2")})
		if err != nil {
			ev.Infra(t, "commit: %v", err)
		}
		x, y := kv.Root(1, node.RootTypeState, hx), kv.Root(1, node.RootTypeState, hy)
		if err = ndb.Finalize([]node.Root{x}); err != nil {
			ev.Infra(t, "finalize: %v", err)
		}
		isListed, rs, err := listed(ndb, y)
		if err != nil {
			ev.Infra(t, "GetRootsForVersion: %v", err)
		}
		out = append(out, fmt.Sprintf("%s: roots(v1)=%v HasRoot(discarded)=%v", b, sortedHashes(rs), ndb.HasRoot(y)))
		if isListed {
			bad = b
		}
		ndb.Close()
	}
	rec.Case(true, ev.Fingerprint("listed"), out)
	if bad != "" {
		if silenced(SigListed) {
			rec.Label("silenced:" + SigListed)
			return
		}
		ev.Violation(t, SigListed, "%s: version 1 candidates X={a}, Y={b}; Finalize([X]); GetRootsForVersion(1) still lists the discarded Y: %v", bad, out)
	}
}

// TestC06KFSharedNode: badger, version 1 finalized with {a,b,c}; version 2 candidates: X = unchanged root
// (finalized, as the storage worker commits for an unchanged state root) and Y = insert b\x00, remove b\x00,
// overwrite a (discarded; re-puts the inner node over {b,c} with an unchanged hash). Finalize([X]) deletes the re-put nodes and X
// (and every later version derived from it) fails with "node not found".
func TestC06KFSharedNode(t *testing.T) {
	rec := ev.New("C06", "TestC06KFSharedNode", "deterministic probe of finding "+SigShared+": unchanged finalized root + discarded sibling with a no-op rewrite on badger", "")
	defer rec.Flush()
	ndb := mustOpen(t, "badger")
	defer ndb.Close()
	base := []op{ins("a", "1"), ins("b", "2"), ins("c", "3")}
	h1, _, err := commitOn(ndb, nil, node.RootTypeState, 1, base)
	if err != nil {
		ev.Infra(t, "commit v1: %v", err)
	}
	r1 := kv.Root(1, node.RootTypeState, h1)
	if err = ndb.Finalize([]node.Root{r1}); err != nil {
		ev.Infra(t, "finalize v1: %v", err)
	}
	m := applyOps(kv.Model{}, base)
	hx, _, err := commitOn(ndb, &r1, node.RootTypeState, 2, nil)
	if err != nil {
		ev.Infra(t, "commit X: %v", err)
	}
	hy, _, err := commitOn(ndb, &r1, node.RootTypeState, 2, []op{ins("b\x00", "9"), rem("b\x00"), ins("a", "7")})
	if err != nil {
		ev.Infra(t, "commit Y: %v", err)
	}
	x := kv.Root(2, node.RootTypeState, hx)
	_ = hy
	if err = ndb.Finalize([]node.Root{x}); err != nil {
		ev.Infra(t, "finalize X: %v", err)
	}
	uni := [][]byte{[]byte("a"), []byte("b"), []byte("c"), []byte("d"), []byte("z")}
	rr := readRoot(ndb, x, m, uni, uni)
	r1r := readRoot(ndb, r1, m, uni, uni)
	sample := fmt.Sprintf("v2 X: reads=%d failed=%d err=%q diff=%q; v1: failed=%d", rr.Reads, rr.Failed, rr.Err, rr.Diff, r1r.Failed)
	rec.Case(true, ev.Fingerprint("shared"), sample)
	if rr.Err != "" || rr.Diff != "" {
		if silenced(SigShared) {
			rec.Label("silenced:" + SigShared)
			return
		}
		ev.Violation(t, SigShared, "badger: v1={a,b,c} finalized; v2 candidates X=unchanged, Y=ins b00,rem b00,ins a=7; Finalize([X]); reading the finalized X: %d of %d reads fail, first error %q, diff %q (version 1 with the same hash: %d failed reads)", rr.Failed, rr.Reads, rr.Err, rr.Diff, r1r.Failed)
	}
}

// TestC06KFCrossType: badger stores nodes under their plain hash, shared by all root types, and Prune deletes every
// node of a root without successors that was written in the pruned version. Version 1: state {a=1} and IO {a=1} are
// both finalized (the identical leaf is written once per tree, at the same timestamp). Version 2: state +b=2 (inherits
// the leaf a=1), finalized. Prune(1) walks the IO root of version 1 and tombstones the leaf at version 1's timestamp;
// the state root of version 2 loses it. (Until the repair of badger-finalize-deletes-shared-node the same sharing also
// broke Finalize when the IO candidate was discarded; that variant no longer reproduces.)
func TestC06KFCrossType(t *testing.T) {
	rec := ev.New("C06", "TestC06KFCrossType", "deterministic probe of finding "+SigCross+": finalized IO root holding a key/value pair of the finalized state root of the same version on badger, prune that version, read the next state version", "")
	defer rec.Flush()
	ndb := mustOpen(t, "badger")
	defer ndb.Close()
	base := []op{ins("a", "1")}
	hs, _, err := commitOn(ndb, nil, node.RootTypeState, 1, base)
	if err != nil {
		ev.Infra(t, "commit state v1: %v", err)
	}
	hio, _, err := commitOn(ndb, nil, node.RootTypeIO, 1, base)
	if err != nil {
		ev.Infra(t, "commit IO v1: %v", err)
	}
	s1, io1 := kv.Root(1, node.RootTypeState, hs), kv.Root(1, node.RootTypeIO, hio)
	if err = ndb.Finalize([]node.Root{s1, io1}); err != nil {
		ev.Infra(t, "finalize v1: %v", err)
	}
	h2, _, err := commitOn(ndb, &s1, node.RootTypeState, 2, []op{ins("b", "2")})
	if err != nil {
		ev.Infra(t, "commit v2: %v", err)
	}
	s2 := kv.Root(2, node.RootTypeState, h2)
	if err = ndb.Finalize([]node.Root{s2}); err != nil {
		ev.Infra(t, "finalize v2: %v", err)
	}
	m2 := applyOps(kv.Model{}, []op{ins("a", "1"), ins("b", "2")})
	uni := [][]byte{[]byte("a"), []byte("b"), []byte("c")}
	if rr := readRoot(ndb, s2, m2, uni, uni); rr.Err != "" || rr.Diff != "" {
		ev.Violation(t, "finalized-root-unreadable", "state root of version 2 before the prune: err=%q diff=%q", rr.Err, rr.Diff)
	}
	if err = ndb.Prune(1); err != nil {
		rec.Case(true, ev.Fingerprint("cross-not-accepted"), "Prune(1) not accepted: "+err.Error())
		return
	}
	rr := readRoot(ndb, s2, m2, uni, uni)
	rec.Case(true, ev.Fingerprint("cross"), fmt.Sprintf("v2 state root after Prune(1): reads=%d failed=%d err=%q diff=%q", rr.Reads, rr.Failed, rr.Err, rr.Diff))
	if rr.Err != "" || rr.Diff != "" {
		if silenced(SigCross) {
			rec.Label("silenced:" + SigCross)
			return
		}
		ev.Violation(t, SigCross, "badger: v1 state={a=1} and IO={a=1} finalized; v2 state=+b=2 finalized; Prune(1); reading the retained finalized state root of version 2: %d of %d reads fail, first error %q, diff %q", rr.Failed, rr.Reads, rr.Err, rr.Diff)
	}
}
