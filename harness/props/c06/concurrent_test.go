package c06

import (
	"fmt"
	"os"
	"runtime"
	"sync"
	"testing"

	"pgregory.net/rapid"

	"github.com/oasisprotocol/oasis-core/go/common/crypto/hash"
	"github.com/oasisprotocol/oasis-core/go/storage/mkvs/node"

	"verifharness/ev"
	"verifharness/kv"
)

// cver is one version of a pre-generated history: candidate batches (all derived from the previous
// finalized state root), the index of the finalized one, and an optional IO batch.
type cver struct {
	V      uint64
	Cands  [][]op
	Fin    int
	IO     []op
	Want   kv.Model // contents of the finalized state root
	WantIO kv.Model // nil: no IO root finalized
}

type cscript struct {
	Backend   string
	Disk      bool
	Uni       [][]byte
	Keep      uint64 // the pruner keeps at least this many most recent finalized versions
	Vers      []cver
	SharedPre bool // some finalize meets the precondition of SigShared
}

func tagged(tag byte, v []byte) []byte { return append([]byte{tag}, v...) }

// genScript draws a history. State values start with 0x5a and IO values with 0x10, so the two root types
// never hold an identical leaf. The history is executed on a scratch in-memory database of the same backend
// while it is drawn, to learn which nodes every candidate puts: that decides the precondition of finding
// SigShared exactly (and the finalized candidate is re-chosen when the finding is excluded).
func genScript(t *rapid.T) *cscript {
	sc := &cscript{Backend: rapid.SampledFrom(kv.Backends).Draw(t, "backend"), Disk: rapid.IntRange(0, 2).Draw(t, "disk") == 0}
	sc.Uni = kv.GenUniverse(t, rapid.IntRange(4, 30).Draw(t, "nuni"), false)
	sc.Keep = uint64(rapid.IntRange(2, 4).Draw(t, "keep"))
	nver := rapid.IntRange(6, 40).Draw(t, "nver")
	lightOnly := sc.Backend == "pathbadger" && ev.Excluded(SigForeign)
	dry, err := kv.OpenDB(sc.Backend, "", true)
	if err != nil {
		ev.Infra(t, "open scratch db: %v", err)
	}
	defer dry.Close()
	spy := &spyDB{NodeDB: dry}
	cur := kv.Model{}
	var prev *node.Root
	batch := func(base kv.Model, n int) []op {
		var ops []op
		for i := 0; i < n; i++ {
			k := sc.Uni[rapid.IntRange(0, len(sc.Uni)-1).Draw(t, "key")]
			if _, ok := base[string(k)]; ok && rapid.IntRange(0, 2).Draw(t, "rem") == 0 {
				ops = append(ops, op{Key: k})
				continue
			}
			ops = append(ops, op{Ins: true, Key: k, Val: tagged(0x5a, kv.GenValue(t))})
		}
		return ops
	}
	for i := 0; i < nver; i++ {
		cv := cver{V: uint64(i + 1)}
		vr := &verRec{V: cv.V}
		var cands []*cand
		ncand := rapid.IntRange(1, 3).Draw(t, "ncand")
		for c := 0; c < ncand; c++ {
			var ops []op
			switch {
			case c > 0 && lightOnly:
				// a sibling that creates no non-root nodes: the unchanged root
			case rapid.IntRange(0, 4).Draw(t, "noop") == 0:
				k := sc.Uni[rapid.IntRange(0, len(sc.Uni)-1).Draw(t, "nkey")]
				if _, ok := cur[string(k)]; !ok {
					ops = append(ops, op{Ins: true, Key: k, Val: []byte{0x5a}}, op{Key: k})
				}
				ops = append(ops, batch(cur, 2)...)
			default:
				ops = batch(cur, rapid.IntRange(1, 6).Draw(t, "nops"))
			}
			h, puts, err := commitOn(spy, prev, node.RootTypeState, cv.V, ops)
			if err != nil {
				return sc // the scratch database does not accept more (a finding damaged it): the history ends here
			}
			cd := &cand{ID: c, Root: kv.Root(cv.V, node.RootTypeState, h), Model: applyOps(cur, ops), Puts: []map[hash.Hash]bool{{}}}
			for _, p := range puts {
				cd.Puts[0][p] = true
			}
			for _, o := range cands {
				if o.Root.Hash == h {
					cd = o
				}
			}
			cands = append(cands, cd)
			if len(vr.Cands) == 0 || cd != vr.Cands[len(vr.Cands)-1] {
				vr.Cands = append(vr.Cands, cd)
			}
			cv.Cands = append(cv.Cands, ops)
		}
		cv.Fin = rapid.IntRange(0, ncand-1).Draw(t, "fin")
		if lightOnly {
			cv.Fin = 0
		}
		var ioc *cand
		if rapid.Bool().Draw(t, "io") {
			n := rapid.IntRange(1, 5).Draw(t, "nio")
			for j := 0; j < n; j++ {
				k := sc.Uni[rapid.IntRange(0, len(sc.Uni)-1).Draw(t, "iokey")]
				cv.IO = append(cv.IO, op{Ins: true, Key: k, Val: tagged(0x10, kv.GenValue(t))})
			}
			cv.WantIO = applyOps(kv.Model{}, cv.IO)
			h, puts, err := commitOn(spy, nil, node.RootTypeIO, cv.V, cv.IO)
			if err != nil {
				return sc
			}
			ioc = &cand{ID: 9, Root: kv.Root(cv.V, node.RootTypeIO, h), Model: cv.WantIO, Puts: []map[hash.Hash]bool{{}}}
			for _, p := range puts {
				ioc.Puts[0][p] = true
			}
			vr.Cands = append(vr.Cands, ioc)
		}
		if sc.Backend == "badger" {
			pick := func(f int) []*cand {
				fin := []*cand{cands[f]}
				if ioc != nil {
					fin = append(fin, ioc)
				}
				return fin
			}
			for try := 0; try < ncand; try++ {
				same, cross := sharedDanger(vr, pick(cv.Fin), 0)
				if !same && !cross {
					break
				}
				if !ev.Excluded(SigShared) {
					sc.SharedPre = true
					break
				}
				if try == ncand-1 {
					// no choice without the precondition: keep only the finalized candidate in this version
					cv.Cands = [][]op{cv.Cands[cv.Fin]}
					cands = []*cand{cands[cv.Fin]}
					cv.Fin = 0
					break
				}
				cv.Fin = (cv.Fin + 1) % ncand
			}
		}
		roots := []node.Root{cands[cv.Fin].Root}
		if ioc != nil {
			roots = append(roots, ioc.Root)
		}
		if err := spy.Finalize(roots); err != nil {
			return sc
		}
		cv.Want = cands[cv.Fin].Model
		cur = cv.Want
		st := cands[cv.Fin].Root
		prev = &st
		sc.Vers = append(sc.Vers, cv)
	}
	return sc
}

type published struct {
	V     uint64
	Roots []node.Root
	Wants []kv.Model
}

// runScript executes the history. concurrent=false: one goroutine, every retained finalized root is read after
// every operation. concurrent=true: one writer goroutine (commit, finalize, prune) and three reader
// goroutines that read pinned finalized versions; the pruner never touches a pinned version or one of the
// Keep most recent finalized versions. Returns the read mismatches, the operations that were not accepted
// and a harness error.
func runScript(sc *cscript, concurrent bool) (mismatches, rejected []string, prunes int, infra error) {
	dir := ""
	if sc.Disk {
		dir = kv.TempDir("c06c-")
		defer os.RemoveAll(dir)
	}
	ndb, err := kv.OpenDB(sc.Backend, dir, dir == "")
	if err != nil {
		return nil, nil, 0, err
	}
	defer ndb.Close()

	var mu sync.Mutex
	var pubs []published     // finalized, not pruned, ascending
	pins := map[uint64]int{} // version -> readers
	done := false
	note := func(s string) {
		mu.Lock()
		mismatches = append(mismatches, s)
		mu.Unlock()
	}
	readPub := func(p published, step int) {
		for i, r := range p.Roots {
			var pk [][]byte
			for j := 0; j < 2; j++ {
				pk = append(pk, sc.Uni[(step*7+j*5)%len(sc.Uni)])
			}
			if !ndb.HasRoot(r) {
				note(fmt.Sprintf("v%d type %d: HasRoot false for a retained finalized root", p.V, r.Type))
			}
			if rr := readRoot(ndb, r, p.Wants[i], sc.Uni, pk); rr.Err != "" || rr.Diff != "" {
				note(fmt.Sprintf("v%d type %d root %s: %d of %d reads failed, first error %q, first difference %q", p.V, r.Type, r.Hash.String()[:8], rr.Failed, rr.Reads, rr.Err, rr.Diff))
			}
		}
	}
	readAll := func(step int) {
		mu.Lock()
		ps := append([]published{}, pubs...)
		mu.Unlock()
		for _, p := range ps {
			readPub(p, step)
		}
	}

	var wg sync.WaitGroup
	if concurrent {
		for g := 0; g < 3; g++ {
			wg.Add(1)
			go func(g int) {
				defer wg.Done()
				for step := g; ; step += 3 {
					mu.Lock()
					if done {
						mu.Unlock()
						return
					}
					if len(pubs) == 0 {
						mu.Unlock()
						runtime.Gosched()
						continue
					}
					p := pubs[len(pubs)-1-(step%len(pubs))%int(sc.Keep)]
					pins[p.V]++
					mu.Unlock()
					readPub(p, step)
					mu.Lock()
					pins[p.V]--
					mu.Unlock()
				}
			}(g)
		}
	}

	step := 0
	after := func() {
		step++
		if !concurrent {
			readAll(step)
		}
	}
	var prev *node.Root
writer:
	for _, cv := range sc.Vers {
		var roots []node.Root
		var wants []kv.Model
		for ci, ops := range cv.Cands {
			h, _, err := commitOn(ndb, prev, node.RootTypeState, cv.V, ops)
			if err != nil {
				rejected = append(rejected, fmt.Sprintf("commit v%d cand %d: %v", cv.V, ci, err))
				break writer
			}
			if ci == cv.Fin {
				roots, wants = append(roots, kv.Root(cv.V, node.RootTypeState, h)), append(wants, cv.Want)
			}
			after()
		}
		if cv.WantIO != nil {
			h, _, err := commitOn(ndb, nil, node.RootTypeIO, cv.V, cv.IO)
			if err != nil {
				rejected = append(rejected, fmt.Sprintf("commit io v%d: %v", cv.V, err))
				break writer
			}
			roots, wants = append(roots, kv.Root(cv.V, node.RootTypeIO, h)), append(wants, cv.WantIO)
			after()
		}
		if err := ndb.Finalize(roots); err != nil {
			rejected = append(rejected, fmt.Sprintf("finalize v%d: %v", cv.V, err))
			break writer
		}
		st := roots[0]
		prev = &st
		mu.Lock()
		pubs = append(pubs, published{cv.V, roots, wants})
		mu.Unlock()
		after()
		// prune everything older than the Keep most recent versions that no reader has pinned
		for {
			mu.Lock()
			if uint64(len(pubs)) <= sc.Keep+1 {
				mu.Unlock()
				break
			}
			e := pubs[0]
			if pins[e.V] > 0 {
				mu.Unlock()
				break
			}
			pubs = pubs[1:] // from now on no reader can pick it
			mu.Unlock()
			if err := ndb.Prune(e.V); err != nil {
				rejected = append(rejected, fmt.Sprintf("prune v%d: %v", e.V, err))
				break writer
			}
			prunes++
			after()
		}
	}
	mu.Lock()
	done = true
	mu.Unlock()
	wg.Wait()
	return mismatches, rejected, prunes, nil
}

const ruleConcurrent = "case = pre-generated history (6-40 versions, 1-3 state candidates per version derived from the previous finalized state root + optional IO root, up to 30 keys, badger or pathbadger, memory or disk) executed by ONE " +
	"committer/finalizer/pruner goroutine while THREE reader goroutines (race detector on) fully read (HasRoot, scan, Get of every key, 2 SyncGet proofs) finalized versions they have pinned among the 2-4 most recent ones; the pruner " +
	"never touches a pinned version nor one of the most recent ones. oracle: every read equals the model of that finalized root. A mismatch counts as a violation only if the same history executed sequentially (full read of all " +
	"retained finalized roots after every operation) reproduces a mismatch; otherwise the run is inconclusive (exit 2). non-trivial = >= 2 prunes happened and >= 1 version had a discarded sibling while readers ran; distinct = hash of the history"

func TestC06Concurrent(t *testing.T) {
	rec := ev.New("C06", "TestC06Concurrent", ruleConcurrent,
		"readers only read versions above everything the pruner may touch (pinning), as the ABCI pruner / checkpointer contract requires",
		"findings listed as known are excluded by construction (finalize choices re-drawn on badger with the exact put/contain analysis of the state machine, only unchanged-root siblings on pathbadger, state and IO values never identical)")
	defer rec.Flush()
	var cur *cscript
	ev.Trace = func() any { return cur }
	rapid.Check(t, func(t *rapid.T) {
		sc := genScript(t)
		cur = sc
		mism, rejected, prunes, err := runScript(sc, true)
		if err != nil {
			ev.Infra(t, "open: %v", err)
		}
		for range rejected {
			rec.Label("not-accepted:" + sc.Backend)
		}
		if len(mism) > 0 {
			repro := 0
			var first string
			for i := 0; i < 3; i++ {
				sm, _, _, err := runScript(sc, false)
				if err != nil {
					ev.Infra(t, "open: %v", err)
				}
				if len(sm) > 0 {
					repro++
					first = sm[0]
				}
			}
			if repro == 3 {
				sig := "finalized-root-unreadable"
				if sc.Backend == "badger" && sc.SharedPre {
					sig = SigShared
				}
				ev.Violation(t, sig, "%s: concurrent readers saw %d mismatches (first: %s); the sequential execution of the same history reproduces: %s", sc.Backend, len(mism), mism[0], first)
			}
			ev.Infra(t, "%s: concurrent readers saw %d mismatches (first: %s) but the sequential execution of the same history reproduced a mismatch in only %d of 3 runs - inconclusive", sc.Backend, len(mism), mism[0], repro)
		}
		multi := false
		for _, cv := range sc.Vers {
			if len(cv.Cands) > 1 {
				multi = true
			}
		}
		rec.Label("backend:" + sc.Backend)
		var sample any
		if rec.WantSample() {
			sample = fmt.Sprintf("%s disk=%v versions=%d keys=%d keep=%d", sc.Backend, sc.Disk, len(sc.Vers), len(sc.Uni), sc.Keep)
		}
		rec.Case(multi && prunes >= 2 && len(rejected) == 0, ev.Fingerprint(fmt.Sprintf("%v", sc)), sample)
	})
}
