package c06

import (
	"context"
	"fmt"
	"testing"

	"pgregory.net/rapid"

	"github.com/oasisprotocol/oasis-core/go/common/crypto/hash"
	"github.com/oasisprotocol/oasis-core/go/storage/mkvs"
	dbApi "github.com/oasisprotocol/oasis-core/go/storage/mkvs/db/api"
	"github.com/oasisprotocol/oasis-core/go/storage/mkvs/node"

	"verifharness/ev"
	"verifharness/kv"
)

// hookDB lets the harness own the schedule between the two database calls that one tree.Commit makes: the batch is
// created (NewBatch), the tree is traversed, and right before the batch is committed to the database the harness runs
// other operations - what a concurrent committer / finalizer / pruner may do in exactly that window.
type hookDB struct {
	dbApi.NodeDB
	hook func()
	// afterNewBatch runs right after the next batch has been created (before the tree is traversed).
	afterNewBatch func()
}

type hookBatch struct {
	dbApi.Batch
	db *hookDB
}

func (d *hookDB) NewBatch(oldRoot node.Root, version uint64, chunk bool) (dbApi.Batch, error) {
	b, err := d.NodeDB.NewBatch(oldRoot, version, chunk)
	if err != nil {
		return nil, err
	}
	if h := d.afterNewBatch; h != nil {
		d.afterNewBatch = nil
		h()
	}
	return &hookBatch{Batch: b, db: d}, nil
}

func (b *hookBatch) Commit(root node.Root) error {
	if h := b.db.hook; h != nil {
		b.db.hook = nil
		h()
	}
	return b.Batch.Commit(root)
}

const ruleInterleave = "case = per backend a history of 2-5 versions of state roots; in every version a SLOW candidate's tree.Commit is interrupted between the creation of its batch and the batch's Commit (the harness wraps the node database), " +
	"and in that window a generated sequence runs: a FAST competing candidate of the same version is committed (same keys with other values, or other keys), optionally the version is finalized with it, optionally a candidate of the NEXT " +
	"version on top of it is committed and finalized too, optionally the earliest retained version is pruned; then the slow commit goes on. oracle = the slow commit may be refused; whatever it returns, every finalized, retained root reads back " +
	"exactly its model contents (full scan + every universe key), the contents hash to the root (independent reference), HasRoot holds for it and the version lists no second finalized root; a slow candidate that was not finalized is " +
	"absent or reads back exactly its own contents. non-trivial = a window in which the version of the slow candidate was finalized; distinct = hash of the history"

// TestC06Interleaved: commits, finalization and pruning landing INSIDE another tree's commit.
func TestC06Interleaved(t *testing.T) {
	rec := ev.New("C06", "TestC06Interleaved", ruleInterleave, "state roots only; the slow candidate derives from the finalized root of the previous version")
	defer rec.Flush()
	ctx := context.Background()
	var trace []string
	ev.Trace = func() any { return trace }
	rapid.Check(t, func(t *rapid.T) {
		trace = nil
		backend := rapid.SampledFrom(kv.Backends).Draw(t, "backend")
		uni := kv.GenUniverse(t, rapid.IntRange(2, 10).Draw(t, "nuni"), false)
		real, err := kv.OpenDBOpts(backend, "", true, rapid.IntRange(0, 2).Draw(t, "discardWriteLogs") == 0)
		if err != nil {
			ev.Infra(t, "open: %v", err)
		}
		defer real.Close()
		hdb := &hookDB{NodeDB: real}
		fail := func(sig, format string, args ...any) {
			ev.Violation(t, sig, "%s: %s; trace=%v", backend, fmt.Sprintf(format, args...), trace)
		}
		type op struct{ k, v []byte }
		genOps := func(m kv.Model, tag string, like []op) ([]op, kv.Model) {
			out := m.Clone()
			var ops []op
			if like != nil && rapid.Bool().Draw(t, "sameKeys") {
				// the same keys with other values: the two candidates have the same tree shape
				for _, o := range like {
					if o.v == nil {
						ops = append(ops, op{o.k, nil})
						delete(out, string(o.k))
					} else {
						v := append([]byte(tag+":"), o.v...)
						ops = append(ops, op{o.k, v})
						out[string(o.k)] = v
					}
				}
				return ops, out
			}
			for i, n := 0, rapid.IntRange(1, 6).Draw(t, "nops"); i < n; i++ {
				k := uni[rapid.IntRange(0, len(uni)-1).Draw(t, "key")]
				if _, ok := out[string(k)]; ok && rapid.IntRange(0, 3).Draw(t, "del") == 0 {
					ops = append(ops, op{k, nil})
					delete(out, string(k))
					continue
				}
				v := append([]byte(tag+":"), kv.GenValue(t)...)
				ops = append(ops, op{k, v})
				out[string(k)] = v
			}
			return ops, out
		}
		open := func(ndb dbApi.NodeDB, parent node.Root) mkvs.Tree {
			if parent.Hash.IsEmpty() {
				return mkvs.New(nil, ndb, node.RootTypeState)
			}
			return mkvs.NewWithRoot(nil, ndb, parent)
		}
		apply := func(tr mkvs.Tree, ops []op) error {
			for _, o := range ops {
				var err error
				if o.v == nil {
					err = tr.Remove(ctx, o.k)
				} else {
					err = tr.Insert(ctx, o.k, o.v)
				}
				if err != nil {
					return err
				}
			}
			return nil
		}
		readBack := func(root node.Root, m kv.Model) string {
			tr := mkvs.NewWithRoot(nil, real, root)
			defer tr.Close()
			got, err := kv.Scan(ctx, tr)
			if err != nil {
				return "scan: " + err.Error()
			}
			if d := kv.CompareScan(got, m); d != "" {
				return d
			}
			for _, k := range uni {
				val, err := tr.Get(ctx, k)
				want, ok := m[string(k)]
				if err != nil || (ok && string(val) != string(want)) || (!ok && val != nil) {
					return fmt.Sprintf("Get(%x) = %x, %v; model %x (present %v)", k, val, err, want, ok)
				}
			}
			return ""
		}
		type fin struct {
			root  node.Root
			model kv.Model
		}
		finalized := map[uint64]*fin{}
		earliest := uint64(1)
		checkAll := func(when string) {
			for v, f := range finalized {
				if v < earliest {
					continue
				}
				if !real.HasRoot(f.root) {
					fail("finalized-root-missing", "%s: HasRoot of the finalized root of version %d is false", when, v)
				}
				if d := readBack(f.root, f.model); d != "" {
					fail("finalized-root-wrong-contents", "%s: finalized root %s of version %d: %s", when, f.root.Hash.String()[:8], v, d)
				}
				if want := kv.RefRoot(f.model); f.root.Hash != want {
					fail("root-not-reference", "%s: finalized root of version %d is %s, reference %s", when, v, f.root.Hash, want)
				}
				if roots, err := real.GetRootsForVersion(v); err == nil {
					n := 0
					for _, r := range roots {
						if r.Type == node.RootTypeState {
							n++
						}
					}
					if n != 1 {
						fail("discarded-root-listed", "%s: finalized version %d lists %d state roots", when, v, n)
					}
				}
			}
		}
		parent := &fin{root: kv.EmptyRoot(1, node.RootTypeState), model: kv.Model{}}
		nver := rapid.IntRange(2, 5).Draw(t, "nver")
		nontrivial := false
		var fp []any
		for v := uint64(1); v <= uint64(nver); v++ {
			if _, done := finalized[v]; done {
				parent = finalized[v]
				continue // (finalized inside the previous window)
			}
			if rapid.IntRange(0, 3).Draw(t, "abandonedBatch") == 0 {
				// ---- a batch that is ABANDONED: a commit towards a known root that does not match (what a node does with a
				// write log that does not lead to the announced root). Between the creation of its batch and its failure a
				// first candidate of the version is committed; two more follow afterwards; one of the three is finalized.
				xOps, _ := genOps(parent.model, fmt.Sprintf("x%d", v), nil)
				aOps, aModel := genOps(parent.model, fmt.Sprintf("a%d", v), xOps)
				var cands []*fin
				commitCand := func(ops []op, m kv.Model, tag string) {
					tr := open(real, parent.root)
					defer tr.Close()
					if err := apply(tr, ops); err != nil {
						fail("candidate-unwritable", "writing candidate %s of version %d: %v", tag, v, err)
					}
					if _, h, err := tr.Commit(ctx, kv.Namespace, v); err == nil {
						if want := kv.RefRoot(m); h != want {
							fail("root-not-reference", "candidate %s of version %d: committed root %s, reference %s", tag, v, h, want)
						}
						cands = append(cands, &fin{root: kv.Root(v, node.RootTypeState, h), model: m})
						trace = append(trace, fmt.Sprintf("v%d candidate %s -> %s", v, tag, h.String()[:8]))
					} else {
						trace = append(trace, fmt.Sprintf("v%d candidate %s refused: %v", v, tag, err))
					}
				}
				xt := open(hdb, parent.root)
				if err := apply(xt, xOps); err != nil {
					fail("candidate-unwritable", "writing the abandoned candidate of version %d: %v", v, err)
				}
				hdb.afterNewBatch = func() { commitCand(aOps, aModel, "A (inside the abandoned batch's life time)") }
				var bogus hash.Hash
				bogus.FromBytes([]byte(fmt.Sprintf("not the root of version %d", v)))
				_, aerr := xt.CommitKnown(ctx, kv.Root(v, node.RootTypeState, bogus))
				hdb.afterNewBatch = nil
				xt.Close()
				if aerr == nil {
					fail("apply-accepts-wrong-root", "CommitKnown towards a root that the contents do not hash to succeeded (version %d)", v)
				}
				trace = append(trace, fmt.Sprintf("v%d: batch abandoned (%v)", v, firstWordsI(aerr.Error(), 6)))
				for i, n := 0, rapid.IntRange(1, 2).Draw(t, "afterAbandon"); i < n; i++ {
					ops, m := genOps(parent.model, fmt.Sprintf("c%d.%d", v, i), aOps)
					commitCand(ops, m, fmt.Sprintf("C%d (after the abandoned batch)", i))
				}
				if len(cands) == 0 {
					rec.Discard("no-candidate-committed")
					return
				}
				// every committed candidate reads back its own contents before finalization ...
				for _, c := range cands {
					if d := readBack(c.root, c.model); d != "" {
						fail("pending-root-wrong-contents", "candidate %s of version %d (not finalized yet) reads back wrongly after an abandoned batch: %s", c.root.Hash.String()[:8], v, d)
					}
				}
				w := cands[rapid.IntRange(0, len(cands)-1).Draw(t, "winnerAfterAbandon")]
				if err := real.Finalize([]node.Root{w.root}); err != nil {
					fail("finalize-refused", "Finalize(v%d): %v", v, err)
				}
				finalized[v] = w
				trace = append(trace, fmt.Sprintf("v%d: finalized %s", v, w.root.Hash.String()[:8]))
				rec.Label("abandoned-batch-window")
				nontrivial = true
				// ... and the finalized one afterwards; where write logs are kept, the log served for the transition leads there
				checkAll(fmt.Sprintf("after Finalize(v%d) following an abandoned batch", v))
				if it, err := real.GetWriteLog(ctx, parent.root, w.root); err == nil {
					got := parent.model.Clone()
					for {
						more, err := it.Next()
						if err != nil || !more {
							break
						}
						e, err := it.Value()
						if err != nil {
							break
						}
						if e.Value == nil {
							delete(got, string(e.Key))
						} else {
							got[string(e.Key)] = e.Value
						}
					}
					if !got.Equal(w.model) {
						fail("served-log-wrong", "the write log served for version %d (%s -> %s) after an abandoned batch does not lead to the finalized contents", v, parent.root.Hash.String()[:8], w.root.Hash.String()[:8])
					}
					rec.Label("abandoned-batch-window:write-log-served")
				}
				fp = append(fp, "abandoned", w.root.Hash.String())
				parent = finalized[v]
				continue
			}
			slowOps, slowModel := genOps(parent.model, fmt.Sprintf("s%d", v), nil)
			fastOps, fastModel := genOps(parent.model, fmt.Sprintf("f%d", v), slowOps)
			slow := open(hdb, parent.root)
			if err := apply(slow, slowOps); err != nil {
				fail("candidate-unwritable", "writing the slow candidate of version %d: %v", v, err)
			}
			var fastRoot *fin
			finalizedInWindow := false
			hdb.hook = func() {
				// ---- the window between NewBatch and Batch.Commit of the slow candidate
				ft := open(real, parent.root)
				if err := apply(ft, fastOps); err != nil {
					ft.Close()
					fail("candidate-unwritable", "writing the fast candidate of version %d: %v", v, err)
				}
				_, fh, err := ft.Commit(ctx, kv.Namespace, v)
				ft.Close()
				if err != nil {
					trace = append(trace, fmt.Sprintf("v%d window: fast commit refused: %v", v, err))
					return
				}
				fastRoot = &fin{root: kv.Root(v, node.RootTypeState, fh), model: fastModel}
				trace = append(trace, fmt.Sprintf("v%d window: fast candidate %s committed", v, fh.String()[:8]))
				if rapid.IntRange(0, 3).Draw(t, "finalizeInWindow") == 0 {
					return
				}
				if err := real.Finalize([]node.Root{fastRoot.root}); err != nil {
					fail("finalize-refused", "Finalize(v%d, fast candidate) inside the window: %v", v, err)
				}
				finalized[v] = fastRoot
				finalizedInWindow = true
				trace = append(trace, fmt.Sprintf("v%d window: finalized with the fast candidate", v))
				if v < uint64(nver) && rapid.Bool().Draw(t, "nextInWindow") {
					nops, nm := genOps(fastModel, fmt.Sprintf("n%d", v+1), nil)
					nt := open(real, fastRoot.root)
					if err := apply(nt, nops); err == nil {
						if _, nh, err := nt.Commit(ctx, kv.Namespace, v+1); err == nil {
							nr := &fin{root: kv.Root(v+1, node.RootTypeState, nh), model: nm}
							if err := real.Finalize([]node.Root{nr.root}); err != nil {
								fail("finalize-refused", "Finalize(v%d) inside the window: %v", v+1, err)
							}
							finalized[v+1] = nr
							trace = append(trace, fmt.Sprintf("v%d window: version %d committed and finalized too (%s)", v, v+1, nh.String()[:8]))
						}
					}
					nt.Close()
				}
				if v > earliest && rapid.Bool().Draw(t, "pruneInWindow") {
					if err := real.Prune(earliest); err == nil {
						trace = append(trace, fmt.Sprintf("v%d window: pruned version %d", v, earliest))
						earliest++
					} else {
						trace = append(trace, fmt.Sprintf("v%d window: prune(%d) refused: %v", v, earliest, err))
					}
				}
			}
			_, sh, serr := slow.Commit(ctx, kv.Namespace, v)
			hdb.hook = nil
			slow.Close()
			trace = append(trace, fmt.Sprintf("v%d: slow commit -> %s err=%v", v, sh.String()[:8], serr))
			rec.Label(fmt.Sprintf("slow-commit:finalized-in-window=%v:accepted=%v", finalizedInWindow, serr == nil))
			checkAll(fmt.Sprintf("after the slow commit of version %d", v))
			slowRoot := &fin{root: kv.Root(v, node.RootTypeState, sh), model: slowModel}
			if serr == nil {
				if want := kv.RefRoot(slowModel); sh != want {
					fail("root-not-reference", "slow candidate of version %d: committed root %s, reference %s", v, sh, want)
				}
			}
			if finalizedInWindow {
				nontrivial = true
				// the slow candidate was not finalized: absent, or readable with exactly its own contents
				if serr == nil && real.HasRoot(slowRoot.root) && slowRoot.root.Hash != finalized[v].root.Hash {
					if d := readBack(slowRoot.root, slowModel); d != "" {
						fail("discarded-root-foreign-contents", "the slow candidate %s of finalized version %d is reported present but: %s", sh.String()[:8], v, d)
					}
				}
			} else {
				// finalize the version now with one of the committed candidates
				var cands []*fin
				if serr == nil {
					cands = append(cands, slowRoot)
				}
				if fastRoot != nil {
					cands = append(cands, fastRoot)
				}
				if len(cands) == 0 {
					rec.Discard("no-candidate-committed")
					return
				}
				w := cands[rapid.IntRange(0, len(cands)-1).Draw(t, "winner")]
				if err := real.Finalize([]node.Root{w.root}); err != nil {
					fail("finalize-refused", "Finalize(v%d): %v", v, err)
				}
				finalized[v] = w
				trace = append(trace, fmt.Sprintf("v%d: finalized %s", v, w.root.Hash.String()[:8]))
				checkAll(fmt.Sprintf("after Finalize(v%d)", v))
			}
			fp = append(fp, sh.String(), serr == nil, finalizedInWindow)
			parent = finalized[v]
		}
		var sample any
		if nontrivial && rec.WantSample() {
			sample = append([]string{}, trace...)
		}
		rec.Case(nontrivial, ev.Fingerprint(append(fp, backend)...), sample)
	})
}

func firstWordsI(s string, n int) string {
	out, words := "", 0
	for _, c := range s {
		if c == ' ' {
			words++
			if words >= n {
				break
			}
		}
		out += string(c)
	}
	return out
}
