package c06

import (
	"bytes"
	"context"
	"fmt"
	"os"
	"sort"
	"testing"

	"pgregory.net/rapid"

	"github.com/oasisprotocol/oasis-core/go/common/crypto/hash"
	"github.com/oasisprotocol/oasis-core/go/storage/mkvs"
	dbApi "github.com/oasisprotocol/oasis-core/go/storage/mkvs/db/api"
	"github.com/oasisprotocol/oasis-core/go/storage/mkvs/node"

	"verifharness/ev"
	"verifharness/kv"
)

// replica is one node database executing the history.
type replica struct {
	backend string
	dir     string // "" = memory only
	raw     dbApi.NodeDB
	db      *spyDB
	off     bool // accepted an operation the other replica rejected: its state no longer follows the model
	noWL    bool // opened with DiscardWriteLogs (as the consensus state storage is)
}

func (r *replica) open() error {
	raw, err := kv.OpenDBOpts(r.backend, r.dir, r.dir == "", r.noWL)
	if err != nil {
		return err
	}
	r.raw = raw
	r.db = &spyDB{NodeDB: raw}
	return nil
}

// cand is one committed candidate root of a version.
type cand struct {
	ID     int
	Root   node.Root
	Model  kv.Model
	Parent *cand // nil: built from the empty tree
	Ops    []op
	Puts   []map[hash.Hash]bool // per replica: node hashes put by the commit that created the root

	Final     bool // finalized explicitly
	Closure   bool // same-version ancestor of a finalized root (badger finalizes it transitively)
	Discarded bool
	Heavy     bool // may have created non-root nodes (>= 2 keys and a non-empty batch)
	Resurrect bool // re-inserts a key removed in an earlier finalized version with the value it had then
	Cross     bool // IO batch that copies a key/value pair of the state tree

	nodes map[hash.Hash]bool
}

func (c *cand) nodeSet() map[hash.Hash]bool {
	if c.nodes == nil {
		_, c.nodes = refNodes(c.Model)
	}
	return c.nodes
}

func (c *cand) name() string {
	return fmt.Sprintf("c%d(v%d/t%d/%s)", c.ID, c.Root.Version, c.Root.Type, c.Root.Hash.String()[:8])
}

type verRec struct {
	V         uint64
	Cands     []*cand
	Finalized bool
	Pruned    bool
}

func (vr *verRec) ofType(typ node.RootType) []*cand {
	var out []*cand
	for _, c := range vr.Cands {
		if c.Root.Type == typ {
			out = append(out, c)
		}
	}
	return out
}

type machine struct {
	t    *rapid.T
	rec  *ev.Recorder
	reps []*replica
	uni  [][]byte

	versions  []*verRec // every version that ever had a candidate, ascending
	pending   *verRec   // version lastFinal+1 (nil until its first candidate)
	lastFinal *verRec
	lastState *cand // finalized state root of lastFinal
	startV    uint64
	maxVers   int
	keepLag   uint64
	graveyard map[string][]byte // key -> value it had when a finalized version removed it
	nextID    int
	step      int
	dead      bool // the replicas diverged (differential test): nothing more is executed
	trace     []string

	// preconditions of the findings met in this case (for attribution) and non-triviality
	foreignPre, sharedPre, crossPre       bool
	ntShare, ntResurrect, ntPruneAfter    bool
	prunes, reopens, finalizes, discarded int
	listedSkipped                         bool
}

func (m *machine) log(format string, args ...any) {
	m.trace = append(m.trace, fmt.Sprintf(format, args...))
}

func (m *machine) backends() string {
	s := ""
	for i, r := range m.reps {
		if i > 0 {
			s += "+"
		}
		s += r.backend
	}
	return s
}

func (m *machine) has(backend string) bool {
	for _, r := range m.reps {
		if r.backend == backend {
			return true
		}
	}
	return false
}

func (m *machine) fail(sig, format string, args ...any) {
	ev.Violation(m.t, sig, "%s; backends=%s trace=%q", fmt.Sprintf(format, args...), m.backends(), m.trace)
}

// diverge ends the history: the replicas that accepted the operation no longer follow the model (the operation is
// not applied to it); the others are still checked against it.
func (m *machine) diverge(what string, accepted []bool) {
	m.rec.Label("diverged:" + what)
	m.log("  replicas diverged on %s, history ends", what)
	m.dead = true
	for i, a := range accepted {
		if a {
			m.reps[i].off = true
		}
	}
}

func (m *machine) nextVersion() uint64 {
	if m.lastFinal == nil {
		return m.startV
	}
	return m.lastFinal.V + 1
}

func (m *machine) pendingRec(create bool) *verRec {
	if m.pending == nil && create {
		if len(m.versions) >= m.maxVers {
			return nil
		}
		m.pending = &verRec{V: m.nextVersion()}
		m.versions = append(m.versions, m.pending)
	}
	return m.pending
}

// ---------------------------------------------------------------------------------------
// Batch generator.

func lcp(keys []string) []byte {
	if len(keys) == 0 {
		return nil
	}
	p := []byte(keys[0])
	for _, k := range keys[1:] {
		i := 0
		for i < len(p) && i < len(k) && p[i] == k[i] {
			i++
		}
		p = p[:i]
	}
	return p
}

// value draws a value for a tree of the given root type.
func value(t *rapid.T, _ node.RootType) []byte {
	return kv.GenValue(t)
}

// sharesPair reports whether two candidates hold an identical key/value pair (i.e. an identical leaf node).
func sharesPair(a, b *cand) bool {
	for k, v := range a.Model {
		if w, ok := b.Model[k]; ok && bytes.Equal(v, w) {
			return true
		}
	}
	return false
}

// crossPair reports the precondition of finding SigCross on badger: a finalized IO root holds a leaf that a finalized
// state root of the SAME version holds too (put in this version by both, or inherited by the state root). Prune of that
// version walks the IO root, which has no successors, and tombstones the leaf at the version's timestamp; the state
// roots of later versions that inherit the leaf lose it. (A leaf the state tree inserts in a LATER version is written at
// a later timestamp and is not affected.)
func crossPair(fin []*cand) bool {
	for _, io := range fin {
		if io.Root.Type != node.RootTypeIO {
			continue
		}
		for _, st := range fin {
			if st.Root.Type == node.RootTypeState && sharesPair(io, st) {
				return true
			}
		}
	}
	return false
}

// genBatch draws a batch against the parent contents pm. sibs are the candidates already committed for the
// same version and type.
func (m *machine) genBatch(t *rapid.T, typ node.RootType, pm kv.Model, sibs []*cand) ([]op, []string) {
	var ops []op
	var shapes []string
	live := pm.Clone()
	add := func(o op) {
		ops = append(ops, o)
		if o.Ins {
			live[string(o.Key)] = o.Val
		} else {
			delete(live, string(o.Key))
		}
	}
	key := func() []byte { return m.uni[rapid.IntRange(0, len(m.uni)-1).Draw(t, "key")] }
	liveKey := func() []byte {
		ks := live.SortedKeys()
		if len(ks) == 0 {
			return nil
		}
		return []byte(ks[rapid.IntRange(0, len(ks)-1).Draw(t, "liveKey")])
	}
	if len(pm) == 0 && rapid.IntRange(0, 9).Draw(t, "populate") > 0 {
		// populate an empty tree with several keys
		n := rapid.IntRange(2, len(m.uni)).Draw(t, "npop")
		for i := 0; i < n && i < 12; i++ {
			add(op{Ins: true, Key: key(), Val: value(t, typ)})
		}
		shapes = append(shapes, "populate")
	}
	nseg := rapid.IntRange(1, 3).Draw(t, "nseg")
	for s := 0; s < nseg; s++ {
		mode := rapid.IntRange(0, 15).Draw(t, "shape")
		if s == 0 && len(sibs) > 0 && len(ops) == 0 && rapid.IntRange(0, 2).Draw(t, "fromSibling") == 0 {
			mode = 4 + rapid.IntRange(0, 1).Draw(t, "sibSame")
		}
		if typ == node.RootTypeIO && mode == 15 && m.lastState != nil && len(m.lastState.Model) > 0 {
			// IO batch copies a key/value pair of the state tree (identical leaf in two root types)
			ks := m.lastState.Model.SortedKeys()
			k := ks[rapid.IntRange(0, len(ks)-1).Draw(t, "crossKey")]
			add(op{Ins: true, Key: []byte(k), Val: m.lastState.Model[k]})
			shapes = append(shapes, "cross-type-copy")
			continue
		}
		switch mode {
		case 0, 1, 15: // plain random inserts / removes
			n := rapid.IntRange(1, 4).Draw(t, "nplain")
			for i := 0; i < n; i++ {
				if rapid.IntRange(0, 2).Draw(t, "isRem") == 0 {
					add(op{Key: key()})
				} else {
					add(op{Ins: true, Key: key(), Val: value(t, typ)})
				}
			}
			shapes = append(shapes, "plain")
		case 3: // real change of a live key
			if k := liveKey(); k != nil {
				if rapid.Bool().Draw(t, "overwrite") {
					add(op{Ins: true, Key: k, Val: value(t, typ)})
				} else {
					add(op{Key: k})
				}
				shapes = append(shapes, "change-live")
			}
		case 4, 5: // derived from a sibling's batch: same ops with one op dropped, flipped or re-valued
			if len(sibs) > 0 && len(ops) == 0 {
				sb := sibs[rapid.IntRange(0, len(sibs)-1).Draw(t, "sib")]
				so := append([]op{}, sb.Ops...)
				if len(so) > 0 && mode == 4 {
					i := rapid.IntRange(0, len(so)-1).Draw(t, "sibIdx")
					switch rapid.IntRange(0, 2).Draw(t, "sibMut") {
					case 0:
						so = append(so[:i:i], so[i+1:]...)
					case 1:
						if so[i].Ins {
							so[i] = op{Key: so[i].Key}
						} else {
							so[i] = op{Ins: true, Key: so[i].Key, Val: value(t, typ)}
						}
					default:
						so[i] = op{Ins: true, Key: so[i].Key, Val: value(t, typ)}
					}
					shapes = append(shapes, "sibling-mutated")
				} else {
					shapes = append(shapes, "same-as-sibling")
				}
				for _, o := range so {
					add(o)
				}
			}
		case 6: // unchanged
			shapes = append(shapes, "unchanged")
		case 7: // insert-then-remove of a key that is absent
			k := key()
			if _, ok := live[string(k)]; !ok {
				add(op{Ins: true, Key: k, Val: value(t, typ)})
				add(op{Key: k})
				shapes = append(shapes, "insert-then-remove")
			}
		case 8: // re-insert of an equal value
			if k := liveKey(); k != nil {
				add(op{Ins: true, Key: k, Val: live[string(k)]})
				shapes = append(shapes, "reinsert-equal")
			}
		case 9: // a key shorter than the root label (proper prefix of the common prefix of all live keys)
			p := lcp(live.SortedKeys())
			if len(live) >= 2 && len(p) > 0 {
				k := append([]byte{}, p[:rapid.IntRange(0, len(p)-1).Draw(t, "shortLen")]...)
				if _, ok := live[string(k)]; !ok {
					inUni := false
					for _, u := range m.uni {
						if bytes.Equal(u, k) {
							inUni = true
						}
					}
					add(op{Ins: true, Key: k, Val: value(t, typ)})
					if !inUni || rapid.Bool().Draw(t, "shortRemove") {
						add(op{Key: k})
						shapes = append(shapes, "short-key-insert-remove")
					} else {
						shapes = append(shapes, "short-key-insert")
					}
				}
			}
		case 2, 10, 11: // resurrection of a key removed in an earlier finalized version
			var gs []string
			if typ != node.RootTypeState {
				break
			}
			for k := range m.graveyard {
				if _, ok := live[k]; !ok {
					gs = append(gs, k)
				}
			}
			sort.Strings(gs)
			if len(gs) > 0 {
				k := gs[rapid.IntRange(0, len(gs)-1).Draw(t, "grave")]
				v := m.graveyard[k]
				if rapid.IntRange(0, 3).Draw(t, "graveNewVal") == 0 {
					v = value(t, typ)
				}
				add(op{Ins: true, Key: []byte(k), Val: v})
				shapes = append(shapes, "resurrect")
			}
		case 12: // clear everything
			if rapid.IntRange(0, 5).Draw(t, "clear") == 0 {
				for _, k := range live.SortedKeys() {
					add(op{Key: []byte(k)})
				}
				shapes = append(shapes, "clear-all")
			}
		case 13: // remove-then-reinsert with the same value (re-creates an identical leaf)
			if k := liveKey(); k != nil {
				v := live[string(k)]
				add(op{Key: k})
				add(op{Ins: true, Key: k, Val: v})
				shapes = append(shapes, "remove-reinsert-same")
			}
		case 14: // conflict with a sibling: remove a key it keeps, or restore a key it removed
			if len(sibs) > 0 {
				sb := sibs[rapid.IntRange(0, len(sibs)-1).Draw(t, "sib")]
				var kept, gone []string
				for _, k := range sb.Model.SortedKeys() {
					if _, ok := live[k]; ok {
						kept = append(kept, k)
					}
				}
				for _, k := range pm.SortedKeys() {
					if _, ok := sb.Model[k]; !ok {
						gone = append(gone, k)
					}
				}
				if len(kept) > 0 && (len(gone) == 0 || rapid.Bool().Draw(t, "conflictRemove")) {
					add(op{Key: []byte(kept[rapid.IntRange(0, len(kept)-1).Draw(t, "kept")])})
					shapes = append(shapes, "remove-key-sibling-keeps")
				} else if len(gone) > 0 {
					k := gone[rapid.IntRange(0, len(gone)-1).Draw(t, "gone")]
					add(op{Ins: true, Key: []byte(k), Val: pm[k]})
					shapes = append(shapes, "keep-key-sibling-removes")
				}
			}
		}
	}
	return ops, shapes
}

// ---------------------------------------------------------------------------------------
// Actions.

func (m *machine) commitState(t *rapid.T) { m.commit(t, node.RootTypeState) }
func (m *machine) commitIO(t *rapid.T)    { m.commit(t, node.RootTypeIO) }

func (m *machine) commit(t *rapid.T, typ node.RootType) {
	if m.dead {
		return
	}
	vr := m.pendingRec(true)
	if vr == nil {
		return
	}
	sibs := vr.ofType(typ)
	if len(sibs) >= 3 {
		return
	}
	var parent *cand
	if typ == node.RootTypeState {
		parent = m.lastState
	}
	// chain of two commits inside the version (accepted by badger only; rarely offered to pathbadger,
	// which must reject it without damage; never in the differential test)
	chain := false
	if len(sibs) > 0 && len(m.reps) == 1 {
		p := 5
		if m.reps[0].backend == "pathbadger" {
			p = 25
		}
		if rapid.IntRange(0, p).Draw(t, "chain") == 0 {
			var heads []*cand
			for _, s := range sibs {
				if s.Parent == nil || s.Parent.Root.Version != vr.V {
					heads = append(heads, s)
				}
			}
			if len(heads) > 0 {
				parent = heads[rapid.IntRange(0, len(heads)-1).Draw(t, "chainHead")]
				chain = true
			}
		}
	}
	pm := kv.Model{}
	var proot *node.Root
	if parent != nil {
		pm = parent.Model
		r := parent.Root
		proot = &r
	}
	ops, shapes := m.genBatch(t, typ, pm, sibs)
	nm := applyOps(pm, ops)
	if len(nm) == 0 && rapid.IntRange(0, 3).Draw(t, "keepEmpty") > 0 {
		// explicitly committed empty roots make badger reject every later Prune of that version (counted as
		// not accepted); keep them rare so that histories with prunes stay frequent
		return
	}
	heavy := len(nm) >= 2 && len(ops) > 0
	wantHash, _ := refNodes(nm)
	var same *cand
	for _, s := range sibs {
		if s.Root.Hash == wantHash {
			same = s
		}
	}
	if m.has("pathbadger") && heavy && same == nil {
		for _, s := range sibs {
			if s.Heavy {
				if ev.Excluded(SigForeign) {
					m.rec.Discard("excluded:" + SigForeign)
					return
				}
			}
		}
	}
	cross := false
	for _, s := range shapes {
		if s == "cross-type-copy" {
			cross = true
		}
	}
	m.log("commit v%d t%d parent=%s chain=%v shapes=%v ops=%v", vr.V, typ, pname(parent), chain, shapes, ops)
	type res struct {
		h    hash.Hash
		puts []hash.Hash
		err  error
	}
	var rs []res
	nok := 0
	for _, r := range m.reps {
		h, puts, err := commitOn(r.db, proot, typ, vr.V, ops)
		rs = append(rs, res{h, puts, err})
		if err == nil {
			nok++
		} else {
			op := "commit"
			if chain {
				op = "commit-chain"
			}
			m.rec.Label(fmt.Sprintf("not-accepted:%s:%s:%s", op, r.backend, errClass(err)))
			m.log("  %s: not accepted: %v", r.backend, err)
		}
	}
	if nok == 0 {
		return
	}
	if nok != len(m.reps) {
		var acc []bool
		for _, r := range rs {
			acc = append(acc, r.err == nil)
		}
		m.diverge("commit", acc)
		return
	}
	for i, r := range rs {
		if r.h != wantHash {
			m.fail("tree-root", "%s: commit returned root %s, the reference root of the contents is %s", m.reps[i].backend, r.h, wantHash)
		}
	}
	for _, s := range shapes {
		m.rec.Label("batch:" + s)
	}
	if chain {
		m.rec.Label("batch:chain-in-version")
	}
	if same != nil {
		m.rec.Label("batch:yields-existing-root")
		m.log("  = %s", same.name())
		return
	}
	c := &cand{ID: m.nextID, Root: kv.Root(vr.V, typ, wantHash), Model: nm, Parent: parent, Ops: ops, Heavy: heavy}
	m.nextID++
	for _, r := range rs {
		set := map[hash.Hash]bool{}
		for _, h := range r.puts {
			set[h] = true
		}
		c.Puts = append(c.Puts, set)
	}
	for _, o := range ops {
		if !o.Ins {
			continue
		}
		old, dead := m.graveyard[string(o.Key)]
		_, inParent := pm[string(o.Key)]
		if v, ok := nm[string(o.Key)]; ok && dead && !inParent && bytes.Equal(v, old) {
			c.Resurrect = true
		}
	}
	if cross {
		c.Cross = true
	}
	if wantHash.IsEmpty() {
		m.rec.Label("batch:empty-root")
	}
	if parent != nil && wantHash == parent.Root.Hash {
		m.rec.Label("batch:root-unchanged")
	}
	vr.Cands = append(vr.Cands, c)
	m.log("  -> %s keys=%d", c.name(), len(nm))
}

func pname(c *cand) string {
	if c == nil {
		return "empty"
	}
	return c.name()
}

// closure returns the finalized roots plus their same-version ancestors.
func closure(fin []*cand) []*cand {
	var out []*cand
	seen := map[*cand]bool{}
	for _, f := range fin {
		for c := f; c != nil && c.Root.Version == f.Root.Version; c = c.Parent {
			if !seen[c] {
				seen[c] = true
				out = append(out, c)
			}
		}
	}
	return out
}

// sharedDanger reports the precondition of finding SigShared on replica ri: a candidate that would be
// discarded put a node that a finalized root contains and that no root of the finalized closure put.
func sharedDanger(vr *verRec, fin []*cand, ri int) (bool, bool) {
	cl := closure(fin)
	inCl := map[*cand]bool{}
	putF := map[hash.Hash]bool{}
	for _, c := range cl {
		inCl[c] = true
		for h := range c.Puts[ri] {
			putF[h] = true
		}
	}
	same, cross := false, false
	for _, d := range vr.Cands {
		if inCl[d] {
			continue
		}
		for h := range d.Puts[ri] {
			if putF[h] {
				continue
			}
			for _, f := range fin {
				if f.nodeSet()[h] {
					if f.Root.Type != d.Root.Type {
						cross = true
					} else {
						same = true
					}
				}
			}
		}
	}
	return same, cross
}

func (m *machine) finalize(t *rapid.T) {
	if m.dead {
		return
	}
	vr := m.pending
	if vr == nil {
		return
	}
	states, ios := vr.ofType(node.RootTypeState), vr.ofType(node.RootTypeIO)
	if len(states) == 0 {
		return
	}
	si := rapid.IntRange(0, len(states)-1).Draw(t, "finState")
	ii := rapid.IntRange(-1, len(ios)-1).Draw(t, "finIO")
	ioFirst := rapid.Bool().Draw(t, "ioFirst")
	// While finding SigCross is excluded, an IO candidate holding a key/value pair of the chosen state root is not
	// finalized with it on badger (the IO candidates of the version are then discarded). This is decided first: the
	// analyses below depend on which candidates end up discarded.
	avoidCross := m.has("badger") && ev.Excluded(SigCross)
	pick := func(si, ii int) []*cand {
		fin := []*cand{states[si]}
		if ii >= 0 && !(avoidCross && sharesPair(ios[ii], states[si])) {
			fin = append(fin, ios[ii])
		}
		return fin
	}
	fin := pick(si, ii)
	if ii >= 0 && len(fin) == 1 {
		m.rec.Discard("excluded:" + SigCross)
	}
	for ri, r := range m.reps {
		if r.backend != "badger" {
			continue
		}
		same, _ := sharedDanger(vr, fin, ri)
		if same && ev.Excluded(SigShared) {
			// look for a choice without the precondition, starting from the drawn one
			found := false
		search:
			for ds := 0; ds < len(states); ds++ {
				for di := 0; di <= len(ios); di++ {
					s2 := (si + ds) % len(states)
					i2 := (ii+1+di)%(len(ios)+1) - 1
					if s3, _ := sharedDanger(vr, pick(s2, i2), ri); !s3 {
						fin, found = pick(s2, i2), true
						break search
					}
				}
			}
			m.rec.Discard("excluded:" + SigShared)
			if !found {
				m.rec.Discard("excluded:" + SigShared + ":no-safe-choice")
				return
			}
		}
		if same, cross := sharedDanger(vr, fin, ri); same || cross {
			m.sharedPre = true // (cross: a discarded candidate of the other root type put the node)
		}
	}
	// Two sibling state roots finalized in one version. Real callers never do this and pathbadger must reject it
	// (without damage); badger supports it and its own tests do it (testPruneLoneRoots) - the sibling without
	// successors is then the only kind of root whose Prune walks nodes inherited from earlier versions. Offered only
	// when neither sibling put a node the other one contains, both retain the same nodes of their common parent and
	// no finding's precondition is met.
	two := false
	if len(m.reps) == 1 && len(states) >= 2 {
		p := 1
		if m.reps[0].backend == "pathbadger" {
			p = 30
		}
		if rapid.IntRange(0, p).Draw(t, "twoSiblings") == 0 {
			f1 := fin[0]
			head := func(c *cand) bool { return c.Parent == nil || c.Parent.Root.Version != vr.V }
			apart := func(a, b *cand) bool {
				for h := range a.Puts[0] {
					if b.nodeSet()[h] {
						return false
					}
				}
				return true
			}
			// badger deletes the nodes one finalized root removed even if a finalized sibling still inherits them, so
			// both siblings must retain exactly the same nodes of their common parent
			sameInherited := func(a, b *cand) bool {
				if a.Parent != b.Parent || a.Parent == nil {
					return false
				}
				for h := range a.Parent.nodeSet() {
					if a.nodeSet()[h] != b.nodeSet()[h] {
						return false
					}
				}
				return true
			}
			var others []*cand
			for _, c := range states {
				if c != f1 && head(c) && head(f1) && apart(c, f1) && apart(f1, c) && sameInherited(c, f1) && !c.Root.Hash.IsEmpty() && !f1.Root.Hash.IsEmpty() {
					others = append(others, c)
				}
			}
			if len(others) > 0 {
				fin2 := append([]*cand{f1, others[rapid.IntRange(0, len(others)-1).Draw(t, "sibling2")]}, fin[1:]...)
				if avoidCross && crossPair(fin2) {
					fin2 = fin2[:2] // (the IO root holds a pair of the second sibling)
				}
				sm, cr := sharedDanger(vr, fin2, 0)
				m.log("two siblings %v: discarded candidate put a node they hold: same type %v, other type %v", names(fin2), sm, cr)
				if !sm && !cr {
					fin, two = fin2, true
				}
			}
		}
	}
	if m.has("badger") && crossPair(fin) {
		m.crossPre = true
	}
	roots := make([]node.Root, 0, 3)
	for _, f := range fin {
		roots = append(roots, f.Root)
	}
	if ioFirst && len(roots) == 2 {
		roots[0], roots[1] = roots[1], roots[0]
	}
	m.log("finalize v%d %v", vr.V, names(fin))
	// Readers that opened a candidate BEFORE the finalization and keep using their tree afterwards (a node that
	// executes on top of a candidate, a client reading a pending root): each has resolved the root and one path. After
	// Finalize everything else they dereference must still be the candidate's own contents or an error.
	type staleReader struct {
		ri   int
		c    *cand
		tree mkvs.Tree
	}
	var stale []staleReader
	if len(m.uni) > 0 && rapid.IntRange(0, 2).Draw(t, "staleReaders") > 0 {
		for ri, r := range m.reps {
			for ci, c := range vr.Cands {
				if c.Root.Hash.IsEmpty() || ci >= 4 || rapid.IntRange(0, 2).Draw(t, "staleFor") == 0 {
					continue
				}
				tr := mkvs.NewWithRoot(nil, r.db, c.Root)
				k := m.uni[rapid.IntRange(0, len(m.uni)-1).Draw(t, "staleFirstKey")]
				if _, err := tr.Get(context.Background(), k); err != nil {
					tr.Close()
					continue
				}
				stale = append(stale, staleReader{ri, c, tr})
			}
		}
	}
	defer func() {
		for _, sr := range stale {
			sr.tree.Close()
		}
	}()
	nok := 0
	var acc []bool
	for _, r := range m.reps {
		err := r.db.Finalize(roots)
		acc = append(acc, err == nil)
		if err != nil {
			m.rec.Label(fmt.Sprintf("not-accepted:finalize:%s:%s", r.backend, errClass(err)))
			m.log("  %s: not accepted: %v", r.backend, err)
		} else {
			nok++
		}
	}
	if nok == 0 {
		return
	}
	if nok != len(m.reps) {
		m.diverge("finalize", acc)
		return
	}
	if two {
		m.rec.Label("finalize:two-state-siblings")
	}
	isFin := map[*cand]bool{}
	for _, f := range fin {
		f.Final = true
		isFin[f] = true
	}
	for _, c := range closure(fin) {
		if !isFin[c] {
			c.Closure = true
			isFin[c] = true
			m.rec.Label("finalized-by-closure")
		}
	}
	for _, d := range vr.Cands {
		if isFin[d] {
			continue
		}
		d.Discarded = true
		m.discarded++
		for _, f := range fin {
			if f.Root.Type == d.Root.Type && f.Heavy && d.Heavy && m.has("pathbadger") {
				m.foreignPre = true
			}
			for ri := range m.reps {
				for h := range d.Puts[ri] {
					if f.nodeSet()[h] {
						m.ntShare = true
					}
				}
			}
		}
	}
	st := fin[0]
	prev := kv.Model{}
	if m.lastState != nil {
		prev = m.lastState.Model
	}
	for k, v := range prev {
		if _, ok := st.Model[k]; !ok {
			m.graveyard[k] = v
		}
	}
	for k := range st.Model {
		delete(m.graveyard, k)
	}
	if st.Resurrect {
		m.ntResurrect = true
		m.rec.Label("finalized-resurrection")
	}
	vr.Finalized = true
	m.lastFinal, m.lastState, m.pending = vr, st, nil
	m.finalizes++
	for _, sr := range stale {
		wrong, failed := "", 0
		for _, k := range m.uni {
			v, err := sr.tree.Get(context.Background(), k)
			if err != nil {
				failed++
				continue
			}
			want, ok := sr.c.Model[string(k)]
			if (v == nil) != !ok || (ok && !bytes.Equal(v, want)) {
				wrong = fmt.Sprintf("key %x reads %x, the root's own contents say %x (present=%v)", k, trunc(v), trunc(want), ok)
				break
			}
		}
		kind := "discarded"
		switch {
		case sr.c.Final:
			kind = "finalized"
		case sr.c.Closure:
			kind = "closure" // an intermediate root of the finalized root's chain: absent or its own contents, like a discarded one
		}
		m.rec.Label(fmt.Sprintf("stale-reader:%s:failed-reads=%v", kind, failed > 0))
		switch {
		case wrong != "":
			m.fail("stale-reader-foreign-contents", "%s: a tree opened on the %s candidate %s before Finalize reads foreign contents afterwards: %s", m.reps[sr.ri].backend, kind, sr.c.name(), wrong)
		case failed > 0 && sr.c.Final:
			m.fail("finalized-root-unreadable", "%s: a tree opened on candidate %s before it was finalized fails %d reads afterwards", m.reps[sr.ri].backend, sr.c.name(), failed)
		}
	}
}

func names(cs []*cand) []string {
	var s []string
	for _, c := range cs {
		s = append(s, c.name())
	}
	return s
}

func (m *machine) earliest() *verRec {
	for _, vr := range m.versions {
		if vr.Finalized && !vr.Pruned {
			return vr
		}
	}
	return nil
}

func (m *machine) prune(t *rapid.T) {
	if m.dead || m.lastFinal == nil {
		return
	}
	e := m.earliest()
	if rapid.IntRange(0, 9).Draw(t, "badPrune") == 0 {
		// a version that may not be pruned: the last finalized one, one that is not the earliest, a
		// pending or an already pruned one. The documented answer is an error.
		v := m.lastFinal.V
		switch rapid.IntRange(0, 2).Draw(t, "badKind") {
		case 0:
			if m.lastFinal.V > e.V+1 {
				v = e.V + 1
			}
		case 1:
			v = m.lastFinal.V + 1
		}
		m.log("prune v%d (not prunable)", v)
		for _, r := range m.reps {
			if err := r.db.Prune(v); err == nil {
				m.fail("prune-accepted-unprunable-version", "%s: Prune(%d) succeeded although earliest=%d last finalized=%d", r.backend, v, e.V, m.lastFinal.V)
			} else {
				m.rec.Label("rejected:prune-unprunable:" + errClass(err))
			}
		}
		return
	}
	if m.lastFinal.V-e.V < m.keepLag {
		return
	}
	m.log("prune v%d", e.V)
	nok := 0
	var acc []bool
	for _, r := range m.reps {
		err := r.db.Prune(e.V)
		acc = append(acc, err == nil)
		if err != nil {
			kind := ""
			for _, c := range e.Cands {
				if c.Final && c.Root.Hash.IsEmpty() {
					kind = ":finalized-empty-root"
				}
			}
			m.rec.Label(fmt.Sprintf("not-accepted:prune%s:%s:%s", kind, r.backend, errClass(err)))
			m.log("  %s: not accepted: %v", r.backend, err)
		} else {
			nok++
		}
	}
	if nok == 0 {
		return
	}
	if nok != len(m.reps) {
		m.diverge("prune", acc)
		return
	}
	e.Pruned = true
	m.prunes++
	if m.ntShare && m.ntResurrect {
		m.ntPruneAfter = true
	}
}

func (m *machine) reopen(t *rapid.T) {
	if m.dead || m.reopens >= 2 {
		return // (opening a database costs more than the rest of an average case)
	}
	any := false
	for _, r := range m.reps {
		if r.dir == "" {
			continue
		}
		any = true
		r.raw.Close()
		if err := r.open(); err != nil {
			m.fail("reopen-failed", "%s: reopening the database directory failed: %v", r.backend, err)
		}
	}
	if any {
		m.reopens++
		m.log("reopen")
	}
}

// ---------------------------------------------------------------------------------------
// Invariant.

func (m *machine) proofKeys() [][]byte {
	var out [][]byte
	for i := 0; i < 3 && i < len(m.uni); i++ {
		out = append(out, m.uni[(m.step*7+i*5)%len(m.uni)])
	}
	return out
}

func (m *machine) sigUnreadable(r *replica, rr readResult) string {
	if r.backend == "badger" && rr.Diff == "" {
		if m.crossPre {
			return SigCross
		}
		if m.sharedPre {
			return SigShared
		}
	}
	return "finalized-root-unreadable"
}

func (m *machine) check(_ *rapid.T) {
	m.step++
	pk := m.proofKeys()
	for ri, r := range m.reps {
		if r.off {
			continue
		}
		ndb := r.db
		for _, vr := range m.versions {
			switch {
			case vr.Pruned:
				rs, err := ndb.GetRootsForVersion(vr.V)
				if err != nil || len(rs) != 0 {
					m.fail("pruned-version-present", "%s: GetRootsForVersion(%d) of a pruned version returned %v, err %v", r.backend, vr.V, sortedHashes(rs), err)
				}
				for _, c := range vr.Cands {
					if c.Root.Hash.IsEmpty() {
						continue
					}
					if ndb.HasRoot(c.Root) {
						m.fail("pruned-version-present", "%s: HasRoot(%s) is true after version %d was pruned", r.backend, c.name(), vr.V)
					}
					if c.Final {
						if n, err := ndb.GetNode(c.Root, &node.Pointer{Clean: true, Hash: c.Root.Hash}); err == nil {
							m.fail("pruned-version-present", "%s: GetNode of the root node of pruned %s returned %T", r.backend, c.name(), n)
						}
					}
				}
			case vr.Finalized:
				rs, err := ndb.GetRootsForVersion(vr.V)
				if err != nil {
					m.fail("finalized-root-unreadable", "%s: GetRootsForVersion(%d) failed: %v", r.backend, vr.V, err)
				}
				inList := map[string]bool{}
				for _, x := range rs {
					inList[fmt.Sprintf("%d/%s", x.Type, x.Hash)] = true
				}
				known := map[string]*cand{}
				for _, c := range vr.Cands {
					known[fmt.Sprintf("%d/%s", c.Root.Type, c.Root.Hash)] = c
				}
				for k := range inList {
					if known[k] == nil {
						m.fail("unknown-root-listed", "%s: GetRootsForVersion(%d) lists %s which was never committed", r.backend, vr.V, k)
					}
				}
				for _, c := range vr.Cands {
					k := fmt.Sprintf("%d/%s", c.Root.Type, c.Root.Hash)
					switch {
					case c.Final:
						if !ndb.HasRoot(c.Root) {
							m.fail("finalized-root-absent", "%s: HasRoot(%s) is false for a retained finalized root", r.backend, c.name())
						}
						if !inList[k] && !c.Root.Hash.IsEmpty() {
							m.fail("finalized-root-absent", "%s: GetRootsForVersion(%d) = %v does not list the finalized %s", r.backend, vr.V, sortedHashes(rs), c.name())
						}
						rr := readRoot(ndb, c.Root, c.Model, m.uni, pk)
						if rr.Err != "" || rr.Diff != "" {
							m.fail(m.sigUnreadable(r, rr), "%s: retained finalized root %s is not fully readable: %d of %d reads failed, first error %q, first difference %q", r.backend, c.name(), rr.Failed, rr.Reads, rr.Err, rr.Diff)
						}
					case c.Closure:
						m.weak(ri, c, "closure", pk)
					default:
						m.weak(ri, c, "discarded", pk)
						if inList[k] && !c.Root.Hash.IsEmpty() {
							switch {
							case r.backend == "pathbadger" && ev.Excluded(SigListed):
								if !m.listedSkipped {
									m.listedSkipped = true
									m.rec.Discard("excluded:" + SigListed)
								}
							case r.backend == "pathbadger":
								m.fail(SigListed, "%s: GetRootsForVersion(%d) = %v lists the discarded candidate %s of a finalized version", r.backend, vr.V, sortedHashes(rs), c.name())
							default:
								m.fail("discarded-root-listed", "%s: GetRootsForVersion(%d) = %v lists the discarded candidate %s of a finalized version", r.backend, vr.V, sortedHashes(rs), c.name())
							}
						}
					}
				}
			default:
				for _, c := range vr.Cands {
					m.weak(ri, c, "pending", pk)
				}
			}
		}
	}
	if len(m.reps) == 2 && !m.dead {
		m.diff(pk)
	}
}

// weak is the oracle for roots that are not retained finalized roots: reported absent, or every read fails,
// or the reads that succeed return exactly the root's own contents.
func (m *machine) weak(ri int, c *cand, kind string, pk [][]byte) {
	r := m.reps[ri]
	if !r.db.HasRoot(c.Root) {
		m.rec.Label(kind + ":absent:" + r.backend)
		return
	}
	rr := readRoot(r.db, c.Root, c.Model, m.uni, pk)
	if rr.Diff != "" {
		sig := "unfinalized-root-foreign-contents"
		if kind == "discarded" && r.backend == "pathbadger" && m.foreignPre {
			sig = SigForeign
		}
		m.fail(sig, "%s: %s root %s is reported present and a read succeeds with contents that are not its own: %s (%d of %d reads failed, first error %q)", r.backend, kind, c.name(), rr.Diff, rr.Failed, rr.Reads, rr.Err)
	}
	switch {
	case rr.Failed == 0:
		m.rec.Label(kind + ":present-own-contents:" + r.backend)
	case rr.Failed == rr.Reads:
		m.rec.Label(kind + ":present-every-read-fails:" + r.backend)
	default:
		m.rec.Label(kind + ":present-some-reads-fail:" + r.backend)
	}
}

// answers describes every answer a replica gives about a retained finalized root.
func answers(ndb dbApi.NodeDB, root node.Root, uni, pk [][]byte) []string {
	out := []string{fmt.Sprintf("has=%v", ndb.HasRoot(root))}
	l, _, err := listed(ndb, root)
	out = append(out, fmt.Sprintf("listed=%v/%s", l, errClass(err)))
	tree := newTree(ndb, root)
	got, err := kv.Scan(ctx, tree)
	tree.Close()
	if err != nil {
		out = append(out, "scan:"+errClass(err))
	} else {
		s := "scan:"
		for _, e := range got {
			s += fmt.Sprintf("%x=%x,", e.K, e.V)
		}
		out = append(out, s)
	}
	tree = newTree(ndb, root)
	for _, k := range uni {
		v, err := tree.Get(ctx, k)
		switch {
		case err != nil:
			out = append(out, fmt.Sprintf("get %x:%s", k, errClass(err)))
		case v == nil:
			out = append(out, fmt.Sprintf("get %x:absent", k))
		default:
			out = append(out, fmt.Sprintf("get %x=%x", k, v))
		}
	}
	tree.Close()
	return out
}

func (m *machine) diff(pk [][]byte) {
	a, b := m.reps[0], m.reps[1]
	if ea, eb := a.db.GetEarliestVersion(), b.db.GetEarliestVersion(); ea != eb {
		m.fail("backend-diff", "GetEarliestVersion: %s=%d %s=%d", a.backend, ea, b.backend, eb)
	}
	la, oka := a.db.GetLatestVersion()
	lb, okb := b.db.GetLatestVersion()
	if la != lb || oka != okb {
		m.fail("backend-diff", "GetLatestVersion: %s=%d/%v %s=%d/%v", a.backend, la, oka, b.backend, lb, okb)
	}
	for _, vr := range m.versions {
		if !vr.Finalized || vr.Pruned {
			continue
		}
		for _, c := range vr.Cands {
			if !c.Final {
				continue
			}
			xa, xb := answers(a.db, c.Root, m.uni, pk), answers(b.db, c.Root, m.uni, pk)
			for i := range xa {
				if xa[i] != xb[i] {
					m.fail("backend-diff", "retained finalized root %s: %s answers %q, %s answers %q", c.name(), a.backend, xa[i], b.backend, xb[i])
				}
			}
		}
	}
}

// ---------------------------------------------------------------------------------------
// Tests.

const ruleVersions = "case = rapid state machine over ONE history on a node database (badger or pathbadger, memory-only or disk-backed) with a model version -> {root -> contents, type, finalized?}: " +
	"commit candidate for version last+1 (state: derived from the last finalized state root; IO: from the empty root; up to 3 per version and type; batches over a prefix-heavy universe built to collide with sibling candidates: " +
	"sibling's batch with one op dropped/flipped/re-valued, the same batch, removal of a key a sibling keeps, unchanged root, clear-all (empty root), resurrection of keys removed in earlier versions, no-op rewrites " +
	"(insert-then-remove, equal re-insert, remove-reinsert, key shorter than the root label), chains of two commits inside a version), finalize (one state candidate, optionally one IO candidate), prune earliest (lag 1-3; also " +
	"unprunable versions, which must be rejected), close+reopen (disk). An operation that returns an error is 'not accepted': not applied to the model, counted by error text. " +
	"oracle after EVERY action: every retained finalized root: HasRoot, listed by GetRootsForVersion, full scan + Get of every universe key equal the model, SyncGet proofs of 3 keys verify against the root and prove the model's answer; " +
	"every discarded / pending / closure candidate: HasRoot false, or no successful read returns anything but its own contents; a finalized version lists no discarded candidate; pruned versions: HasRoot false, no roots listed, GetNode fails. " +
	"non-trivial = some finalize discards a candidate that put a node (hash) contained in the finalized root AND a finalized candidate re-inserts a key removed in an earlier version with its old value AND a prune succeeds after both; distinct = hash of the action trace"

func runMachine(t *rapid.T, rec *ev.Recorder, backends []string, cur **machine) {
	m := &machine{t: t, rec: rec, graveyard: map[string][]byte{}}
	*cur = m
	disk := rapid.IntRange(0, 2).Draw(t, "disk") == 0
	noWL := rapid.IntRange(0, 2).Draw(t, "discardWriteLogs") == 0
	if noWL {
		rec.Label("config:discard-write-logs")
	}
	for _, b := range backends {
		r := &replica{backend: b, noWL: noWL}
		if disk {
			r.dir = kv.TempDir("c06-" + b + "-")
		}
		if err := r.open(); err != nil {
			ev.Infra(t, "open %s: %v", b, err)
		}
		m.reps = append(m.reps, r)
	}
	defer func() {
		for _, r := range m.reps {
			r.raw.Close()
			if r.dir != "" {
				os.RemoveAll(r.dir)
			}
		}
	}()
	m.uni = kv.GenUniverse(t, rapid.IntRange(3, ev.Pick(25, 60)).Draw(t, "nuni"), false)
	m.startV = uint64(rapid.SampledFrom([]int{0, 1, 1, 7}).Draw(t, "startV"))
	m.maxVers = rapid.IntRange(3, ev.Pick(12, 40)).Draw(t, "maxVers")
	m.keepLag = uint64(rapid.IntRange(1, 3).Draw(t, "keepLag"))
	m.log("backends=%s disk=%v universe=%d start=%d maxVersions=%d keepLag=%d", m.backends(), disk, len(m.uni), m.startV, m.maxVers, m.keepLag)
	func() {
		defer func() {
			if r := recover(); r != nil {
				if s, ok := r.(string); ok && len(s) > 5 && s[:5] == "VIOL[" {
					panic(r)
				}
				if n := fmt.Sprintf("%T", r); n == "rapid.stopTest" || n == "rapid.invalidData" {
					panic(r)
				}
				m.fail("panic", "panic: %v", r)
			}
		}()
		t.Repeat(map[string]func(*rapid.T){
			"commitState":  m.commitState,
			"commitState2": m.commitState,
			"commitState3": m.commitState,
			"commitIO":     m.commitIO,
			"finalize":     m.finalize,
			"finalize2":    m.finalize,
			"finalize3":    m.finalize,
			"prune":        m.prune,
			"prune2":       m.prune,
			"reopen":       m.reopen,
			"":             m.check,
		})
	}()
	nt := m.ntShare && m.ntResurrect && m.ntPruneAfter
	for _, l := range []struct {
		on   bool
		name string
	}{{m.ntShare, "nt:discarded-put-node-of-finalized"}, {m.ntResurrect, "nt:resurrection"}, {m.ntPruneAfter, "nt:prune-after"},
		{m.prunes > 0, "pruned"}, {m.reopens > 0, "reopened"}, {m.discarded > 0, "discarded-candidates"}, {disk, "disk-backed"}, {m.dead, "history-ended-by-divergence"}} {
		if l.on {
			rec.Label(l.name)
		}
	}
	rec.Label("backend:" + m.backends())
	rec.LabelN("versions-finalized", uint64(m.finalizes))
	rec.LabelN("versions-pruned", uint64(m.prunes))
	var sample any
	if nt && rec.WantSample() {
		sample = append([]string{}, m.trace...)
	}
	rec.Case(nt, ev.Fingerprint(fmt.Sprint(m.trace)), sample)
}

func TestC06Versions(t *testing.T) {
	rec := ev.New("C06", "TestC06Versions", ruleVersions,
		"caller rules taken from abci/state.go, worker/storage and the mkvs db tests: versions finalized in order; at most one finalized root per type and version; IO roots built from the empty root of their version; candidates only for the version after the last finalized one",
		"an operation that returns an error is a history the backend does not accept; it must not damage anything but is not itself a violation",
		"findings listed as known are excluded by construction: "+SigForeign+" (no two distinct sibling candidates that may both create non-root nodes on pathbadger), "+SigShared+" (finalize choices where a discarded candidate put a node the finalized root contains but did not put, badger), "+SigCross+" (no IO root finalized together with a state root that holds an identical key/value pair, badger), "+SigListed+" (listing clause skipped on pathbadger)")
	defer rec.Flush()
	var cur *machine
	ev.Trace = func() any {
		if cur == nil {
			return nil
		}
		return cur.trace
	}
	rapid.Check(t, func(t *rapid.T) {
		backend := rapid.SampledFrom(kv.Backends).Draw(t, "backend")
		runMachine(t, rec, []string{backend}, &cur)
	})
}

const ruleDiff = "case = the same generated history (actions and batch shapes of TestC06Versions, no chains) executed on badger AND pathbadger; an operation accepted by exactly one backend ends the history (counted); " +
	"oracle after every action: both replicas satisfy the model invariant of TestC06Versions, and GetEarliestVersion, GetLatestVersion and every query on every retained finalized root (HasRoot, listing, full scan, Get of every universe key) " +
	"give identical answers (value / absent / error class). non-trivial and distinct as in TestC06Versions"

func TestC06BackendDiff(t *testing.T) {
	rec := ev.New("C06", "TestC06BackendDiff", ruleDiff, "same caller rules and exclusions as TestC06Versions")
	defer rec.Flush()
	var cur *machine
	ev.Trace = func() any {
		if cur == nil {
			return nil
		}
		return cur.trace
	}
	rapid.Check(t, func(t *rapid.T) {
		runMachine(t, rec, []string{"badger", "pathbadger"}, &cur)
	})
}
