package c06

import (
	"context"
	"fmt"
	"testing"

	"pgregory.net/rapid"

	"github.com/oasisprotocol/oasis-core/go/common/crypto/hash"
	"github.com/oasisprotocol/oasis-core/go/storage/mkvs"
	dbApi "github.com/oasisprotocol/oasis-core/go/storage/mkvs/db/api"
	"github.com/oasisprotocol/oasis-core/go/storage/mkvs/node"

	"verifharness/ev"
	"verifharness/kv"
)

const rulePipeline = "case = pipelined histories of state roots on badger and pathbadger side by side: for every version v several candidate roots are committed (same key universe, overlapping keys, " +
	"different values), and candidates for version v+1 that derive from the candidate that is going to win version v are committed BEFORE Finalize(v) as well as after it (a node that executes the next round while the " +
	"previous one is being finalized); then one of the v+1 candidates - an early or a late one - is finalized. oracle: after every Finalize each finalized root of every retained version reads back exactly its model " +
	"contents (full scan and Get of every universe key) on both backends, the contents hash to the root (independent reference hash), HasRoot/GetRootsForVersion report the finalized root. " +
	"non-trivial = history where a version had an early (pre-finalize) and a late candidate writing the same key and the EARLY one was finalized; distinct = hash of the history"

type pcand struct {
	root  node.Root
	model kv.Model
	early bool
	// trees: the tree objects (one per backend) that committed this candidate, kept open so that ONE candidate of the next
	// version can be built by the same long-lived tree (what the consensus state and a runtime's state do)
	trees map[string]mkvs.Tree
}

// TestC06Pipelined covers candidates for the next version that are committed before the previous version is finalized.
func TestC06Pipelined(t *testing.T) {
	rec := ev.New("C06", "TestC06Pipelined", rulePipeline,
		"state roots only (IO roots sharing leaves with state roots are the known finding badger-cross-type-shared-node)",
		"every candidate of version v+1 derives from the candidate that wins version v")
	defer rec.Flush()
	ctx := context.Background()
	var trace []string
	ev.Trace = func() any { return trace }
	rapid.Check(t, func(t *rapid.T) {
		trace = nil
		uni := kv.GenUniverse(t, rapid.IntRange(2, 10).Draw(t, "nuni"), false)
		dbs := map[string]dbApi.NodeDB{}
		noWL := rapid.IntRange(0, 2).Draw(t, "discardWriteLogs") == 0
		for _, b := range kv.Backends {
			ndb, err := kv.OpenDBOpts(b, "", true, noWL)
			if err != nil {
				ev.Infra(t, "open %s: %v", b, err)
			}
			defer ndb.Close()
			dbs[b] = ndb
		}
		fail := func(sig, format string, args ...any) {
			ev.Violation(t, sig, "%s; trace=%v", fmt.Sprintf(format, args...), trace)
		}
		nver := rapid.IntRange(2, 5).Draw(t, "nver")
		// commit one candidate for `version` derived from `parent` on every backend; returns nil when a backend refuses
		var allTrees []mkvs.Tree
		defer func() {
			for _, tr := range allTrees {
				tr.Close()
			}
		}()
		commit := func(version uint64, parent *pcand, early bool, tag string) *pcand {
			m := parent.model.Clone()
			nops := rapid.IntRange(1, 6).Draw(t, "nops")
			type op struct {
				k, v []byte
			}
			var ops []op
			for i := 0; i < nops; i++ {
				k := uni[rapid.IntRange(0, len(uni)-1).Draw(t, "key")]
				if _, ok := m[string(k)]; ok && rapid.IntRange(0, 3).Draw(t, "del") == 0 {
					ops = append(ops, op{k, nil})
					delete(m, string(k))
					continue
				}
				v := append([]byte(tag+":"), kv.GenValue(t)...)
				ops = append(ops, op{k, v})
				m[string(k)] = v
			}
			var rh hash.Hash
			continued := parent.trees != nil && rapid.IntRange(0, 2).Draw(t, "continueParentTree") > 0
			keep := rapid.Bool().Draw(t, "keepTree")
			kept := map[string]mkvs.Tree{}
			parentTrees := parent.trees
			if continued {
				parent.trees = nil // (a tree object goes on along one branch only)
				rec.Label("candidate-built-by-the-tree-that-committed-its-parent")
			}
			for _, b := range kv.Backends {
				var tr mkvs.Tree
				switch {
				case continued:
					tr = parentTrees[b]
				case parent.root.Hash.IsEmpty():
					tr = mkvs.New(nil, dbs[b], node.RootTypeState)
				default:
					tr = mkvs.NewWithRoot(nil, dbs[b], parent.root)
				}
				allTrees = append(allTrees, tr)
				for _, o := range ops {
					var err error
					if o.v == nil {
						err = tr.Remove(ctx, o.k)
					} else {
						err = tr.Insert(ctx, o.k, o.v)
					}
					if err != nil {
						tr.Close()
						fail("pipelined-candidate-unwritable", "%s: writing candidate %s of version %d on top of %s: %v", b, tag, version, parent.root.Hash, err)
					}
				}
				_, h, err := tr.Commit(ctx, kv.Namespace, version)
				if keep && err == nil {
					kept[b] = tr
				} else {
					tr.Close()
				}
				if err != nil {
					trace = append(trace, fmt.Sprintf("%s: commit of %s refused: %v", b, tag, err))
					rec.Label("commit-refused:" + b)
					return nil
				}
				rh = h
			}
			if want := kv.RefRoot(m); rh != want {
				fail("root-not-reference", "candidate %s: committed root %s, reference root %s", tag, rh, want)
			}
			trace = append(trace, fmt.Sprintf("v%d candidate %s early=%v: %d ops -> %s", version, tag, early, len(ops), rh.String()[:8]))
			c := &pcand{root: kv.Root(version, node.RootTypeState, rh), model: m, early: early}
			if keep && len(kept) == len(kv.Backends) {
				c.trees = kept
			}
			if continued {
				trace[len(trace)-1] += " (built by the tree that committed its parent)"
			}
			return c
		}
		empty := &pcand{root: kv.EmptyRoot(1, node.RootTypeState), model: kv.Model{}}
		// version 1: candidates, winner chosen up front
		var cands []*pcand
		for i, n := 0, rapid.IntRange(1, 3).Draw(t, "ncand1"); i < n; i++ {
			if c := commit(1, empty, false, fmt.Sprintf("1.%d", i)); c != nil {
				cands = append(cands, c)
			}
		}
		if len(cands) == 0 {
			rec.Discard("no-candidate")
			return
		}
		finalized := map[uint64]*pcand{}
		nontrivial := false
		var fp []any
		for v := uint64(1); v <= uint64(nver); v++ {
			winner := cands[rapid.IntRange(0, len(cands)-1).Draw(t, "winner")]
			// early candidates of the next version, derived from the winner-to-be, before Finalize(v)
			var next []*pcand
			if v < uint64(nver) {
				for i, n := 0, rapid.IntRange(0, 2).Draw(t, "nearly"); i < n; i++ {
					if c := commit(v+1, winner, true, fmt.Sprintf("%d.e%d", v+1, i)); c != nil {
						next = append(next, c)
					}
				}
			}
			for _, b := range kv.Backends {
				if err := dbs[b].Finalize([]node.Root{winner.root}); err != nil {
					fail("finalize-refused", "%s: Finalize(v%d, %s): %v", b, v, winner.root.Hash, err)
				}
			}
			trace = append(trace, fmt.Sprintf("finalize v%d -> %s (early=%v)", v, winner.root.Hash.String()[:8], winner.early))
			finalized[v] = winner
			fp = append(fp, winner.root.Hash.String(), winner.early)
			if v < uint64(nver) {
				for i, n := 0, rapid.IntRange(0, 2).Draw(t, "nlate"); i < n; i++ {
					if c := commit(v+1, winner, false, fmt.Sprintf("%d.l%d", v+1, i)); c != nil {
						next = append(next, c)
					}
				}
				if len(next) == 0 {
					if c := commit(v+1, winner, false, fmt.Sprintf("%d.l", v+1)); c != nil {
						next = append(next, c)
					}
				}
			}
			if winner.early {
				for _, c := range cands {
					if !c.early && c != winner {
						nontrivial = true
					}
				}
			}
			// every finalized root reads back its model on both backends
			for u := uint64(1); u <= v; u++ {
				f := finalized[u]
				for _, b := range kv.Backends {
					if !dbs[b].HasRoot(f.root) {
						fail("finalized-root-missing", "%s: HasRoot of the finalized root of version %d is false after Finalize(v%d)", b, u, v)
					}
					tr := mkvs.NewWithRoot(nil, dbs[b], f.root)
					got, err := kv.Scan(ctx, tr)
					if err != nil {
						tr.Close()
						fail("finalized-root-unreadable", "%s: scanning the finalized root of version %d after Finalize(v%d): %v", b, u, v, err)
					}
					if d := kv.CompareScan(got, f.model); d != "" {
						tr.Close()
						fail("finalized-root-wrong-contents", "%s: finalized root %s of version %d after Finalize(v%d): %s", b, f.root.Hash, u, v, d)
					}
					for _, k := range uni {
						val, err := tr.Get(ctx, k)
						want, ok := f.model[string(k)]
						if err != nil || (ok && string(val) != string(want)) || (!ok && val != nil) {
							tr.Close()
							fail("finalized-root-wrong-contents", "%s: Get(%x) at the finalized root of version %d = %x, %v; model %x (present %v)", b, k, u, val, err, want, ok)
						}
					}
					tr.Close()
				}
			}
			cands = next
			if len(cands) == 0 {
				break
			}
		}
		var sample any
		if nontrivial && rec.WantSample() {
			sample = append([]string{}, trace...)
		}
		rec.Case(nontrivial, ev.Fingerprint(fp...), sample)
	})
}
