package c06

import (
	"context"
	"fmt"
	"testing"

	"github.com/oasisprotocol/oasis-core/go/storage/mkvs"
	"github.com/oasisprotocol/oasis-core/go/storage/mkvs/node"

	"verifharness/ev"
	"verifharness/kv"
)

// TestC06SecondCommitterContinues holds the shrunk reproductions of a defect found on the pinned tree by TestC13Sync once
// the history was continued with the tree object whose Commit found its root already stored (repaired in /repo by "fix:
// pathbadger tree that commits an already stored root keeps database pointers the nodes are not stored under").
// Two trees reach the same contents of version 2 through different operations; A commits first, B second (pathbadger:
// "root exists, nothing to do" - but B's nodes were marked as stored under B's own numbering); version 2 is finalized and
// the history goes on with B.
//
//	shape "renumbered": B re-created leaves that A kept, so B numbered its new nodes differently from A. B's version 3
//	was committed and finalized without error and could then not be read ("node not found"): child pointers of version 3
//	named (version 2, index) slots holding A's other nodes or nothing.
//	shape "relocated": A removed and re-inserted a key with its old value (a new copy of the leaf, the old one is deleted
//	when version 2 is finalized), B never touched that key and kept pointing at the old copy: reading the key through
//	B after the finalization failed.
func TestC06SecondCommitterContinues(t *testing.T) {
	rec := ev.New("C06", "TestC06SecondCommitterContinues", "deterministic regression cases on both backends: 10 keys finalized as version 1; trees A and B reach the same contents of version 2 through different operations (shape renumbered: B removes and re-inserts unchanged keys; shape relocated: A does), A commits first, B second, version 2 is finalized, B is used for further reads and updates and commits version 3, which is finalized: every operation on B succeeds, versions 2 and 3 read back completely and equal the reference contents", "")
	defer rec.Flush()
	ctx := context.Background()
	for _, backend := range kv.Backends {
		for _, shape := range []string{"renumbered", "relocated"} {
			ndb, err := kv.OpenDB(backend, "", true)
			if err != nil {
				ev.Infra(t, "open: %v", err)
			}
			m := kv.Model{}
			t0 := mkvs.New(nil, ndb, node.RootTypeState)
			for i := 0; i < 10; i++ {
				k, v := fmt.Sprintf("key-%c", 'a'+i), fmt.Sprintf("value-%d", i)
				_ = t0.Insert(ctx, []byte(k), []byte(v))
				m[k] = []byte(v)
			}
			_, h1, err := t0.Commit(ctx, kv.Namespace, 1)
			t0.Close()
			if err != nil {
				ev.Infra(t, "commit 1: %v", err)
			}
			r1 := kv.Root(1, node.RootTypeState, h1)
			if err := ndb.Finalize([]node.Root{r1}); err != nil {
				ev.Infra(t, "finalize 1: %v", err)
			}
			ta, tb := mkvs.NewWithRoot(nil, ndb, r1), mkvs.NewWithRoot(nil, ndb, r1)
			noisy, plain := tb, ta
			if shape == "relocated" {
				noisy, plain = ta, tb
			}
			for _, k := range []string{"key-d", "key-f"} {
				_ = noisy.Remove(ctx, []byte(k))
				_ = noisy.Insert(ctx, []byte(k), m[k])
			}
			_ = noisy.Insert(ctx, []byte("key-a"), []byte("new-a"))
			_ = plain.Insert(ctx, []byte("key-a"), []byte("new-a"))
			m["key-a"] = []byte("new-a")
			_, ha, errA := ta.Commit(ctx, kv.Namespace, 2)
			ta.Close()
			_, hb, errB := tb.Commit(ctx, kv.Namespace, 2)
			if errA != nil || errB != nil || ha != hb || ha != kv.RefRoot(m) {
				ev.Violation(t, "tree", "%s/%s: the two commits of version 2: %s (%v) and %s (%v), reference root %s", backend, shape, ha, errA, hb, errB, kv.RefRoot(m))
			}
			r2 := kv.Root(2, node.RootTypeState, ha)
			if err := ndb.Finalize([]node.Root{r2}); err != nil {
				ev.Infra(t, "finalize 2: %v", err)
			}
			m2 := m.Clone()
			// B goes on: reads of everything, then updates and version 3
			for k, want := range m {
				got, err := tb.Get(ctx, []byte(k))
				if err != nil || string(got) != string(want) {
					ev.Violation(t, "tree", "%s/%s: after version 2 was finalized, Get(%q) on the tree that committed second: %q, %v (want %q)", backend, shape, k, got, err, want)
				}
			}
			if err := tb.Insert(ctx, []byte("key-c"), []byte("new-c")); err != nil {
				ev.Violation(t, "tree", "%s/%s: insert on the tree that committed second: %v", backend, shape, err)
			}
			m["key-c"] = []byte("new-c")
			if err := tb.Remove(ctx, []byte("key-f")); err != nil {
				ev.Violation(t, "tree", "%s/%s: remove on the tree that committed second: %v", backend, shape, err)
			}
			delete(m, "key-f")
			_, h3, err := tb.Commit(ctx, kv.Namespace, 3)
			tb.Close()
			if err != nil || h3 != kv.RefRoot(m) {
				ev.Violation(t, "tree", "%s/%s: commit of version 3 by the tree that committed second: %s, %v (reference root %s)", backend, shape, h3, err, kv.RefRoot(m))
			}
			r3 := kv.Root(3, node.RootTypeState, h3)
			if err := ndb.Finalize([]node.Root{r3}); err != nil {
				ev.Violation(t, "finalize", "%s/%s: finalize of version 3: %v", backend, shape, err)
			}
			for _, c := range []struct {
				r node.Root
				m kv.Model
			}{{r1, nil}, {r2, m2}, {r3, m}} {
				if c.m == nil {
					continue
				}
				re := mkvs.NewWithRoot(nil, ndb, c.r)
				got, err := kv.Scan(ctx, re)
				re.Close()
				if err != nil {
					ev.Violation(t, "finalized-root-unreadable", "%s/%s: finalized version %d cannot be read back: %v", backend, shape, c.r.Version, err)
				}
				if msg := kv.CompareScan(got, c.m); msg != "" {
					ev.Violation(t, "finalized-root-unreadable", "%s/%s: finalized version %d reads back differently: %s", backend, shape, c.r.Version, msg)
				}
			}
			rec.Case(true, ev.Fingerprint("second-committer", backend, shape), backend+"/"+shape+": ok")
			ndb.Close()
		}
	}
}
