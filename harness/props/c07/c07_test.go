// Package c07 decides property C07: the node database survives a crash at any point of a write
// operation (fault enumeration over the verifhook.Crash sites, see GUIDE.md / DESIGN.md C07).
//
// The test binary re-executes itself: TestC07Child replays a deterministic history H on an on-disk
// database and then runs one target operation O with the crash hook armed. The parent
// (TestC07Crash) first runs H;O in COUNT mode to learn the ordered list of crash-site hits inside O
// and then, for EVERY hit i, lets a fresh child die at hit i (os.Exit(77)), reopens the directory
// and checks the oracle.
package c07

import (
	"bytes"
	"context"
	"crypto/sha512"
	"encoding/binary"
	"encoding/json"
	"errors"
	"fmt"
	"math"
	"math/rand"
	"os"
	"os/exec"
	"path/filepath"
	"sort"
	"strconv"
	"strings"
	"sync"
	"testing"
	"time"

	"github.com/dgraph-io/badger/v4"

	"github.com/oasisprotocol/oasis-core/go/common/crypto/hash"
	"github.com/oasisprotocol/oasis-core/go/common/verifhook"
	"github.com/oasisprotocol/oasis-core/go/storage/mkvs"
	"github.com/oasisprotocol/oasis-core/go/storage/mkvs/checkpoint"
	dbApi "github.com/oasisprotocol/oasis-core/go/storage/mkvs/db/api"
	"github.com/oasisprotocol/oasis-core/go/storage/mkvs/node"
	"github.com/oasisprotocol/oasis-core/go/storage/mkvs/syncer"

	"verifharness/ev"
	"verifharness/kv"
)

var ctx = context.Background()

// Kinds of the target operation O.
var kinds = []string{"commit", "finalize", "prune", "restore", "abort", "reopen"}

// ---------------------------------------------------------------------------------------
// Deterministic plan generation (math/rand with an explicit seed: the child must regenerate the
// very same plan from the same integers).

type spec struct {
	HSeed    int64  `json:"hseed"`
	Backend  string `json:"backend"`
	Kind     string `json:"kind"`
	Thorough bool   `json:"thorough"`
	// Probe names a hand-written minimal plan (known-finding probes) instead of a generated one.
	Probe string `json:"probe,omitempty"`
}

type op struct {
	Del  bool
	K, V []byte
}

// cand is one planned root: contents, reference hash and the batch that produces it from its parent.
type cand struct {
	Ver        uint64
	Typ        node.RootType
	ParentVer  uint64
	ParentHash hash.Hash // empty hash: built from the empty root
	Ops        []op
	Hash       hash.Hash
	model      kv.Model
	puts       map[hash.Hash]bool // node hashes the commit of this candidate puts (measured by a dry run)
	nodes      map[hash.Hash]bool // hashes of all nodes of the tree with these contents (reference construction)
}

func (c *cand) root() node.Root { return kv.Root(c.Ver, c.Typ, c.Hash) }

func (c *cand) parent() node.Root { return kv.Root(c.ParentVer, c.Typ, c.ParentHash) }

func rootKey(r node.Root) string {
	return fmt.Sprintf("%d/%d/%s", r.Version, r.Type, r.Hash.String()[:16])
}

func (c *cand) key() string { return rootKey(c.root()) }

type step struct {
	Kind  string // commit | finalize | prune
	Ver   uint64
	C     *cand   // commit
	Roots []*cand // finalize
}

func (s step) String() string {
	switch s.Kind {
	case "commit":
		return fmt.Sprintf("commit(v%d type%d %s <- %s, %d ops, %d keys)", s.Ver, s.C.Typ, s.C.Hash.String()[:8], s.C.ParentHash.String()[:8], len(s.C.Ops), len(s.C.model))
	case "finalize":
		var rs []string
		for _, c := range s.Roots {
			rs = append(rs, fmt.Sprintf("type%d:%s", c.Typ, c.Hash.String()[:8]))
		}
		return fmt.Sprintf("finalize(v%d %s)", s.Ver, strings.Join(rs, ","))
	default:
		return fmt.Sprintf("prune(v%d)", s.Ver)
	}
}

// mpSpec describes the checkpoint that is restored by the multipart kinds.
type mpSpec struct {
	C         *cand // restored root (type state, built from empty at version V)
	ChunkSize uint64
	Order     []int // order in which chunks are restored (filled by the parent/child once the chunk count is known)
	PreChunks int   // abort/reopen: number of chunks restored before O (0 = all but one, resolved later)
}

type plan struct {
	Spec   spec
	Uni    [][]byte
	Pre    []step // H, incl. the prerequisites of O
	O      []step // commit / finalize / prune: exactly one step
	MP     *mpSpec
	Suffix []step
	Target uint64 // version touched by O

	all       map[string]*cand   // every planned root
	finPre    map[uint64][]*cand // finalized roots after Pre (before O)
	finEnd    map[uint64][]*cand // finalized roots after the suffix
	earlyPre  uint64
	earlyEnd  uint64
	maxVer    uint64
	orderSeed int64
}

type gen struct {
	r         *rand.Rand
	thorough  bool
	uni       [][]byte
	state     kv.Model // contents of the last finalized state root
	stateRoot *cand
	latest    uint64
	hasLatest bool
	earliest  uint64
	removed   map[string][]byte
	all       map[string]*cand
	fin       map[uint64][]*cand
	maxVer    uint64
	// shadow is an in-memory database holding the chosen (finalized) roots only; candidates are
	// dry-committed against it to learn which nodes their commit puts (see dangerous).
	shadow dbApi.NodeDB
}

// ---------------------------------------------------------------------------------------
// Staying clear of the C06 findings "badger-finalize-deletes-shared-node" / "badger-cross-type-shared-node"
// (badger Finalize deletes a node of the FINALIZED root when a discarded sibling re-put it with an
// unchanged hash): they break uninterrupted histories and belong to C06. The generator measures the
// puts of every candidate with a dry run and never plans a discarded sibling that puts a node which a
// finalized root of the version contains without having put it itself; IO trees use a key space of
// their own so that state and IO trees never share a node.

type recDB struct {
	dbApi.NodeDB
	puts map[hash.Hash]bool
}

type recBatch struct {
	dbApi.Batch
	db *recDB
}

func (r *recDB) NewBatch(oldRoot node.Root, version uint64, chunk bool) (dbApi.Batch, error) {
	nop, _ := dbApi.NewNopNodeDB()
	b, err := nop.NewBatch(oldRoot, version, chunk)
	if err != nil {
		return nil, err
	}
	return &recBatch{Batch: b, db: r}, nil
}

func (b *recBatch) PutNode(ptr *node.Pointer) error {
	if ptr != nil && ptr.Node != nil {
		b.db.puts[ptr.Node.GetHash()] = true
	}
	return b.Batch.PutNode(ptr)
}

func (g *gen) dryPuts(c *cand) map[hash.Hash]bool {
	if g.shadow == nil {
		return nil
	}
	r := &recDB{NodeDB: g.shadow, puts: map[hash.Hash]bool{}}
	if err := doCommit(r, c); err != nil {
		panic(fmt.Sprintf("c07 generator: dry commit failed: %v", err))
	}
	return r.puts
}

func h512(parts ...[]byte) hash.Hash {
	d := sha512.New512_256()
	for _, p := range parts {
		d.Write(p)
	}
	var out hash.Hash
	copy(out[:], d.Sum(nil))
	return out
}

func bitAt(k []byte, i int) bool { return k[i/8]&(1<<(7-uint(i%8))) != 0 }

// refNodes returns the hashes of all nodes of the tree holding exactly m (same construction as kv.RefRoot).
func refNodes(m kv.Model) map[hash.Hash]bool {
	ks := m.SortedKeys()
	keys := make([][]byte, len(ks))
	for i, k := range ks {
		keys[i] = []byte(k)
	}
	set := map[hash.Hash]bool{}
	refNode(m, keys, 0, set)
	return set
}

func refNode(m kv.Model, keys [][]byte, depth int, set map[hash.Hash]bool) hash.Hash {
	switch len(keys) {
	case 0:
		return h512()
	case 1:
		var kl, vl [4]byte
		k, v := keys[0], m[string(keys[0])]
		binary.LittleEndian.PutUint32(kl[:], uint32(len(k)))
		binary.LittleEndian.PutUint32(vl[:], uint32(len(v)))
		h := h512([]byte{0x00}, kl[:], k, vl[:], v)
		set[h] = true
		return h
	}
	cp := len(keys[0]) * 8
	for _, k := range keys[1:] {
		if len(k)*8 < cp {
			cp = len(k) * 8
		}
	}
	for _, k := range keys[1:] {
		i := depth
		for i < cp && bitAt(k, i) == bitAt(keys[0], i) {
			i++
		}
		cp = i
	}
	nbits := cp - depth
	label := make([]byte, (nbits+7)/8)
	for i := 0; i < nbits; i++ {
		if bitAt(keys[0], depth+i) {
			label[i/8] |= 1 << (7 - uint(i%8))
		}
	}
	var leafKeys, left, right [][]byte
	for _, k := range keys {
		switch {
		case len(k)*8 == cp:
			leafKeys = append(leafKeys, k)
		case bitAt(k, cp):
			right = append(right, k)
		default:
			left = append(left, k)
		}
	}
	var lb [2]byte
	binary.LittleEndian.PutUint16(lb[:], uint16(nbits))
	lh := refNode(m, leafKeys, cp, set)
	l := refNode(m, left, cp, set)
	r := refNode(m, right, cp, set)
	h := h512([]byte{0x01}, lb[:], label, lh[:], l[:], r[:])
	set[h] = true
	return h
}

// dangerous reports whether discarding d while finalizing fin meets the precondition of the C06 findings.
func dangerous(d *cand, fin []*cand) bool {
	for h := range d.puts {
		putByFinal := false
		for _, f := range fin {
			if f.puts[h] {
				putByFinal = true
			}
		}
		if putByFinal {
			continue
		}
		for _, f := range fin {
			if f.nodes[h] {
				return true
			}
		}
	}
	return false
}

var alphabet = []byte{0x00, 0x01, 0x40, 0x7f, 0x80, 0xff}

func genUniverse(r *rand.Rand, n int) [][]byte {
	seen := map[string]bool{}
	var uni [][]byte
	longPrefix := bytes.Repeat([]byte{0xA5}, 32)
	for tries := 0; len(uni) < n && tries < n*8; tries++ {
		var k []byte
		mode := r.Intn(11)
		switch {
		case mode <= 3 || len(uni) == 0:
			k = make([]byte, r.Intn(6))
			for i := range k {
				k[i] = alphabet[r.Intn(len(alphabet))]
			}
		case mode <= 6:
			base := uni[r.Intn(len(uni))]
			k = append(append([]byte{}, base...), alphabet[r.Intn(len(alphabet))])
		case mode == 7:
			base := uni[r.Intn(len(uni))]
			if len(base) > 0 {
				k = append([]byte{}, base[:r.Intn(len(base))]...)
			}
		case mode == 8:
			base := uni[r.Intn(len(uni))]
			k = append([]byte{}, base...)
			if len(k) > 0 {
				k[len(k)-1] ^= byte(1) << uint(r.Intn(8))
			}
		case mode == 9:
			l := 1 + r.Intn(38)
			k = append(append([]byte{}, longPrefix...), make([]byte, l)...)
			k[len(k)-1] = alphabet[r.Intn(len(alphabet))]
		default:
			k = []byte{byte(r.Intn(256))}
		}
		if k == nil {
			k = []byte{}
		}
		if seen[string(k)] {
			continue
		}
		seen[string(k)] = true
		uni = append(uni, k)
	}
	return uni
}

func (g *gen) value() []byte {
	m := g.r.Intn(20)
	switch {
	case m == 0:
		return []byte{}
	case m == 1 || (g.thorough && m <= 3):
		l := 1024 + g.r.Intn(3072)
		if g.thorough && g.r.Intn(4) == 0 {
			l = 8192 + g.r.Intn(24576)
		}
		v := make([]byte, l)
		g.r.Read(v)
		return v
	default:
		v := make([]byte, 1+g.r.Intn(40))
		g.r.Read(v)
		return v
	}
}

// batch draws a batch of real changes (no no-op rewrites, every key touched at most once, result
// non-empty): inserts, overwrites with a different value, removals, resurrections of removed values.
func (g *gen) batch(cur kv.Model, maxOps int) ([]op, kv.Model) {
	n := 1 + g.r.Intn(maxOps)
	out := cur.Clone()
	touched := map[string]bool{}
	var ops []op
	for i := 0; i < n; i++ {
		k := g.uni[g.r.Intn(len(g.uni))]
		if touched[string(k)] {
			continue
		}
		touched[string(k)] = true
		old, present := out[string(k)]
		switch {
		case present && g.r.Intn(2) == 0:
			ops = append(ops, op{Del: true, K: k})
			delete(out, string(k))
		default:
			v := g.value()
			if rv, ok := g.removed[string(k)]; ok && !present && g.r.Intn(3) == 0 {
				v = rv // resurrection of an earlier leaf
			}
			if present && bytes.Equal(v, old) {
				v = append(append([]byte{}, v...), 0x01)
			}
			ops = append(ops, op{K: k, V: v})
			out[string(k)] = v
		}
	}
	if len(out) == 0 || len(ops) == 0 {
		// never produce the empty root or an unchanged root
		for _, k := range g.uni {
			if _, ok := out[string(k)]; !ok && !touched[string(k)] {
				v := append(g.value(), 0x02)
				ops = append(ops, op{K: k, V: v})
				out[string(k)] = v
				break
			}
		}
	}
	return ops, out
}

func (g *gen) register(c *cand) *cand {
	if c.nodes == nil {
		c.nodes = refNodes(c.model)
	}
	if c.puts == nil {
		c.puts = g.dryPuts(c)
	}
	g.all[c.key()] = c
	if c.Ver > g.maxVer {
		g.maxVer = c.Ver
	}
	return c
}

func (g *gen) maxOps() int {
	if g.thorough {
		return 30
	}
	return 8
}

// stateCand draws a state candidate for version ver derived from the last finalized state root whose
// hash differs from all given siblings.
func (g *gen) stateCand(ver uint64, siblings []*cand) *cand {
	for {
		ops, m := g.batch(g.state, g.maxOps())
		h := kv.RefRoot(m)
		dup := g.stateRoot != nil && h == g.stateRoot.Hash
		for _, s := range siblings {
			if s.Hash == h {
				dup = true
			}
		}
		if dup || len(ops) == 0 {
			continue
		}
		c := &cand{Ver: ver, Typ: node.RootTypeState, Ops: ops, Hash: h, model: m}
		c.ParentHash.Empty()
		c.ParentVer = ver
		if g.stateRoot != nil {
			c.ParentVer, c.ParentHash = g.stateRoot.Ver, g.stateRoot.Hash
		}
		return g.register(c)
	}
}

func (g *gen) ioCand(ver uint64) *cand {
	ops, _ := g.batch(kv.Model{}, 5)
	m := kv.Model{}
	for i := range ops { // IO trees live in a key space of their own (no node shared with a state tree)
		ops[i].K = append([]byte{0xEE}, ops[i].K...)
		m[string(ops[i].K)] = ops[i].V
	}
	c := &cand{Ver: ver, Typ: node.RootTypeIO, Ops: ops, Hash: kv.RefRoot(m), model: m, ParentVer: ver}
	c.ParentHash.Empty()
	return g.register(c)
}

func (g *gen) finalize(ver uint64, roots []*cand) step {
	for _, c := range roots {
		if g.shadow != nil {
			if err := doCommit(g.shadow, c); err != nil {
				panic(fmt.Sprintf("c07 generator: shadow commit failed: %v", err))
			}
		}
		if c.Typ == node.RootTypeState {
			for _, o := range c.Ops {
				if o.Del {
					if v, ok := g.state[string(o.K)]; ok {
						g.removed[string(o.K)] = v
					}
				}
			}
			g.state, g.stateRoot = c.model, c
		}
	}
	if !g.hasLatest {
		g.earliest = ver
	}
	g.latest, g.hasLatest = ver, true
	g.fin[ver] = roots
	return step{Kind: "finalize", Ver: ver, Roots: roots}
}

// version draws a complete version: 1-2 (rarely 3) state candidates, maybe an IO root, finalize.
func (g *gen) version(ver uint64) []step {
	var steps []step
	ncand := 1
	if x := g.r.Intn(20); x < 7 {
		ncand = 2
		if x == 0 {
			ncand = 3
		}
	}
	cands, roots := g.candidates(ver, ncand, g.r.Intn(5) < 2)
	for _, c := range cands {
		steps = append(steps, step{Kind: "commit", Ver: ver, C: c})
	}
	steps = append(steps, g.finalize(ver, roots))
	return steps
}

// candidates draws ncand state candidates (+ optionally an IO root) for a version, chooses the roots to
// finalize and drops every sibling whose discarding would meet the precondition of the C06 findings
// (a few redraws first). Returns all candidates to commit (in commit order) and the roots to finalize.
func (g *gen) candidates(ver uint64, ncand int, withIO bool) (cands, roots []*cand) {
	first := g.stateCand(ver, nil)
	var io *cand
	roots = []*cand{first}
	if withIO {
		io = g.ioCand(ver)
		roots = append(roots, io)
	}
	sibs := []*cand{}
	for tries := 0; len(sibs) < ncand-1 && tries < 12; tries++ {
		c := g.stateCand(ver, append([]*cand{first}, sibs...))
		if dangerous(c, roots) {
			delete(g.all, c.key())
			continue
		}
		sibs = append(sibs, c)
	}
	// commit order: the finalized state candidate at a random position among its siblings
	pos := g.r.Intn(len(sibs) + 1)
	cands = append(cands, sibs[:pos]...)
	cands = append(cands, first)
	cands = append(cands, sibs[pos:]...)
	if io != nil {
		cands = append(cands, io)
	}
	return cands, roots
}

func (g *gen) prune() step {
	v := g.earliest
	delete(g.fin, v)
	g.earliest = v + 1
	return step{Kind: "prune", Ver: v}
}

func (g *gen) canPrune() bool { return g.hasLatest && g.earliest < g.latest }

func copyFin(m map[uint64][]*cand) map[uint64][]*cand {
	out := map[uint64][]*cand{}
	for k, v := range m {
		out[k] = v
	}
	return out
}

func genPlan(sp spec) *plan {
	if sp.Probe != "" {
		return probePlan(sp)
	}
	r := rand.New(rand.NewSource(sp.HSeed))
	g := &gen{r: r, thorough: sp.Thorough, state: kv.Model{}, removed: map[string][]byte{}, all: map[string]*cand{}, fin: map[uint64][]*cand{}}
	var err error
	if g.shadow, err = kv.OpenDB("badger", "", true); err != nil {
		panic(fmt.Sprintf("c07 generator: shadow database: %v", err))
	}
	defer g.shadow.Close()
	nuni := 8 + r.Intn(18)
	maxVer := 6
	if sp.Thorough {
		nuni = 8 + r.Intn(53)
		maxVer = 25
	}
	g.uni = genUniverse(r, nuni)
	p := &plan{Spec: sp, Uni: g.uni}

	nver := 1 + r.Intn(maxVer)
	if sp.Thorough && r.Intn(3) > 0 {
		nver = 1 + r.Intn(8) // most thorough histories stay short as well; long ones are the minority
	}
	switch sp.Kind {
	case "prune":
		if nver < 2 {
			nver = 2
		}
	case "restore", "abort", "reopen":
		if r.Intn(2) == 0 {
			nver = 0 // restore into an empty database (the usual case)
		}
	}
	for v := uint64(1); v <= uint64(nver); v++ {
		p.Pre = append(p.Pre, g.version(v)...)
		lag := 1 + r.Intn(3)
		for g.canPrune() && r.Intn(3) == 0 && g.latest-g.earliest >= uint64(lag) {
			if sp.Kind == "prune" && v == uint64(nver) && g.latest-g.earliest < 2 {
				break // keep something to prune for O
			}
			p.Pre = append(p.Pre, g.prune())
		}
	}
	next := uint64(nver) + 1

	switch sp.Kind {
	case "commit":
		// optionally a sibling committed before O, so that O's batch gets a non-zero sequence number
		var oc *cand
		var fin []*cand
		if r.Intn(10) < 3 {
			// O commits the IO root of the version; the state root was committed before
			cands, roots := g.candidates(next, 1+r.Intn(2), true)
			for _, c := range cands[:len(cands)-1] {
				p.Pre = append(p.Pre, step{Kind: "commit", Ver: next, C: c})
			}
			oc, fin = cands[len(cands)-1], roots
		} else {
			// O commits the state root that is finalized later; with a sibling committed before it, O's
			// batch gets a non-zero sequence number on pathbadger
			cands, roots := g.candidates(next, 1+r.Intn(2), false)
			for _, c := range cands {
				if c != roots[0] {
					p.Pre = append(p.Pre, step{Kind: "commit", Ver: next, C: c})
				}
			}
			oc, fin = roots[0], roots
		}
		p.O = []step{{Kind: "commit", Ver: next, C: oc}}
		p.Target = next
		p.finPre, p.earlyPre = copyFin(g.fin), g.earliest
		// the suffix first finalizes the version with the root committed by O
		p.Suffix = append(p.Suffix, g.finalize(next, fin))
	case "finalize":
		ncand := 2
		if r.Intn(6) == 0 {
			ncand = 3
		} else if r.Intn(8) == 0 {
			ncand = 1
		}
		cands, roots := g.candidates(next, ncand, r.Intn(2) == 0)
		for _, c := range cands {
			p.Pre = append(p.Pre, step{Kind: "commit", Ver: next, C: c})
		}
		p.finPre, p.earlyPre = copyFin(g.fin), g.earliest
		p.O = []step{g.finalize(next, roots)}
		p.Target = next
	case "prune":
		p.finPre, p.earlyPre = copyFin(g.fin), g.earliest
		p.Target = g.earliest
		p.O = []step{g.prune()}
	default: // restore, abort, reopen
		v := next + uint64(r.Intn(4))
		if nver == 0 && r.Intn(2) == 0 {
			v = 1 + uint64(r.Intn(50))
		}
		// checkpoint contents: the universe plus extra keys with larger values, so that several chunks result
		m := kv.Model{}
		nk := 12 + r.Intn(30)
		if sp.Thorough {
			nk = 12 + r.Intn(150)
		}
		for i := 0; i < nk; i++ {
			var k []byte
			if i < len(g.uni) && r.Intn(2) == 0 {
				k = g.uni[i]
			} else {
				k = make([]byte, 1+r.Intn(12))
				r.Read(k)
			}
			val := make([]byte, 10+r.Intn(120))
			r.Read(val)
			m[string(k)] = val
		}
		c := &cand{Ver: v, Typ: node.RootTypeState, Hash: kv.RefRoot(m), model: m, ParentVer: v}
		c.ParentHash.Empty()
		for _, k := range m.SortedKeys() {
			c.Ops = append(c.Ops, op{K: []byte(k), V: m[k]})
		}
		g.register(c)
		p.MP = &mpSpec{C: c, ChunkSize: uint64(200 + r.Intn(1200)), PreChunks: r.Intn(8)}
		p.orderSeed = r.Int63()
		p.Target = v
		p.finPre, p.earlyPre = copyFin(g.fin), g.earliest
		// after a completed restore the restored root is the finalized state root of version v
		g.finalize(v, []*cand{c})
		next = v
	}

	// suffix: the database keeps working
	nsuf := 1 + r.Intn(2)
	if sp.Thorough {
		nsuf = 1 + r.Intn(4)
	}
	for i := 0; i < nsuf; i++ {
		p.Suffix = append(p.Suffix, g.version(g.latest+1)...)
		if g.canPrune() && r.Intn(2) == 0 {
			p.Suffix = append(p.Suffix, g.prune())
		}
	}
	p.all, p.finEnd, p.earlyEnd, p.maxVer = g.all, copyFin(g.fin), g.earliest, g.maxVer
	return p
}

// hand builds a root by hand: parent's contents (nil = empty root) plus the given operations.
func (g *gen) hand(ver uint64, typ node.RootType, parent *cand, ops ...op) *cand {
	m := kv.Model{}
	c := &cand{Ver: ver, Typ: typ, ParentVer: ver, Ops: ops}
	c.ParentHash.Empty()
	if parent != nil {
		m = parent.model.Clone()
		c.ParentVer, c.ParentHash = parent.Ver, parent.Hash
	}
	for _, o := range ops {
		if o.Del {
			delete(m, string(o.K))
		} else {
			m[string(o.K)] = o.V
		}
	}
	c.model, c.Hash = m, kv.RefRoot(m)
	return g.register(c)
}

func put(k, v string) op { return op{K: []byte(k), V: []byte(v)} }

// probePlan returns the hand-written minimal histories of the known-finding probes.
func probePlan(sp spec) *plan {
	g := &gen{state: kv.Model{}, removed: map[string][]byte{}, all: map[string]*cand{}, fin: map[uint64][]*cand{}}
	g.uni = [][]byte{[]byte("a"), []byte("b"), []byte("c"), []byte("x"), []byte("zz")}
	p := &plan{Spec: sp, Uni: g.uni}
	commit := func(c *cand) step { return step{Kind: "commit", Ver: c.Ver, C: c} }
	bigValue := func(i int) string { return strings.Repeat(string(rune('A'+i)), 150) }
	restorePlan := func(v uint64, parent *cand) {
		// checkpoint contents: parent's contents plus six keys with 150-byte values (several chunks of 300 bytes)
		var ops []op
		for i := 0; i < 6; i++ {
			ops = append(ops, put(fmt.Sprintf("key-%d", i), bigValue(i)))
		}
		c := g.hand(v, node.RootTypeState, parent, ops...)
		c.ParentVer = v
		c.ParentHash.Empty()
		c.Ops = nil
		for _, k := range c.model.SortedKeys() {
			c.Ops = append(c.Ops, op{K: []byte(k), V: c.model[k]})
		}
		p.MP = &mpSpec{C: c, ChunkSize: 300, PreChunks: 1}
		p.Target = v
		p.finPre, p.earlyPre = copyFin(g.fin), g.earliest
		g.finalize(v, []*cand{c})
	}
	switch sp.Probe {
	case "prune-lone-root":
		// v1: state {a} and a lone IO root {x}; v2: state {a,b}; O = prune(v1)
		s1 := g.hand(1, node.RootTypeState, nil, put("a", "1"))
		i1 := g.hand(1, node.RootTypeIO, nil, put("x", "1"))
		p.Pre = append(p.Pre, commit(s1), commit(i1), g.finalize(1, []*cand{s1, i1}))
		s2 := g.hand(2, node.RootTypeState, s1, put("b", "2"))
		p.Pre = append(p.Pre, commit(s2), g.finalize(2, []*cand{s2}))
		p.finPre, p.earlyPre = copyFin(g.fin), g.earliest
		p.Target = 1
		p.O = []step{g.prune()}
		s3 := g.hand(3, node.RootTypeState, s2, put("c", "3"))
		p.Suffix = append(p.Suffix, commit(s3), g.finalize(3, []*cand{s3}), g.prune())
	case "restore-empty":
		// restore of a checkpoint of version 5 into an empty database
		restorePlan(5, nil)
		s6 := g.hand(6, node.RootTypeState, p.MP.C, put("c", "3"))
		p.Suffix = append(p.Suffix, commit(s6), g.finalize(6, []*cand{s6}))
	case "restore-next":
		// v1: state {a}; (partial) restore of a checkpoint of version 2 whose contents extend v1's
		s1 := g.hand(1, node.RootTypeState, nil, put("a", "1"))
		p.Pre = append(p.Pre, commit(s1), g.finalize(1, []*cand{s1}))
		restorePlan(2, s1)
		s3 := g.hand(3, node.RootTypeState, p.MP.C, put("c", "3"))
		p.Suffix = append(p.Suffix, commit(s3), g.finalize(3, []*cand{s3}))
	default:
		panic("unknown probe " + sp.Probe)
	}
	p.all, p.finEnd, p.earlyEnd, p.maxVer = g.all, copyFin(g.fin), g.earliest, g.maxVer
	return p
}

func (p *plan) describe() map[string]any {
	var pre, suf []string
	for _, s := range p.Pre {
		pre = append(pre, s.String())
	}
	for _, s := range p.Suffix {
		suf = append(suf, s.String())
	}
	d := map[string]any{"hseed": p.Spec.HSeed, "backend": p.Spec.Backend, "kind": p.Spec.Kind, "universe": len(p.Uni), "H": pre, "suffix": suf}
	if len(p.O) > 0 {
		d["O"] = p.O[0].String()
	}
	if p.MP != nil {
		d["O"] = fmt.Sprintf("%s of checkpoint(v%d %s, %d keys, chunk size %d, pre-chunks %d)", p.Spec.Kind, p.MP.C.Ver, p.MP.C.Hash.String()[:8], len(p.MP.C.model), p.MP.ChunkSize, p.MP.PreChunks)
	}
	return d
}

// ---------------------------------------------------------------------------------------
// Executing a plan against a node database.

func doCommit(ndb dbApi.NodeDB, c *cand) error {
	var tree mkvs.Tree
	if c.ParentHash.IsEmpty() {
		tree = mkvs.New(nil, ndb, c.Typ)
	} else {
		tree = mkvs.NewWithRoot(nil, ndb, c.parent())
	}
	defer tree.Close()
	for _, o := range c.Ops {
		var err error
		if o.Del {
			err = tree.Remove(ctx, o.K)
		} else {
			err = tree.Insert(ctx, o.K, o.V)
		}
		if err != nil {
			return fmt.Errorf("apply %x: %w", o.K, err)
		}
	}
	_, h, err := tree.Commit(ctx, kv.Namespace, c.Ver)
	if err != nil {
		return err
	}
	if h != c.Hash {
		return fmt.Errorf("committed root %s differs from the reference root %s", h, c.Hash)
	}
	return nil
}

func rootsOf(cs []*cand) []node.Root {
	var rs []node.Root
	for _, c := range cs {
		rs = append(rs, c.root())
	}
	return rs
}

func runStep(ndb dbApi.NodeDB, s step) error {
	switch s.Kind {
	case "commit":
		return doCommit(ndb, s.C)
	case "finalize":
		return ndb.Finalize(rootsOf(s.Roots))
	case "prune":
		return ndb.Prune(s.Ver)
	}
	return fmt.Errorf("unknown step %q", s.Kind)
}

// ckpt is a materialised checkpoint (metadata + chunk bytes).
type ckpt struct {
	meta   *checkpoint.Metadata
	chunks [][]byte
}

func buildCheckpoint(p *plan) (*ckpt, error) {
	src, err := kv.OpenDB("badger", "", true)
	if err != nil {
		return nil, err
	}
	defer src.Close()
	c := p.MP.C
	if err = doCommit(src, c); err != nil {
		return nil, fmt.Errorf("source commit: %w", err)
	}
	if err = src.Finalize([]node.Root{c.root()}); err != nil {
		return nil, fmt.Errorf("source finalize: %w", err)
	}
	dir := kv.TempDir("c07-ckpt-")
	defer os.RemoveAll(dir)
	fc, err := checkpoint.NewFileCreator(dir, src)
	if err != nil {
		return nil, err
	}
	meta, err := fc.CreateCheckpoint(ctx, c.root(), p.MP.ChunkSize, 1)
	if err != nil {
		return nil, fmt.Errorf("create checkpoint: %w", err)
	}
	ck := &ckpt{meta: meta}
	for i := range meta.Chunks {
		cm, err := meta.GetChunkMetadata(uint64(i))
		if err != nil {
			return nil, err
		}
		var buf bytes.Buffer
		if err = fc.GetCheckpointChunk(ctx, cm, &buf); err != nil {
			return nil, err
		}
		ck.chunks = append(ck.chunks, buf.Bytes())
	}
	// chunk order: sequential, or a deterministic permutation
	r := rand.New(rand.NewSource(p.orderSeed))
	p.MP.Order = make([]int, len(ck.chunks))
	for i := range p.MP.Order {
		p.MP.Order[i] = i
	}
	if r.Intn(3) == 0 {
		r.Shuffle(len(p.MP.Order), func(i, j int) { p.MP.Order[i], p.MP.Order[j] = p.MP.Order[j], p.MP.Order[i] })
	}
	return ck, nil
}

// restoreChunks starts a multipart insert and restores the first n chunks of the plan's order.
func restoreChunks(ndb dbApi.NodeDB, p *plan, ck *ckpt, n int) error {
	if err := ndb.StartMultipartInsert(p.MP.C.Ver); err != nil {
		return fmt.Errorf("StartMultipartInsert: %w", err)
	}
	rs, err := checkpoint.NewRestorer(ndb)
	if err != nil {
		return err
	}
	if err = rs.StartRestore(ctx, ck.meta); err != nil {
		return fmt.Errorf("StartRestore: %w", err)
	}
	for j := 0; j < n; j++ {
		idx := p.MP.Order[j]
		if _, err = rs.RestoreChunk(ctx, uint64(idx), bytes.NewReader(ck.chunks[idx])); err != nil {
			return fmt.Errorf("RestoreChunk(%d): %w", idx, err)
		}
	}
	return nil
}

func fullRestore(ndb dbApi.NodeDB, p *plan, ck *ckpt) error {
	if err := restoreChunks(ndb, p, ck, len(ck.chunks)); err != nil {
		return err
	}
	if err := ndb.Finalize([]node.Root{p.MP.C.root()}); err != nil {
		return fmt.Errorf("Finalize of the restored root: %w", err)
	}
	return nil
}

func (p *plan) preChunks(ck *ckpt) int {
	n := len(ck.chunks)
	if n <= 1 {
		return n
	}
	return 1 + p.MP.PreChunks%n // 1..n (n = everything restored, only the finalize is missing)
}

// ---------------------------------------------------------------------------------------
// Observing a database.

type state struct {
	HasLatest bool                `json:"has_latest"`
	Latest    uint64              `json:"latest"`
	Earliest  uint64              `json:"earliest"`
	Roots     map[uint64][]string `json:"roots"` // version -> sorted root keys
	Has       map[string]bool     `json:"has"`   // planned root -> HasRoot
	Read      map[string]string   `json:"read"`  // planned root that is present -> "ok" | "bad: ..." | "err: ..."
	// RootNode: for the root of the multipart kinds, whether its root node can be fetched:
	// "ok" | "root-not-found" | "node-not-found" | other error text.
	RootNode string `json:"root_node,omitempty"`
}

func protect(f func() error) (err error) {
	defer func() {
		if r := recover(); r != nil {
			err = fmt.Errorf("PANIC: %v", r)
		}
	}()
	return f()
}

func errClass(err error) string {
	s := err.Error()
	if len(s) > 90 {
		s = s[:90]
	}
	return s
}

func sortedCandKeys(m map[string]*cand) []string {
	ks := make([]string, 0, len(m))
	for k := range m {
		ks = append(ks, k)
	}
	sort.Strings(ks)
	return ks
}

// quickRead scans a root and compares with the model.
func quickRead(ndb dbApi.NodeDB, c *cand) string {
	var res string
	err := protect(func() error {
		tree := mkvs.NewWithRoot(nil, ndb, c.root())
		defer tree.Close()
		got, err := kv.Scan(ctx, tree)
		if err != nil {
			res = "err: " + errClass(err)
			return nil
		}
		if msg := kv.CompareScan(got, c.model); msg != "" {
			res = "bad: " + msg
			return nil
		}
		res = "ok"
		return nil
	})
	if err != nil {
		return "err: " + errClass(err)
	}
	return res
}

func snapshot(ndb dbApi.NodeDB, p *plan) (*state, error) {
	s := &state{Roots: map[uint64][]string{}, Has: map[string]bool{}, Read: map[string]string{}}
	err := protect(func() error {
		s.Latest, s.HasLatest = ndb.GetLatestVersion()
		s.Earliest = ndb.GetEarliestVersion()
		for v := uint64(0); v <= p.maxVer+1; v++ {
			rs, err := ndb.GetRootsForVersion(v)
			if err != nil {
				return fmt.Errorf("GetRootsForVersion(%d): %w", v, err)
			}
			var ks []string
			for _, r := range rs {
				ks = append(ks, rootKey(r))
			}
			sort.Strings(ks)
			if len(ks) > 0 {
				s.Roots[v] = ks
			}
		}
		for _, k := range sortedCandKeys(p.all) {
			c := p.all[k]
			s.Has[k] = ndb.HasRoot(c.root())
		}
		return nil
	})
	if err != nil {
		return nil, err
	}
	if p.MP != nil {
		root := p.MP.C.root()
		perr := protect(func() error {
			_, err := ndb.GetNode(root, &node.Pointer{Clean: true, Hash: root.Hash})
			switch {
			case err == nil:
				s.RootNode = "ok"
			case errors.Is(err, dbApi.ErrRootNotFound):
				s.RootNode = "root-not-found"
			case errors.Is(err, dbApi.ErrNodeNotFound):
				s.RootNode = "node-not-found"
			default:
				s.RootNode = errClass(err)
			}
			return nil
		})
		if perr != nil {
			s.RootNode = errClass(perr)
		}
	}
	for _, k := range sortedCandKeys(p.all) {
		listed := false
		for _, x := range s.Roots[p.all[k].Ver] {
			if x == k {
				listed = true
			}
		}
		if s.Has[k] || listed {
			s.Read[k] = quickRead(ndb, p.all[k])
		}
	}
	return s, nil
}

func (s *state) meta() string {
	return fmt.Sprintf("latest=%d/%v earliest=%d", s.Latest, s.HasLatest, s.Earliest)
}

func (s *state) String() string {
	b, _ := json.Marshal(s)
	return string(b)
}

func sameList(a, b []string) bool { return strings.Join(a, ",") == strings.Join(b, ",") }

// diffStates compares everything observable; reads only where the reference reads fine.
func diffStates(got, want *state, maxVer uint64) string {
	if got.meta() != want.meta() {
		return fmt.Sprintf("versions %s, uninterrupted run %s", got.meta(), want.meta())
	}
	for v := uint64(0); v <= maxVer+1; v++ {
		if !sameList(got.Roots[v], want.Roots[v]) {
			return fmt.Sprintf("roots of version %d are %v, uninterrupted run %v", v, got.Roots[v], want.Roots[v])
		}
	}
	ks := make([]string, 0, len(want.Has))
	for k := range want.Has {
		ks = append(ks, k)
	}
	sort.Strings(ks)
	for _, k := range ks {
		if got.Has[k] != want.Has[k] {
			return fmt.Sprintf("HasRoot(%s) = %v, uninterrupted run %v", k, got.Has[k], want.Has[k])
		}
		if want.Read[k] == "ok" && got.Read[k] != "ok" {
			return fmt.Sprintf("root %s reads %q, fine in the uninterrupted run", k, got.Read[k])
		}
	}
	return ""
}

// deepCheck: full scan, every key by Get, absent keys, and one verified SyncGet proof.
func deepCheck(ndb dbApi.NodeDB, c *cand, uni [][]byte) string {
	var res string
	err := protect(func() error {
		root := c.root()
		if !ndb.HasRoot(root) {
			res = "HasRoot is false"
			return nil
		}
		rs, err := ndb.GetRootsForVersion(c.Ver)
		if err != nil {
			res = "GetRootsForVersion: " + err.Error()
			return nil
		}
		found := false
		for _, r := range rs {
			if r.Equal(&root) {
				found = true
			}
		}
		if !found {
			res = fmt.Sprintf("not listed by GetRootsForVersion(%d)", c.Ver)
			return nil
		}
		tree := mkvs.NewWithRoot(nil, ndb, root)
		defer tree.Close()
		got, err := kv.Scan(ctx, tree)
		if err != nil {
			res = "scan failed: " + err.Error()
			return nil
		}
		if msg := kv.CompareScan(got, c.model); msg != "" {
			res = msg
			return nil
		}
		t2 := mkvs.NewWithRoot(nil, ndb, root)
		defer t2.Close()
		keys := c.model.SortedKeys()
		for _, k := range keys {
			v, err := t2.Get(ctx, []byte(k))
			if err != nil || !bytes.Equal(v, c.model[k]) || v == nil {
				res = fmt.Sprintf("Get(%x) = %x, %v; model has %d bytes", k, trunc(v), err, len(c.model[k]))
				return nil
			}
		}
		nabs := 0
		for _, k := range uni {
			if _, ok := c.model[string(k)]; ok || nabs >= 3 {
				continue
			}
			nabs++
			if v, err := t2.Get(ctx, k); err != nil || v != nil {
				res = fmt.Sprintf("Get(absent %x) = %x, %v", k, trunc(v), err)
				return nil
			}
		}
		if len(keys) > 0 {
			k := []byte(keys[len(keys)/2])
			t3 := mkvs.NewWithRoot(nil, ndb, root)
			defer t3.Close()
			rsp, err := t3.SyncGet(ctx, &syncer.GetRequest{Tree: syncer.TreeID{Root: root, Position: root.Hash}, Key: k, ProofVersion: 1})
			if err != nil {
				res = fmt.Sprintf("SyncGet(%x): %v", k, err)
				return nil
			}
			var pv syncer.ProofVerifier
			wl, err := pv.VerifyProofToWriteLog(ctx, root.Hash, &rsp.Proof)
			if err != nil {
				res = fmt.Sprintf("proof of %x does not verify: %v", k, err)
				return nil
			}
			ok := false
			for _, e := range wl {
				if bytes.Equal(e.Key, k) && bytes.Equal(e.Value, c.model[string(k)]) {
					ok = true
				}
			}
			if !ok {
				res = fmt.Sprintf("verified proof of %x does not contain the model value", k)
			}
		}
		return nil
	})
	if err != nil {
		return err.Error()
	}
	return res
}

func trunc(b []byte) []byte {
	if len(b) > 12 {
		return b[:12]
	}
	return b
}

func sortedVersions(m map[uint64][]*cand) []uint64 {
	vs := make([]uint64, 0, len(m))
	for v := range m {
		vs = append(vs, v)
	}
	sort.Slice(vs, func(i, j int) bool { return vs[i] < vs[j] })
	return vs
}

// ---------------------------------------------------------------------------------------
// Child process.

const (
	envChild       = "VERIF_C07_CHILD"
	envSpec        = "VERIF_C07_SPEC"
	envDir         = "VERIF_C07_DIR"
	envS0          = "VERIF_C07_S0"
	exitChildError = 3
)

func childFail(format string, args ...any) {
	fmt.Printf("CHILD-ERROR: "+format+"\n", args...)
	os.Exit(exitChildError)
}

// TestC07Child is the crash child: it only does something when re-executed by TestC07Crash.
func TestC07Child(t *testing.T) {
	if os.Getenv(envChild) == "" {
		t.Skip("only runs as a child of TestC07Crash")
	}
	verifhook.Disarm()
	var sp spec
	if err := json.Unmarshal([]byte(os.Getenv(envSpec)), &sp); err != nil {
		childFail("spec: %v", err)
	}
	p := genPlan(sp)
	dir := os.Getenv(envDir)
	var ck *ckpt
	var err error
	if p.MP != nil {
		if ck, err = buildCheckpoint(p); err != nil {
			childFail("checkpoint: %v", err)
		}
	}
	ndb, err := kv.OpenDB(sp.Backend, dir, false)
	if err != nil {
		childFail("open: %v", err)
	}
	for _, s := range p.Pre {
		if err = runStep(ndb, s); err != nil {
			childFail("history step %s: %v", s, err)
		}
	}
	if sp.Kind == "abort" || sp.Kind == "reopen" {
		if err = restoreChunks(ndb, p, ck, p.preChunks(ck)); err != nil {
			childFail("partial restore: %v", err)
		}
	}
	if path := os.Getenv(envS0); path != "" {
		s0, err := snapshot(ndb, p)
		if err != nil {
			childFail("snapshot before O: %v", err)
		}
		if err = os.WriteFile(path, []byte(s0.String()), 0o644); err != nil {
			childFail("write S0: %v", err)
		}
	}
	verifhook.Reset()
	verifhook.Arm()
	switch sp.Kind {
	case "commit", "finalize", "prune":
		err = runStep(ndb, p.O[0])
	case "restore":
		err = fullRestore(ndb, p, ck)
	case "abort":
		err = ndb.AbortMultipartInsert()
	case "reopen":
		ndb.Close()
		ndb, err = kv.OpenDB(sp.Backend, dir, false)
	}
	verifhook.Disarm()
	if err != nil {
		childFail("target operation: %v", err)
	}
	ndb.Close()
}

type childResult struct {
	code int
	out  string
}

func runChild(sp spec, dir string, extra ...string) childResult {
	b, _ := json.Marshal(sp)
	cctx, cancel := context.WithTimeout(ctx, 120*time.Second)
	defer cancel()
	cmd := exec.CommandContext(cctx, os.Args[0], "-test.run", "^TestC07Child$", "-test.count", "1", "-test.timeout", "0")
	env := []string{}
	for _, e := range os.Environ() {
		if strings.HasPrefix(e, "VERIF_CRASH_") || strings.HasPrefix(e, "VERIF_C07_") || strings.HasPrefix(e, "VERIF_EVIDENCE_OUT=") || strings.HasPrefix(e, "VERIF_FAIL_TRACE=") {
			continue
		}
		env = append(env, e)
	}
	env = append(env, envChild+"=1", envSpec+"="+string(b), envDir+"="+dir)
	env = append(env, extra...)
	cmd.Env = env
	out, err := cmd.CombinedOutput()
	res := childResult{out: string(out)}
	if err != nil {
		var ee *exec.ExitError
		if errors.As(err, &ee) {
			res.code = ee.ExitCode()
		} else {
			res.code = -1
			res.out += "\n" + err.Error()
		}
	}
	return res
}

// ---------------------------------------------------------------------------------------
// Known findings (excluded by construction while listed as known; see GUIDE.md).

type knownFinding struct {
	Sig     string
	Backend string
	Kind    map[string]bool
	Site    func(site string, i int, sites []string) bool
	// Whole lists the kinds for which the precondition of the finding is part of every case of a
	// history, the uninterrupted run included; such histories are skipped entirely while excluded.
	Whole map[string]bool
}

func contains(l []string, x string) bool {
	for _, y := range l {
		if x == y {
			return true
		}
	}
	return false
}

// sigFresh: a second multipart restore of the same version (the retry after a crash, an abort or a
// cleanup on open) fails or yields a damaged root.
func sigFresh(backend string) string { return "crash-" + backend + "-multipart-fresh-restore-damaged" }

var knownFindings = []knownFinding{
	{
		// pathbadger reserves a root sequence number per StartMultipartInsert and never gives it back; a
		// second restore of the same version runs with sequence number 1, its nodes land in the pending key
		// space, Finalize copies nothing (chunk commits record no updated nodes) and then deletes them.
		Sig: sigFresh("pathbadger"), Backend: "pathbadger", Kind: map[string]bool{"restore": true, "abort": true, "reopen": true},
		Site: func(_ string, i int, sites []string) bool {
			// the first StartMultipartInsert committed its metadata and the restore was not finalized
			return i >= 2 && !contains(sites[:i], "pathbadger.go:Finalize:after-meta-commit")
		},
		Whole: map[string]bool{"abort": true, "reopen": true},
	},
	{
		// badger Prune flushes the node/root deletions and commits the metadata afterwards; a retry after
		// a crash in between traverses a lone root whose root key is already gone -> ErrRootNotFound forever.
		Sig: "crash-badger-prune-retry-fails", Backend: "badger", Kind: map[string]bool{"prune": true},
		Site: func(site string, _ int, _ []string) bool { return site == "badger.go:Prune:after-batch-flush" },
	},
	{
		// badger Finalize of a restored version commits "last finalized = V" and only afterwards clears the
		// multipart marker; a crash in between makes the next open treat the FINALIZED restore as a leftover
		// and delete every restored node.
		Sig: "crash-badger-restore-restored-root-damaged", Backend: "badger", Kind: map[string]bool{"restore": true},
		Site: func(site string, i int, sites []string) bool {
			return site == "badger.go:Finalize:after-meta-commit" || (site == "badger.go:cleanMultipartLocked:begin" && i > 1 && sites[i-2] == "badger.go:Finalize:after-meta-commit")
		},
	},
}

// sigVisible is the signature of oracle clause (4): after a multipart restore that was not completed
// (crash, abort, cleanup on open) a root of the restored version is still reported. It has more than
// one (kind, site): every crash point between the first completed chunk and the final metadata commit
// of the restore, and every AbortMultipartInsert / cleanup on open. While it is a known finding exactly
// this clause is skipped (counted as discard "excluded:<sig>") and everything behind it is still checked.
// probing is set by the known-finding probes (each runs in a process of its own): no exclusion applies.
var probing bool

func sigVisible(backend string) string {
	return "crash-" + backend + "-multipart-partial-restore-visible"
}

// The known form on badger is "the root ENTRY survives, the restored nodes and the root node are
// removed"; leftovers whose root node can still be fetched are NOT covered by the exclusion (that would
// be a cleanup that did not happen at all). pathbadger's cleanup removes nothing even on the unchanged
// tree (it never writes the restore log), so no such distinction is possible there.
func relaxVisible(backend string, s *state) bool {
	if probing || !ev.Excluded(sigVisible(backend)) {
		return false
	}
	return backend != "badger" || s.RootNode != "ok"
}

// visibleSig names a violation of clause (4): the known form, or - badger only - the stronger form in
// which not even the restored nodes were removed (the root node of the partial restore can be fetched).
func visibleSig(backend string, s *state) string {
	if backend == "badger" && s.RootNode == "ok" {
		return "crash-badger-multipart-leftover-nodes-kept"
	}
	return sigVisible(backend)
}

func excludedHistory(backend, kind string) string {
	for _, kf := range knownFindings {
		if kf.Backend == backend && kf.Whole[kind] && ev.Excluded(kf.Sig) {
			return kf.Sig
		}
	}
	return ""
}

func excludedAt(backend, kind string, i int, sites []string) string {
	for _, kf := range knownFindings {
		if kf.Backend == backend && kf.Kind[kind] && ev.Excluded(kf.Sig) && kf.Site(sites[i-1], i, sites) {
			return kf.Sig
		}
	}
	return ""
}

// ---------------------------------------------------------------------------------------
// Parent.

type violation struct {
	sig, msg string
}

func (v *violation) Error() string { return v.sig + ": " + v.msg }

func viol(sig, format string, args ...any) *violation {
	return &violation{sig: sig, msg: fmt.Sprintf(format, args...)}
}

type outcome struct {
	I      int    `json:"i"`
	Site   string `json:"site"`
	State  string `json:"state"` // applied | not-applied | intermediate
	Retry  string `json:"retry"` // ok | already-done
	Detail string `json:"detail,omitempty"`
	// Relaxed lists the known-finding signatures whose oracle clause was skipped for this case.
	Relaxed []string `json:"relaxed,omitempty"`
}

// retryO repeats the target operation on a reopened database.
func retryO(ndb dbApi.NodeDB, backend, dir string, p *plan, ck *ckpt, cur *state) (dbApi.NodeDB, string, error) {
	res := "ok"
	var err error
	perr := protect(func() error {
		switch p.Spec.Kind {
		case "commit":
			err = runStep(ndb, p.O[0])
		case "finalize":
			err = runStep(ndb, p.O[0])
			if errors.Is(err, dbApi.ErrAlreadyFinalized) && cur.HasLatest && cur.Latest >= p.Target {
				err, res = nil, "already-done"
			}
		case "prune":
			err = runStep(ndb, p.O[0])
			if errors.Is(err, dbApi.ErrNotEarliest) && cur.Earliest == p.Target+1 {
				err, res = nil, "already-done"
			}
		case "restore":
			if cur.HasLatest && cur.Latest == p.Target {
				err = ndb.Finalize([]node.Root{p.MP.C.root()})
				if errors.Is(err, dbApi.ErrAlreadyFinalized) {
					err, res = nil, "already-done"
				}
			} else {
				err = fullRestore(ndb, p, ck)
			}
		case "abort":
			err = ndb.AbortMultipartInsert()
		case "reopen":
			ndb.Close()
			ndb, err = openDB(backend, dir)
		}
		return nil
	})
	if perr != nil {
		err = perr
	}
	return ndb, res, err
}

// openDB opens a database directory in the parent. The parent forks children concurrently; between
// fork and exec such a child still holds a copy of every descriptor of the parent, including the
// directory lock of a database the parent has just closed, so an immediate reopen can fail with
// "Cannot acquire directory lock". That is a property of the harness, not of the database: retry.
func openDB(backend, dir string) (ndb dbApi.NodeDB, err error) {
	for try := 0; try < 200; try++ {
		ndb, err = kv.OpenDB(backend, dir, false)
		if err == nil || !strings.Contains(err.Error(), "Cannot acquire directory lock") {
			return ndb, err
		}
		time.Sleep(25 * time.Millisecond)
	}
	return ndb, err
}

// census returns the set of live raw keys of a (cleanly closed) database directory, read with plain
// badger at the highest timestamp. Used for the operations whose whole point is deleting data
// (Prune, the discard part of Finalize): after the retry exactly the keys of the uninterrupted run
// must be left, otherwise data that nothing will ever delete again has leaked.
func census(dir string) (map[string]bool, error) {
	opts := badger.DefaultOptions(dir).WithReadOnly(true).WithLogger(nil).WithDetectConflicts(false).WithBlockCacheSize(8 << 20)
	var db *badger.DB
	var err error
	for try := 0; try < 200; try++ {
		if db, err = badger.OpenManaged(opts); err == nil || !strings.Contains(err.Error(), "Cannot acquire directory lock") {
			break
		}
		time.Sleep(25 * time.Millisecond)
	}
	if err != nil {
		return nil, err
	}
	defer db.Close()
	txn := db.NewTransactionAt(math.MaxUint64, false)
	defer txn.Discard()
	io := badger.DefaultIteratorOptions
	io.PrefetchValues = false
	it := txn.NewIterator(io)
	defer it.Close()
	out := map[string]bool{}
	for it.Rewind(); it.Valid(); it.Next() {
		out[string(it.Item().Key())] = true
	}
	return out, nil
}

func censusKinds(k string) bool { return k == "prune" || k == "finalize" }

// censusRestore: a completed checkpoint restore removes its restore journal; on badger (whose journal is real) the
// raw key set after a restore that was interrupted inside its Finalize and is found finalized after the reopen must
// equal that of the uninterrupted restore - a leftover journal makes a LATER aborted restore delete live nodes.
func censusRestore(k, backend string) bool { return k == "restore" && backend == "badger" }

func diffCensus(got, want map[string]bool) string {
	var extra, missing []string
	for k := range got {
		if !want[k] {
			extra = append(extra, fmt.Sprintf("%x", k))
		}
	}
	for k := range want {
		if !got[k] {
			missing = append(missing, fmt.Sprintf("%x", k))
		}
	}
	if len(extra)+len(missing) == 0 {
		return ""
	}
	sort.Strings(extra)
	sort.Strings(missing)
	cut := func(l []string) []string {
		if len(l) > 4 {
			return append(l[:4:4], fmt.Sprintf("... (%d)", len(l)))
		}
		return l
	}
	return fmt.Sprintf("%d live raw keys that the uninterrupted run does not have %v, %d missing %v", len(extra), cut(extra), len(missing), cut(missing))
}

// reference holds what the uninterrupted run looks like.
type reference struct {
	census map[string]bool // live raw keys after O (prune / finalize)
	s0, s1 *state          // before O, right after O
	sr, s2 *state          // after repeating O (+ a fresh restore for abort/reopen), after the suffix
	sites  []string
}

// continueAfterO runs what follows the (retried) operation O on ndb: for abort/reopen a fresh
// restore, then the suffix; returns the state after O(+restore) and after the suffix.
//
// fresh says that the restored root stems from a second restore of the same version (after a crash,
// an abort or a cleanup on open) rather than from the first, uninterrupted one.
func continueAfterO(ndb dbApi.NodeDB, p *plan, ck *ckpt, tag string, fresh bool) (afterO, afterSuffix *state, v *violation) {
	b, k := p.Spec.Backend, p.Spec.Kind
	if k == "abort" || k == "reopen" {
		fresh = true
		if err := protect(func() error { return fullRestore(ndb, p, ck) }); err != nil {
			return nil, nil, viol(sigFresh(b), "%s: a fresh restore after the multipart cleanup failed: %v", tag, err)
		}
	}
	var err error
	if afterO, err = snapshot(ndb, p); err != nil {
		return nil, nil, viol(fmt.Sprintf("crash-%s-%s-state-unreadable", b, k), "%s: %v", tag, err)
	}
	if p.MP != nil {
		if msg := deepCheck(ndb, p.MP.C, p.Uni); msg != "" {
			if fresh {
				return nil, nil, viol(sigFresh(b), "%s: a fresh restore of version %d (StartMultipartInsert, all chunks, Finalize) succeeded but the restored root %s: %s", tag, p.Target, p.MP.C.key(), msg)
			}
			return nil, nil, viol(fmt.Sprintf("crash-%s-restore-restored-root-damaged", b), "%s: restored root %s after the completed restore: %s", tag, p.MP.C.key(), msg)
		}
	}
	for _, s := range p.Suffix {
		if err := protect(func() error { return runStep(ndb, s) }); err != nil {
			return nil, nil, viol(fmt.Sprintf("crash-%s-%s-suffix-%s-fails", b, k, s.Kind), "%s: continuing the history failed at %s: %v", tag, s, err)
		}
	}
	if afterSuffix, err = snapshot(ndb, p); err != nil {
		return nil, nil, viol(fmt.Sprintf("crash-%s-%s-state-unreadable", b, k), "%s after the suffix: %v", tag, err)
	}
	for _, ver := range sortedVersions(p.finEnd) {
		if ver < p.earlyEnd {
			continue
		}
		for _, c := range p.finEnd[ver] {
			if msg := deepCheck(ndb, c, p.Uni); msg != "" {
				return nil, nil, viol(fmt.Sprintf("crash-%s-%s-suffix-unreadable", b, k), "%s: after the suffix finalized root %s: %s", tag, c.key(), msg)
			}
		}
	}
	// drain: every retained version but the latest is pruned, oldest first; the roots of the latest version must still read
	// completely (whatever the interrupted operation left out - a link between roots, an index entry - shows when the
	// versions it shares nodes with are gone). A refused Prune ends the drain without a verdict.
	vers := sortedVersions(p.finEnd)
	if n := len(vers); n > 1 {
		latest := vers[n-1]
		drained := true
		for _, ver := range vers[:n-1] {
			if ver < p.earlyEnd {
				continue
			}
			if err := protect(func() error { return ndb.Prune(ver) }); err != nil {
				drained = false
				break
			}
		}
		if drained {
			for _, c := range p.finEnd[latest] {
				if msg := deepCheck(ndb, c, p.Uni); msg != "" {
					return nil, nil, viol(fmt.Sprintf("crash-%s-%s-drain-unreadable", b, k), "%s: after pruning every version below %d the finalized root %s: %s", tag, latest, c.key(), msg)
				}
			}
		}
	}
	return afterO, afterSuffix, nil
}

// checkCrash reopens dir after the child died at hit i and evaluates the oracle.
func checkCrash(p *plan, ck *ckpt, ref *reference, dir string, i int) (out outcome, v *violation) {
	b, k := p.Spec.Backend, p.Spec.Kind
	site := ref.sites[i-1]
	out = outcome{I: i, Site: site}
	tag := fmt.Sprintf("crash at hit %d/%d (%s)", i, len(ref.sites), site)
	sig := func(what string) string { return fmt.Sprintf("crash-%s-%s-%s", b, k, what) }

	var ndb dbApi.NodeDB
	if err := protect(func() error {
		var err error
		ndb, err = openDB(b, dir)
		return err
	}); err != nil {
		return out, viol(sig("reopen-fails"), "%s: reopening the database failed: %v", tag, err)
	}
	defer func() {
		if ndb != nil {
			ndb.Close()
		}
	}()

	sx, err := snapshot(ndb, p)
	if err != nil {
		return out, viol(sig("state-unreadable"), "%s: %v", tag, err)
	}

	// (2) applied or not applied
	if sx.meta() != ref.s0.meta() && sx.meta() != ref.s1.meta() {
		return out, viol(sig("versions"), "%s: after reopen %s; before O %s, after O %s", tag, sx.meta(), ref.s0.meta(), ref.s1.meta())
	}
	inSet := func(l []string, x string) bool {
		for _, y := range l {
			if x == y {
				return true
			}
		}
		return false
	}
	for ver := uint64(0); ver <= p.maxVer+1; ver++ {
		l0, l1, lx := ref.s0.Roots[ver], ref.s1.Roots[ver], sx.Roots[ver]
		if ver != p.Target {
			if !sameList(lx, l0) && !sameList(lx, l1) {
				return out, viol(sig("foreign-version-roots"), "%s: roots of version %d (not touched by O) are %v; before O %v, after O %v", tag, ver, lx, l0, l1)
			}
			continue
		}
		for _, x := range lx {
			if !inSet(l0, x) && !inSet(l1, x) {
				return out, viol(sig("alien-root"), "%s: version %d lists root %s which neither the state before O nor the state after O has", tag, ver, x)
			}
		}
		for _, x := range l0 {
			if inSet(l1, x) && !inSet(lx, x) {
				return out, viol(sig("root-lost"), "%s: version %d lost root %s which exists both before and after O (now %v)", tag, ver, x, lx)
			}
		}
	}
	for _, key := range sortedCandKeys(p.all) {
		h0, h1, hx := ref.s0.Has[key], ref.s1.Has[key], sx.Has[key]
		if hx != h0 && hx != h1 {
			return out, viol(sig("hasroot"), "%s: HasRoot(%s) = %v; before O %v, after O %v", tag, key, hx, h0, h1)
		}
		// the two ways of asking whether a root exists agree (callers such as the storage worker decide from HasRoot
		// whether an operation still has to be repeated): a root that "exists" is listed for its version and vice versa
		if c, rt := p.all[key], p.all[key].root(); !rt.Hash.IsEmpty() {
			listed := inSet(sx.Roots[c.Ver], rootKey(c.root()))
			if l0, l1 := inSet(ref.s0.Roots[c.Ver], rootKey(c.root())), inSet(ref.s1.Roots[c.Ver], rootKey(c.root())); hx != listed && ref.s0.Has[key] == l0 && ref.s1.Has[key] == l1 {
				return out, viol(sig("hasroot-vs-listing"), "%s: HasRoot(%s) = %v but GetRootsForVersion(%d) lists it: %v (the two agree before O and after an uninterrupted O)", tag, key, hx, c.Ver, listed)
			}
		}
	}
	d0, d1 := diffStates(sx, ref.s0, p.maxVer), diffStates(sx, ref.s1, p.maxVer)
	switch {
	case d1 == "":
		out.State = "applied"
	case d0 == "" || (sx.meta() == ref.s0.meta() && fmt.Sprint(sx.Roots) == fmt.Sprint(ref.s0.Roots) && fmt.Sprint(sx.Has) == fmt.Sprint(ref.s0.Has)):
		out.State = "not-applied"
	default:
		out.State = "intermediate"
		out.Detail = d1
	}

	// (1) every version finalized before O is intact (the version being pruned by O is exempt)
	for _, ver := range sortedVersions(p.finPre) {
		if ver < p.earlyPre || ver < sx.Earliest || (k == "prune" && ver == p.Target) {
			continue
		}
		for _, c := range p.finPre[ver] {
			if msg := deepCheck(ndb, c, p.Uni); msg != "" {
				return out, viol(sig("finalized-damaged"), "%s: root %s finalized before O: %s", tag, c.key(), msg)
			}
		}
	}

	// (4) a partially restored checkpoint is not visible
	if p.MP != nil {
		key := p.MP.C.key()
		if sx.HasLatest && sx.Latest == p.Target {
			if msg := deepCheck(ndb, p.MP.C, p.Uni); msg != "" {
				return out, viol(sig("restored-root-damaged"), "%s: version %d is reported as finalized but the restored root %s: %s", tag, p.Target, key, msg)
			}
		} else if (sx.Has[key] || len(sx.Roots[p.Target]) > 0) && relaxVisible(b, sx) {
			out.Relaxed = append(out.Relaxed, sigVisible(b))
		} else if sx.Has[key] || len(sx.Roots[p.Target]) > 0 {
			return out, viol(visibleSig(b, sx), "%s: the restore of version %d was not completed (latest %s) but HasRoot(%s) = %v and GetRootsForVersion = %v (root node: %s, read: %q)", tag, p.Target, sx.meta(), key, sx.Has[key], sx.Roots[p.Target], sx.RootNode, sx.Read[key])
		}
	}

	// (3) repeating O succeeds (or reports already-done) and ends in the state of an uninterrupted run
	var rerr error
	ndb, out.Retry, rerr = retryO(ndb, b, dir, p, ck, sx)
	if rerr != nil && k == "restore" {
		return out, viol(sigFresh(b), "%s: state after reopen %s (%s); a fresh restore failed: %v", tag, out.State, sx.meta(), rerr)
	}
	if rerr != nil {
		return out, viol(sig("retry-fails"), "%s: state after reopen %s (%s); repeating O failed: %v", tag, out.State, sx.meta(), rerr)
	}
	if out.Retry == "already-done" && out.State != "applied" {
		return out, viol(sig("retry-refused"), "%s: O reports already-done but the state after reopen differs from the uninterrupted run: %s", tag, out.Detail)
	}
	if censusKinds(k) || (censusRestore(k, b) && sx.HasLatest && sx.Latest == p.Target && ref.census != nil) {
		// (3b) nothing that O was supposed to delete is left behind
		ndb.Close()
		got, cerr := census(dir)
		var oerr error
		if ndb, oerr = openDB(b, dir); oerr != nil {
			return out, viol(sig("reopen-fails"), "%s: second reopen failed: %v", tag, oerr)
		}
		if cerr != nil {
			return out, viol(sig("raw-unreadable"), "%s: raw key census failed: %v", tag, cerr)
		}
		if d := diffCensus(got, ref.census); d != "" {
			return out, viol(sig("leaks-data"), "%s: state after reopen %s; after repeating O (%s) the database holds %s", tag, out.State, out.Retry, d)
		}
	}
	// (4b)+(5) fresh restore where applicable, then the suffix
	afterO, afterSuffix, v := continueAfterO(ndb, p, ck, tag, k == "restore" && !(sx.HasLatest && sx.Latest == p.Target))
	if v != nil {
		return out, v
	}
	if d := diffStates(afterO, ref.sr, p.maxVer); d != "" {
		return out, viol(sig("retry-outcome"), "%s: state after reopen %s; after repeating O (%s): %s", tag, out.State, out.Retry, d)
	}
	if d := diffStates(afterSuffix, ref.s2, p.maxVer); d != "" {
		return out, viol(sig("suffix-outcome"), "%s: after the suffix: %s", tag, d)
	}
	return out, nil
}

func parseSites(path string) ([]string, error) {
	b, err := os.ReadFile(path)
	if err != nil {
		if os.IsNotExist(err) {
			return nil, nil
		}
		return nil, err
	}
	var sites []string
	for n, line := range strings.Split(strings.TrimSpace(string(b)), "\n") {
		if line == "" {
			continue
		}
		f := strings.SplitN(line, " ", 2)
		if len(f) != 2 || f[0] != strconv.Itoa(n+1) {
			return nil, fmt.Errorf("malformed crash log line %d: %q", n+1, line)
		}
		sites = append(sites, f[1])
	}
	return sites, nil
}

type infraErr struct{ msg string }

func (e *infraErr) Error() string { return e.msg }

type historyResult struct {
	plan     *plan
	sites    []string
	outcomes []outcome
	skipped  map[int]string
	relaxed  []string
	skipAll  string
	// notAccepted: the uninterrupted pre-history failed in the count-mode child (no crash involved).
	notAccepted string
	viol        *violation
	violAt      int
	infra       error
}

// runHistory enumerates every crash point of one (H, O).
//
// onlyIndex > 0 restricts the enumeration to one crash index, onlySite != "" to the first hit of that
// site ("-" = no crash at all, only the uninterrupted run is evaluated); noExclusion ignores the
// known-finding exclusions (probes).
func runHistory(sp spec, work string, onlyIndex int, onlySite string, noExclusion bool) (res historyResult) {
	p := genPlan(sp)
	res.plan = p
	res.skipped = map[int]string{}
	infra := func(format string, args ...any) historyResult {
		res.infra = &infraErr{fmt.Sprintf(format, args...)}
		return res
	}
	var ck *ckpt
	var err error
	if p.MP != nil {
		if ck, err = buildCheckpoint(p); err != nil {
			return infra("checkpoint: %v", err)
		}
	}
	hdir, err := os.MkdirTemp(work, fmt.Sprintf("h%d-", sp.HSeed&0xffff))
	if err != nil {
		return infra("mkdir: %v", err)
	}
	if os.Getenv("VERIF_C07_KEEP") == "" {
		defer os.RemoveAll(hdir)
	}

	// COUNT mode
	refDir := filepath.Join(hdir, "ref")
	logPath, s0Path := filepath.Join(hdir, "hits.log"), filepath.Join(hdir, "s0.json")
	cr := runChild(sp, refDir, "VERIF_CRASH_LOG="+logPath, envS0+"="+s0Path)
	if cr.code == exitChildError && strings.Contains(cr.out, "CHILD-ERROR: history step") {
		// the uninterrupted history itself is not accepted by the backend: not a crash matter (C06's domain)
		res.notAccepted = tail(cr.out)
		return res
	}
	if cr.code != 0 {
		return infra("count-mode child of %v exited with %d: %s", p.describe(), cr.code, tail(cr.out))
	}
	sites, err := parseSites(logPath)
	if err != nil {
		return infra("crash log: %v", err)
	}
	res.sites = sites
	if len(sites) == 0 && sp.Kind == "reopen" {
		// H ends with StartMultipartInsert + at least one restored chunk: opening the database must clean
		// up (at least reset the persisted multipart marker), i.e. perform durable writes.
		res.viol, res.violAt = viol(fmt.Sprintf("crash-%s-reopen-no-cleanup", sp.Backend), "reopening a database with a leftover multipart restore of version %d (%d chunks restored, not finalized) performed no cleanup write at all", p.Target, p.preChunks(ck)), 1
		return res
	}
	if len(sites) == 0 {
		return infra("no crash site was hit inside O of %v", p.describe())
	}
	if res.skipAll = excludedHistory(sp.Backend, sp.Kind); res.skipAll != "" && !noExclusion {
		return res // every case of this history meets the precondition of an excluded finding
	}
	res.skipAll = ""
	if !strings.HasSuffix(sites[0], ":begin") || !strings.HasSuffix(sites[len(sites)-1], ":end") {
		return infra("first/last hit of O are not a begin/end site: %v", sites)
	}
	ref := &reference{sites: sites, s0: &state{}}
	b0, err := os.ReadFile(s0Path)
	if err == nil {
		err = json.Unmarshal(b0, ref.s0)
	}
	if err != nil {
		return infra("S0: %v", err)
	}

	// the uninterrupted run: state after O, repeat O on it (nothing may change), suffix
	rdb, err := openDB(sp.Backend, refDir)
	if err != nil {
		return infra("reopen of the uninterrupted run: %v", err)
	}
	closeRef := func() { rdb.Close() }
	if ref.s1, err = snapshot(rdb, p); err != nil {
		closeRef()
		return infra("snapshot of the uninterrupted run: %v", err)
	}
	sig := func(what string) string { return fmt.Sprintf("crash-%s-%s-%s", sp.Backend, sp.Kind, what) }
	nocrash := fmt.Sprintf("uninterrupted run (all %d hits passed)", len(sites))
	refViol := func(v *violation) historyResult {
		closeRef()
		res.viol, res.violAt = v, len(sites)+1
		return res
	}
	if sp.Kind == "abort" || sp.Kind == "reopen" {
		key := p.MP.C.key()
		if (ref.s1.Has[key] || len(ref.s1.Roots[p.Target]) > 0) && relaxVisible(sp.Backend, ref.s1) {
			res.relaxed = append(res.relaxed, sigVisible(sp.Backend))
		} else if ref.s1.Has[key] || len(ref.s1.Roots[p.Target]) > 0 {
			return refViol(viol(visibleSig(sp.Backend, ref.s1), "%s: the restore of version %d was aborted/cleaned up but HasRoot(%s) = %v and GetRootsForVersion = %v (root node: %s, read: %q)", nocrash, p.Target, key, ref.s1.Has[key], ref.s1.Roots[p.Target], ref.s1.RootNode, ref.s1.Read[key]))
		}
	}
	rdb, _, err = retryO(rdb, sp.Backend, refDir, p, ck, ref.s1)
	if err != nil {
		return refViol(viol(sig("retry-fails"), "%s: repeating O failed: %v", nocrash, err))
	}
	if censusKinds(sp.Kind) || censusRestore(sp.Kind, sp.Backend) {
		rdb.Close()
		ref.census, err = census(refDir)
		if err != nil {
			return infra("raw key census of the uninterrupted run: %v", err)
		}
		if rdb, err = openDB(sp.Backend, refDir); err != nil {
			return infra("reopen of the uninterrupted run: %v", err)
		}
	}
	var v *violation
	if ref.sr, ref.s2, v = continueAfterO(rdb, p, ck, nocrash, false); v != nil {
		return refViol(v)
	}
	if sp.Kind != "abort" && sp.Kind != "reopen" {
		if d := diffStates(ref.sr, ref.s1, p.maxVer); d != "" {
			return refViol(viol(sig("retry-outcome"), "%s: repeating O changed the state: %s", nocrash, d))
		}
	}
	closeRef()

	if onlySite != "" {
		onlyIndex = len(sites) + 1 // nothing
		for i, s := range sites {
			if s == onlySite {
				onlyIndex = i + 1
				break
			}
		}
	}

	// crash at every hit
	n := len(sites)
	outs := make([]outcome, n+1)
	viols := make([]*violation, n+1)
	infras := make([]error, n+1)
	var wg sync.WaitGroup
	jobs := make(chan int)
	workers := 2
	for w := 0; w < workers; w++ {
		wg.Add(1)
		go func() {
			defer wg.Done()
			for i := range jobs {
				dir := filepath.Join(hdir, fmt.Sprintf("crash%03d", i))
				cr := runChild(sp, dir, "VERIF_CRASH_AT="+strconv.Itoa(i))
				if cr.code != verifhook.ExitCode {
					infras[i] = &infraErr{fmt.Sprintf("child with VERIF_CRASH_AT=%d (site %s) of %v exited with %d, want %d: %s", i, sites[i-1], p.describe(), cr.code, verifhook.ExitCode, tail(cr.out))}
					continue
				}
				outs[i], viols[i] = checkCrash(p, ck, ref, dir, i)
				os.RemoveAll(dir)
			}
		}()
	}
	for i := 1; i <= n; i++ {
		if onlyIndex > 0 && i != onlyIndex {
			continue
		}
		if s := excludedAt(sp.Backend, sp.Kind, i, sites); s != "" && !noExclusion {
			res.skipped[i] = s
			continue
		}
		jobs <- i
	}
	close(jobs)
	wg.Wait()
	for i := 1; i <= n; i++ {
		if infras[i] != nil {
			res.infra = infras[i]
			return res
		}
	}
	for i := 1; i <= n; i++ {
		if viols[i] != nil && res.viol == nil {
			res.viol, res.violAt = viols[i], i
		}
		if _, skip := res.skipped[i]; !skip && (onlyIndex <= 0 || i == onlyIndex) {
			res.outcomes = append(res.outcomes, outs[i])
		}
	}
	return res
}

func tail(s string) string {
	if len(s) > 1500 {
		return s[len(s)-1500:]
	}
	return s
}

func envInt(name string, def int) int {
	if v, err := strconv.Atoi(os.Getenv(name)); err == nil {
		return v
	}
	return def
}

func hseed(seed int64, g int, thorough bool) int64 {
	x := uint64(seed)*0x9E3779B97F4A7C15 + uint64(g)*0xD1B54A32D192ED03 + 0x2545F4914F6CDD1D
	if thorough {
		x ^= 0xA5A5A5A5
	}
	x ^= x >> 29
	x *= 0xBF58476D1CE4E5B9
	x ^= x >> 32
	return int64(x >> 1)
}

func specFor(seed int64, g int, thorough bool) spec {
	return spec{HSeed: hseed(seed, g, thorough), Backend: kv.Backends[g%2], Kind: kinds[(g/2)%len(kinds)], Thorough: thorough}
}

const rule = "case = (history, crash index): a history H generated from a harness-owned seeded PRNG (0-6 versions quick / up to 25 thorough on an on-disk badger or pathbadger node database: 1-3 candidate state roots per version " +
	"built from real changes over a prefix-heavy key universe, optional IO roots, finalize, occasional prune) followed by ONE target operation O (commit, finalize with discarded siblings, prune, multipart checkpoint restore " +
	"= StartMultipartInsert + all chunks + Finalize, AbortMultipartInsert of a partial restore, reopen with a leftover partial restore); a child process runs H;O once in count mode to learn the n crash-site hits inside O, then " +
	"for EVERY i in 1..n a fresh child re-executes H;O and dies with os.Exit(77) at hit i; the parent reopens the directory and checks: (1) every root finalized before O passes full scan + Get of every key + absent keys + one " +
	"verified SyncGet proof against the model (reference root hashes are computed independently), (2) latest/earliest versions are those before O or after O, untouched versions list exactly their roots, the touched version lists " +
	"only roots of the before/after states, (3) repeating O succeeds or reports already-done and yields exactly the observable state of the uninterrupted run (versions, root lists, HasRoot, contents of every root the uninterrupted " +
	"run can read), (3b) for Prune and Finalize - whose effect includes deleting data - the set of live raw badger keys after the retry equals that of the uninterrupted run (nothing leaks that no later operation deletes), (4) an unfinished restore shows no root of the restored version (HasRoot false, empty root list) and a fresh restore yields the checkpointed contents, (5) a generated commit/finalize/prune suffix succeeds, ends " +
	"in the state of the uninterrupted run and every finalized root passes the deep read check; the uninterrupted run itself is checked the same way (crash index n+1), and reopening a database with a leftover partial restore must perform cleanup writes at all. " +
	"The generator stays clear of the C06 findings (a discarded sibling never re-puts a node of the finalized root - measured by a dry run of every candidate commit; IO trees use their own key space; no empty or unchanged roots). " +
	"non-trivial = crash index strictly between the first and the last durable write of O (1 < i < n; hit 1 is a ':begin' site, hit n an ':end' site); distinct = hash of (history seed, backend, kind, crash index)"

// TestC07Crash is the fault enumeration.
func TestC07Crash(t *testing.T) {
	rec := ev.New("C07", "TestC07Crash", rule,
		"crash = abrupt process death (os.Exit in the child, no deferred functions, no Close) with the operating system still running; power loss is not modelled (the database runs with NoFsync as under the consensus layer)",
		"crash points are the verifhook.Crash sites between successive durable writes (WriteBatch.Flush, Txn.CommitAt, metadata commit) of the node database code; flushes that badger performs internally inside a large WriteBatch are not crash points",
		"an interrupted operation may legitimately be either applied or not applied; the version being pruned by an interrupted Prune is exempt from the readability check")
	defer rec.Flush()
	verifhook.Disarm()
	rec.Extra("exhaustive_per_history", true)

	shard, nshards := envInt("VERIF_SHARD", 0), envInt("VERIF_NSHARDS", 1)
	seed := int64(envInt("VERIF_SEED", 1))
	perShard := ev.Pick(12, 240)
	perShard = envInt("VERIF_C07_HISTORIES", perShard)
	work := os.Getenv("VERIF_WORK")
	if work == "" {
		work = t.TempDir()
	}
	onlyG, onlyI := -1, 0
	if rp := os.Getenv("VERIF_REPLAY"); rp != "" {
		var meta struct {
			G *int `json:"history"`
			I int  `json:"crash_index"`
		}
		if b, err := os.ReadFile(rp); err == nil && json.Unmarshal(b, &meta) == nil && meta.G != nil {
			onlyG, onlyI = *meta.G, meta.I
		}
	}

	if o := os.Getenv("VERIF_C07_ONLY"); o != "" { // manual debugging: "<history>:<crash index>"
		f := strings.SplitN(o, ":", 2)
		onlyG, _ = strconv.Atoi(f[0])
		if len(f) > 1 {
			onlyI, _ = strconv.Atoi(f[1])
		}
		perShard = onlyG/nshards + 1
	}
	var hitsTotal, histories uint64
	notAccepted := 0
	for j := 0; j < perShard; j++ {
		g := shard + nshards*j
		if onlyG >= 0 && g != onlyG {
			continue
		}
		sp := specFor(seed, g, ev.Thorough())
		res := runHistory(sp, work, onlyI, "", false)
		if res.infra != nil {
			ev.Infra(t, "history %d: %v", g, res.infra)
		}
		p := res.plan
		if res.notAccepted != "" {
			rec.Discard("uninterrupted-history-not-accepted:" + sp.Backend)
			notAccepted++
			if notAccepted*5 > perShard+5 {
				ev.Infra(t, "too many generated histories fail without any crash (%d of %d), last: %s", notAccepted, j+1, res.notAccepted)
			}
			continue
		}
		if res.skipAll != "" {
			rec.Discard("excluded-history:" + res.skipAll)
			continue
		}
		histories++
		hitsTotal += uint64(len(res.sites))
		rec.Label("op:" + sp.Backend + ":" + sp.Kind)
		rec.Label("backend:" + sp.Backend)
		rec.Label("kind:" + sp.Kind)
		rec.Label(fmt.Sprintf("hits-per-history:%02d-%02d", len(res.sites)/5*5, len(res.sites)/5*5+4))
		for _, s := range res.skipped {
			rec.Discard("excluded:" + s)
		}
		for _, s := range res.relaxed {
			rec.Discard("excluded:" + s)
		}
		for _, o := range res.outcomes {
			for _, s := range o.Relaxed {
				rec.Discard("excluded:" + s)
			}
		}
		if res.viol != nil {
			desc := p.describe()
			desc["sites"] = res.sites
			desc["crash_index"] = res.violAt
			ev.Trace = func() any { return desc }
			rp, _ := json.Marshal(map[string]any{"property": "C07", "test": "TestC07Crash", "seed": seed, "shard": shard, "nshards": nshards,
				"tier": ev.Tier(), "history": g, "crash_index": res.violAt, "signature": res.viol.sig, "case": desc})
			_ = os.WriteFile(filepath.Join(work, "replay.json"), rp, 0o644)
			dj, _ := json.Marshal(desc)
			ev.Violation(t, res.viol.sig, "%s; history %d (VERIF_SEED=%d shard %d/%d tier %s): %s", res.viol.msg, g, seed, shard, nshards, ev.Tier(), dj)
		}
		n := len(res.sites)
		var sample any
		for _, o := range res.outcomes {
			nt := o.I > 1 && o.I < n
			rec.Label("site:" + sp.Backend + ":" + sp.Kind + ":" + o.Site)
			rec.Label("state:" + o.State + ":" + sp.Backend + ":" + sp.Kind)
			rec.Label("retry:" + o.Retry)
			sample = nil
			if nt && o.I == n-1 && rec.WantSample() {
				d := p.describe()
				d["sites"] = res.sites
				d["outcomes"] = res.outcomes
				sample = d
			}
			rec.Case(nt, ev.Fingerprint(sp.HSeed, sp.Backend, sp.Kind, o.I), sample)
		}
	}
	rec.Extra("histories", histories)
	rec.Extra("crash_hits", hitsTotal)
}

// ---------------------------------------------------------------------------------------
// Known-finding probes: minimal deterministic reproductions. Each raises the signature of its finding
// while it still reproduces (the driver prints KNOWN-FINDING while the finding is listed as known).

func probe(t *testing.T, name, rule string, sp spec, site, wantSig string, extra func(work string) string) {
	rec := ev.New("C07", name, rule)
	defer rec.Flush()
	verifhook.Disarm()
	for _, x := range strings.Split(os.Getenv("VERIF_EXCLUDE_EXTRA"), ",") {
		if x == wantSig && x != "" {
			// silenced by hand while investigating (a signature listed in known_findings.json arrives in
			// VERIF_EXCLUDE and keeps being probed, so that the driver prints KNOWN-FINDING)
			rec.Discard("silenced:" + wantSig)
			rec.Case(false, ev.Fingerprint(name, "silenced"), nil)
			return
		}
	}
	work := os.Getenv("VERIF_WORK")
	if work == "" {
		work = t.TempDir()
	}
	probing = true
	res := runHistory(sp, work, 0, site, true)
	if res.infra != nil {
		ev.Infra(t, "%v", res.infra)
	}
	if res.viol != nil {
		more := ""
		if extra != nil && res.viol.sig == wantSig {
			more = extra(work)
		}
		d, _ := json.Marshal(res.plan.describe())
		ev.Violation(t, res.viol.sig, "%s%s; minimal history: %s", res.viol.msg, more, d)
	}
	rec.Case(true, ev.Fingerprint(name, "held"), "the finding did not reproduce: the oracle held at site "+site)
}

// TestC07KFBadgerPruneRetry: badger, v1 = state root + lone IO root, v2 = state root, Prune(1) dies
// between the batch flush and the metadata commit; after reopen Prune(1) fails with "root not found"
// (and will fail forever: the version can never be pruned).
func TestC07KFBadgerPruneRetry(t *testing.T) {
	probe(t, "TestC07KFBadgerPruneRetry", "deterministic probe: badger, v1 {state a; IO x} v2 {state a,b}; Prune(1) killed at badger.go:Prune:after-batch-flush; reopen; Prune(1) must succeed",
		spec{Backend: "badger", Kind: "prune", Probe: "prune-lone-root"}, "badger.go:Prune:after-batch-flush", "crash-badger-prune-retry-fails", nil)
}

// TestC07KFBadgerRestoreFinalizeCrash: badger, checkpoint restore into an empty database, the process
// dies in Finalize right after "last finalized version = 5" was committed and before the multipart
// marker is cleared: the next open deletes every node of the finalized version.
func TestC07KFBadgerRestoreFinalizeCrash(t *testing.T) {
	probe(t, "TestC07KFBadgerRestoreFinalizeCrash", "deterministic probe: badger, empty database, StartMultipartInsert(5) + all chunks + Finalize killed at badger.go:Finalize:after-meta-commit; reopen; version 5 is reported as finalized and must be readable",
		spec{Backend: "badger", Kind: "restore", Probe: "restore-empty"}, "badger.go:Finalize:after-meta-commit", "crash-badger-restore-restored-root-damaged", nil)
}

// TestC07KFBadgerPartialRestoreVisible: badger, no crash needed: v1 finalized, StartMultipartInsert(2),
// one chunk, AbortMultipartInsert: HasRoot / GetRootsForVersion still report the root of version 2
// although its nodes were removed. Consequence shown by the probe: when the same root is later
// committed normally the commit is skipped as "root already exists", Finalize(2) succeeds and the
// finalized version is unreadable.
func TestC07KFBadgerPartialRestoreVisible(t *testing.T) {
	sp := spec{Backend: "badger", Kind: "abort", Probe: "restore-next"}
	probe(t, "TestC07KFBadgerPartialRestoreVisible", "deterministic probe: badger, v1 finalized, StartMultipartInsert(2) + 1 chunk + AbortMultipartInsert (no crash): no root of version 2 may be reported",
		sp, "-", sigVisible("badger"), func(work string) string { return staleRootConsequence(sp, work) })
}

// TestC07KFPathbadgerPartialRestoreVisible: the same on pathbadger (which never writes the restore
// log, so abort / cleanup on open remove nothing: root key and nodes of the partial restore stay).
func TestC07KFPathbadgerPartialRestoreVisible(t *testing.T) {
	sp := spec{Backend: "pathbadger", Kind: "abort", Probe: "restore-next"}
	probe(t, "TestC07KFPathbadgerPartialRestoreVisible", "deterministic probe: pathbadger, v1 finalized, StartMultipartInsert(2) + 1 chunk + AbortMultipartInsert (no crash): no root of version 2 may be reported",
		sp, "-", sigVisible("pathbadger"), nil)
}

// TestC07KFPathbadgerSecondRestore: pathbadger, the process dies right after StartMultipartInsert(5)
// committed its metadata (nothing restored yet); after reopen a complete fresh restore
// (StartMultipartInsert, all chunks, Finalize) reports success but the finalized root has no nodes.
func TestC07KFPathbadgerSecondRestore(t *testing.T) {
	probe(t, "TestC07KFPathbadgerSecondRestore", "deterministic probe: pathbadger, empty database, StartMultipartInsert(5) killed at multipart.go:StartMultipartInsert:end; reopen; a fresh complete restore + Finalize must yield the checkpointed contents",
		spec{Backend: "pathbadger", Kind: "restore", Probe: "restore-empty"}, "multipart.go:StartMultipartInsert:end", sigFresh("pathbadger"), nil)
}

// staleRootConsequence replays (in-process, no crash) what the stale root entry leads to.
func staleRootConsequence(sp spec, work string) string {
	p := genPlan(sp)
	ck, err := buildCheckpoint(p)
	if err != nil {
		return ""
	}
	dir, err := os.MkdirTemp(work, "stale-")
	if err != nil {
		return ""
	}
	defer os.RemoveAll(dir)
	ndb, err := openDB(sp.Backend, dir)
	if err != nil {
		return ""
	}
	defer ndb.Close()
	out := ""
	_ = protect(func() error {
		for _, s := range p.Pre {
			if err := runStep(ndb, s); err != nil {
				return err
			}
		}
		if err := restoreChunks(ndb, p, ck, p.preChunks(ck)); err != nil {
			return err
		}
		if err := ndb.AbortMultipartInsert(); err != nil {
			return err
		}
		// the same root reached by a normal commit on top of version 1
		last := p.Pre[len(p.Pre)-1].Roots[0]
		c := &cand{Ver: p.MP.C.Ver, Typ: node.RootTypeState, ParentVer: last.Ver, ParentHash: last.Hash, Hash: p.MP.C.Hash, model: p.MP.C.model}
		for _, k := range c.model.SortedKeys() {
			if _, ok := last.model[k]; !ok {
				c.Ops = append(c.Ops, op{K: []byte(k), V: c.model[k]})
			}
		}
		if err := doCommit(ndb, c); err != nil {
			out = fmt.Sprintf("; consequence: a later normal commit of the same root fails: %v", err)
			return nil
		}
		if err := ndb.Finalize([]node.Root{c.root()}); err != nil {
			out = fmt.Sprintf("; consequence: normal commit of the same root succeeded, Finalize failed: %v", err)
			return nil
		}
		if msg := deepCheck(ndb, c, p.Uni); msg != "" {
			out = fmt.Sprintf("; consequence: the same root committed normally afterwards (tree.Commit ok, skipped as 'root already exists') and finalized (Finalize ok) is unreadable: %s", msg)
		} else {
			out = "; (a later normal commit + finalize of the same root reads fine)"
		}
		return nil
	})
	return out
}
