package c07

import (
	"fmt"
	"os"
	"testing"

	"github.com/oasisprotocol/oasis-core/go/storage/mkvs/node"
	"verifharness/kv"
)

func TestDbg(t *testing.T) {
	seed, g := int64(envInt("DBG_SEED", 2)), envInt("DBG_G", 176)
	sp := specFor(seed, g, false)
	p := genPlan(sp)
	fmt.Println(p.describe())
	for _, mode := range []string{"normal", "restore", "abort+restore"} {
		dir, _ := os.MkdirTemp("", "dbg")
		ndb, err := kv.OpenDB(sp.Backend, dir, false)
		if err != nil {
			t.Fatal(err)
		}
		for _, s := range p.Pre {
			if err := runStep(ndb, s); err != nil {
				t.Fatal(err)
			}
		}
		var fin []*cand
		if p.MP != nil {
			ck, _ := buildCheckpoint(p)
			switch mode {
			case "normal":
				if err := doCommit(ndb, p.MP.C); err != nil {
					t.Fatal(err)
				}
				if err := ndb.Finalize([]node.Root{p.MP.C.root()}); err != nil {
					t.Fatal(err)
				}
			case "restore":
				if err := fullRestore(ndb, p, ck); err != nil {
					t.Fatal(err)
				}
			default:
				if err := restoreChunks(ndb, p, ck, p.preChunks(ck)); err != nil {
					t.Fatal(err)
				}
				if err := ndb.AbortMultipartInsert(); err != nil {
					t.Fatal(err)
				}
				if err := fullRestore(ndb, p, ck); err != nil {
					t.Fatal(err)
				}
			}
			fin = append(fin, p.MP.C)
		}
		for _, s := range p.Suffix {
			err := runStep(ndb, s)
			fmt.Println(mode, s, "->", err)
			if s.Kind == "finalize" {
				fin = s.Roots
			}
			for _, c := range fin {
				if msg := deepCheck(ndb, c, p.Uni); msg != "" {
					fmt.Println("   root", c.key(), "BROKEN:", msg)
				}
			}
		}
		ndb.Close()
		os.RemoveAll(dir)
	}
}
