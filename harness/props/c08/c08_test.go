// Package c08 decides property C08: a failed transaction changes nothing but fee and nonce.
package c08

import (
	"bytes"
	"errors"
	"fmt"
	"math/big"
	"strings"
	"testing"

	"github.com/cometbft/cometbft/abci/types"
	"pgregory.net/rapid"

	"github.com/oasisprotocol/oasis-core/go/common/cbor"
	"github.com/oasisprotocol/oasis-core/go/common/quantity"
	staking "github.com/oasisprotocol/oasis-core/go/staking/api"

	"verifharness/chain"
	"verifharness/ev"
)

const rule = "case = generated genesis + history of 6-25 blocks driven on a prober replica and a clean twin; at generated probing points 5-15 candidate transactions (every buildable method, valid or with one aspect invalidated incl. every gas exhaustion " +
	"point, wrong signer, wrong nonce, fee above balance, malformed, unknown method, oversized) are each executed ALONE in an uncommitted block (BeginBlock, DeliverTx, EndBlock) and the complete working state is diffed against the same block without " +
	"the transaction. oracle = for a transaction with non-zero result code: if an independent predicate (stdlib ed25519 over the harness-computed digest, nonce, balance >= fee + minimum, not reserved/system/oversized) says it fails authentication the diff must " +
	"be EMPTY; otherwise the diff may only touch the signer's account (nonce +1, balance -fee, nothing else), the proposer entity's balance, the common pool and last-block-fees, with the increases summing to exactly the fee. A failed candidate AMONG OTHERS: the block's own generated transactions executed with and without one failing candidate inserted at a generated position (its signer independent of the block, no block gas limit) - every other transaction's result (code, data, gas) is identical and the working state differs in the fee keys only. Separately: CheckTx (new/recheck) " +
	"and EstimateGas of all candidates leave the committed state (read from the node database) byte-identical, and the prober's AppHash equals the clean twin's at every height. non-trivial = a failing candidate that passed authentication (fee/nonce charged) " +
	"with gas used or an application error; distinct = hash of spec, block ids and candidate bytes"

func q2b(q quantity.Quantity) *big.Int { return q.ToBigInt() }

func TestC08FailedTx(t *testing.T) {
	rec := ev.New("C08", "TestC08FailedTx", rule,
		"the probed transaction is the only transaction of the probe block",
		"events are not part of the consensus state and are excluded from the diff")
	defer rec.Flush()
	var cur *chain.Sim
	var curSpec *chain.Spec
	ev.Trace = func() any {
		if cur == nil {
			return nil
		}
		return map[string]any{"spec": curSpec, "trace": cur.Trace}
	}
	rapid.Check(t, func(t *rapid.T) {
		spec := chain.GenSpec(t)
		curSpec = spec
		w0, err := chain.BuildGenesis(spec)
		if err != nil {
			ev.Infra(t, "build genesis: %v", err)
		}
		sim, err := chain.NewSim(spec, []chain.ReplicaConfig{
			{Name: "prober", Backend: "badger", MemoryOnly: true, Keys: w0.Entities[0].Nodes[0]},
			{Name: "twin", Backend: "pathbadger", MemoryOnly: true},
		})
		if err != nil {
			var ig chain.ErrInvalidGenesis
			if errors.As(err, &ig) {
				rec.Discard("invalid-genesis")
				return
			}
			var ec chain.ErrEngineContract
			if errors.As(err, &ec) {
				rec.Discard("engine-contract-at-genesis:" + chain.Why(ec.Err)) // C10 / C14 report it
				return
			}
			ev.Infra(t, "new sim: %v", err)
		}
		cur = sim
		defer sim.Close()
		prober, twin := sim.Reps[0], sim.Reps[1]
		candProfile := "hostile"
		if spec.WithVault && rapid.Bool().Draw(t, "vaultTraffic") {
			// vault-heavy histories: vaults are created, funded, given withdraw policies and withdrawn from
			sim.Profile, candProfile = "vault", "hostile+vault"
			rec.Label("traffic:vault")
		}
		if spec.WithRuntime && rapid.IntRange(0, 2).Draw(t, "rtMsgTraffic") == 0 {
			// message-heavy histories: the runtime's incoming queue fills up, further SubmitMsg transactions fail late
			if sim.Profile == "" {
				sim.Profile = "rtmsgs"
			} else {
				sim.Profile += "+rtmsgs"
			}
			candProfile += "+rtmsgs"
			rec.Label("traffic:rtmsgs")
		}
		if rapid.Bool().Draw(t, "govCandidates") {
			// proposal-heavy candidates (parameter changes are validated by the module they concern, inside the transaction)
			candProfile += "+gov"
			rec.Label("candidates:gov")
		}
		fail := func(sig, format string, args ...any) {
			ev.Violation(t, sig, "%s; spec=%+v trace=%v", fmt.Sprintf(format, args...), *spec, tail(sim.Trace, 20))
		}
		nblocks := rapid.IntRange(6, ev.Pick(25, 80)).Draw(t, "nblocks")
		nontrivial := 0
		var fp []any
		fp = append(fp, fmt.Sprintf("%+v", *spec))
		for bi := 0; bi < nblocks; bi++ {
			view, err := chain.NewView(twin)
			if err != nil {
				ev.Infra(t, "view: %v", err)
			}
			bg := sim.GenBlock(t, view, 6)
			b := bg.Block
			// ---- probing point
			if bi > 0 && rapid.IntRange(0, 1).Draw(t, "probe") == 0 {
				_, base, err := chain.Probe(prober, b, "base", nil)
				if err != nil {
					view.Close()
					rec.Discard("probe-block-failed:" + err.Error()[:min(len(err.Error()), 100)])
					return
				}
				// The state a delivered transaction sees is the committed state plus BeginBlock; the harness approximates it
				// with the working state of the empty block and skips signers whose account the empty block itself touches.
				pre := base
				committedPre, _ := chain.DumpAtVersion(twin, 0)
				// self-check of the raw key layout against the typed accessors
				for _, a := range sim.W.Actors()[:2] {
					ta := view.Account(a.Addr)
					committed, _ := chain.DumpAtVersion(twin, 0)
					if ra := chain.AccountIn(committed, a.Addr); ra.General.Nonce != ta.General.Nonce || ra.General.Balance.Cmp(&ta.General.Balance) != 0 {
						ev.Infra(t, "raw account key layout does not match the typed accessor")
					}
				}
				var proposerEntity *staking.Address
				for _, ek := range sim.W.Entities {
					for _, nk := range ek.Nodes {
						if nk.Consensus.Public() == b.Proposer.PubKey {
							a := ek.Address()
							proposerEntity = &a
						}
					}
				}
				committedBefore, _ := chain.DumpAtVersion(prober, 0)
				type failedCand struct {
					raw   []byte
					addr  staking.Address
					desc  string
					class string
				}
				var failedAfterAuth []failedCand
				nc := rapid.IntRange(5, ev.Pick(15, 40)).Draw(t, "ncand")
				for ci := 0; ci < nc; ci++ {
					g := chain.NewTxGen(sim.W, view, candProfile)
					if ci == 0 && sim.W.Runtime != nil {
						if rs, err := view.RuntimeState(sim.W.Runtime.ID); err != nil {
							rec.Label("probe-point:runtime=unreadable")
						} else if rs.Suspended {
							rec.Label("probe-point:runtime=suspended")
						} else {
							rec.Label("probe-point:runtime=active")
						}
					}
					if ci == 0 && strings.Contains(candProfile, "vault") {
						nv, nh := g.VaultStats()
						rec.Label(fmt.Sprintf("probe-point:vaults=%d", min(nv, 3)))
						rec.Label(fmt.Sprintf("probe-point:withdraw-policies=%d", min(nh, 3)))
					}
					d := g.Gen(t)
					if ci%4 == 1 && strings.Contains(candProfile, "vault") {
						if sd := g.GenVaultSubcallGas(t); sd != nil {
							d = sd
							rec.Label("candidate:vault-nested-call-gas")
						}
					}
					if ci == 2 && strings.Contains(candProfile, "gov") {
						if pd := g.GenRefusedParameterChange(t); pd != nil {
							d = pd
							rec.Label("candidate:refused-parameter-change")
						}
					}
					if ci%4 == 3 && sim.W.Runtime != nil && sim.W.Spec.RtAccountBalance > 0 {
						if sd := g.GenStrayCommitWithMessages(t); sd != nil {
							d = sd
							rec.Label(fmt.Sprintf("candidate:stray-commitment-with-runtime-messages:escrow-messages-allowed=%v", sim.W.Spec.RtEscrowMsgs))
						}
					}
					if d.Mutated == "system-method" {
						// a user-signed system method can never be part of a block that validators accept (C10 covers it)
						rec.Discard("system-method-cannot-be-in-an-accepted-block")
						continue
					}
					// The candidate, and - for some candidates that execute successfully - a GAS SWEEP derived from it: the same
					// transaction with a gas limit one below the gas it used fails at its LAST charge; the gas it had used by then,
					// minus one, is a limit that fails at the charge before - and so on down to the first charge: every point at
					// which the handler can run out of gas, each judged like any other failed transaction.
					queue := []*chain.TxDesc{d}
					for len(queue) > 0 {
						d := queue[0]
						queue = queue[1:]
						res, wf, err := chain.Probe(prober, b, fmt.Sprintf("c%d", ci), [][]byte{d.Raw})
						if err != nil {
							fail("probe-panic", "executing %s (%s, mutated=%s) alone in a block panicked: %v", d.Method, d.Note, d.Mutated, err)
						}
						fp = append(fp, d.Raw)
						r0 := res[0]
						rec.Label(fmt.Sprintf("candidate:%s:%s/%d", d.Method, r0.Codespace, r0.Code))
						if i := strings.Index(d.Note, "change-parameters:"); i >= 0 {
							rec.Label(fmt.Sprintf("candidate-proposal:%s:%s/%d", d.Note[i:], r0.Codespace, r0.Code))
						}
						if d.SweepDepth > 0 {
							rec.Label(fmt.Sprintf("gas-sweep:%s:step=%d:failed=%v", d.Method, min(d.SweepDepth, 6), r0.Code != 0))
						}
						if r0.Code == 0 {
							if d.SweepDepth == 0 && r0.GasUsed > 0 && rapid.IntRange(0, 2).Draw(t, "gasSweep") == 0 {
								if sd := d.WithGas(uint64(r0.GasUsed)-1, 1); sd != nil {
									queue = append(queue, sd)
								}
							}
							continue
						}
						if d.SweepDepth > 0 && d.SweepDepth < 12 {
							if next := min(d.Gas, uint64(r0.GasUsed)); next > 0 {
								queue = append(queue, d.WithGas(next-1, d.SweepDepth+1))
							}
						}
						diff := chain.Diff(base, wf)
						verdict := chain.Judge(sim.W, pre, d.Raw)
						if verdict.EnvelopeOK && !bytes.Equal(committedPre[chain.AccountKey(verdict.Addr)], base[chain.AccountKey(verdict.Addr)]) {
							rec.Discard("signer-account-touched-by-the-block-itself")
							continue
						}
						desc := fmt.Sprintf("%s by %s (%s, mutated=%q) -> %s/%d %q", d.Method, d.Signer, d.Note, d.Mutated, r0.Codespace, r0.Code, r0.Log)
						preAuthReject := !verdict.PassesAuth() || strings.Contains(r0.Log, "mux: unknown method")
						if preAuthReject {
							if len(diff) != 0 {
								fail("rejected-tx-changed-state", "transaction rejected at/before authentication changed %d state keys (%s): %s", len(diff), chain.FmtKeys(diff), desc)
							}
							rec.Label("failed:rejected-before-auth")
							continue
						}
						// passed authentication and failed later: fee + nonce only
						allowed := map[string]bool{chain.AccountKey(verdict.Addr): true, chain.CommonPoolKey: true, chain.LastBlockFeesKey: true}
						if proposerEntity != nil {
							allowed[chain.AccountKey(*proposerEntity)] = true
						}
						for _, k := range diff {
							if !allowed[k] {
								fail("failed-tx-changed-state", "failed transaction changed state key %x besides fee and nonce (diff:%s): %s", k, chain.FmtKeys(diff), desc)
							}
						}
						a0, af := chain.AccountIn(base, verdict.Addr), chain.AccountIn(wf, verdict.Addr)
						if af.General.Nonce != a0.General.Nonce+1 {
							fail("failed-tx-nonce", "failed transaction that passed authentication: signer nonce %d -> %d (want +1): %s", a0.General.Nonce, af.General.Nonce, desc)
						}
						// everything in the signer's account except nonce and balance is untouched
						n0, nf := *a0, *af
						n0.General.Nonce, nf.General.Nonce = 0, 0
						n0.General.Balance, nf.General.Balance = *quantity.NewQuantity(), *quantity.NewQuantity()
						if !bytes.Equal(cbor.Marshal(n0), cbor.Marshal(nf)) {
							fail("failed-tx-changed-state", "failed transaction changed the signer's account beyond nonce and balance: %s", desc)
						}
						// fee conservation over the allowed keys
						delta := new(big.Int)
						addDelta := func(x0, xf *big.Int) { delta.Add(delta, new(big.Int).Sub(xf, x0)) }
						addDelta(q2b(a0.General.Balance), q2b(af.General.Balance))
						if proposerEntity != nil && *proposerEntity != verdict.Addr {
							addDelta(q2b(chain.AccountIn(base, *proposerEntity).General.Balance), q2b(chain.AccountIn(wf, *proposerEntity).General.Balance))
						}
						for _, k := range []string{chain.CommonPoolKey, chain.LastBlockFeesKey} {
							var x0, xf quantity.Quantity
							_ = cbor.Unmarshal(base[k], &x0)
							_ = cbor.Unmarshal(wf[k], &xf)
							addDelta(q2b(x0), q2b(xf))
						}
						if delta.Sign() != 0 {
							fail("failed-tx-fee", "fee of a failed transaction is not conserved over signer, proposer, common pool and last block fees (net %s): %s", delta, desc)
						}
						if proposerEntity == nil || *proposerEntity != verdict.Addr {
							want := new(big.Int).Sub(q2b(a0.General.Balance), verdict.Fee)
							if q2b(af.General.Balance).Cmp(want) != 0 {
								fail("failed-tx-fee", "signer balance %s -> %s, declared fee %s: %s", a0.General.Balance, af.General.Balance, verdict.Fee, desc)
							}
						}
						rec.Label("failed:after-auth")
						if r0.GasUsed > 0 || r0.Codespace != "" {
							nontrivial++
						}
						cls := fmt.Sprintf("%s:%s/%d", d.Method, r0.Codespace, r0.Code)
						if i := strings.Index(d.Note, "change-parameters:"); i >= 0 {
							cls += d.Note[i:]
						}
						failedAfterAuth = append(failedAfterAuth, failedCand{d.Raw, verdict.Addr, desc, cls})
						// mempool checks and gas estimation never change committed state
						_ = chain.Call(func() {
							prober.Mux.CheckTx(types.RequestCheckTx{Tx: d.Raw, Type: types.CheckTxType_New})
							prober.Mux.CheckTx(types.RequestCheckTx{Tx: d.Raw, Type: types.CheckTxType_Recheck})
							if verdict.Tx != nil {
								_, _ = prober.Srv.EstimateGas(verdict.Signer, verdict.Tx)
							}
						})
					}
				}
				// ---- a failed transaction AMONG OTHERS: the block's own generated transactions with and without one of the
				// failing candidates inserted at a generated position. "Changes nothing but fee and nonce" includes what the
				// rest of the block sees: every other transaction's result and the working state (except the keys a fee may
				// touch) are the same as without it. Preconditions (else skipped and counted): no block gas limit (a failed
				// transaction legitimately uses block gas), the candidate's signer neither signs nor is mentioned in any own
				// transaction and is not the proposer's entity, and the candidate still fails at its position.
				// One candidate per (method, result) class seen at this probing point, at most six.
				var amongSet []failedCand
				seenClass := map[string]bool{}
				for _, fc := range failedAfterAuth {
					if !seenClass[fc.class] && len(amongSet) < 8 {
						seenClass[fc.class] = true
						amongSet = append(amongSet, fc)
					}
				}
				if len(b.Txs) == 0 || rapid.IntRange(0, 3).Draw(t, "among") == 0 {
					amongSet = nil
				}
				for _, fc := range amongSet {
					independent := spec.MaxBlockGas == 0 && (proposerEntity == nil || *proposerEntity != fc.addr)
					for _, raw := range b.Txs {
						if v := chain.Judge(sim.W, pre, raw); (v.EnvelopeOK && v.Addr == fc.addr) || bytes.Contains(raw, fc.addr[:]) {
							independent = false
						}
					}
					if !independent {
						rec.Discard("among-others:candidate-not-independent-of-the-block")
					} else {
						pos := rapid.IntRange(0, len(b.Txs)-1).Draw(t, "amongPos") // in front of at least one own transaction
						res0, w0, err0 := chain.Probe(prober, b, "among-base", b.Txs)
						with := make([][]byte, 0, len(b.Txs)+1)
						with = append(with, b.Txs[:pos]...)
						with = append(with, fc.raw)
						with = append(with, b.Txs[pos:]...)
						res1, w1, err1 := chain.Probe(prober, b, "among", with)
						switch {
						case err0 != nil || err1 != nil:
							fail("probe-panic", "executing the block's own transactions with/without a failing candidate panicked: %v / %v", err0, err1)
						case res1[pos].Code == 0:
							rec.Discard("among-others:candidate-succeeds-at-this-position")
						default:
							allowed := map[string]bool{chain.AccountKey(fc.addr): true, chain.CommonPoolKey: true, chain.LastBlockFeesKey: true}
							if proposerEntity != nil {
								allowed[chain.AccountKey(*proposerEntity)] = true
							}
							for _, k := range chain.Diff(w0, w1) {
								if !allowed[k] {
									fail("failed-tx-changed-state", "a failed transaction inserted at position %d of a block of %d changed state key %x of the block's outcome besides its own fee and nonce: %s", pos, len(b.Txs), k, fc.desc)
								}
							}
							for i := range b.Txs {
								j := i
								if i >= pos {
									j = i + 1
								}
								if res0[i].Code != res1[j].Code || res0[i].Codespace != res1[j].Codespace || !bytes.Equal(res0[i].Data, res1[j].Data) || res0[i].GasUsed != res1[j].GasUsed {
									fail("failed-tx-changed-state", "a failed transaction inserted at position %d changed the result of own transaction %d of the block (%s/%d gas %d -> %s/%d gas %d): %s",
										pos, i, res0[i].Codespace, res0[i].Code, res0[i].GasUsed, res1[j].Codespace, res1[j].Code, res1[j].GasUsed, fc.desc)
								}
							}
							rec.Label("failed-among-others")
							rec.Label("failed-among-others:" + fc.class)
							if i := strings.Index(fc.desc, "change-parameters:"); i >= 0 {
								rec.Label("failed-among-others:" + strings.SplitN(fc.desc[i:], ",", 2)[0])
							}
							rec.LabelN("failed-among-others:own-transactions-behind", uint64(len(b.Txs)-pos))
							nontrivial++
						}
					}
				}
				committedAfter, _ := chain.DumpAtVersion(prober, 0)
				if ks := chain.Diff(committedBefore, committedAfter); len(ks) != 0 {
					fail("checktx-changed-committed-state", "CheckTx / EstimateGas / uncommitted probe blocks changed %d keys of the committed state:%s", len(ks), chain.FmtKeys(ks))
				}
			}
			view.Close()
			// ---- the real block on both replicas
			if _, err := sim.E.Propose(b, prober, prober); err != nil {
				rec.Discard("proposal-failed:" + chain.Why(err))
				return
			}
			o0 := sim.E.Execute(prober, b, chain.PathProcess, nil)
			o1 := sim.E.Execute(twin, b, chain.PathReplay, nil)
			if o0.Err != nil || o1.Err != nil || !o0.Accepted {
				rec.Discard("block-failed:" + chain.Why(o0.Err) + "/" + chain.Why(o1.Err))
				return
			}
			if !bytes.Equal(o0.AppHash, o1.AppHash) {
				fail("probe-influenced-next-block", "height %d: prober (which saw probe blocks, CheckTx and EstimateGas) computes AppHash %x, the clean twin %x", b.Height, o0.AppHash, o1.AppHash)
			}
			sim.Logf("h=%d txs=%d", b.Height, len(bg.Txs))
			fp = append(fp, b.Hash)
			if err := sim.AfterCommit(b, o0); err != nil {
				rec.Discard("engine-contract:" + chain.Why(err))
				return
			}
		}
		var sample any
		if nontrivial > 0 && rec.WantSample() {
			sample = map[string]any{"spec": spec, "trace": tail(sim.Trace, 15)}
		}
		rec.LabelN("failing-after-auth-candidates", uint64(nontrivial))
		rec.Case(nontrivial > 0, ev.Fingerprint(fp...), sample)
	})
}

func tail(s []string, n int) []string {
	if len(s) > n {
		return s[len(s)-n:]
	}
	return s
}
