package c08

import (
	"fmt"
	"strings"
	"testing"

	"github.com/oasisprotocol/oasis-core/go/common/crypto/hash"
	memorySigner "github.com/oasisprotocol/oasis-core/go/common/crypto/signature/signers/memory"
	"github.com/oasisprotocol/oasis-core/go/consensus/api/transaction"
	roothash "github.com/oasisprotocol/oasis-core/go/roothash/api"
	"github.com/oasisprotocol/oasis-core/go/roothash/api/commitment"

	"github.com/cometbft/cometbft/abci/types"

	"verifharness/chain"
	"verifharness/ev"
)

// TestC08EvidenceHashRollback is the shrunk form of a failure found by TestC08FailedTx on the pinned tree (repaired by a
// "fix:" commit in /repo, see known_findings.json): valid equivocation evidence that accuses a key no registered node
// owns makes roothash.Evidence fail (roothash/10, invalid evidence) - after the evidence hash had been written to the
// block state. A failed transaction may change the signer's fee and nonce only.
func TestC08EvidenceHashRollback(t *testing.T) {
	rec := ev.New("C08", "TestC08EvidenceHashRollback", "deterministic regression case: runtime with slashing, roothash.Evidence with two conflicting proposal headers signed by a key that belongs to no node; probe block; state diff", "")
	defer rec.Flush()
	spec := chain.DefaultSpec()
	spec.WithRuntime = true
	spec.RtGroup, spec.RtBackup, spec.RtRoundTimeout, spec.RtSlash = 1, 1, 3, 100
	spec.NodeRoles = [][]int{{3}, {3}}
	w0, err := chain.BuildGenesis(spec)
	if err != nil {
		ev.Infra(t, "genesis: %v", err)
	}
	sim, err := chain.NewSim(spec, []chain.ReplicaConfig{{Name: "R0", Backend: "badger", MemoryOnly: true, Keys: w0.Entities[0].Nodes[0]}})
	if err != nil {
		ev.Infra(t, "sim: %v", err)
	}
	defer sim.Close()
	r := sim.Reps[0]
	mkBlock := func() *chain.Block {
		vals := sim.E.Validators().Sorted()
		b := &chain.Block{Height: sim.E.Height, Time: sim.E.Time.Add(1e9), Proposer: vals[0]}
		signed := map[string]bool{}
		for _, v := range sim.E.PrevValidators() {
			signed[string(v.Address)] = true
		}
		b.LastCommit = sim.E.CommitInfoFor(signed)
		return b
	}
	commitEmpty := func() {
		b := mkBlock()
		if _, err := sim.E.Propose(b, sim.ReplicaFor(b.Proposer), r); err != nil {
			ev.Infra(t, "block %d: %v", b.Height, err)
		}
		out := sim.E.Execute(r, b, chain.PathProcess, nil)
		if out.Err != nil {
			ev.Infra(t, "block %d: %v", b.Height, out.Err)
		}
		if err := sim.AfterCommit(b, out); err != nil {
			ev.Infra(t, "advance: %v", err)
		}
	}
	// (the state written by InitChain becomes readable with the first commit)
	commitEmpty()
	accused := memorySigner.NewTestSigner("verif accused regression")
	mk := func(tag byte) commitment.Proposal {
		p := commitment.Proposal{NodeID: accused.Public(), Header: commitment.ProposalHeader{Round: 0, PreviousHash: hash.NewFromBytes([]byte{1}), BatchHash: hash.NewFromBytes([]byte{tag})}}
		if err := p.Sign(accused, sim.W.Runtime.ID); err != nil {
			ev.Infra(t, "sign: %v", err)
		}
		return p
	}
	evd := &roothash.Evidence{ID: sim.W.Runtime.ID, EquivocationProposal: &roothash.EquivocationProposalEvidence{ProposalA: mk(2), ProposalB: mk(3)}}
	user := sim.W.Actors()[len(sim.W.Actors())-1]
	raw := chain.SignTx(user.Signer, 0, &transaction.Fee{Gas: 100000}, roothash.MethodEvidence, evd)
	// the runtime is suspended until its first committee is elected: advance until the evidence is looked at
	var res []types.ResponseDeliverTx
	var base, wf chain.StateDump
	for i := 0; ; i++ {
		pb := mkBlock()
		if _, base, err = chain.Probe(r, pb, "base", nil); err != nil {
			ev.Infra(t, "probe base: %v", err)
		}
		if res, wf, err = chain.Probe(r, pb, "ev", [][]byte{raw}); err != nil {
			ev.Violation(t, "probe-panic", "evidence transaction panicked: %v", err)
		}
		if !strings.Contains(res[0].Log, "suspended") {
			break
		}
		if i > 12 {
			ev.Infra(t, "the runtime stays suspended: %s", res[0].Log)
		}
		commitEmpty()
	}
	if res[0].Code == 0 {
		ev.Infra(t, "the evidence transaction succeeded (%s): the scenario needs an accused key without a node", res[0].Log)
	}
	allowed := map[string]bool{chain.AccountKey(user.Addr): true, chain.CommonPoolKey: true, chain.LastBlockFeesKey: true}
	for _, k := range chain.Diff(base, wf) {
		if !allowed[k] {
			ev.Violation(t, "failed-tx-changed-state", "failed roothash.Evidence (%s/%d %s) changed state key %x besides fee and nonce", res[0].Codespace, res[0].Code, res[0].Log, k)
		}
	}
	rec.Case(true, ev.Fingerprint("evidence-rollback"), fmt.Sprintf("roothash.Evidence -> %s/%d %q; no state key besides the signer's account changed", res[0].Codespace, res[0].Code, res[0].Log))
}
