// Package c09 decides property C09: only authentic, correctly sequenced transactions execute, once.
package c09

import (
	"bytes"
	"crypto/ed25519"
	"crypto/sha512"
	"errors"
	"fmt"
	beacon "github.com/oasisprotocol/oasis-core/go/beacon/api"
	"github.com/oasisprotocol/oasis-core/go/common/entity"
	"github.com/oasisprotocol/oasis-core/go/common/node"
	registry "github.com/oasisprotocol/oasis-core/go/registry/api"
	"testing"

	"pgregory.net/rapid"

	"github.com/oasisprotocol/oasis-core/go/common/cbor"
	"github.com/oasisprotocol/oasis-core/go/common/crypto/signature"
	memorySigner "github.com/oasisprotocol/oasis-core/go/common/crypto/signature/signers/memory"
	"github.com/oasisprotocol/oasis-core/go/common/quantity"
	"github.com/oasisprotocol/oasis-core/go/consensus/api/transaction"
	staking "github.com/oasisprotocol/oasis-core/go/staking/api"

	"verifharness/chain"
	"verifharness/ev"
)

const rule = "case = generated genesis + history of 6-20 blocks; at generated points a correctly signed, correctly sequenced transaction f of a generated signer is taken and 10-40 adversarial derivatives are each executed ALONE in an uncommitted block - once on the proposer's path (PrepareProposal, ProcessProposal, BeginBlock, DeliverTx) and once the way a node executes a block it only learns of when it is decided (BeginBlock, DeliverTx), the per-transaction results of the two must be equal - with an exact " +
	"working-state diff: single-bit flips anywhere (envelope, blob, public key, signature), CBOR envelope re-encodings, signature by another key over the same blob, signature over the blob under every other registered signature context (list obtained " +
	"through a verif hook), signature for another chain context, the blob signed raw without context, nonce +-1 / max re-signed, exact replay inside one block, replay in later blocks and after a restart of the disk-backed replica. " +
	"oracle = a byte string changes state ONLY IF an independent check passes (envelope decodes, stdlib crypto/ed25519 verifies the signature over the harness-computed digest SHA-512/256(tx context || ' for chain ' || this chain || blob), nonce == account nonce); " +
	"every such effect advances exactly that signer's nonce by one; an effective derivative that differs byte-wise from f decodes to the identical (blob, key, signature) triple or is authentic in its own right; the second copy of a replayed transaction " +
	"and every transaction already executed in an earlier block have NO effect. non-trivial = derivative that passes envelope decoding (reaches signature or nonce check) or a replay of a transaction that had executed; distinct = hash of spec and derivative bytes"

func rawKey(s signature.Signer) ed25519.PrivateKey {
	return ed25519.PrivateKey(s.(*memorySigner.Signer).UnsafeBytes())
}

func envelope(blob []byte, pk signature.PublicKey, sig []byte) []byte {
	var st transaction.SignedTransaction
	st.Blob = blob
	st.Signature.PublicKey = pk
	copy(st.Signature.Signature[:], sig)
	return cbor.Marshal(st)
}

type derivative struct {
	kind string
	raw  []byte
}

func TestC09Authenticity(t *testing.T) {
	rec := ev.New("C09", "TestC09Authenticity", rule,
		"probe blocks contain only the listed transactions; 'effect' is any difference of the complete working state against the same block without them",
		"stdlib ed25519 verification is the independent reference (a signature the node accepts but the stdlib rejects would be reported)")
	defer rec.Flush()
	var cur *chain.Sim
	var curSpec *chain.Spec
	ev.Trace = func() any {
		if cur == nil {
			return nil
		}
		return map[string]any{"spec": curSpec, "trace": cur.Trace}
	}
	rapid.Check(t, func(t *rapid.T) {
		spec := chain.GenSpec(t)
		curSpec = spec
		w0, err := chain.BuildGenesis(spec)
		if err != nil {
			ev.Infra(t, "build genesis: %v", err)
		}
		sim, err := chain.NewSim(spec, []chain.ReplicaConfig{{Name: "R0", Backend: rapid.SampledFrom(chain.Backends).Draw(t, "backend"), Keys: w0.Entities[0].Nodes[0]}})
		if err != nil {
			var ig chain.ErrInvalidGenesis
			if errors.As(err, &ig) {
				rec.Discard("invalid-genesis")
				return
			}
			var ec chain.ErrEngineContract
			if errors.As(err, &ec) {
				rec.Discard("engine-contract-at-genesis:" + chain.Why(ec.Err)) // C10 / C14 report it
				return
			}
			ev.Infra(t, "new sim: %v", err)
		}
		cur = sim
		defer sim.Close()
		fail := func(sig, format string, args ...any) {
			ev.Violation(t, sig, "%s; spec=%+v trace=%v", fmt.Sprintf(format, args...), *spec, tail(sim.Trace, 20))
		}
		contexts := signature.VerifRegisteredContexts()
		chainCtx := sim.W.Doc.ChainContext()
		nblocks := rapid.IntRange(6, ev.Pick(20, 60)).Draw(t, "nblocks")
		var executed [][]byte // transactions that executed in earlier committed blocks
		nontrivial := 0
		var fp []any
		fp = append(fp, fmt.Sprintf("%+v", *spec))
		actors := sim.W.Actors()
		for bi := 0; bi < nblocks; bi++ {
			if bi > 0 && rapid.IntRange(0, 9).Draw(t, "restart") == 0 {
				nr, err := sim.Reps[0].Restart(nil)
				if err != nil {
					fail("restart-failed", "restart: %v", err)
				}
				sim.Reps[0] = nr
				sim.Logf("restart before height %d", sim.E.Height)
			}
			r := sim.Reps[0]
			view, err := chain.NewView(r)
			if err != nil {
				ev.Infra(t, "view: %v", err)
			}
			bg := sim.GenBlock(t, view, 4)
			b := bg.Block
			var include []byte
			if bi > 0 && rapid.IntRange(0, 2).Draw(t, "probe") > 0 {
				_, base, err := chain.Probe(r, b, "base", nil)
				if err != nil {
					view.Close()
					rec.Discard("probe-block-failed")
					return
				}
				effect := func(tag string, raws ...[]byte) (bool, chain.StateDump, []string) {
					res1, w, err := chain.Probe(r, b, tag, raws)
					if err != nil {
						fail("probe-panic", "executing derivative (%s) panicked: %v", tag, err)
					}
					// the same bytes in a block this node only learns of once it is decided (block sync, replay after a restart):
					// whether a byte string is accepted must not depend on the path the block is executed on
					res2, _, err := chain.ProbeReplay(r, b, tag, raws)
					if err != nil {
						fail("probe-panic", "executing derivative (%s) without a proposal phase panicked: %v", tag, err)
					}
					for i := range raws {
						if i >= len(res1) || i >= len(res2) || res1[i].Code != res2[i].Code || res1[i].Codespace != res2[i].Codespace {
							fail("verdict-depends-on-execution-path", "derivative (%s) transaction %d: result %s/%d on the proposer's path, %s/%d on the path of a node that only executes the decided block", tag, i, res1[i].Codespace, res1[i].Code, res2[i].Codespace, res2[i].Code)
						}
					}
					d := chain.Diff(base, w)
					return len(d) > 0, w, d
				}
				// ---- replays of transactions executed in earlier blocks (also after restarts)
				for i, old := range executed {
					if i >= 3 {
						break
					}
					old = executed[len(executed)-1-i]
					if eff, _, d := effect(fmt.Sprintf("old%d", i), old); eff {
						fail("replay-took-effect", "a transaction that already executed in an earlier block changed state again (%d keys:%s)", len(d), chain.FmtKeys(d))
					}
					nontrivial++
					rec.Label("replay-later-block")
				}
				// ---- a fresh valid transaction f
				a := actors[rapid.IntRange(0, len(actors)-1).Draw(t, "signer")]
				acct := chain.AccountIn(base, a.Addr)
				to := actors[rapid.IntRange(0, len(actors)-1).Draw(t, "to")]
				// the method varies: authentication must not depend on what the transaction asks for
				var method transaction.MethodName = staking.MethodTransfer
				amount := uint64(rapid.IntRange(0, 50).Draw(t, "amount"))
				if bal := acct.General.Balance.ToBigInt(); bal.IsUint64() && bal.Uint64() < 1<<62 && rapid.IntRange(0, 3).Draw(t, "overdraw") == 0 {
					// passes authentication, fails in execution (insufficient balance): the nonce still advances, the fee is still paid
					amount = bal.Uint64() + 1
				}
				var body any = &staking.Transfer{To: to.Addr, Amount: quantityOf(amount)}
				switch fk := rapid.SampledFrom([]string{"transfer", "transfer", "escrow", "burn", "register-node", "register-node", "register-entity"}).Draw(t, "fkind"); {
				case fk == "escrow":
					method, body = staking.MethodAddEscrow, &staking.Escrow{Account: to.Addr, Amount: quantityOf(uint64(rapid.IntRange(0, 50).Draw(t, "amount2")))}
				case fk == "burn":
					method, body = staking.MethodBurn, &staking.Burn{Amount: quantityOf(uint64(rapid.IntRange(0, 5).Draw(t, "amount3")))}
				case fk == "register-node" && a.Node != nil && a.Owner != nil:
					nd := sim.W.NodeDescriptor(a.Owner, a.Node, view.Epoch+beacon.EpochTime(rapid.IntRange(1, int(sim.W.Spec.MaxNodeExp)).Draw(t, "fexp")), 0, false)
					sn, err := node.MultiSignNode(a.Node.Signers(), registry.RegisterNodeSignatureContext, nd)
					if err != nil {
						ev.Infra(t, "sign node: %v", err)
					}
					method, body = registry.MethodRegisterNode, sn
				case fk == "register-entity" && a.Entity != nil:
					ent := &entity.Entity{Versioned: cbor.NewVersioned(entity.LatestDescriptorVersion), ID: a.Entity.Signer.Public()}
					for _, nk := range a.Entity.Nodes {
						ent.Nodes = append(ent.Nodes, nk.ID.Public())
					}
					se, err := entity.SignEntity(a.Entity.Signer, registry.RegisterEntitySignatureContext, ent)
					if err != nil {
						ev.Infra(t, "sign entity: %v", err)
					}
					method, body = registry.MethodRegisterEntity, se
				}
				rec.Label("f-method:" + string(method))
				fee := &transaction.Fee{Gas: 200000}
				if bal := acct.General.Balance.ToBigInt(); bal.IsUint64() && bal.Uint64() > sim.W.Spec.MinTransact+5 && rapid.Bool().Draw(t, "ffee") {
					fee.Amount = quantityOf(uint64(rapid.IntRange(1, 5).Draw(t, "ffeeAmt")))
				}
				if rapid.IntRange(0, 5).Draw(t, "fNoFeeField") == 0 {
					// a hand-made transaction that leaves the fee field out (gas limit zero): it takes effect only where nothing
					// costs gas, and it is sequenced like any other transaction
					fee = nil
					rec.Label("f-without-fee-field")
				}
				tx := transaction.NewTransaction(acct.General.Nonce, fee, method, body)
				blob := cbor.Marshal(tx)
				goodSig := ed25519.Sign(rawKey(a.Signer), chain.TxDigest(chainCtx, blob))
				f := envelope(blob, a.Signer.Public(), goodSig)
				fEff, fW, fDiff := effect("f", f)
				fVerdict := chain.Judge(sim.W, base, f)
				if !fVerdict.Authentic() {
					ev.Infra(t, "harness-built transaction is not authentic by the harness's own predicate")
				}
				if !fEff {
					// e.g. balance below fee + minimum: f is rejected at authentication; still useful for derivatives
					rec.Label("f-without-effect")
				} else {
					if af := chain.AccountIn(fW, a.Addr); af.General.Nonce != acct.General.Nonce+1 {
						fail("nonce-not-advanced", "effective transaction advanced the signer's nonce from %d to %d", acct.General.Nonce, af.General.Nonce)
					}
					// exact replay inside one block: the second copy changes nothing
					_, w2, _ := effect("ff", f, f)
					if d := chain.Diff(fW, w2); len(d) != 0 {
						fail("replay-took-effect", "the same signed bytes twice in one block differ from once (%d keys:%s)", len(d), chain.FmtKeys(d))
					}
					nontrivial++
					rec.Label("replay-same-block")
					if rapid.Bool().Draw(t, "includeF") {
						include = f
					}
				}
				_ = fDiff
				// ---- derivatives
				var ders []derivative
				nflip := rapid.IntRange(4, ev.Pick(16, 60)).Draw(t, "nflip")
				for i := 0; i < nflip; i++ {
					m := append([]byte{}, f...)
					pos := rapid.IntRange(0, len(m)*8-1).Draw(t, "bit")
					m[pos/8] ^= 1 << uint(pos%8)
					ders = append(ders, derivative{fmt.Sprintf("bitflip@%d", pos), m})
				}
				other := actors[rapid.IntRange(0, len(actors)-1).Draw(t, "otherKey")]
				ders = append(ders,
					derivative{"other-key-same-blob", envelope(blob, other.Signer.Public(), ed25519.Sign(rawKey(other.Signer), chain.TxDigest(chainCtx, blob)))},
					derivative{"other-key-claims-signer", envelope(blob, a.Signer.Public(), ed25519.Sign(rawKey(other.Signer), chain.TxDigest(chainCtx, blob)))},
					derivative{"other-chain", envelope(blob, a.Signer.Public(), ed25519.Sign(rawKey(a.Signer), chain.TxDigest("0000000000000000000000000000000000000000000000000000000000000000", blob)))},
					derivative{"no-chain-separation", envelope(blob, a.Signer.Public(), ed25519.Sign(rawKey(a.Signer), digestNoChain(blob)))},
					derivative{"unhashed-context-and-blob", envelope(blob, a.Signer.Public(), ed25519.Sign(rawKey(a.Signer), append([]byte("oasis-core/consensus: tx"), blob...)))},
					derivative{"raw-blob-signature", envelope(blob, a.Signer.Public(), ed25519.Sign(rawKey(a.Signer), blob))},
					derivative{"zero-signature", envelope(blob, a.Signer.Public(), make([]byte, 64))},
				)
				for _, rc := range contexts {
					if rc.Context == string(transaction.SignatureContext) || rc.DynamicSuffix != "" {
						continue
					}
					if rapid.IntRange(0, 3).Draw(t, "ctx") != 0 {
						continue
					}
					sig, err := a.Signer.ContextSign(signature.Context(rc.Context), blob)
					if err != nil {
						continue
					}
					ders = append(ders, derivative{"context:" + rc.Context, envelope(blob, a.Signer.Public(), sig)})
				}
				for _, dn := range []struct {
					kind  string
					nonce uint64
				}{{"nonce+1", acct.General.Nonce + 1}, {"nonce-1", acct.General.Nonce - 1}, {"nonce-max", ^uint64(0)}} {
					t2 := *tx
					t2.Nonce = dn.nonce
					b2 := cbor.Marshal(&t2)
					ders = append(ders, derivative{dn.kind, envelope(b2, a.Signer.Public(), ed25519.Sign(rawKey(a.Signer), chain.TxDigest(chainCtx, b2)))})
				}
				// signatures "by" public keys of small order (nobody holds a private key for them): with R of small order
				// and S = 0 the same 64 bytes satisfy the verification equation for many messages, so such a signature is
				// bound to nothing. Several (A, R) pairs, on a blob with the stated account's current nonce.
				for i, nso := 0, rapid.IntRange(1, 4).Draw(t, "nSmallOrder"); i < nso; i++ {
					A := chain.SmallOrderEncodings[rapid.IntRange(0, len(chain.SmallOrderEncodings)-1).Draw(t, "soA")]
					R := chain.SmallOrderEncodings[rapid.IntRange(0, len(chain.SmallOrderEncodings)-1).Draw(t, "soR")]
					var pk signature.PublicKey
					copy(pk[:], A)
					soAcct := chain.AccountIn(base, staking.NewAddress(pk))
					t3 := transaction.NewTransaction(soAcct.General.Nonce, &transaction.Fee{Gas: 200000}, staking.MethodTransfer,
						&staking.Transfer{To: to.Addr, Amount: quantityOf(uint64(rapid.IntRange(0, 1).Draw(t, "soAmount")))})
					sig := append(append([]byte{}, R...), make([]byte, 32)...)
					ders = append(ders, derivative{fmt.Sprintf("small-order-signer:%x/%x", A[:2], R[:2]), envelope(cbor.Marshal(t3), pk, sig)})
				}
				// envelope re-encodings: non-canonical key order / extra trailing byte / wrapped in a tag
				ders = append(ders, derivative{"trailing-byte", append(append([]byte{}, f...), 0x00)},
					derivative{"cbor-tag", append([]byte{0xc1}, f...)})
				for i, d := range ders {
					eff, w, diff := effect(fmt.Sprintf("d%d", i), d.raw)
					verdict := chain.Judge(sim.W, base, d.raw)
					fp = append(fp, d.raw)
					if verdict.EnvelopeOK {
						nontrivial++
					}
					rec.Label(fmt.Sprintf("derivative:%s:effect=%v", kindClass(d.kind), eff))
					if !eff {
						continue
					}
					if !verdict.Authentic() {
						fail("unauthentic-tx-took-effect", "derivative %s changed state (%d keys:%s) although the independent check fails (decodes=%v signature=%v nonce=%v)", d.kind, len(diff), chain.FmtKeys(diff), verdict.EnvelopeOK, verdict.SigOK, verdict.NonceOK)
					}
					pre, post := chain.AccountIn(base, verdict.Addr), chain.AccountIn(w, verdict.Addr)
					if post.General.Nonce != pre.General.Nonce+1 {
						fail("nonce-not-advanced", "effective derivative %s: nonce of its signer went %d -> %d", d.kind, pre.General.Nonce, post.General.Nonce)
					}
					if !bytes.Equal(d.raw, f) && verdict.Signer == a.Signer.Public() {
						// same signer: must be the very same signed statement (harmless re-encoding of the envelope)
						if !bytes.Equal(verdict.Blob, blob) || !bytes.Equal(verdict.Sig, goodSig) {
							if !bytes.Equal(verdict.Blob, blob) && verdict.Tx != nil && verdict.Tx.Nonce == pre.General.Nonce {
								// a different, independently valid statement of the same signer (e.g. re-signed nonce variant that happens to be current)
								rec.Label("derivative-valid-in-its-own-right")
								continue
							}
							fail("altered-tx-took-effect", "derivative %s of the same signer took effect with a different blob or signature", d.kind)
						}
						rec.Label("harmless-envelope-reencoding:" + kindClass(d.kind))
					}
				}
				// ---- a crowded block: the block's own generated transactions (valid and invalid ones of many signers), with
				// badly signed derivatives and junk (oversized, garbage, empty byte strings) inserted at generated positions.
				// Whatever surrounds them, transactions whose signature does not verify change nothing at all: the working
				// state and every other transaction's result equal those of the same block without the insertions.
				var bad [][]byte
				var badKinds []string
				for _, d := range ders {
					if v := chain.Judge(sim.W, base, d.raw); !v.EnvelopeOK || !v.SigOK {
						bad = append(bad, d.raw)
						badKinds = append(badKinds, kindClass(d.kind))
					}
				}
				if len(bad) > 0 && rapid.IntRange(0, 2).Draw(t, "crowd") > 0 {
					res0, w0, err := chain.Probe(r, b, "crowd-base", b.Txs)
					if err != nil {
						fail("probe-panic", "executing the block's own transactions panicked: %v", err)
					}
					type ins struct {
						raw  []byte
						kind string
					}
					var extra []ins
					for i, n := 0, rapid.IntRange(1, 3).Draw(t, "crowdBad"); i < n; i++ {
						k := rapid.IntRange(0, len(bad)-1).Draw(t, "crowdBadIdx")
						extra = append(extra, ins{bad[k], "bad-signature:" + badKinds[k]})
					}
					for i, n := 0, rapid.IntRange(0, 2).Draw(t, "crowdJunk"); i < n; i++ {
						switch rapid.IntRange(0, 3).Draw(t, "junkKind") {
						case 0:
							extra = append(extra, ins{bytes.Repeat([]byte{0x5a}, int(sim.W.Spec.MaxTxSize)+1+rapid.IntRange(0, 64).Draw(t, "oversizeBy")), "oversized-garbage"})
						case 1:
							// an oversized envelope that is well-formed CBOR: f with a huge trailing pad inside a byte string
							extra = append(extra, ins{envelope(append(append([]byte{}, blob...), make([]byte, int(sim.W.Spec.MaxTxSize))...), a.Signer.Public(), goodSig), "oversized-envelope"})
						case 2:
							extra = append(extra, ins{[]byte{0xa0}, "garbage"})
						default:
							extra = append(extra, ins{[]byte{}, "empty"})
						}
					}
					// positions: each insertion goes before the pos-th own transaction (pos == len: at the end)
					crowded := make([][]byte, 0, len(b.Txs)+len(extra))
					own := make([]int, 0, len(b.Txs)) // index of each own transaction in the crowded block
					at := make([][]ins, len(b.Txs)+1)
					for _, e := range extra {
						pos := rapid.IntRange(0, len(b.Txs)).Draw(t, "crowdPos")
						at[pos] = append(at[pos], e)
					}
					var layout []string
					for i := 0; i <= len(b.Txs); i++ {
						for _, e := range at[i] {
							crowded = append(crowded, e.raw)
							layout = append(layout, e.kind)
						}
						if i < len(b.Txs) {
							own = append(own, len(crowded))
							crowded = append(crowded, b.Txs[i])
							layout = append(layout, "own")
						}
					}
					res1, w1, err := chain.Probe(r, b, "crowd", crowded)
					if err != nil {
						fail("probe-panic", "executing the crowded block %v panicked: %v", layout, err)
					}
					if d := chain.Diff(w0, w1); len(d) != 0 {
						fail("unauthentic-tx-took-effect", "badly signed / junk byte strings inserted into a block changed its outcome: layout %v, %d keys differ:%s", layout, len(d), chain.FmtKeys(d))
					}
					for i, at := range own {
						if i < len(res0) && at < len(res1) && (res0[i].Code != res1[at].Code || res0[i].Codespace != res1[at].Codespace || !bytes.Equal(res0[i].Data, res1[at].Data)) {
							fail("unauthentic-tx-took-effect", "inserted badly signed / junk byte strings changed the result of another transaction (own tx %d: %s/%d -> %s/%d): layout %v", i, res0[i].Codespace, res0[i].Code, res1[at].Codespace, res1[at].Code, layout)
						}
					}
					for i, l := range layout {
						if l != "own" && i < len(res1) && res1[i].Code == 0 {
							fail("unauthentic-tx-took-effect", "inserted %s reported success in a crowded block: layout %v", l, layout)
						}
					}
					nontrivial++
					rec.Label("crowded-block")
					rec.LabelN("crowded-block:own-transactions", uint64(len(b.Txs)))
					for _, e := range extra {
						rec.Label("crowded-insert:" + e.kind)
					}
				}
			}
			view.Close()
			if include != nil {
				b.Txs = append(b.Txs, include)
			}
			if _, err := sim.E.Propose(b, r, r); err != nil {
				rec.Discard("proposal-failed:" + chain.Why(err))
				return
			}
			out := sim.E.Execute(r, b, chain.PathProcess, nil)
			if out.Err != nil || !out.Accepted {
				rec.Discard("block-failed:" + chain.Why(out.Err))
				return
			}
			if include != nil && out.TxResults[len(b.Txs)-1].Code == 0 {
				executed = append(executed, include)
			}
			fp = append(fp, b.Hash)
			sim.Logf("h=%d txs=%d included-f=%v", b.Height, len(b.Txs), include != nil)
			if err := sim.AfterCommit(b, out); err != nil {
				rec.Discard("engine-contract:" + chain.Why(err))
				return
			}
		}
		var sample any
		if nontrivial > 0 && rec.WantSample() {
			sample = map[string]any{"spec": spec, "trace": tail(sim.Trace, 15)}
		}
		rec.Case(nontrivial > 0, ev.Fingerprint(fp...), sample)
	})
}

func kindClass(k string) string {
	for i, c := range k {
		if c == '@' || (c == ':' && len(k) > 11 && k[:11] == "small-order") {
			return k[:i]
		}
	}
	return k
}

func tail(s []string, n int) []string {
	if len(s) > n {
		return s[len(s)-n:]
	}
	return s
}

func quantityOf(v uint64) (q quantity.Quantity) {
	_ = q.FromUint64(v)
	return
}

// digestNoChain is the digest of the transaction context WITHOUT chain separation.
func digestNoChain(blob []byte) []byte {
	h := sha512.New512_256()
	h.Write([]byte("oasis-core/consensus: tx"))
	h.Write(blob)
	return h.Sum(nil)
}
