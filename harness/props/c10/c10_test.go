// Package c10 decides property C10: no block content can halt block execution.
package c10

import (
	"errors"
	"fmt"
	"strings"
	"testing"

	"github.com/cometbft/cometbft/abci/types"
	"pgregory.net/rapid"

	"verifharness/chain"
	"verifharness/ev"
)

const rule = "case = generated production-mode genesis + 10-60 blocks (quick) from a hostile generator: every buildable transaction valid or with one aspect invalidated, extreme amounts (0, 2^64-1, 2^64, 2^128, 2^255, 2^256-1), garbage byte strings, " +
	"truncated and oversized transactions, user-signed system methods, evidence against current/former/unknown validators incl. duplicates, all-but-minimum vote participation, total slashing, depleted common pool, 100% commission, proposals closing / " +
	"debonding / rewards on the same epoch boundary. Two modes per block: HONEST proposer (mempool = candidates that passed CheckTx on the proposer) and BYZANTINE proposer (all candidates included). oracle = (a) an honest proposer always obtains a proposal " +
	"containing the metadata transaction and every replica ACCEPTs it; (b) a block that replicas accept executes BeginBlock, every DeliverTx, EndBlock and Commit without panic on the replay path and on the process path, a failing/garbage transaction only " +
	"yields a non-zero code for itself; a Byzantine block is accepted by all replicas or rejected by all; (c) the returned validator updates satisfy the consensus engine's contract. The documented precondition (no validator can be elected) is recognised by " +
	"its error text and counted as a discard. non-trivial = a block in which >=2 of {epoch transition, evidence, vote absence, failing transaction with extreme amount or garbage} coincide; distinct = hash of spec and block hashes"

func preconditionLost(msg string) bool {
	return strings.Contains(msg, "failed to elect any validators") || strings.Contains(msg, "insufficient validators") || strings.Contains(msg, "couldn't elect validators")
}

func TestC10NoHalt(t *testing.T) {
	rec := ev.New("C10", "TestC10NoHalt", rule,
		"documented precondition: enough stake-eligible validators remain (kept by an anchor validator entity that is never slashed, never reclaims and always re-registers)",
		"feasible commits (> 2/3 of the previous power signed); total supply <= 10^19; production-mode genesis")
	defer rec.Flush()
	var cur *chain.Sim
	var curSpec *chain.Spec
	ev.Trace = func() any {
		if cur == nil {
			return nil
		}
		return map[string]any{"spec": curSpec, "trace": cur.Trace}
	}
	rapid.Check(t, func(t *rapid.T) {
		spec := chain.GenSpec(t)
		curSpec = spec
		w0, err := chain.BuildGenesis(spec)
		if err != nil {
			ev.Infra(t, "build genesis: %v", err)
		}
		cfgs := []chain.ReplicaConfig{
			{Name: "R0", Backend: "badger", MemoryOnly: true, Keys: w0.Entities[0].Nodes[0]},
			{Name: "R1", Backend: "pathbadger", MemoryOnly: true},
		}
		sim, err := chain.NewSim(spec, cfgs)
		if err != nil {
			var ig chain.ErrInvalidGenesis
			if errors.As(err, &ig) {
				rec.Discard("invalid-genesis")
				return
			}
			ev.Infra(t, "new sim: %v", err)
		}
		cur = sim
		defer sim.Close()
		sim.Profile = "hostile"
		fail := func(sig, format string, args ...any) {
			ev.Violation(t, sig, "%s; spec=%+v trace=%v", fmt.Sprintf(format, args...), *spec, tail(sim.Trace, 30))
		}
		nblocks := rapid.IntRange(10, ev.Pick(60, 400)).Draw(t, "nblocks")
		var fp []any
		fp = append(fp, fmt.Sprintf("%+v", *spec))
		nontrivial := false
		lastEpoch := uint64(0)
		for bi := 0; bi < nblocks; bi++ {
			view, err := chain.NewView(sim.Reps[0])
			if err != nil {
				ev.Infra(t, "view: %v", err)
			}
			epochChanged := uint64(view.Epoch) != lastEpoch && lastEpoch != 0
			lastEpoch = uint64(view.Epoch)
			bg := sim.GenBlock(t, view, ev.Pick(8, 14))
			view.Close()
			b := bg.Block
			byzantine := rapid.IntRange(0, 3).Draw(t, "byzantine") == 0
			wantByzantine := byzantine
			propRep := sim.ReplicaFor(b.Proposer)
			helper := sim.Reps[0]
			checker := propRep
			if checker == nil {
				checker = helper
			}
			// honest mempool: only what passed CheckTx on the proposer
			all := bg.Txs
			var honest []*chain.TxDesc
			for _, d := range all {
				var res types.ResponseCheckTx
				if perr := chain.Call(func() { res = checker.Mux.CheckTx(types.RequestCheckTx{Tx: d.Raw, Type: types.CheckTxType_New}) }); perr != nil {
					fail("checktx-panic", "CheckTx panicked on %s (%s): %v", d.Method, d.Note, perr)
				}
				if res.Code == 0 {
					honest = append(honest, d)
				}
			}
			use := honest
			if byzantine {
				use = all
			}
			setTxs := func(ds []*chain.TxDesc) {
				b.Txs = nil
				for _, d := range ds {
					b.Txs = append(b.Txs, d.Raw)
				}
			}
			setTxs(use)
			own, err := sim.E.Propose(b, propRep, helper)
			if err != nil && byzantine {
				// A Byzantine block that cannot even be prepared is simply not proposed; fall back to the honest one.
				byzantine = false
				use = honest
				setTxs(use)
				own, err = sim.E.Propose(b, propRep, helper)
			}
			if err != nil {
				if preconditionLost(err.Error()) {
					rec.Discard("precondition-lost")
					return
				}
				fail("honest-proposal-failed", "height %d: an honest proposer (mempool of %d CheckTx-approved transactions) could not prepare a proposal: %v", b.Height, len(use), err)
			}
			injected := 0
			if wantByzantine && rapid.IntRange(0, 2).Draw(t, "inject") == 0 {
				byzantine = true
				// the Byzantine proposer slips transactions into the block that its own PrepareProposal never saw
				for _, d := range all {
					if d.Mutated == "system-method" || d.Mutated == "garbage" {
						b.InjectBeforeMeta(d.Raw)
						injected++
					}
				}
				if injected > 0 {
					own = false
				}
			}
			sim.Logf("h=%d byz=%v own=%v txs=%d/%d injected=%d ev=%d notes=%v", b.Height, byzantine, own, len(use), len(all), injected, len(b.Misbehavior), bg.Notes)
			fp = append(fp, b.Hash)
			paths := []chain.Path{chain.PathProcess, chain.PathReplay}
			if rapid.Bool().Draw(t, "swapPaths") {
				paths = []chain.Path{chain.PathReplay, chain.PathProcess}
			}
			// The process path decides acceptance; the replay path must agree (a panic there is the halt).
			procIdx := 0
			if paths[1] == chain.PathProcess {
				procIdx = 1
			}
			proc := sim.E.Execute(sim.Reps[procIdx], b, chain.PathProcess, nil)
			if proc.Err == nil && !proc.Accepted {
				if !byzantine {
					fail("honest-proposal-rejected", "height %d: the honest proposal was REJECTED by a replica", b.Height)
				}
				rec.Label("byzantine-block-rejected")
				if rapid.IntRange(0, 3).Draw(t, "verifyRejectOnReplay") == 0 {
					// a block rejected by validators must not be executable on the replay path either
					// (otherwise nodes would disagree about validity); the failed replica is unusable afterwards
					if repl := sim.E.Execute(sim.Reps[1-procIdx], b, chain.PathReplay, nil); repl.Err == nil {
						fail("validity-disagreement", "height %d: a block rejected in ProcessProposal executes fine on the replay path", b.Height)
					}
					rec.Discard("rejected-block-verified-on-replay-end-of-history")
					return
				}
				// next round: the honest proposal for the same height
				byzantine, injected = false, 0
				use = honest
				setTxs(use)
				if _, err := sim.E.Propose(b, propRep, helper); err != nil {
					if preconditionLost(err.Error()) {
						rec.Discard("precondition-lost")
						return
					}
					fail("honest-proposal-failed", "height %d: after a rejected Byzantine round the honest proposer could not prepare a proposal: %v", b.Height, err)
				}
				proc = sim.E.Execute(sim.Reps[procIdx], b, chain.PathProcess, nil)
				if proc.Err == nil && !proc.Accepted {
					fail("honest-proposal-rejected", "height %d: the honest proposal (second round) was REJECTED", b.Height)
				}
			}
			if proc.Err != nil {
				if preconditionLost(proc.Err.Error()) {
					rec.Discard("precondition-lost")
					return
				}
				fail("block-halts-chain", "height %d: accepted block panicked on the process path: %v", b.Height, proc.Err)
			}
			repl := sim.E.Execute(sim.Reps[1-procIdx], b, chain.PathReplay, nil)
			if repl.Err != nil {
				if preconditionLost(repl.Err.Error()) {
					rec.Discard("precondition-lost")
					return
				}
				fail("block-halts-chain", "height %d: a block accepted by ProcessProposal panics on the replay path: %v", b.Height, repl.Err)
			}
			if string(repl.AppHash) != string(proc.AppHash) {
				fail("block-halts-chain", "height %d: replicas disagree on the AppHash (C01)", b.Height)
			}
			// per-transaction results: garbage fails for itself only
			interesting := 0
			for j, d := range use {
				if injected > 0 {
					break
				}
				res := proc.TxResults[j]
				if d.Mutated == "garbage" || d.Mutated == "truncated" || d.Mutated == "oversized" || d.Mutated == "system-method" {
					if res.Code == 0 {
						fail("garbage-accepted", "height %d: %s transaction succeeded", b.Height, d.Mutated)
					}
					interesting++
				}
			}
			if epochChanged {
				interesting++
			}
			if len(b.Misbehavior) > 0 {
				interesting++
			}
			for _, v := range b.LastCommit.Votes {
				if !v.SignedLastBlock {
					interesting++
					break
				}
			}
			if interesting >= 2 {
				nontrivial = true
			}
			if err := sim.AfterCommit(b, proc); err != nil {
				if strings.Contains(err.Error(), "empty") {
					rec.Discard("precondition-lost")
					return
				}
				fail("engine-contract", "height %d: validator updates violate the consensus engine's contract: %v", b.Height, err)
			}
			if byzantine {
				rec.Label("byzantine-block-accepted")
			}
		}
		rec.LabelN("blocks", uint64(nblocks))
		var sample any
		if nontrivial && rec.WantSample() {
			sample = map[string]any{"spec": spec, "trace": tail(sim.Trace, 25)}
		}
		rec.Case(nontrivial, ev.Fingerprint(fp...), sample)
	})
}

func tail(s []string, n int) []string {
	if len(s) > n {
		return s[len(s)-n:]
	}
	return s
}
