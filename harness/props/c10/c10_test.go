// Package c10 decides property C10: no block content can halt block execution.
package c10

import (
	"errors"
	"fmt"
	"strings"
	"testing"

	"github.com/cometbft/cometbft/abci/types"

	"github.com/oasisprotocol/oasis-core/go/common/cbor"
	governance "github.com/oasisprotocol/oasis-core/go/governance/api"
	"github.com/oasisprotocol/oasis-core/go/consensus/api/transaction"
	registry "github.com/oasisprotocol/oasis-core/go/registry/api"
	"pgregory.net/rapid"

	"verifharness/chain"
	"verifharness/ev"
)

const rule = "case = generated production-mode genesis + 10-60 blocks (quick) from a hostile generator: every buildable transaction valid or with one aspect invalidated, extreme amounts (0, 2^64-1, 2^64, 2^128, 2^255, 2^256-1), garbage byte strings, " +
	"truncated and oversized transactions, user-signed system methods, evidence against current/former/unknown validators incl. duplicates, all-but-minimum vote participation, total slashing, depleted common pool, 100% commission, proposals closing / " +
	"debonding / rewards on the same epoch boundary. Two modes per block: HONEST proposer (mempool = candidates that passed CheckTx on the proposer) and BYZANTINE proposer (all candidates included). oracle = (a) an honest proposer always obtains a proposal " +
	"containing the metadata transaction and every replica ACCEPTs it; (b) a block that replicas accept executes BeginBlock, every DeliverTx, EndBlock and Commit without panic on the replay path and on the process path, a failing/garbage transaction only " +
	"yields a non-zero code for itself; a Byzantine block is accepted by all replicas or rejected by all; (c) the returned validator updates satisfy the consensus engine's contract. The documented precondition (no validator can be elected) is recognised by " +
	"its error text and counted as a discard. non-trivial = a block in which >=2 of {epoch transition, evidence, vote absence, failing transaction with extreme amount or garbage} coincide; distinct = hash of spec and block hashes"

func preconditionLost(msg string) bool { return chain.PreconditionLost(msg) }

func TestC10NoHalt(t *testing.T) {
	rec := ev.New("C10", "TestC10NoHalt", rule,
		"documented precondition: enough stake-eligible validators remain (kept by an anchor validator entity that is never slashed, never reclaims and always re-registers)",
		"feasible commits (> 2/3 of the previous power signed); total supply <= 10^19; production-mode genesis")
	defer rec.Flush()
	var cur *chain.Sim
	var curSpec *chain.Spec
	ev.Trace = func() any {
		if cur == nil {
			return nil
		}
		return map[string]any{"spec": curSpec, "trace": cur.Trace}
	}
	rapid.Check(t, func(t *rapid.T) {
		spec := chain.GenSpec(t)
		curSpec = spec
		chain.AllowZeroVotingStake = !ev.Excluded(chain.SigZeroVotingStake)
		// traffic mix: hostile staking/governance traffic, optionally with the registry generator of C17 (role changes,
		// migrations, foreign listings, key rotations) or the debonding-heavy profile of C15 on top; with a runtime, half
		// of the cases script whole runtime rounds (chain.roundDriver) in epochs long enough for a round to time out,
		// be resolved by the backup workers or fail
		traffic := rapid.SampledFrom([]string{"hostile", "hostile", "hostile+registry", "debond+registry", "hostile+rtheavy", "rtheavy", "hostile+gov", "gov"}).Draw(t, "traffic")
		if spec.WithRuntime && rapid.Bool().Draw(t, "rtTraffic") {
			// (with "+registry" the runtime's descriptor is updated along the way: timeouts, committee sizes, governance)
			traffic = rapid.SampledFrom([]string{"hostile+rtheavy", "rtheavy", "rtheavy+registry", "hostile+rtheavy+registry"}).Draw(t, "rtTrafficKind")
			if iv := int64(rapid.SampledFrom([]int{0, 8, 12, 20}).Draw(t, "rtEpochInterval")); iv > spec.EpochInterval {
				spec.EpochInterval = iv
			}
		}
		w0, err := chain.BuildGenesis(spec)
		if err != nil {
			ev.Infra(t, "build genesis: %v", err)
		}
		cfgs := []chain.ReplicaConfig{
			{Name: "R0", Backend: "badger", MemoryOnly: true, Keys: w0.Entities[0].Nodes[0]},
			{Name: "R1", Backend: "pathbadger", MemoryOnly: true},
		}
		sim, err := chain.NewSim(spec, cfgs)
		if err != nil {
			var ig chain.ErrInvalidGenesis
			if errors.As(err, &ig) {
				rec.Discard("invalid-genesis")
				return
			}
			var ec chain.ErrEngineContract
			if errors.As(err, &ec) {
				ev.Violation(t, "engine-contract", "the validator set returned by InitChain for a genesis document that passes its sanity check cannot be applied by the consensus engine: %v; spec=%+v", ec.Err, *spec)
			}
			ev.Infra(t, "new sim: %v", err)
		}
		cur = sim
		defer sim.Close()
		sim.Profile = strings.ReplaceAll(traffic, "+registry", "")
		withRegistry := strings.HasSuffix(traffic, "+registry")
		rec.Label("traffic:" + traffic)
		fail := func(sig, format string, args ...any) {
			ev.Violation(t, sig, "%s; spec=%+v trace=%v", fmt.Sprintf(format, args...), *spec, tail(sim.Trace, 30))
		}
		nblocks := rapid.IntRange(10, ev.Pick(60, 400)).Draw(t, "nblocks")
		var fp []any
		fp = append(fp, fmt.Sprintf("%+v", *spec))
		nontrivial := false
		lastEpoch := uint64(0)
		closedSeen := map[uint64]bool{}
		lastRound, sawDiscrepancy := uint64(0), false
		for bi := 0; bi < nblocks; bi++ {
			view, err := chain.NewView(sim.Reps[0])
			if err != nil {
				ev.Infra(t, "view: %v", err)
			}
			if sim.W.Runtime != nil {
				if rs, err := view.RuntimeState(sim.W.Runtime.ID); err == nil && rs != nil && rs.LastBlock != nil && rs.LastBlock.Header.Round != lastRound {
					lastRound = rs.LastBlock.Header.Round
					rec.Label(fmt.Sprintf("runtime-block:type=%d,discrepancy-before=%v", rs.LastBlock.Header.HeaderType, sawDiscrepancy))
					sawDiscrepancy = false
				} else if err == nil && rs != nil && rs.CommitmentPool != nil && rs.CommitmentPool.Discrepancy {
					sawDiscrepancy = true
				}
			}
			epochChanged := uint64(view.Epoch) != lastEpoch && lastEpoch != 0
			lastEpoch = uint64(view.Epoch)
			if strings.Contains(traffic, "gov") {
				props, _ := view.Gov.ActiveProposals(view.Ctx())
				rec.Label(fmt.Sprintf("gov-traffic:open-proposals=%d", min(len(props), 3)))
				// what the proposals that CLOSED since the last block were about and how they ended
				if all, err := view.Gov.Proposals(view.Ctx()); err == nil {
					for _, p := range all {
						if p.State == governance.StateActive || closedSeen[p.ID] {
							continue
						}
						closedSeen[p.ID] = true
						what := "other"
						switch {
						case p.Content.ChangeParameters != nil:
							what = "change-parameters:" + p.Content.ChangeParameters.Module
							var fields map[string]any
							if cbor.Unmarshal(p.Content.ChangeParameters.Changes, &fields) == nil {
								for _, f := range []string{"fee_split_weight_vote", "debonding_interval", "max_validators", "max_node_expiration", "max_in_runtime_messages", "disable_transfers", "voting_period"} {
									if _, ok := fields[f]; ok {
										what += "+" + f
									}
								}
							}
						case p.Content.Upgrade != nil:
							what = "upgrade"
						case p.Content.CancelUpgrade != nil:
							what = "cancel-upgrade"
						}
						rec.Label(fmt.Sprintf("proposal-closed:%s:%s", p.State, what))
					}
				}
			}
			bg := sim.GenBlock(t, view, ev.Pick(8, 14))
			regOf := map[*chain.TxDesc]*chain.RegTx{}
			if withRegistry {
				g := chain.NewTxGen(sim.W, view, "registry")
				for _, d := range bg.Txs {
					if d.ExpectAuthOK {
						g.Bump(d.Addr)
					}
				}
				for i, n := 0, rapid.IntRange(0, 3).Draw(t, "nreg"); i < n; i++ {
					rt := g.GenRegistry(t)
					regOf[rt.TxDesc] = rt
					bg.Txs = append(bg.Txs, rt.TxDesc)
				}
			}
			view.Close()
			b := bg.Block
			byzantine := rapid.IntRange(0, 3).Draw(t, "byzantine") == 0
			wantByzantine := byzantine
			propRep := sim.ReplicaFor(b.Proposer)
			helper := sim.Reps[0]
			checker := propRep
			if checker == nil {
				checker = helper
			}
			// honest mempool: only what passed CheckTx on the proposer
			all := bg.Txs
			var honest []*chain.TxDesc
			for _, d := range all {
				var res types.ResponseCheckTx
				if perr := chain.Call(func() { res = checker.Mux.CheckTx(types.RequestCheckTx{Tx: d.Raw, Type: types.CheckTxType_New}) }); perr != nil {
					fail("checktx-panic", "CheckTx panicked on %s (%s): %v", d.Method, d.Note, perr)
				}
				if res.Code == 0 {
					honest = append(honest, d)
				}
			}
			use := honest
			if byzantine {
				use = all
			}
			setTxs := func(ds []*chain.TxDesc) {
				b.Txs = nil
				for _, d := range ds {
					b.Txs = append(b.Txs, d.Raw)
				}
			}
			setTxs(use)
			own, err := sim.E.Propose(b, propRep, helper)
			if err != nil && byzantine {
				// A Byzantine block that cannot even be prepared is simply not proposed; fall back to the honest one.
				byzantine = false
				use = honest
				setTxs(use)
				own, err = sim.E.Propose(b, propRep, helper)
			}
			if err != nil {
				if preconditionLost(err.Error()) {
					rec.Discard("precondition-lost")
					return
				}
				if hs := chain.KnownHalt(err.Error()); hs != "" {
					if ev.Excluded(hs) {
						rec.Discard("known-finding:" + hs)
						return
					}
					fail(hs, "height %d: an honest proposer (mempool of %d CheckTx-approved transactions) could not prepare a proposal: %v", b.Height, len(use), err)
				}
				fail("honest-proposal-failed", "height %d: an honest proposer (mempool of %d CheckTx-approved transactions) could not prepare a proposal: %v", b.Height, len(use), err)
			}
			injected := 0
			if wantByzantine && rapid.IntRange(0, 2).Draw(t, "inject") == 0 {
				byzantine = true
				// the Byzantine proposer slips transactions into the block that its own PrepareProposal never saw
				for _, d := range all {
					if d.Mutated == "system-method" || d.Mutated == "garbage" {
						b.InjectBeforeMeta(d.Raw)
						injected++
					}
				}
				if injected > 0 {
					own = false
				}
			}
			sim.Logf("h=%d byz=%v own=%v txs=%d/%d injected=%d ev=%d notes=%v", b.Height, byzantine, own, len(use), len(all), injected, len(b.Misbehavior), bg.Notes)
			fp = append(fp, b.Hash)
			paths := []chain.Path{chain.PathProcess, chain.PathReplay}
			if rapid.Bool().Draw(t, "swapPaths") {
				paths = []chain.Path{chain.PathReplay, chain.PathProcess}
			}
			// The process path decides acceptance; the replay path must agree (a panic there is the halt).
			procIdx := 0
			if paths[1] == chain.PathProcess {
				procIdx = 1
			}
			proc := sim.E.Execute(sim.Reps[procIdx], b, chain.PathProcess, nil)
			if proc.Err == nil && !proc.Accepted {
				if !byzantine {
					fail("honest-proposal-rejected", "height %d: the honest proposal was REJECTED by a replica", b.Height)
				}
				rec.Label("byzantine-block-rejected")
				if rapid.IntRange(0, 3).Draw(t, "verifyRejectOnReplay") == 0 {
					// a block rejected by validators must not be executable on the replay path either
					// (otherwise nodes would disagree about validity); the failed replica is unusable afterwards
					if repl := sim.E.Execute(sim.Reps[1-procIdx], b, chain.PathReplay, nil); repl.Err == nil {
						fail("validity-disagreement", "height %d: a block rejected in ProcessProposal executes fine on the replay path", b.Height)
					}
					rec.Discard("rejected-block-verified-on-replay-end-of-history")
					return
				}
				// next round: the honest proposal for the same height
				byzantine, injected = false, 0
				use = honest
				setTxs(use)
				if _, err := sim.E.Propose(b, propRep, helper); err != nil {
					if preconditionLost(err.Error()) {
						rec.Discard("precondition-lost")
						return
					}
					if hs := chain.KnownHalt(err.Error()); hs != "" {
						if ev.Excluded(hs) {
							rec.Discard("known-finding:" + hs)
							return
						}
						fail(hs, "height %d: after a rejected Byzantine round the honest proposer could not prepare a proposal: %v", b.Height, err)
					}
					fail("honest-proposal-failed", "height %d: after a rejected Byzantine round the honest proposer could not prepare a proposal: %v", b.Height, err)
				}
				proc = sim.E.Execute(sim.Reps[procIdx], b, chain.PathProcess, nil)
				if proc.Err == nil && !proc.Accepted {
					fail("honest-proposal-rejected", "height %d: the honest proposal (second round) was REJECTED", b.Height)
				}
			}
			if proc.Err != nil {
				if preconditionLost(proc.Err.Error()) {
					rec.Discard("precondition-lost")
					return
				}
				if hs := chain.KnownHalt(proc.Err.Error()); hs != "" {
					if ev.Excluded(hs) {
						rec.Discard("known-finding:" + hs)
						return
					}
					fail(hs, "height %d: accepted block panicked on the process path: %v", b.Height, proc.Err)
				}
				fail("block-halts-chain", "height %d: accepted block panicked on the process path: %v", b.Height, proc.Err)
			}
			repl := sim.E.Execute(sim.Reps[1-procIdx], b, chain.PathReplay, nil)
			if repl.Err != nil {
				if preconditionLost(repl.Err.Error()) {
					rec.Discard("precondition-lost")
					return
				}
				if hs := chain.KnownHalt(repl.Err.Error()); hs != "" {
					if ev.Excluded(hs) {
						rec.Discard("known-finding:" + hs)
						return
					}
					fail(hs, "height %d: a block accepted by ProcessProposal panics on the replay path: %v", b.Height, repl.Err)
				}
				fail("block-halts-chain", "height %d: a block accepted by ProcessProposal panics on the replay path: %v", b.Height, repl.Err)
			}
			if string(repl.AppHash) != string(proc.AppHash) {
				fail("block-halts-chain", "height %d: replicas disagree on the AppHash (C01)", b.Height)
			}
			// per-transaction results: garbage fails for itself only
			interesting := 0
			for j, d := range use {
				if injected > 0 {
					break
				}
				res := proc.TxResults[j]
				if strings.HasPrefix(string(d.Method), "roothash.") {
					rec.Label(fmt.Sprintf("tx:%s:ok=%v", d.Method, res.Code == 0))
					if strings.HasPrefix(d.Note, "scripted round") {
						rec.Label(fmt.Sprintf("scripted-vote:result=%s/%d", res.Codespace, res.Code))
					}
				}
				if strings.Contains(d.Note, "by a delegator") || strings.Contains(d.Note, "whole delegation") || strings.Contains(d.Note, "delegator script") {
					rec.Label(fmt.Sprintf("tx:%s (%s):ok=%v", d.Method, strings.TrimSpace(d.Note), res.Code == 0))
				}
				if rt := regOf[d]; rt != nil && res.Code == 0 && rt.Unauthorized == "" && rt.OnSuccess != nil {
					rt.OnSuccess()
				}
				if d.Mutated == "garbage" || d.Mutated == "truncated" || d.Mutated == "oversized" || d.Mutated == "system-method" {
					if res.Code == 0 {
						fail("garbage-accepted", "height %d: %s transaction succeeded", b.Height, d.Mutated)
					}
					interesting++
				}
			}
			if epochChanged {
				interesting++
			}
			if len(b.Misbehavior) > 0 {
				interesting++
			}
			for _, v := range b.LastCommit.Votes {
				if !v.SignedLastBlock {
					interesting++
					break
				}
			}
			if interesting >= 2 {
				nontrivial = true
			}
			for _, k := range chain.RoothashEventKinds(proc) {
				rec.Label("roothash-block-event:" + k)
			}
			if err := sim.AfterCommit(b, proc); err != nil {
				if strings.Contains(err.Error(), "empty") {
					rec.Discard("precondition-lost")
					return
				}
				fail("engine-contract", "height %d: validator updates violate the consensus engine's contract: %v", b.Height, err)
			}
			if byzantine {
				rec.Label("byzantine-block-accepted")
			}
		}
		rec.LabelN("blocks", uint64(nblocks))
		for k, n := range sim.RoundOutcomes() {
			rec.LabelN("scripted-"+k, uint64(n))
		}
		var sample any
		if nontrivial && rec.WantSample() {
			sample = map[string]any{"spec": spec, "trace": tail(sim.Trace, 25)}
		}
		rec.Case(nontrivial, ev.Fingerprint(fp...), sample)
	})
}

func tail(s []string, n int) []string {
	if len(s) > n {
		return s[len(s)-n:]
	}
	return s
}

// TestC10NamespaceArrayForm is the reproduction of a chain-halting defect found with the alternative-encoding
// mutator (first seen by the C16 byte-level check, confirmed here on the live multiplexer; repaired in /repo by
// "fix: namespace identifiers must be CBOR byte strings"): one RegisterRuntime transaction whose id is a CBOR
// array of integers with a reserved flag bit was accepted, after which the stored runtime could not be decoded and
// BeginBlock of the next epoch transition failed for good.
func TestC10NamespaceArrayForm(t *testing.T) {
	rec := ev.New("C10", "TestC10NamespaceArrayForm", "deterministic regression case: RegisterRuntime with an array-form namespace id (reserved flag bit) by a staked entity, then 9 more blocks across two epoch transitions", "")
	defer rec.Flush()
	spec := chain.DefaultSpec()
	spec.WithRuntime = true
	spec.RtGroup, spec.RtBackup, spec.RtRoundTimeout = 1, 1, 3
	spec.NodeRoles = [][]int{{3}, {3}}
	w0, err := chain.BuildGenesis(spec)
	if err != nil {
		ev.Infra(t, "genesis: %v", err)
	}
	sim, err := chain.NewSim(spec, []chain.ReplicaConfig{{Name: "R0", Backend: "badger", MemoryOnly: true, Keys: w0.Entities[0].Nodes[0]}})
	if err != nil {
		ev.Infra(t, "sim: %v", err)
	}
	defer sim.Close()
	r := sim.Reps[0]
	run := func(txs [][]byte) *chain.BlockOutcome {
		vals := sim.E.Validators().Sorted()
		b := &chain.Block{Height: sim.E.Height, Time: sim.E.Time.Add(1e9), Proposer: vals[0], Txs: txs}
		signed := map[string]bool{}
		for _, v := range sim.E.PrevValidators() {
			signed[string(v.Address)] = true
		}
		b.LastCommit = sim.E.CommitInfoFor(signed)
		if _, err := sim.E.Propose(b, sim.ReplicaFor(b.Proposer), r); err != nil {
			ev.Violation(t, "block-halts-chain", "height %d: no proposal can be prepared any more: %v", b.Height, err)
		}
		out := sim.E.Execute(r, b, chain.PathProcess, nil)
		if out.Err != nil {
			ev.Violation(t, "block-halts-chain", "height %d: block execution failed: %v", b.Height, out.Err)
		}
		if err := sim.AfterCommit(b, out); err != nil {
			ev.Infra(t, "advance: %v", err)
		}
		return out
	}
	run(nil)
	rt := *sim.W.Runtime
	rt.Deployments = []*registry.VersionInfo{{ValidFrom: 6}}
	var m map[string]any
	if err := cbor.Unmarshal(cbor.Marshal(&rt), &m); err != nil {
		ev.Infra(t, "decode: %v", err)
	}
	id := make([]any, 32)
	for i := range id {
		id[i] = uint64(0)
	}
	id[1], id[31] = uint64(1), uint64(7)
	m["id"] = id
	ek := sim.W.Entities[0]
	st, _ := transaction.Sign(ek.Signer, &transaction.Transaction{Nonce: 0, Fee: &transaction.Fee{Gas: 1000000}, Method: registry.MethodRegisterRuntime, Body: cbor.Marshal(m)})
	out := run([][]byte{cbor.Marshal(st)})
	res := fmt.Sprintf("register: %s/%d %s", out.TxResults[0].Codespace, out.TxResults[0].Code, out.TxResults[0].Log)
	for i := 0; i < 9; i++ {
		run(nil)
	}
	rec.Case(true, ev.Fingerprint("ns"), res+"; chain continued for 9 blocks")
}
