package c10

import (
	"testing"

	"github.com/oasisprotocol/oasis-core/go/common/cbor"
	"github.com/oasisprotocol/oasis-core/go/consensus/api/transaction"
	governance "github.com/oasisprotocol/oasis-core/go/governance/api"
	staking "github.com/oasisprotocol/oasis-core/go/staking/api"

	"verifharness/chain"
	"verifharness/ev"
)

// TestC10FeeSplitChange: a governance proposal changes how transaction fees are split (here: everything to the proposer
// of the block, nothing to the voters and the next proposer - a valid parameter set) and passes. The change is applied in
// EndBlock of the transition block, AFTER the staking application has already set aside that block's share for the voters
// and the next proposer under the old weights; the next block disburses it under the new ones.
func TestC10FeeSplitChange(t *testing.T) {
	rec := ev.New("C10", "TestC10FeeSplitChange", "deterministic scenario: 2 validator entities, a proposal by a user that sets the fee split weights (propose, vote, next propose) to (1, 0, 0), both entities vote yes, every block carries a fee-paying transfer - also the transition block in which the proposal closes and the change is applied; oracle = every block executes and the staking ledger balances after each", "")
	defer rec.Flush()
	spec := chain.DefaultSpec()
	w0, err := chain.BuildGenesis(spec)
	if err != nil {
		ev.Infra(t, "genesis: %v", err)
	}
	sim, err := chain.NewSim(spec, []chain.ReplicaConfig{{Name: "R0", Backend: "badger", MemoryOnly: true, Keys: w0.Entities[0].Nodes[0]}})
	if err != nil {
		ev.Infra(t, "sim: %v", err)
	}
	defer sim.Close()
	r := sim.Reps[0]
	var failure error
	lastTxErr := ""
	commit := func(txs [][]byte) bool {
		vals := sim.E.Validators().Sorted()
		b := &chain.Block{Height: sim.E.Height, Time: sim.E.Time.Add(1e9), Proposer: vals[0], Txs: txs}
		signed := map[string]bool{}
		for _, v := range sim.E.PrevValidators() {
			signed[string(v.Address)] = true
		}
		b.LastCommit = sim.E.CommitInfoFor(signed)
		if _, err := sim.E.Propose(b, sim.ReplicaFor(b.Proposer), r); err != nil {
			failure = err
			return false
		}
		out := sim.E.Execute(r, b, chain.PathProcess, nil)
		if out.Err != nil || !out.Accepted {
			failure = out.Err
			return false
		}
		for i, res := range out.TxResults {
			if res.Code != 0 && i < len(txs) {
				lastTxErr = res.Log
			}
		}
		if err := sim.AfterCommit(b, out); err != nil {
			ev.Infra(t, "advance: %v", err)
		}
		// the ledger still balances (whatever was carried over went somewhere)
		if v, err := chain.NewView(r); err == nil {
			snap, serr := v.Snapshot()
			v.Close()
			if serr != nil {
				ev.Violation(t, "state-unreadable", "after block %d: cannot read staking state: %v", b.Height, serr)
			}
			if msg := snap.CheckConservation(); msg != "" {
				ev.Violation(t, "supply-not-conserved", "after block %d: %s", b.Height, msg)
			}
		}
		return true
	}
	if !commit(nil) {
		ev.Infra(t, "first block: %v", failure)
	}
	var user, other *chain.Actor
	for _, a := range sim.W.Actors() {
		if a.Entity == nil && a.Node == nil {
			if user == nil {
				user = a
			} else if other == nil {
				other = a
			}
		}
	}
	one, zero := *chain.Q(1), *chain.Q(0)
	zero2 := *chain.Q(0)
	ch := staking.ConsensusParameterChanges{FeeSplitWeightPropose: &one, FeeSplitWeightVote: &zero, FeeSplitWeightNextPropose: &zero2}
	pc := &governance.ProposalContent{Metadata: &governance.ProposalMetadata{Title: "verif fee split", Description: "all fees to the proposer"}, ChangeParameters: &governance.ChangeParametersProposal{Module: staking.ModuleName, Changes: cbor.Marshal(ch)}}
	userNonce := uint64(0)
	if !commit([][]byte{chain.SignTx(user.Signer, userNonce, &transaction.Fee{Gas: 100000}, governance.MethodSubmitProposal, pc)}) {
		ev.Infra(t, "proposal block: %v", failure)
	}
	userNonce++
	voted := false
	closed := -1
	for step := 0; step < 40 && (closed < 0 || step < closed+4); step++ {
		view, err := chain.NewView(r)
		if err != nil {
			ev.Infra(t, "view: %v", err)
		}
		props, _ := view.Gov.ActiveProposals(view.Ctx())
		if len(props) == 0 && closed < 0 {
			if step == 0 {
				view.Close()
				ev.Infra(t, "the proposal was not accepted: %s", lastTxErr)
			}
			closed = step
			all, _ := view.Gov.Proposals(view.Ctx())
			if len(all) != 1 || all[0].State != governance.StatePassed {
				view.Close()
				ev.Infra(t, "the proposal did not pass: %+v (%s)", all, lastTxErr)
			}
			params, _ := view.St.ConsensusParameters(view.Ctx())
			if params == nil || !params.FeeSplitWeightVote.IsZero() {
				view.Close()
				ev.Infra(t, "the proposal passed but the weights are unchanged")
			}
		}
		var txs [][]byte
		if !voted && len(props) == 1 {
			for _, ek := range sim.W.Entities {
				acct := view.Account(ek.Address())
				txs = append(txs, chain.SignTx(ek.Signer, acct.General.Nonce, &transaction.Fee{Gas: 100000}, governance.MethodCastVote, &governance.ProposalVote{ID: props[0].ID, Vote: governance.VoteYes}))
			}
			voted = true
		}
		// a fee-paying transfer in every block
		txs = append(txs, chain.SignTx(user.Signer, userNonce, &transaction.Fee{Gas: 100000, Amount: *chain.Q(90)}, staking.MethodTransfer, &staking.Transfer{To: other.Addr, Amount: *chain.Q(1)}))
		userNonce++
		view.Close()
		if !commit(txs) {
			rec.Case(true, ev.Fingerprint("fee-split-change"), failure.Error())
			ev.Violation(t, "honest-proposal-failed", "height %d (the proposal closed %d blocks ago; -1 = not yet): a block with honest traffic cannot be executed after the fee split weights were changed to (1, 0, 0): %v", sim.E.Height, step-closed, failure)
		}
	}
	if closed < 0 {
		ev.Infra(t, "the proposal never closed")
	}
	rec.Case(true, ev.Fingerprint("fee-split-change"), "the chain went on")
}
