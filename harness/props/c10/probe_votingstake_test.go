package c10

import (
	"testing"

	"github.com/oasisprotocol/oasis-core/go/common/cbor"
	"github.com/oasisprotocol/oasis-core/go/consensus/api/transaction"
	governance "github.com/oasisprotocol/oasis-core/go/governance/api"
	staking "github.com/oasisprotocol/oasis-core/go/staking/api"

	"verifharness/chain"
	"verifharness/ev"
)

// TestC10KFZeroVotingStake is the deterministic probe of known finding halt-zero-voting-stake (found by TestC10NoHalt
// once whole delegations were reclaimed deliberately; also reported by a round-9 seeding author from reading):
// governance EndBlock treats "the current validator entities have no active escrow" as a FATAL error when a proposal
// closes. The validator set of an epoch is elected in BeginBlock of the transition block; ReclaimEscrow transactions of
// the validator entities in that very block (delivered after the election) empty their active pools, and the proposal
// closing in the same block's EndBlock makes every node fail. Without a closing proposal the chain goes on (the
// entities simply are not re-elected one epoch later). It takes ALL current validator entities (or whoever holds all of
// their stake), so it is recorded, not repaired: what to do with a proposal nobody can vote on is a design decision.
func TestC10KFZeroVotingStake(t *testing.T) {
	rec := ev.New("C10", "TestC10KFZeroVotingStake", "deterministic probe of known finding halt-zero-voting-stake: 2 validator entities, a proposal by a user, both entities reclaim their whole self-delegation in the epoch-transition block in which the proposal closes", "")
	defer rec.Flush()
	spec := chain.DefaultSpec()
	w0, err := chain.BuildGenesis(spec)
	if err != nil {
		ev.Infra(t, "genesis: %v", err)
	}
	sim, err := chain.NewSim(spec, []chain.ReplicaConfig{{Name: "R0", Backend: "badger", MemoryOnly: true, Keys: w0.Entities[0].Nodes[0]}})
	if err != nil {
		ev.Infra(t, "sim: %v", err)
	}
	defer sim.Close()
	r := sim.Reps[0]
	var failure error
	lastTxErr := ""
	commit := func(txs [][]byte) bool {
		vals := sim.E.Validators().Sorted()
		b := &chain.Block{Height: sim.E.Height, Time: sim.E.Time.Add(1e9), Proposer: vals[0], Txs: txs}
		signed := map[string]bool{}
		for _, v := range sim.E.PrevValidators() {
			signed[string(v.Address)] = true
		}
		b.LastCommit = sim.E.CommitInfoFor(signed)
		if _, err := sim.E.Propose(b, sim.ReplicaFor(b.Proposer), r); err != nil {
			failure = err
			return false
		}
		out := sim.E.Execute(r, b, chain.PathProcess, nil)
		if out.Err != nil || !out.Accepted {
			failure = out.Err
			return false
		}
		for i, res := range out.TxResults {
			if res.Code != 0 && i < len(txs) {
				lastTxErr = res.Log
			}
		}
		if err := sim.AfterCommit(b, out); err != nil {
			ev.Infra(t, "advance: %v", err)
		}
		return true
	}
	if !commit(nil) {
		ev.Infra(t, "first block: %v", failure)
	}
	// a user submits a proposal (a change of the minimum transfer amount)
	var user *chain.Actor
	for _, a := range sim.W.Actors() {
		if a.Entity == nil && a.Node == nil {
			user = a
			break
		}
	}
	v := *chain.Q(5)
	pc := &governance.ProposalContent{Metadata: &governance.ProposalMetadata{Title: "verif probe", Description: "probe"}, ChangeParameters: &governance.ChangeParametersProposal{Module: staking.ModuleName, Changes: cbor.Marshal(staking.ConsensusParameterChanges{MinTransferAmount: &v})}}
	if !commit([][]byte{chain.SignTx(user.Signer, 0, &transaction.Fee{Gas: 100000}, governance.MethodSubmitProposal, pc)}) {
		ev.Infra(t, "proposal block: %v", failure)
	}
	nonces := map[int]uint64{}
	for step := 0; step < 40; step++ {
		view, err := chain.NewView(r)
		if err != nil {
			ev.Infra(t, "view: %v", err)
		}
		props, _ := view.Gov.ActiveProposals(view.Ctx())
		if len(props) == 0 {
			view.Close()
			if step == 0 {
				ev.Infra(t, "the proposal was not accepted: %s", lastTxErr)
			}
			break // closed normally
		}
		var txs [][]byte
		if view.Epoch+1 == props[0].ClosesAt && view.FutureEpochHeight() == sim.E.Height {
			// the transition block in which the proposal closes: every validator entity leaves with its whole self-delegation
			for i, ek := range sim.W.Entities {
				dels, _ := view.St.DelegationsFor(view.Ctx(), ek.Address())
				if d := dels[ek.Address()]; d != nil && !d.Shares.IsZero() {
					txs = append(txs, chain.SignTx(ek.Signer, nonces[i], &transaction.Fee{Gas: 100000}, staking.MethodReclaimEscrow, &staking.ReclaimEscrow{Account: ek.Address(), Shares: *d.Shares.Clone()}))
					nonces[i]++
				}
			}
		}
		view.Close()
		if !commit(txs) {
			rec.Case(true, ev.Fingerprint("zero-voting-stake"), failure.Error())
			if hs := chain.KnownHalt(failure.Error()); hs != "" {
				ev.Violation(t, hs, "height %d: both validator entities reclaim their whole self-delegation in the transition block in which a proposal closes: %v", sim.E.Height, failure)
			}
			ev.Violation(t, "honest-proposal-failed", "height %d: %v", sim.E.Height, failure)
		}
	}
	rec.Case(true, ev.Fingerprint("zero-voting-stake"), "the chain went on")
}
