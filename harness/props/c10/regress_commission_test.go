package c10

import (
	"testing"

	"github.com/oasisprotocol/oasis-core/go/consensus/api/transaction"
	staking "github.com/oasisprotocol/oasis-core/go/staking/api"

	"verifharness/chain"
	"verifharness/ev"
)

// TestC10CommissionIntervalZero is the shrunk form of a failure found by TestC10NoHalt on the pinned tree (repaired by a
// "fix:" commit in /repo, see known_findings.json): a genesis document whose commission schedule rules leave
// rate_change_interval at zero passes the genesis sanity check; one AmendCommissionSchedule transaction with a single
// rate step (CheckTx only authenticates it) then divided by zero while the block was executed - on the proposer, who
// could not produce a block any more, and on every validator of a block that contained it.
func TestC10CommissionIntervalZero(t *testing.T) {
	rec := ev.New("C10", "TestC10CommissionIntervalZero", "deterministic regression case: rate_change_interval = 0 (unset) in genesis, one AmendCommissionSchedule transaction with one rate step and one bound step; the block must execute and the transaction must get a result of its own", "")
	defer rec.Flush()
	spec := chain.DefaultSpec()
	zero := uint64(0)
	spec.CommissionInterval = &zero
	w0, err := chain.BuildGenesis(spec)
	if err != nil {
		ev.Infra(t, "genesis: %v", err)
	}
	sim, err := chain.NewSim(spec, []chain.ReplicaConfig{{Name: "R0", Backend: "badger", MemoryOnly: true, Keys: w0.Entities[0].Nodes[0]}})
	if err != nil {
		ev.Infra(t, "sim: %v", err)
	}
	defer sim.Close()
	r := sim.Reps[0]
	commit := func(txs [][]byte) {
		vals := sim.E.Validators().Sorted()
		b := &chain.Block{Height: sim.E.Height, Time: sim.E.Time.Add(1e9), Proposer: vals[0], Txs: txs}
		signed := map[string]bool{}
		for _, v := range sim.E.PrevValidators() {
			signed[string(v.Address)] = true
		}
		b.LastCommit = sim.E.CommitInfoFor(signed)
		if _, err := sim.E.Propose(b, sim.ReplicaFor(b.Proposer), r); err != nil {
			ev.Violation(t, "honest-proposal-failed", "height %d: the proposal cannot be built or is rejected: %v", b.Height, err)
		}
		out := sim.E.Execute(r, b, chain.PathProcess, nil)
		if out.Err != nil || !out.Accepted {
			ev.Violation(t, "block-execution-failed", "height %d: block execution failed: %v", b.Height, out.Err)
		}
		if len(out.TxResults) != len(b.Full) {
			ev.Violation(t, "block-execution-failed", "height %d: %d results for %d transactions", b.Height, len(out.TxResults), len(b.Full))
		}
		if err := sim.AfterCommit(b, out); err != nil {
			ev.Infra(t, "advance: %v", err)
		}
	}
	commit(nil)
	ek := sim.W.Entities[1]
	am := staking.CommissionSchedule{
		Rates:  []staking.CommissionRateStep{{Start: 7, Rate: *chain.Q(50000)}},
		Bounds: []staking.CommissionRateBoundStep{{Start: 7, RateMin: *chain.Q(0), RateMax: *chain.Q(100000)}},
	}
	raw := chain.SignTx(ek.Signer, 0, &transaction.Fee{Gas: 100000}, staking.MethodAmendCommissionSchedule, &staking.AmendCommissionSchedule{Amendment: am})
	commit([][]byte{raw})
	commit(nil)
	rec.Case(true, ev.Fingerprint("commission-interval-zero"), "genesis rate_change_interval=0; AmendCommissionSchedule{rates:[{7,50000}], bounds:[{7,0,100000}]} by entity 1")
}
