package c10

import (
	"fmt"
	"testing"

	"github.com/oasisprotocol/oasis-core/go/common/crypto/hash"
	"github.com/oasisprotocol/oasis-core/go/common/crypto/signature"
	"github.com/oasisprotocol/oasis-core/go/roothash/api/commitment"
	scheduler "github.com/oasisprotocol/oasis-core/go/scheduler/api"

	"verifharness/chain"
	"verifharness/ev"
)

// TestC10SlashRewardDeadPool is the shrunk form of a failure found by TestC11App on the pinned tree (repaired by a "fix:"
// commit in /repo, see known_findings.json). An entity whose commission rate is 100% runs compute nodes with a stake
// that the runtime's penalty for incorrect results wipes out. One of its primary workers commits a wrong result, its
// backup workers resolve the discrepancy: the entity is slashed to an escrow pool with outstanding shares and no
// balance, and is then rewarded as a discrepancy resolver. The reward is all commission, no share can be minted in a
// pool without balance, the roothash application returned the error from EndBlock, and the multiplexer turns that into a
// halt of every node - committee members of one runtime stop the chain.
func TestC10SlashRewardDeadPool(t *testing.T) {
	rec := ev.New("C10", "TestC10SlashRewardDeadPool", "deterministic regression case: entity with 100% commission, stake <= runtime penalty, is discrepancy causer and resolver in one round; the block that resolves the discrepancy must execute", "")
	defer rec.Flush()
	spec := chain.DefaultSpec()
	spec.NodesPerEntity = []int{1, 3}
	spec.NodeRoles = [][]int{{3}, {2, 2, 2}}
	spec.SelfStake, spec.SelfShares = []uint64{100000, 90}, []uint64{100000, 90}
	spec.EpochInterval = 12
	spec.MaxNodeExp = 6
	spec.WithRuntime = true
	spec.RtGroup, spec.RtBackup, spec.RtStragglers, spec.RtRoundTimeout, spec.RtSlash = 2, 3, 0, 5, 100
	spec.MinCommission = 100000 // accounts without a schedule of their own pay the minimum rate: everything is commission
	w0, err := chain.BuildGenesis(spec)
	if err != nil {
		ev.Infra(t, "genesis: %v", err)
	}
	sim, err := chain.NewSim(spec, []chain.ReplicaConfig{{Name: "R0", Backend: "badger", MemoryOnly: true, Keys: w0.Entities[0].Nodes[0]}})
	if err != nil {
		ev.Infra(t, "sim: %v", err)
	}
	defer sim.Close()
	r := sim.Reps[0]
	rtID := sim.W.Runtime.ID
	byID := sim.W.NodeByID()
	e1 := sim.W.Entities[1].Address()
	e1Node := map[signature.PublicKey]bool{}
	for _, nk := range sim.W.Entities[1].Nodes {
		e1Node[nk.ID.Public()] = true
	}
	users := sim.W.Actors()
	user := users[len(users)-1]
	nonce := uint64(0)

	commit := func(txs [][]byte) {
		vals := sim.E.Validators().Sorted()
		b := &chain.Block{Height: sim.E.Height, Time: sim.E.Time.Add(1e9), Proposer: vals[0], Txs: txs}
		signed := map[string]bool{}
		for _, v := range sim.E.PrevValidators() {
			signed[string(v.Address)] = true
		}
		b.LastCommit = sim.E.CommitInfoFor(signed)
		if _, err := sim.E.Propose(b, sim.ReplicaFor(b.Proposer), r); err != nil {
			ev.Violation(t, "honest-proposal-failed", "height %d: the proposal cannot be built or is rejected: %v", b.Height, err)
		}
		out := sim.E.Execute(r, b, chain.PathProcess, nil)
		if out.Err != nil || !out.Accepted {
			ev.Violation(t, "block-execution-failed", "height %d: block execution failed: %v", b.Height, out.Err)
		}
		for i, res := range out.TxResults {
			if res.Code != 0 {
				ev.Infra(t, "height %d tx %d failed: %s/%d %s", b.Height, i, res.Codespace, res.Code, res.Log)
			}
		}
		if err := sim.AfterCommit(b, out); err != nil {
			ev.Infra(t, "advance: %v", err)
		}
	}
	result := func(tag int) chain.ExecutorResult {
		return chain.ExecutorResult{StateRoot: hash.NewFromBytes([]byte(fmt.Sprintf("deadpool state %d", tag))), IORoot: hash.NewFromBytes([]byte(fmt.Sprintf("deadpool io %d", tag)))}
	}

	for step := 0; step < 60; step++ {
		view, err := chain.NewView(r)
		if err != nil {
			commit(nil) // (the state written by InitChain becomes readable with the first commit)
			continue
		}
		rt, err := view.RuntimeState(rtID)
		acct := view.Account(e1)
		view.Close()
		if err != nil || rt == nil || rt.Suspended || rt.Committee == nil || rt.CommitmentPool == nil {
			commit(nil)
			continue
		}
		var workers, backups []signature.PublicKey
		for _, m := range rt.Committee.Members {
			switch m.Role {
			case scheduler.RoleWorker:
				workers = append(workers, m.PublicKey)
			case scheduler.RoleBackupWorker:
				backups = append(backups, m.PublicKey)
			}
		}
		sched, ok := rt.Committee.Scheduler(rt.LastBlock.Header.Round+1, 0)
		if !ok || len(workers) != 2 || len(backups) != 3 {
			ev.Infra(t, "unexpected committee: %d workers, %d backups", len(workers), len(backups))
		}
		ofE1 := func(pk signature.PublicKey) bool { return e1Node[pk] }
		// the scheduler's own vote is the proposal the round is about; the wrong vote must come from the OTHER primary
		// worker, and that one must belong to entity 1 (otherwise a clean round first: the scheduler rotates)
		other := workers[0]
		if other == sched.PublicKey {
			other = workers[1]
		}
		attack := ofE1(other)
		liar := other
		mk := func(pk signature.PublicKey, tag int) commitment.ExecutorCommitment {
			ec, err := chain.NewExecutorCommitment(rtID, byID[pk], sched.PublicKey, rt.LastBlock, nil, result(tag))
			if err != nil {
				ev.Infra(t, "%v", err)
			}
			return *ec
		}
		send := func(ecs []commitment.ExecutorCommitment) {
			commit([][]byte{sim.W.ExecutorCommitTx(user.Signer, nonce, rtID, ecs)})
			nonce++
		}
		if !rt.CommitmentPool.Discrepancy {
			tag := 1
			if attack {
				tag = 2
			}
			rec.Label(fmt.Sprintf("dead-pool:primary-votes-sent,attack=%v", attack))
			send([]commitment.ExecutorCommitment{mk(sched.PublicKey, 1), mk(other, tag)})
			continue
		}
		var ecs []commitment.ExecutorCommitment
		resolverOfE1 := false
		for _, bk := range backups {
			resolverOfE1 = resolverOfE1 || (ofE1(bk) && bk != liar)
			if bk == workers[0] || bk == workers[1] {
				continue // has voted as a primary worker already, that vote counts
			}
			ecs = append(ecs, mk(bk, 1))
		}
		rec.Label(fmt.Sprintf("dead-pool:discrepancy-resolved,resolver-of-slashed-entity=%v,escrow-before=%s", resolverOfE1, acct.Escrow.Active.Balance.String()))
		send(ecs) // <- failed in EndBlock before the repair
		view, err = chain.NewView(r)
		if err != nil {
			ev.Infra(t, "view: %v", err)
		}
		after := view.Account(e1)
		view.Close()
		rec.Label(fmt.Sprintf("dead-pool:after,escrow=%s,shares=%s", after.Escrow.Active.Balance.String(), after.Escrow.Active.TotalShares.String()))
		rec.Case(true, ev.Fingerprint("dead-pool"), "discrepancy resolved by backup workers of the entity that was slashed to an empty pool; block executed")
		commit(nil)
		return
	}
	ev.Infra(t, "no committee within 60 blocks")
}
