package c10

import (
	"fmt"
	"testing"

	"github.com/cometbft/cometbft/abci/types"
	"pgregory.net/rapid"

	"github.com/oasisprotocol/oasis-core/go/common/crypto/hash"
	"github.com/oasisprotocol/oasis-core/go/common/crypto/signature"
	"github.com/oasisprotocol/oasis-core/go/consensus/api/transaction"
	registry "github.com/oasisprotocol/oasis-core/go/registry/api"
	"github.com/oasisprotocol/oasis-core/go/roothash/api/commitment"
	roothashAPI "github.com/oasisprotocol/oasis-core/go/roothash/api"
	scheduler "github.com/oasisprotocol/oasis-core/go/scheduler/api"

	"verifharness/chain"
	"verifharness/ev"
)

// A runtime whose committee CHANGES IN THE MIDDLE OF AN EPOCH: rounds are finalized, the runtime's descriptor is updated
// (committee sizes), a validator equivocates - the slash makes the scheduler elect again without an epoch transition -
// and the new committee goes on finalizing rounds until the epoch ends. Per-epoch bookkeeping that is indexed by committee
// position (liveness statistics) meets a committee of another size. Random traffic lines this up too rarely; scripted.

const rescheduleRule = "case = fixed genesis: anchor validator entity, a second validator entity (the equivocator), a compute entity with 4 compute nodes, a compute runtime (group 1-2, backup 0-1, liveness evaluation configured or not); " +
	"drawn script of 12-40 steps from: finalize a round (all primary workers commit the scheduler's result), a round that times out, update the runtime descriptor (group size / backup size +-1, round timeout) by its owner, " +
	"equivocation evidence against the second validator (slash -> election in the middle of the epoch), idle blocks up to the next epoch transition. oracle = every block executes on the proposer and the replaying replica " +
	"(documented precondition excepted). non-trivial = the committee of the runtime changed without an epoch transition and a round was finalized afterwards in the same epoch; distinct = the script"

// TestC10Reschedule: committee changes in the middle of an epoch never halt block execution.
func TestC10Reschedule(t *testing.T) {
	rec := ev.New("C10", "TestC10Reschedule", rescheduleRule, "the harness plays all committee members with their real node keys")
	defer rec.Flush()
	var cur *chain.Sim
	ev.Trace = func() any {
		if cur == nil {
			return nil
		}
		return cur.Trace
	}
	rapid.Check(t, func(t *rapid.T) {
		spec := chain.DefaultSpec()
		spec.NEntities = 3
		spec.NodesPerEntity = []int{1, 1, 4}
		spec.NodeRoles = [][]int{{1}, {1}, {2, 2, 2, 2}}
		spec.SelfStake, spec.SelfShares = []uint64{100000, 50000, 60000}, []uint64{100000, 50000, 60000}
		spec.General = []uint64{1000, 1000, 100000}
		spec.EpochInterval = int64(rapid.SampledFrom([]int{8, 12, 20}).Draw(t, "epochInterval"))
		spec.MaxNodeExp = 6
		spec.MaxValidators = 2
		spec.WithRuntime = true
		spec.RtOwner = 2
		spec.RtGroup = uint16(rapid.IntRange(1, 2).Draw(t, "group"))
		spec.RtBackup = uint16(rapid.IntRange(0, 1).Draw(t, "backup"))
		spec.RtStragglers, spec.RtRoundTimeout, spec.RtSlash = 0, 3, 0
		spec.SlashAmount = uint64(rapid.SampledFrom([]int{1, 100, 20000}).Draw(t, "slashAmount"))
		if rapid.Bool().Draw(t, "liveness") {
			spec.RtMinLivePct, spec.RtMinLiveEval, spec.RtMaxLiveFail, spec.RtMaxMissedPct = 50, 1, 2, 50
		}
		w0, err := chain.BuildGenesis(spec)
		if err != nil {
			ev.Infra(t, "genesis: %v", err)
		}
		sim, err := chain.NewSim(spec, []chain.ReplicaConfig{
			{Name: "R0", Backend: "badger", MemoryOnly: true, Keys: w0.Entities[0].Nodes[0]},
			{Name: "R1", Backend: "pathbadger", MemoryOnly: true},
		})
		if err != nil {
			rec.Discard("genesis-refused:" + firstWordsOf(err.Error(), 8))
			return
		}
		cur = sim
		defer sim.Close()
		r := sim.Reps[0]
		fail := func(sig, format string, args ...any) {
			ev.Violation(t, sig, "%s; spec=%+v trace=%v", fmt.Sprintf(format, args...), *spec, tail(sim.Trace, 40))
		}
		rtID := sim.W.Runtime.ID
		byID := sim.W.NodeByID()
		owner := sim.W.Entities[2]
		users := sim.W.Actors()
		user := users[len(users)-1]
		userNonce, ownerNonce := uint64(0), uint64(0)
		desc := *sim.W.Runtime
		equivocator := sim.W.Entities[1].Nodes[0]

		commit := func(txs [][]byte, misbehaviour []types.Misbehavior, what string) bool {
			vals := sim.E.Validators().Sorted()
			b := &chain.Block{Height: sim.E.Height, Time: sim.E.Time.Add(1e9), Proposer: vals[0], Txs: txs, Misbehavior: misbehaviour}
			signed := map[string]bool{}
			for _, v := range sim.E.PrevValidators() {
				signed[string(v.Address)] = true
			}
			b.LastCommit = sim.E.CommitInfoFor(signed)
			classify := func(err error, where string) bool {
				if chain.PreconditionLost(err.Error()) {
					rec.Discard("precondition-lost")
					return false
				}
				if hs := chain.KnownHalt(err.Error()); hs != "" && ev.Excluded(hs) {
					rec.Discard("known-finding:" + hs)
					return false
				}
				fail("honest-proposal-failed", "height %d (%s): %s: %v", b.Height, what, where, err)
				return false
			}
			if _, err := sim.E.Propose(b, sim.ReplicaFor(b.Proposer), r); err != nil {
				return classify(err, "the proposal cannot be built")
			}
			out := sim.E.Execute(r, b, chain.PathProcess, nil)
			if out.Err != nil {
				return classify(out.Err, "block execution failed")
			}
			if !out.Accepted {
				fail("honest-proposal-rejected", "height %d (%s): the honest proposal was rejected", b.Height, what)
			}
			if repl := sim.E.Execute(sim.Reps[1], b, chain.PathReplay, nil); repl.Err != nil {
				return classify(repl.Err, "the replaying replica failed")
			} else if string(repl.AppHash) != string(out.AppHash) {
				fail("block-halts-chain", "height %d (%s): replicas disagree on the AppHash", b.Height, what)
			}
			sim.Logf("h=%d %s", b.Height, what)
			if err := sim.AfterCommit(b, out); err != nil {
				rec.Discard("engine-contract")
				return false
			}
			return true
		}
		result := func(tag uint64) chain.ExecutorResult {
			return chain.ExecutorResult{StateRoot: hash.NewFromBytes([]byte(fmt.Sprintf("resched state %d", tag))), IORoot: hash.NewFromBytes([]byte(fmt.Sprintf("resched io %d", tag)))}
		}
		type cstate struct {
			epoch   uint64
			members string
		}
		var last cstate
		changedMidEpoch, finalizedAfterChange, pendingResize := false, false, false
		// (evidence in the first blocks of a chain is not possible in CometBFT; the state written by InitChain becomes
		// readable with the first commit)
		for i := 0; i < 3; i++ {
			if !commit(nil, nil, "start") {
				return
			}
		}
		// the first election happens at the first epoch transition: wait for the runtime's first committee
		for i := int64(0); i < 2*spec.EpochInterval+4; i++ {
			v0, err := chain.NewView(r)
			if err != nil {
				ev.Infra(t, "view: %v", err)
			}
			rt0, rerr0 := v0.RuntimeState(rtID)
			v0.Close()
			if rerr0 == nil && rt0 != nil && rt0.Committee != nil && !rt0.Suspended {
				break
			}
			if !commit(nil, nil, "waiting for the first committee") {
				return
			}
		}
		nsteps := rapid.IntRange(12, 40).Draw(t, "steps")
		var fp []any
		for step := 0; step < nsteps; step++ {
			view, err := chain.NewView(r)
			if err != nil {
				if !commit(nil, nil, "first block") {
					return
				}
				continue
			}
			rt, rerr := view.RuntimeState(rtID)
			epoch := uint64(view.Epoch)
			view.Close()
			var members string
			if rerr == nil && rt != nil && rt.Committee != nil {
				for _, m := range rt.Committee.Members {
					members += fmt.Sprintf("%s/%d ", m.PublicKey.String()[:6], m.Role)
				}
			}
			if last.members != "" && members != "" && members != last.members && epoch == last.epoch {
				changedMidEpoch = true
				rec.Label("committee-changed-mid-epoch")
			}
			last = cstate{epoch, members}
			kind := rapid.SampledFrom([]string{"round", "round", "round", "idle", "update", "evidence", "silent-round"}).Draw(t, "step")
			if pendingResize && rapid.Bool().Draw(t, "evidenceAfterResize") {
				kind = "evidence" // the new committee sizes take effect at the next election: make it happen inside this epoch
			}
			fp = append(fp, kind)
			switch kind {
			case "idle":
				if !commit(nil, nil, "idle") {
					return
				}
			case "update":
				d := desc
				switch rapid.IntRange(0, 3).Draw(t, "updateHow") {
				case 0:
					d.Executor.GroupSize++
				case 1:
					d.Executor.GroupBackupSize++
				case 2:
					if d.Executor.GroupSize > 1 {
						d.Executor.GroupSize--
					}
				default:
					d.Executor.RoundTimeout = int64(rapid.IntRange(2, 5).Draw(t, "roundTimeout"))
				}
				if d.Executor.GroupSize+d.Executor.GroupBackupSize > 4 {
					d = desc
				}
				raw := chain.SignTx(owner.Signer, ownerNonce, &transaction.Fee{Gas: 200000}, registry.MethodRegisterRuntime, &d)
				ownerNonce++
				if !commit([][]byte{raw}, nil, fmt.Sprintf("runtime update: group %d backup %d timeout %d", d.Executor.GroupSize, d.Executor.GroupBackupSize, d.Executor.RoundTimeout)) {
					return
				}
				v2, _ := chain.NewView(r)
				if cur, err := v2.Reg.Runtime(v2.Ctx(), rtID); err == nil && cur.Executor.GroupSize == d.Executor.GroupSize && cur.Executor.GroupBackupSize == d.Executor.GroupBackupSize {
					pendingResize = pendingResize || d.Executor.GroupSize != desc.Executor.GroupSize || d.Executor.GroupBackupSize != desc.Executor.GroupBackupSize
					desc = d
					rec.Label("runtime-update-accepted")
				}
				v2.Close()
			case "evidence":
				var target *chain.Validator
				for _, v := range sim.E.Validators() {
					if v.PubKey == equivocator.Consensus.Public() {
						target = v
					}
				}
				if target == nil {
					if !commit(nil, nil, "idle (the equivocator is not a validator any more)") {
						return
					}
					continue
				}
				evh := sim.E.Height - 1
				if evh < 1 {
					evh = 1
				}
				mb := types.Misbehavior{Type: types.MisbehaviorType_DUPLICATE_VOTE, Validator: types.Validator{Address: target.Address, Power: target.Power}, Height: evh, Time: sim.E.Time, TotalVotingPower: sim.E.Validators().TotalPower()}
				vb, _ := chain.NewView(r)
				escBefore := vb.Account(sim.W.Entities[1].Address()).Escrow.Active.Balance.String()
				vb.Close()
				if !commit(nil, []types.Misbehavior{mb}, "equivocation evidence against the second validator") {
					return
				}
				va, _ := chain.NewView(r)
				escAfter := va.Account(sim.W.Entities[1].Address()).Escrow.Active.Balance.String()
				va.Close()
				nAfter := -1
				if rt3, err := func() (*roothashRT, error) { v3, _ := chain.NewView(r); defer v3.Close(); return v3.RuntimeState(rtID) }(); err == nil && rt3 != nil && rt3.Committee != nil {
					nAfter = len(rt3.Committee.Members)
				}
				nBefore := -1
				if rt != nil && rt.Committee != nil {
					nBefore = len(rt.Committee.Members)
				}
				rec.Label(fmt.Sprintf("evidence:slashed=%v:resize-pending=%v:members %d->%d (descriptor %d+%d)", escBefore != escAfter, pendingResize, nBefore, nAfter, desc.Executor.GroupSize, desc.Executor.GroupBackupSize))
				pendingResize = false
			default: // round / silent-round
				if rerr != nil || rt == nil || rt.Suspended || rt.Committee == nil || rt.CommitmentPool == nil || rt.LastBlock == nil {
					if !commit(nil, nil, "no committee") {
						return
					}
					continue
				}
				if kind == "silent-round" {
					if !commit(nil, nil, "nobody commits (the round may time out)") {
						return
					}
					continue
				}
				sched, ok := rt.Committee.Scheduler(rt.LastBlock.Header.Round+1, 0)
				if !ok {
					if !commit(nil, nil, "no scheduler") {
						return
					}
					continue
				}
				var ecs []commitment.ExecutorCommitment
				seen := map[signature.PublicKey]bool{}
				for _, m := range rt.Committee.Members {
					if m.Role != scheduler.RoleWorker || seen[m.PublicKey] || byID[m.PublicKey] == nil {
						continue
					}
					seen[m.PublicKey] = true
					ec, err := chain.NewExecutorCommitment(rtID, byID[m.PublicKey], sched.PublicKey, rt.LastBlock, nil, result(rt.LastBlock.Header.Round+1))
					if err != nil {
						ev.Infra(t, "%v", err)
					}
					ecs = append(ecs, *ec)
				}
				before := rt.LastBlock.Header.Round
				if !commit([][]byte{sim.W.ExecutorCommitTx(user.Signer, userNonce, rtID, ecs)}, nil, fmt.Sprintf("round %d: %d primary workers commit", before+1, len(ecs))) {
					return
				}
				userNonce++
				v2, _ := chain.NewView(r)
				if rt2, err := v2.RuntimeState(rtID); err == nil && rt2 != nil && rt2.LastBlock != nil && rt2.LastBlock.Header.Round > before {
					rec.Label(fmt.Sprintf("round-finalized:type=%d", rt2.LastBlock.Header.HeaderType))
					if changedMidEpoch && uint64(v2.Epoch) == last.epoch {
						finalizedAfterChange = true
					}
				}
				v2.Close()
			}
		}
		// to the next epoch transition and one block beyond
		for i := int64(0); i < spec.EpochInterval+2; i++ {
			if !commit(nil, nil, "tail") {
				return
			}
		}
		nt := changedMidEpoch && finalizedAfterChange
		var sample any
		if nt && rec.WantSample() {
			sample = tail(sim.Trace, 30)
		}
		rec.Case(nt, ev.Fingerprint(append(fp, fmt.Sprintf("%+v", *spec))...), sample)
	})
}

type roothashRT = roothashAPI.RuntimeState

func firstWordsOf(s string, n int) string {
	out, words := "", 0
	for _, c := range s {
		if c == ' ' {
			words++
			if words >= n {
				break
			}
		}
		out += string(c)
	}
	return out
}
