// Package c11 decides property C11 (a runtime round finalizes only with unanimity or backup
// majority) by comparing the real commitment pool with a reference model written from the
// property statement, over generated committees and commitment streams.
package c11

import (
	"errors"
	"fmt"
	"math"
	"os"
	"strconv"
	"testing"

	"pgregory.net/rapid"

	"github.com/oasisprotocol/oasis-core/go/common/crypto/hash"
	"github.com/oasisprotocol/oasis-core/go/common/crypto/signature"
	"github.com/oasisprotocol/oasis-core/go/roothash/api/commitment"
	scheduler "github.com/oasisprotocol/oasis-core/go/scheduler/api"

	"verifharness/c11model"
	"verifharness/ev"
)

// ---------------------------------------------------------------------------------------
// Case description (everything that is drawn).

type step struct {
	// Kind: 0 = add commitment, 1 = process(timeout=false), 2 = process(timeout=true)
	Kind int `json:"k"`
	// Node and Sched are indexes into the key universe (members first, then outsiders).
	Node  int `json:"n,omitempty"`
	Sched int `json:"s,omitempty"`
	// Result: 0 = failure, 1.. = result A, B, C
	Result int `json:"r,omitempty"`
}

type caseDesc struct {
	Workers    int    `json:"workers"`
	Backups    int    `json:"backups"`
	Overlap    int    `json:"overlap"` // first Overlap backup workers reuse worker keys
	Stragglers int    `json:"stragglers"`
	Round      uint64 `json:"round"`
	Steps      []step `json:"steps"`
}

func key(i int) signature.PublicKey {
	var pk signature.PublicKey
	pk[0] = byte(i + 1)
	pk[31] = 0xC1
	return pk
}

// universe: worker i -> key(i); backup j -> key(j) if j < overlap else key(workers + j);
// outsiders -> key(100 + k).
func (c *caseDesc) committee() (*scheduler.Committee, []signature.PublicKey) {
	com := &scheduler.Committee{Kind: scheduler.KindComputeExecutor}
	var uni []signature.PublicKey
	seen := map[signature.PublicKey]bool{}
	for i := 0; i < c.Workers; i++ {
		com.Members = append(com.Members, &scheduler.CommitteeNode{Role: scheduler.RoleWorker, PublicKey: key(i)})
		uni = append(uni, key(i))
		seen[key(i)] = true
	}
	for j := 0; j < c.Backups; j++ {
		k := key(c.Workers + j)
		if j < c.Overlap && j < c.Workers {
			k = key(j)
		}
		com.Members = append(com.Members, &scheduler.CommitteeNode{Role: scheduler.RoleBackupWorker, PublicKey: k})
		if !seen[k] {
			uni = append(uni, k)
			seen[k] = true
		}
	}
	uni = append(uni, key(100), key(101))
	return com, uni
}

func resultHash(r int) hash.Hash {
	return hash.NewFromBytes([]byte{byte(r), 0x11})
}

func mkCommit(node, sched signature.PublicKey, round uint64, result int) *commitment.ExecutorCommitment {
	ec := &commitment.ExecutorCommitment{NodeID: node}
	ec.Header.SchedulerID = sched
	ec.Header.Header.Round = round
	ec.Header.Header.PreviousHash = hash.NewFromBytes([]byte("prev"))
	if result == 0 {
		ec.Header.SetFailure(commitment.FailureUnknown)
		return ec
	}
	h := resultHash(result)
	io := hash.NewFromBytes([]byte("io"))
	mh := hash.NewFromBytes(nil)
	ec.Header.Header.StateRoot = &h
	ec.Header.Header.IORoot = &io
	ec.Header.Header.MessagesHash = &mh
	ec.Header.Header.InMessagesHash = &mh
	return ec
}

// ---------------------------------------------------------------------------------------
// Reference model, written from the property statement.

type (
	outcome = c11model.Outcome
	model   = c11model.Model
)

const (
	oWait            = c11model.Wait
	oFinalize        = c11model.Finalize
	oDiscrepancy     = c11model.Discrepancy
	oFailNoScheduler = c11model.FailNoScheduler
	oFailResolution  = c11model.FailResolution
)

func newModel(c *caseDesc) *model {
	com, _ := c.committee()
	var workers, backups []signature.PublicKey
	for _, n := range com.Members {
		if n.Role == scheduler.RoleWorker {
			workers = append(workers, n.PublicKey)
		} else {
			backups = append(backups, n.PublicKey)
		}
	}
	return c11model.New(workers, backups, c.Stragglers, c.Round)
}

// ---------------------------------------------------------------------------------------
// Implementation side.

func classify(sc *commitment.SchedulerCommitment, err error) (outcome, bool) {
	switch {
	case err == nil && sc != nil:
		return oFinalize, true
	case errors.Is(err, commitment.ErrStillWaiting):
		return oWait, true
	case errors.Is(err, commitment.ErrDiscrepancyDetected):
		return oDiscrepancy, true
	case errors.Is(err, commitment.ErrNoSchedulerCommitment):
		return oFailNoScheduler, true
	case errors.Is(err, commitment.ErrInsufficientVotes), errors.Is(err, commitment.ErrBadSchedulerCommitment):
		return oFailResolution, true
	}
	return 0, false
}

type runStats struct {
	admitted, rejected   int
	sawDiscrepancy       bool
	sawFinalize          bool
	sawStragglerBoundary bool
	sawBackupRank        bool
	outsider             bool
	duplicate            bool
	finalOutcome         outcome
	answers              []string
}

// runCase executes the stream against pool and model and reports the first disagreement.
func runCase(c *caseDesc) (st runStats, sig string, msg string) {
	com, uni := c.committee()
	pool := commitment.NewPool()
	m := newModel(c)
	type committed struct {
		node, sched signature.PublicKey
		ec          *commitment.ExecutorCommitment
	}
	var own []committed
	seen := map[string]bool{}
	for i, s := range c.Steps {
		switch s.Kind {
		case 0:
			node, sched := uni[s.Node%len(uni)], uni[s.Sched%len(uni)]
			res := s.Result
			if node == sched && res == 0 {
				// Precondition (VerifyExecutorCommitment): a scheduler never submits a failure
				// for its own proposal.
				res = 1
			}
			ec := mkCommit(node, sched, c.Round, res)
			err := pool.AddVerifiedExecutorCommitment(com, ec)
			want := m.Add(node, sched, res)
			if !com.IsMember(node) {
				st.outsider = true
			}
			k := fmt.Sprintf("%x/%x", node[0], sched[0])
			if seen[k] {
				st.duplicate = true
			}
			seen[k] = true
			if want {
				st.admitted++
				if node == sched {
					own = append(own, committed{node, sched, ec})
				}
				if r, _ := m.Rank(sched); r > 0 {
					st.sawBackupRank = true
				}
			} else {
				st.rejected++
			}
			st.answers = append(st.answers, fmt.Sprintf("add:%v", err == nil))
			if (err == nil) != want {
				return st, "admission", fmt.Sprintf("step %d add(node=%x sched=%x result=%d): pool err=%v, model admits=%v", i, node[0], sched[0], res, err, want)
			}
		default:
			timeout := s.Kind == 2
			sc, err := pool.ProcessCommitments(com, uint16(c.Stragglers), timeout)
			got, known := classify(sc, err)
			if !known {
				return st, "unknown-outcome", fmt.Sprintf("step %d process(timeout=%v): unexpected result sc=%v err=%v", i, timeout, sc, err)
			}
			// straggler boundary bookkeeping (before model.process mutates state)
			if !m.Resolving && m.Best != math.MaxUint64 {
				agree := 0
				for _, w := range m.Workers {
					if v, ok := m.Votes[m.Best][w]; ok && v.Result == m.SchedResult[m.Best] {
						agree++
					}
				}
				d := agree - (len(m.Workers) - m.Stragglers)
				if d >= -1 && d <= 1 && m.Stragglers > 0 {
					st.sawStragglerBoundary = true
				}
			}
			want := m.Process(timeout)
			st.answers = append(st.answers, "proc:"+got.String())
			if got != want {
				return st, "outcome", fmt.Sprintf("step %d process(timeout=%v): pool says %v (err=%v), model says %v", i, timeout, got, err, want)
			}
			if timeout && got == oWait {
				return st, "wait-after-timeout", fmt.Sprintf("step %d process(timeout=true) keeps waiting", i)
			}
			switch got {
			case oDiscrepancy:
				st.sawDiscrepancy = true
				if !pool.Discrepancy {
					return st, "outcome", fmt.Sprintf("step %d: discrepancy reported but pool not in resolution mode", i)
				}
			case oFinalize:
				st.sawFinalize = true
				// The returned commitment must be the one of the best-ranked committed scheduler.
				var bestEC *commitment.ExecutorCommitment
				for _, o := range own {
					if r, _ := m.Rank(o.sched); r == m.Best {
						bestEC = o.ec
					}
				}
				if sc.Commitment == nil || bestEC == nil || sc.Commitment != bestEC {
					return st, "wrong-commitment", fmt.Sprintf("step %d: finalized commitment %+v is not the best-ranked scheduler's %+v", i, sc.Commitment, bestEC)
				}
				// Independent recount straight from the statement, on the returned votes.
				if pool.Discrepancy {
					cnt := 0
					for _, b := range m.Backups {
						if v, ok := sc.Votes[b]; ok && v != nil && *v == bestEC.ToVote() {
							cnt++
						}
					}
					if cnt < len(m.Backups)/2+1 {
						return st, "outcome", fmt.Sprintf("step %d: finalized in resolution with %d/%d backup votes", i, cnt, len(m.Backups))
					}
				} else {
					cnt := 0
					for _, w := range m.Workers {
						v, ok := sc.Votes[w]
						if !ok {
							continue
						}
						if v == nil {
							continue
						}
						if *v != bestEC.ToVote() {
							return st, "outcome", fmt.Sprintf("step %d: finalized with a dissenting primary vote", i)
						}
						cnt++
					}
					if cnt < len(m.Workers)-m.Stragglers {
						return st, "outcome", fmt.Sprintf("step %d: finalized with %d agreeing of %d primary (stragglers %d)", i, cnt, len(m.Workers), m.Stragglers)
					}
				}
			}
			if got != oWait && got != oDiscrepancy {
				st.finalOutcome = got
				return st, "", "" // terminal: the application resets the pool
			}
		}
	}
	return st, "", ""
}

// ---------------------------------------------------------------------------------------
// Generators.

func genCase(t *rapid.T) *caseDesc {
	c := &caseDesc{}
	c.Workers = rapid.IntRange(1, 4).Draw(t, "workers")
	c.Backups = rapid.IntRange(0, 4).Draw(t, "backups")
	c.Overlap = rapid.IntRange(0, 2).Draw(t, "overlap")
	if c.Overlap > c.Backups {
		c.Overlap = c.Backups
	}
	if c.Overlap > c.Workers {
		c.Overlap = c.Workers
	}
	c.Stragglers = rapid.IntRange(0, 3).Draw(t, "stragglers")
	// Round numbers are block counters starting at 0; values near 2^64 are unreachable and make
	// Committee.SchedulerRank's (round+idx) wrap around (two schedulers then share a rank), so they
	// are outside the domain (see DESIGN.md, C11 notes).
	c.Round = rapid.OneOf(rapid.Uint64Range(0, 9), rapid.Uint64Range(0, 1<<62)).Draw(t, "round")
	_, uni := c.committee()
	n := rapid.IntRange(1, 24).Draw(t, "nsteps")
	// Most schedulers are workers; most votes follow the majority result (otherwise nearly
	// every stream is an immediate discrepancy).
	mainSched := rapid.IntRange(0, c.Workers-1).Draw(t, "mainSched")
	if rapid.IntRange(0, 9).Draw(t, "schedFirst") < 6 {
		c.Steps = append(c.Steps, step{Kind: 0, Node: mainSched, Sched: mainSched, Result: 1})
	}
	for i := 0; i < n; i++ {
		k := rapid.SampledFrom([]int{0, 0, 0, 0, 0, 0, 0, 1, 1, 2}).Draw(t, "kind")
		s := step{Kind: k}
		if k == 0 {
			s.Node = rapid.IntRange(0, len(uni)-1).Draw(t, "node")
			if rapid.IntRange(0, 9).Draw(t, "schedMode") < 7 {
				s.Sched = mainSched
			} else {
				s.Sched = rapid.IntRange(0, len(uni)-1).Draw(t, "sched")
			}
			s.Result = rapid.SampledFrom([]int{1, 1, 1, 1, 1, 1, 2, 0, 0, 3}).Draw(t, "result")
		}
		c.Steps = append(c.Steps, s)
	}
	return c
}

func (c *caseDesc) fp() [8]byte { return ev.Fingerprint(fmt.Sprintf("%+v", *c)) }

func nontrivial(st runStats) bool {
	return st.sawDiscrepancy || st.sawStragglerBoundary || st.sawBackupRank
}

const rule = "case = committee (1-4 primary, 0-4 backup, overlapping roles, stragglers 0-3, round rotation) + stream of up to 24 " +
	"add-commitment / process(timeout?) steps; oracle = reference model from the statement compared after every step " +
	"(admission of every vote, outcome class of every process call, identity of the finalized commitment, never WAIT after timeout); " +
	"non-trivial = stream in which a discrepancy was declared, or a process call happened with agreeing votes within +-1 of " +
	"(primary - stragglers) with stragglers>0, or a vote for a scheduler of rank>0 was admitted; distinct = hash of the whole drawn case"

var assumptions = []string{
	"commitments passed VerifyExecutorCommitment (same round, scheduler never submits a failure for itself)",
	"committee lists workers before backup workers (scheduler construction)",
	"the application stops using a pool after a terminal outcome (finalize / fail)",
}

// TestC11Pool: random streams against the reference model.
func TestC11Pool(t *testing.T) {
	rec := ev.New("C11", "TestC11Pool", rule, assumptions...)
	defer rec.Flush()
	var cur *caseDesc
	ev.Trace = func() any { return cur }
	rapid.Check(t, func(t *rapid.T) {
		c := genCase(t)
		cur = c
		st, sig, msg := runCase(c)
		if sig != "" {
			ev.Violation(t, sig, "%s; case=%+v", msg, *c)
		}
		// Metamorphic: votes from non-members and duplicate votes never change any later answer.
		if st.outsider || st.duplicate {
			if sig, msg := metamorphic(c); sig != "" {
				ev.Violation(t, sig, "%s; case=%+v", msg, *c)
			}
			rec.Label("metamorphic")
		}
		labels(rec, c, st)
		var sample any
		if nontrivial(st) && rec.WantSample() {
			sample = map[string]any{"case": c, "answers": st.answers}
		}
		rec.Case(nontrivial(st), c.fp(), sample)
	})
}

func labels(rec *ev.Recorder, c *caseDesc, st runStats) {
	if st.sawDiscrepancy {
		rec.Label("discrepancy")
	}
	if st.sawFinalize {
		rec.Label("finalize")
		if st.sawDiscrepancy {
			rec.Label("finalize-after-resolution")
		}
	}
	if st.sawStragglerBoundary {
		rec.Label("straggler-boundary")
	}
	if st.sawBackupRank {
		rec.Label("rank>0")
	}
	if c.Overlap > 0 {
		rec.Label("overlapping-roles")
	}
	rec.Label("final:" + st.finalOutcome.String())
}

// metamorphic removes every add that the model does not admit because the node is not a
// member or the vote is a duplicate, and requires identical process answers.
func metamorphic(c *caseDesc) (string, string) {
	com, uni := c.committee()
	seen := map[string]bool{}
	c2 := *c
	c2.Steps = nil
	for _, s := range c.Steps {
		if s.Kind == 0 {
			node, sched := uni[s.Node%len(uni)], uni[s.Sched%len(uni)]
			k := fmt.Sprintf("%x/%x", node[0], sched[0])
			if !com.IsMember(node) || seen[k] {
				continue
			}
			seen[k] = true
		}
		c2.Steps = append(c2.Steps, s)
	}
	a1 := procAnswers(c)
	a2 := procAnswers(&c2)
	if len(a1) != len(a2) {
		return "metamorphic", fmt.Sprintf("process answers differ after removing non-member/duplicate votes: %v vs %v", a1, a2)
	}
	for i := range a1 {
		if a1[i] != a2[i] {
			return "metamorphic", fmt.Sprintf("process answers differ after removing non-member/duplicate votes: %v vs %v", a1, a2)
		}
	}
	return "", ""
}

func procAnswers(c *caseDesc) []string {
	com, uni := c.committee()
	pool := commitment.NewPool()
	var out []string
	for _, s := range c.Steps {
		if s.Kind == 0 {
			node, sched := uni[s.Node%len(uni)], uni[s.Sched%len(uni)]
			res := s.Result
			if node == sched && res == 0 {
				res = 1
			}
			_ = pool.AddVerifiedExecutorCommitment(com, mkCommit(node, sched, c.Round, res))
			continue
		}
		sc, err := pool.ProcessCommitments(com, uint16(c.Stragglers), s.Kind == 2)
		o, _ := classify(sc, err)
		a := o.String()
		if sc != nil && sc.Commitment != nil {
			a += fmt.Sprintf("/%x", sc.Commitment.NodeID[0])
		}
		out = append(out, a)
		if o != oWait && o != oDiscrepancy {
			break
		}
	}
	return out
}

// TestC11Exhaustive enumerates all streams up to a length bound for small committees.
func TestC11Exhaustive(t *testing.T) {
	rec := ev.New("C11", "TestC11Exhaustive",
		"exhaustive sub-space: all streams of length <= L (largest L with |alphabet|^L <= 1.5e6 quick / 4e7 thorough per committee shape, see labels) over {add(node,sched,result in {fail,A,B}), process, process-timeout} "+
			"for primary<=2, backup<=2, overlap<=1, stragglers<=1, rounds {0,1}; same oracle as TestC11Pool; non-trivial/distinct as there", assumptions...)
	defer rec.Flush()
	shard, _ := strconv.Atoi(os.Getenv("VERIF_SHARD"))
	nshards, _ := strconv.Atoi(os.Getenv("VERIF_NSHARDS"))
	if nshards == 0 {
		nshards = 1
	}
	budget := float64(ev.Pick(1_500_000, 40_000_000))
	cfg := 0
	for w := 1; w <= 2; w++ {
		for b := 0; b <= 2; b++ {
			for ov := 0; ov <= 1; ov++ {
				if ov > b {
					continue
				}
				for sg := 0; sg <= 1; sg++ {
					for round := uint64(0); round <= 1; round++ {
						cfg++
						if cfg%nshards != shard {
							continue
						}
						base := &caseDesc{Workers: w, Backups: b, Overlap: ov, Stragglers: sg, Round: round}
						_, uni := base.committee()
						nu := len(uni) - 1 // one outsider is enough
						// schedulers: every worker plus one non-worker (a backup-only node or the outsider)
						scheds := []int{}
						for s := 0; s < w; s++ {
							scheds = append(scheds, s)
						}
						scheds = append(scheds, nu-1)
						var alphabet []step
						for n := 0; n < nu; n++ {
							for _, s := range scheds {
								for r := 0; r <= 2; r++ {
									if n == s && r == 0 {
										continue
									}
									alphabet = append(alphabet, step{Kind: 0, Node: n, Sched: s, Result: r})
								}
							}
						}
						alphabet = append(alphabet, step{Kind: 1}, step{Kind: 2})
						maxLen := 1
						for math.Pow(float64(len(alphabet)), float64(maxLen+1)) <= budget {
							maxLen++
						}
						rec.Label(fmt.Sprintf("maxlen=%d", maxLen))
						var rec_ func(prefix []step)
						rec_ = func(prefix []step) {
							if len(prefix) > 0 {
								c := *base
								c.Steps = prefix
								st, sig, msg := runCase(&c)
								if sig != "" {
									ev.Violation(t, sig, "%s; case=%+v", msg, c)
								}
								rec.Case(nontrivial(st), c.fp(), nil)
								if st.finalOutcome != oWait {
									return // terminal: longer streams are not in the domain
								}
							}
							if len(prefix) == maxLen {
								return
							}
							for _, a := range alphabet {
								rec_(append(append([]step{}, prefix...), a))
							}
						}
						rec_(nil)
					}
				}
			}
		}
	}
	rec.Extra("exhaustive_subspace", true)
}
