// Package c11app decides property C11 (a runtime round finalizes only with primary unanimity or a backup majority) on
// the REAL roothash application: generated histories of executor commitment transactions are executed by the in-process
// chain engine and what the application does (runtime blocks, discrepancy flag, round timer) is compared, after every
// consensus block, with the reference model of the property (harness/c11model) replayed in the application's order.
package c11app

import (
	"errors"
	"fmt"
	"math"
	"os"
	"sort"
	"strings"
	"testing"

	"pgregory.net/rapid"

	"github.com/oasisprotocol/oasis-core/go/common/crypto/hash"
	"github.com/oasisprotocol/oasis-core/go/common/crypto/signature"
	roothash "github.com/oasisprotocol/oasis-core/go/roothash/api"
	"github.com/oasisprotocol/oasis-core/go/roothash/api/block"
	"github.com/oasisprotocol/oasis-core/go/roothash/api/commitment"
	scheduler "github.com/oasisprotocol/oasis-core/go/scheduler/api"
	staking "github.com/oasisprotocol/oasis-core/go/staking/api"

	"verifharness/c11model"
	"verifharness/chain"
	"verifharness/ev"
)

const rule = "case = generated production-mode genesis with one compute runtime (primary 1-3, backup 1-3, overlapping roles, allowed stragglers 0-1, round timeout 2-5 blocks, epoch 5-16 blocks) + 10-40 blocks (quick) after the first committee election, on one replica; " +
	"per round a drawn plan (scheduler of rank 0 or a lower-priority one, each primary/backup worker agreeing, dissenting, indicating failure or silent, with delays so that round timers fire) plus noise (votes of non-members, duplicates with the same or another result, " +
	"wrong-round commitments, votes for other ranks, rival schedulers taking over, scheduler-signed failures, primary votes during resolution, non-worker schedulers), shuffled and batched 1-3 per roothash.ExecutorCommit transaction signed by arbitrary funded accounts, " +
	"next to 0-2 ordinary transactions, evidence and epoch transitions. oracle = reference model c11model replayed in the application's order (per admitted transaction: votes, timer re-armed when the best scheduler changes; end of block: process without timeout if a transaction was admitted, " +
	"then with timeout if the timer is due; a detected discrepancy re-arms the timer to 1.5x and is re-processed at once); after EVERY block the committed runtime state must agree: transaction code 0 only if the model admits every commitment in it (members only, once per node and scheduler, never a worse rank than a committed one, " +
	"backups only during resolution, right round, no scheduler failure); model FINALIZE <=> new Normal block at round+1 with exactly the winning state/IO root; model FAIL <=> RoundFailed block with the previous state root; no new block otherwise, discrepancy flag and next timeout as replayed; " +
	"a due timer never leaves the round just waiting; epoch transitions / re-elections emit an empty block with unchanged state root and a fresh pool, and stale commitments are rejected. " +
	"non-trivial = history with a Normal finalization AND one of {finalization by backup majority, failed round, timer-triggered processing}; distinct = hash of spec and block ids"

var assumptions = []string{
	"block gas unlimited; commit transactions carry no fee and are signed by accounts that sign nothing else in the block (a commit transaction that fails outside the roothash module discards the case)",
	"an application that rejects a vote the model admits is recorded (label app-rejected-model-admits) and the model follows the application: the property only restricts what is accepted",
	"a round failed by the application while the model still waits is permitted by the statement (label app-failed-model-waits)",
	"commitments carry no runtime messages and the empty incoming-message hash",
}

// ---------------------------------------------------------------------------------------------------------------

const noBest = math.MaxUint64

func root(tag string, r int) hash.Hash {
	return hash.NewFromBytes([]byte(fmt.Sprintf("c11app %s %d", tag, r)))
}

func resultOf(r int) chain.ExecutorResult {
	if r == 0 {
		return chain.ExecutorResult{Failure: true}
	}
	return chain.ExecutorResult{StateRoot: root("state", r), IORoot: root("io", r)}
}

func cloneModel(m *c11model.Model) *c11model.Model {
	c := *m
	c.Votes = map[uint64]map[signature.PublicKey]c11model.Vote{}
	for r, vs := range m.Votes {
		c.Votes[r] = map[signature.PublicKey]c11model.Vote{}
		for k, v := range vs {
			c.Votes[r][k] = v
		}
	}
	c.SchedResult = map[uint64]int{}
	for r, v := range m.SchedResult {
		c.SchedResult[r] = v
	}
	return &c
}

func has(l []signature.PublicKey, k signature.PublicKey) bool {
	for _, x := range l {
		if x == k {
			return true
		}
	}
	return false
}

// act is one planned vote of a committee member in the current round.
type act struct {
	kind    string
	nk      *chain.NodeKeys
	own     bool // the scheduler's own commitment (fixed scheduler and result)
	result  int
	behave  int // 0 agree, 1 dissent, 2 failure (relative to the best committed scheduler's result)
	due     int64
	needRes bool // backup worker that waits for the discrepancy
	tries   int
	done    bool
}

// cdesc is one generated commitment.
type cdesc struct {
	Kind     string `json:"kind"`
	Node     string `json:"node"`
	Sched    string `json:"sched"`
	Result   int    `json:"result"`
	RoundOff int    `json:"round_off,omitempty"`
	nk       *chain.NodeKeys
	sched    signature.PublicKey
	plan     *act
}

func (c *cdesc) String() string {
	s := fmt.Sprintf("%s:%s->%s=%d", c.Kind, c.Node, c.Sched, c.Result)
	if c.RoundOff != 0 {
		s += fmt.Sprintf("(round%+d)", c.RoundOff)
	}
	return s
}

type world struct {
	sim   *chain.Sim
	nodes []*chain.NodeKeys
	byID  map[signature.PublicKey]*chain.NodeKeys
}

func (w *world) name(pk signature.PublicKey) string {
	if nk := w.byID[pk]; nk != nil {
		return nk.Name
	}
	return fmt.Sprintf("%x", pk[:4])
}

// tracker is the harness's picture of the current round.
type tracker struct {
	m          *c11model.Model // nil: no committee / suspended
	round      uint64
	timer      int64
	roundTO    int64
	committee  *scheduler.Committee
	workers    []signature.PublicKey
	backups    []signature.PublicKey
	parent     *block.Block
	startH     int64
	discH      int64
	plan       []*act
	main       signature.PublicKey
	sent       []cdesc
	stragglers int
}

func (tr *tracker) schedOfRank(rank uint64) signature.PublicKey {
	n, ok := tr.committee.Scheduler(tr.round, rank)
	if !ok {
		return tr.main
	}
	return n.PublicKey
}

// newRound rebuilds the model from the committed runtime state (fresh pool) and draws the plan of the round.
func newRound(t *rapid.T, w *world, rt *roothash.RuntimeState, h int64) (*tracker, string) {
	tr := &tracker{parent: rt.LastBlock, startH: h}
	if rt.Suspended || rt.Committee == nil || rt.CommitmentPool == nil {
		return tr, ""
	}
	p := rt.CommitmentPool
	if p.Discrepancy || p.HighestRank != noBest || len(p.SchedulerCommitments) != 0 || rt.NextTimeout != roothash.TimeoutNever {
		return tr, fmt.Sprintf("pool of the new round %d is not fresh: discrepancy=%v highest_rank=%d commitments=%d next_timeout=%d", rt.LastBlock.Header.Round+1, p.Discrepancy, p.HighestRank, len(p.SchedulerCommitments), rt.NextTimeout)
	}
	tr.committee = rt.Committee
	tr.round = rt.LastBlock.Header.Round + 1
	tr.roundTO = rt.Runtime.Executor.RoundTimeout
	for _, n := range rt.Committee.Members {
		switch n.Role {
		case scheduler.RoleWorker:
			tr.workers = append(tr.workers, n.PublicKey)
		case scheduler.RoleBackupWorker:
			tr.backups = append(tr.backups, n.PublicKey)
		}
	}
	if len(tr.workers) == 0 {
		return tr, ""
	}
	tr.m = c11model.New(tr.workers, tr.backups, int(rt.Runtime.Executor.AllowedStragglers), tr.round)
	tr.stragglers = int(rt.Runtime.Executor.AllowedStragglers)

	// ---- plan
	W := len(tr.workers)
	flavour := rapid.SampledFrom([]string{"clean", "clean", "mixed", "mixed", "slow", "slow", "slow", "dissent", "dissent", "failing", "failing"}).Draw(t, "flavour")
	rank := uint64(0)
	if W > 1 && rapid.IntRange(0, 9).Draw(t, "lowRank") < 3 {
		rank = uint64(rapid.IntRange(0, W-1).Draw(t, "rank"))
	}
	tr.main = tr.schedOfRank(rank)
	maxDelay := int(tr.roundTO) + 1
	if flavour == "clean" || flavour == "dissent" || flavour == "failing" {
		maxDelay = 1 // (a dissenting or failing vote only matters when it arrives before the round is finalized)
	}
	planned := map[signature.PublicKey]bool{}
	if nk := w.byID[tr.main]; nk != nil && (flavour == "clean" || rapid.IntRange(0, 19).Draw(t, "schedSilent") > 0) {
		tr.plan = append(tr.plan, &act{kind: "sched", nk: nk, own: true, result: 1, due: int64(rapid.IntRange(0, 1).Draw(t, "schedDue"))})
		planned[tr.main] = true
	}
	behaviour := func(weights [4]int, label string) int {
		var pool []int
		for b, n := range weights {
			for i := 0; i < n; i++ {
				pool = append(pool, b)
			}
		}
		return rapid.SampledFrom(pool).Draw(t, label)
	}
	for _, pk := range tr.workers {
		nk := w.byID[pk]
		if pk == tr.main || nk == nil || planned[pk] {
			continue
		}
		weights := map[string][4]int{"clean": {1, 0, 0, 0}, "mixed": {5, 2, 2, 2}, "slow": {3, 0, 0, 6}, "dissent": {3, 6, 0, 1}, "failing": {3, 0, 6, 1}}[flavour]
		b := behaviour(weights, "workerBehaviour")
		if b == 3 {
			continue // silent
		}
		tr.plan = append(tr.plan, &act{kind: "worker", nk: nk, behave: b, due: int64(rapid.IntRange(0, maxDelay).Draw(t, "workerDue"))})
		planned[pk] = true
	}
	for _, pk := range tr.backups {
		nk := w.byID[pk]
		if nk == nil || planned[pk] {
			continue
		}
		weights := [4]int{6, 2, 1, 1}
		switch flavour {
		case "clean":
			weights = [4]int{8, 1, 0, 1}
		case "slow":
			weights = [4]int{4, 1, 0, 5}
		}
		b := behaviour(weights, "backupBehaviour")
		if b == 3 {
			continue
		}
		a := &act{kind: "backup", nk: nk, behave: b, needRes: rapid.IntRange(0, 3).Draw(t, "backupEarly") > 0}
		if a.needRes {
			a.due = int64(rapid.IntRange(0, 2).Draw(t, "backupDue"))
		} else {
			a.due = int64(rapid.IntRange(0, maxDelay).Draw(t, "backupEarlyDue"))
		}
		tr.plan = append(tr.plan, a)
		planned[pk] = true
	}
	return tr, ""
}

// gen draws the commitments submitted in the block at height h.
func (tr *tracker) gen(t *rapid.T, w *world, h int64) []cdesc {
	var out []cdesc
	anyNode := func(label string) *chain.NodeKeys {
		return w.nodes[rapid.IntRange(0, len(w.nodes)-1).Draw(t, label)]
	}
	if tr.m == nil {
		// no committee: an occasional commitment that must be rejected
		if rapid.IntRange(0, 3).Draw(t, "orphanCommit") == 0 {
			nk, s := anyNode("orphanNode"), anyNode("orphanSched")
			out = append(out, cdesc{Kind: "no-committee", Node: nk.Name, Sched: s.Name, Result: 1, nk: nk, sched: s.ID.Public()})
		}
		return out
	}
	m := tr.m
	bestSched, want := tr.main, 1
	if m.Best != noBest {
		bestSched, want = tr.schedOfRank(m.Best), m.SchedResult[m.Best]
	}
	for _, a := range tr.plan {
		if a.done || a.tries >= 3 {
			continue
		}
		ready := (!a.needRes && h >= tr.startH+a.due) || (a.needRes && m.Resolving && h >= tr.discH+a.due)
		if !ready || rapid.IntRange(0, 9).Draw(t, "jitter") == 0 {
			continue
		}
		c := cdesc{Kind: a.kind, Node: a.nk.Name, nk: a.nk, plan: a}
		switch {
		case a.own:
			c.sched, c.Result = a.nk.ID.Public(), a.result
		default:
			c.sched = bestSched
			c.Result = [3]int{want, 3 - want, 0}[a.behave]
			if c.sched == a.nk.ID.Public() && c.Result == 0 {
				c.Result = want // (a scheduler never indicates failure of its own proposal)
			}
		}
		c.Sched = w.name(c.sched)
		a.tries++
		out = append(out, c)
	}
	// ---- noise
	members := append(append([]signature.PublicKey{}, tr.workers...), tr.backups...)
	member := func(label string) *chain.NodeKeys {
		if nk := w.byID[members[rapid.IntRange(0, len(members)-1).Draw(t, label)]]; nk != nil {
			return nk
		}
		return anyNode(label + "Any")
	}
	worker := func(label string) *chain.NodeKeys {
		if nk := w.byID[tr.workers[rapid.IntRange(0, len(tr.workers)-1).Draw(t, label)]]; nk != nil {
			return nk
		}
		return anyNode(label + "Any")
	}
	nnoise := rapid.SampledFrom([]int{0, 0, 0, 1, 1, 2}).Draw(t, "nnoise")
	for i := 0; i < nnoise; i++ {
		kind := rapid.SampledFrom([]string{"nonmember", "nonmember", "dup", "dup", "wrong-round", "other-rank", "rival", "rival", "sched-fail", "primary-late", "bad-sched", "random"}).Draw(t, "noise")
		c := cdesc{Kind: kind, sched: bestSched, Result: want}
		switch kind {
		case "nonmember":
			var outs []*chain.NodeKeys
			for _, nk := range w.nodes {
				if !tr.committee.IsMember(nk.ID.Public()) {
					outs = append(outs, nk)
				}
			}
			if len(outs) == 0 {
				continue
			}
			c.nk = outs[rapid.IntRange(0, len(outs)-1).Draw(t, "outsider")]
			c.Result = rapid.SampledFrom([]int{want, want, 3 - want, 0}).Draw(t, "outsiderResult")
		case "dup":
			if len(tr.sent) == 0 {
				continue
			}
			prev := tr.sent[rapid.IntRange(0, len(tr.sent)-1).Draw(t, "dupOf")]
			c.nk, c.sched, c.Result = prev.nk, prev.sched, prev.Result
			if rapid.Bool().Draw(t, "dupOtherResult") {
				c.Result = rapid.IntRange(0, 2).Draw(t, "dupResult")
			}
		case "wrong-round":
			c.nk = member("wrNode")
			c.RoundOff = rapid.SampledFrom([]int{-1, 1, 1, 2}).Draw(t, "roundOff")
		case "other-rank":
			c.nk = member("orNode")
			c.sched = worker("orSched").ID.Public()
			c.Result = rapid.IntRange(0, 2).Draw(t, "orResult")
		case "rival":
			c.nk = worker("rival")
			c.sched = c.nk.ID.Public()
			c.Result = rapid.IntRange(1, 2).Draw(t, "rivalResult")
		case "sched-fail":
			c.nk = worker("sfNode")
			c.sched, c.Result = c.nk.ID.Public(), 0
		case "primary-late":
			c.nk = worker("plNode")
		case "bad-sched":
			c.nk = member("bsNode")
			if len(tr.backups) > 0 && rapid.Bool().Draw(t, "bsBackup") {
				c.sched = tr.backups[rapid.IntRange(0, len(tr.backups)-1).Draw(t, "bsSched")]
			} else {
				c.sched = anyNode("bsAny").ID.Public()
			}
		default:
			c.nk = anyNode("rndNode")
			c.sched = anyNode("rndSched").ID.Public()
			c.Result = rapid.IntRange(0, 2).Draw(t, "rndResult")
		}
		c.Node, c.Sched = c.nk.Name, w.name(c.sched)
		out = append(out, c)
	}
	if len(out) > 1 {
		idx := make([]int, len(out))
		for i := range idx {
			idx[i] = i
		}
		perm := rapid.Permutation(idx).Draw(t, "order")
		shuffled := make([]cdesc, 0, len(out))
		for _, i := range perm {
			shuffled = append(shuffled, out[i])
		}
		out = shuffled
	}
	return out
}

// whyRejected names the rule of the statement that forbids the vote (the model rejects it).
func (tr *tracker) whyRejected(m *c11model.Model, c *cdesc) string {
	node := c.nk.ID.Public()
	if !has(tr.workers, node) && !has(tr.backups, node) {
		return "non-member-counted"
	}
	r, ok := m.Rank(c.sched)
	switch {
	case !ok:
		return "non-worker-scheduler-admitted"
	case m.Resolving && !has(tr.backups, node):
		return "primary-vote-admitted-during-resolution"
	case r > m.Best:
		return "lower-priority-scheduler-admitted"
	case m.Resolving && r != m.Best:
		return "other-rank-admitted-during-resolution"
	}
	if _, dup := m.Votes[r][node]; dup {
		return "vote-counted-twice"
	}
	return "app-admitted-model-rejects"
}

type caseStats struct {
	normal, resolved, failed, timeouts, discEarly, discTimeout, transitions, takeovers int
	committeeSeen                                                                      bool
	appRejected                                                                        int
}

// ---------------------------------------------------------------------------------------------------------------

func shapeSpec(t *rapid.T, s *chain.Spec) {
	s.WithRuntime = true
	s.VRF = false // (committee elections with the VRF backend need high-quality alphas: not this test's business)
	s.RtGroup = uint16(rapid.IntRange(1, 3).Draw(t, "c11Group"))
	s.RtBackup = uint16(rapid.IntRange(1, 3).Draw(t, "c11Backup"))
	s.RtStragglers = uint16(rapid.IntRange(0, 1).Draw(t, "c11Stragglers"))
	s.RtRoundTimeout = int64(rapid.IntRange(2, 5).Draw(t, "c11RoundTimeout"))
	s.EpochInterval = int64(rapid.SampledFrom([]int{5, 8, 10, 12, 16}).Draw(t, "c11Epoch"))
	s.MaxBlockGas = 0
	if s.MaxNodeExp < 4 {
		s.MaxNodeExp = 4
	}
	// Misbehaviour evidence (drawn by the block generator) slashes and freezes non-anchor VALIDATORS: most compute
	// nodes are therefore compute-only, slashing is small, and the committee sizes are cut to the number of compute
	// nodes that cannot be frozen and whose entity is comfortably staked.
	if s.SlashAmount > 100 {
		s.SlashAmount = 100
	}
	for i := 1; i < s.NEntities; i++ {
		s.NodesPerEntity[i] = rapid.SampledFrom([]int{1, 2, 2, 3}).Draw(t, "c11Nodes")
	}
	wanted := int(s.RtGroup)
	if int(s.RtBackup) > wanted {
		wanted = int(s.RtBackup)
	}
	eligible := 0
	s.NodeRoles = nil
	for i := 0; i < s.NEntities; i++ {
		need := s.ThresholdEntity + uint64(s.NodesPerEntity[i])*2*s.ThresholdNode + 2*s.ThresholdNode
		if s.SelfStake[i] < 3*need && rapid.IntRange(0, 4).Draw(t, "c11Restake") > 0 {
			s.SelfStake[i], s.SelfShares[i] = 3*need+1000, 3*need+1000
		}
		roles := make([]int, s.NodesPerEntity[i])
		for j := range roles {
			roles[j] = rapid.SampledFrom([]int{2, 2, 2, 2, 2, 2, 3, 3, 1, 1}).Draw(t, "c11Role")
			if i == 0 && j == 0 {
				roles[j] = 3
			}
			if (roles[j] == 2 || (i == 0 && j == 0)) && s.SelfStake[i] >= 3*need {
				eligible++
			}
		}
		s.NodeRoles = append(s.NodeRoles, roles)
	}
	// not enough safe candidates for the drawn committee sizes: turn further nodes into well-staked compute-only nodes
	for i := 0; i < s.NEntities && eligible < wanted; i++ {
		need := s.ThresholdEntity + uint64(s.NodesPerEntity[i])*2*s.ThresholdNode + 2*s.ThresholdNode
		for j := range s.NodeRoles[i] {
			if eligible >= wanted {
				break
			}
			if (i == 0 && j == 0) || (s.NodeRoles[i][j] == 2 && s.SelfStake[i] >= 3*need) {
				continue
			}
			if s.SelfStake[i] < 3*need {
				// (all compute-only nodes of the entity become eligible with it)
				for k := range s.NodeRoles[i] {
					if s.NodeRoles[i][k] == 2 {
						eligible++
					}
				}
				s.SelfStake[i], s.SelfShares[i] = 3*need+1000, 3*need+1000
				if s.NodeRoles[i][j] == 2 {
					continue
				}
			}
			s.NodeRoles[i][j] = 2
			eligible++
		}
	}
	if int(s.RtGroup) > eligible {
		s.RtGroup = uint16(eligible)
	}
	if int(s.RtBackup) > eligible {
		s.RtBackup = uint16(eligible)
	}
	if s.RtStragglers > s.RtGroup {
		s.RtStragglers = s.RtGroup
	}
	if s.RtStragglers > s.RtBackup {
		s.RtStragglers = s.RtBackup
	}
}

func TestC11App(t *testing.T) {
	rec := ev.New("C11", "TestC11App", rule, assumptions...)
	defer rec.Flush()
	var cur *chain.Sim
	var curSpec *chain.Spec
	ev.Trace = func() any {
		if cur == nil {
			return nil
		}
		return map[string]any{"spec": curSpec, "trace": cur.Trace}
	}
	total := map[string]int{}
	defer func() {
		var ks []string
		for k := range total {
			ks = append(ks, k)
		}
		sort.Strings(ks)
		line := "C11APP outcome classes (this shard):"
		for _, k := range ks {
			line += fmt.Sprintf(" %s=%d", k, total[k])
		}
		t.Log(line)
		fmt.Println(line)
	}()
	label := func(name string, n int) {
		if n > 0 {
			rec.LabelN(name, uint64(n))
			total[name] += n
		}
	}
	rapid.Check(t, func(t *rapid.T) {
		spec := chain.GenSpec(t)
		shapeSpec(t, spec)
		curSpec = spec
		w0, err := chain.BuildGenesis(spec)
		if err != nil {
			ev.Infra(t, "build genesis: %v", err)
		}
		sim, err := chain.NewSim(spec, []chain.ReplicaConfig{{Name: "R0", Backend: rapid.SampledFrom(chain.Backends).Draw(t, "backend"), MemoryOnly: true,
			Keys: w0.Entities[0].Nodes[0]}})
		if err != nil {
			var ig chain.ErrInvalidGenesis
			if errors.As(err, &ig) {
				rec.Discard("invalid-genesis")
				return
			}
			var ec chain.ErrEngineContract
			if errors.As(err, &ec) {
				rec.Discard("engine-contract-at-genesis:" + chain.Why(ec.Err)) // C10 / C14 report it
				return
			}
			ev.Infra(t, "new sim: %v", err)
		}
		cur = sim
		sim.Profile = "noroothash" // the only executor commitments, evidence and incoming messages are the ones this test generates
		defer sim.Close()
		r := sim.Reps[0]
		w := &world{sim: sim, byID: sim.W.NodeByID()}
		for _, ek := range sim.W.Entities {
			w.nodes = append(w.nodes, ek.Nodes...)
		}
		rtID := sim.W.Runtime.ID
		fail := func(sig, format string, args ...any) {
			ev.Violation(t, sig, "%s; spec=%+v trace=%v", fmt.Sprintf(format, args...), *spec, tail(sim.Trace, 40))
		}
		readState := func() (*roothash.RuntimeState, uint64) {
			v, err := chain.NewView(r)
			if err != nil {
				ev.Infra(t, "view: %v", err)
			}
			defer v.Close()
			rt, err := v.RuntimeState(rtID)
			if err != nil {
				return nil, uint64(v.Epoch)
			}
			return rt, uint64(v.Epoch)
		}

		nblocks := int(2*spec.EpochInterval) - 1 + rapid.IntRange(10, ev.Pick(40, 100)).Draw(t, "nblocks")
		var fp []any
		fp = append(fp, fmt.Sprintf("%+v", *spec))
		var st caseStats
		var tr *tracker
		pre, preEpoch := readState()
		for bi := 0; bi < nblocks; bi++ {
			h := sim.E.Height
			if pre != nil && tr == nil {
				var bad string
				if tr, bad = newRound(t, w, pre, h); bad != "" {
					fail("pool-not-reset", "before block %d: %s", h, bad)
				}
				if tr.m != nil {
					overlap := 0
					for _, b := range tr.backups {
						if has(tr.workers, b) {
							overlap++
						}
					}
					label(fmt.Sprintf("round:primary=%d,backup=%d,stragglers=%d", len(tr.workers), len(tr.backups), tr.stragglers), 1)
					if overlap > 0 {
						label("round:overlapping-roles", 1)
					}
					label("rounds", 1)
				}
			}
			if tr != nil && tr.m != nil && tr.round != pre.LastBlock.Header.Round+1 {
				ev.Infra(t, "harness out of step: tracking round %d, state is at round %d", tr.round, pre.LastBlock.Header.Round)
			}
			view, err := chain.NewView(r)
			if err != nil {
				ev.Infra(t, "view: %v", err)
			}
			bg := sim.GenBlock(t, view, 2)

			// ---- commitments of this block, batched into transactions
			var commits []cdesc
			if tr != nil {
				commits = tr.gen(t, w, h)
			}
			type ctx struct {
				commits []cdesc
				signer  string
			}
			var ctxs []ctx
			if len(commits) > 0 {
				busy := map[staking.Address]bool{}
				for _, d := range bg.Txs {
					busy[d.Addr] = true
				}
				var signers []*chain.Actor
				for _, a := range sim.W.Actors() {
					bal := view.Account(a.Addr).General.Balance.ToBigInt()
					if !busy[a.Addr] && bal.IsUint64() && bal.Uint64() >= spec.MinTransact {
						signers = append(signers, a)
					}
				}
				nonceAdd := map[staking.Address]uint64{}
				for len(commits) > 0 && len(signers) > 0 {
					n := rapid.SampledFrom([]int{1, 1, 1, 2, 2, 3}).Draw(t, "batch")
					if n > len(commits) {
						n = len(commits)
					}
					batch := commits[:n]
					commits = commits[n:]
					var ecs []commitment.ExecutorCommitment
					for i := range batch {
						c := &batch[i]
						var round *uint64
						if c.RoundOff != 0 {
							rr := uint64(int64(tr.parent.Header.Round+1) + int64(c.RoundOff))
							round = &rr
						}
						ec, err := chain.NewExecutorCommitment(rtID, c.nk, c.sched, tr.parent, round, resultOf(c.Result))
						if err != nil {
							ev.Infra(t, "%v", err)
						}
						ecs = append(ecs, *ec)
					}
					a := signers[rapid.IntRange(0, len(signers)-1).Draw(t, "txSigner")]
					nonce := view.Account(a.Addr).General.Nonce + nonceAdd[a.Addr]
					nonceAdd[a.Addr]++
					bg.Block.Txs = append(bg.Block.Txs, sim.W.ExecutorCommitTx(a.Signer, nonce, rtID, ecs))
					ctxs = append(ctxs, ctx{batch, a.Name})
				}
			}
			view.Close()

			b := bg.Block
			if _, err := sim.E.Propose(b, r, r); err != nil {
				if !preconditionLost(err.Error()) {
					// the block cannot be executed (an application failed or panicked, here most likely roothash) (or panicked) while the block was executed: neither "keeps waiting", nor
					// "starts discrepancy resolution", nor "fails with an empty block"
					ev.Violation(t, "round-processing-failed", "height %d: the block cannot be executed because the roothash application failed: %v; trace=%v", b.Height, err, tail(sim.Trace, 25))
				}
				rec.Discard("proposal-failed:" + firstWords(err.Error(), 8))
				return
			}
			out := sim.E.Execute(r, b, chain.PathProcess, nil)
			if out.Err != nil || !out.Accepted {
				if out.Err != nil && !preconditionLost(out.Err.Error()) {
					ev.Violation(t, "round-processing-failed", "height %d: block execution failed in the roothash application: %v; trace=%v", b.Height, out.Err, tail(sim.Trace, 25))
				}
				rec.Discard("block-failed:" + firstWords(fmt.Sprint(out.Err), 8))
				return
			}
			fp = append(fp, b.Hash)
			if err := sim.AfterCommit(b, out); err != nil {
				rec.Discard("engine-contract")
				return
			}
			post, postEpoch := readState()
			if post == nil {
				fail("state-unreadable", "block %d: runtime state unreadable", h)
			}

			// ---- transaction results
			base := len(bg.Txs)
			admitted := make([]bool, len(ctxs))
			line := fmt.Sprintf("h=%d epoch=%d", h, postEpoch)
			for i, cx := range ctxs {
				res := out.TxResults[base+i]
				switch {
				case res.Code == 0:
					admitted[i] = true
				case strings.HasPrefix(res.Codespace, "roothash"):
				default:
					sim.Logf("%s tx %d by %s failed outside roothash: %s/%d %s", line, i, cx.signer, res.Codespace, res.Code, res.Log)
					rec.Discard("commit-tx-not-executed:" + res.Codespace)
					return
				}
				line += fmt.Sprintf(" tx[%s", cx.signer)
				for j := range cx.commits {
					line += " " + cx.commits[j].String()
				}
				line += fmt.Sprintf("]=%v", admitted[i])
			}

			// ---- what kind of block was it for the runtime
			epochChanged := postEpoch != preEpoch
			if pre == nil {
				// first block of the chain: the state written by InitChain became readable
				sim.Logf("%s (genesis state visible) round=%d", line, post.LastBlock.Header.Round)
				pre, preEpoch, tr = post, postEpoch, nil
				continue
			}
			delta := post.LastBlock.Header.Round - pre.LastBlock.Header.Round
			typ := post.LastBlock.Header.HeaderType
			line += fmt.Sprintf(" | runtime round %d->%d type=%v disc=%v nextTimeout=%d", pre.LastBlock.Header.Round, post.LastBlock.Header.Round, typ, post.CommitmentPool != nil && post.CommitmentPool.Discrepancy, post.NextTimeout)
			if delta > 1 {
				sim.Logf("%s", line)
				fail("unexpected-runtime-blocks", "block %d: the runtime advanced by %d rounds in one consensus block", h, delta)
			}
			if delta == 1 {
				ph := pre.LastBlock.Header.EncodedHash()
				if !post.LastBlock.Header.PreviousHash.Equal(&ph) {
					sim.Logf("%s", line)
					fail("runtime-chain-broken", "block %d: new runtime block %d does not point to its predecessor", h, post.LastBlock.Header.Round)
				}
				if typ != block.Normal && !post.LastBlock.Header.StateRoot.Equal(&pre.LastBlock.Header.StateRoot) {
					sim.Logf("%s", line)
					sig := "empty-block-changed-state-root"
					if typ == block.RoundFailed {
						sig = "roundfailed-changed-state-root"
					}
					fail(sig, "block %d: runtime block %d of type %v changed the state root from %s to %s", h, post.LastBlock.Header.Round, typ, pre.LastBlock.Header.StateRoot, post.LastBlock.Header.StateRoot)
				}
			}
			active := tr != nil && tr.m != nil
			switch {
			case delta == 1 && (typ == block.EpochTransition || typ == block.Suspended):
				sim.Logf("%s | committee transition", line)
				if !epochChanged && len(b.Misbehavior) == 0 {
					fail("committee-transition-without-cause", "block %d: %v block without an epoch transition or slashing", h, typ)
				}
				for i := range ctxs {
					if admitted[i] {
						fail("stale-commitment-admitted", "block %d: a commitment built on runtime block %d was admitted after the %v block %d", h, pre.LastBlock.Header.Round, typ, post.LastBlock.Header.Round)
					}
				}
				st.transitions++
				if typ == block.Suspended {
					for _, e := range chain.LastErrors() {
						if strings.Contains(e, "eligible") || strings.Contains(e, "committee") || strings.Contains(e, "stake") {
							sim.Logf("  app log: %s", firstWords(e, 40))
						}
					}
					label("outcome:suspended", 1)
					if os.Getenv("C11APP_TRACE") != "" {
						dv, _ := chain.NewView(r)
						for i, ek := range sim.W.Entities {
							acct := dv.Account(ek.Address())
							sim.Logf("  entity %d escrow=%s claims=%v", i, acct.Escrow.Active.Balance, acct.Escrow.StakeAccumulator.Claims)
							for _, nk := range ek.Nodes {
								nd, err := dv.Reg.Node(dv.Ctx(), nk.ID.Public())
								if err != nil {
									sim.Logf("    node %s: %v", nk.Name, err)
									continue
								}
								ns, _ := dv.Reg.NodeStatus(dv.Ctx(), nk.ID.Public())
								sim.Logf("    node %s roles=%v exp=%d runtimes=%d status=%+v", nk.Name, nd.Roles, nd.Expiration, len(nd.Runtimes), ns)
							}
						}
						dv.Close()
					}
				} else {
					label("outcome:epoch-transition", 1)
					if active && tr.m.Best != noBest {
						label("outcome:epoch-transition-with-pending-proposal", 1)
					}
				}
				pre, preEpoch, tr = post, postEpoch, nil
				continue
			case epochChanged && pre.Committee != nil && !pre.Suspended:
				sim.Logf("%s", line)
				fail("no-epoch-transition-block", "block %d: epoch %d -> %d but the runtime (round %d) emitted no epoch transition block", h, preEpoch, postEpoch, post.LastBlock.Header.Round)
			case !active:
				sim.Logf("%s | no committee", line)
				for i := range ctxs {
					if admitted[i] {
						fail("commit-admitted-without-committee", "block %d: commitment admitted while the runtime has no committee / is suspended", h)
					}
				}
				if delta != 0 {
					fail("unexpected-runtime-block", "block %d: runtime block %d of type %v without a committee", h, post.LastBlock.Header.Round, typ)
				}
				pre, preEpoch, tr = post, postEpoch, nil
				continue
			}

			// ---- replay the model in the application's order
			st.committeeSeen = true
			m := tr.m
			anyAdmitted := false
			for i, cx := range ctxs {
				trial := cloneModel(m)
				why, okAll, badIdx := "", true, 0
				for j := range cx.commits {
					c := &cx.commits[j]
					switch {
					case c.RoundOff != 0:
						okAll, why = false, "wrong-round-admitted"
					case c.Result == 0 && c.nk.ID.Public() == c.sched:
						okAll, why = false, "scheduler-failure-admitted"
					default:
						before := cloneModel(trial)
						if !trial.Add(c.nk.ID.Public(), c.sched, c.Result) {
							okAll, why = false, tr.whyRejected(before, c)
						}
					}
					if !okAll {
						badIdx = j
						break
					}
				}
				switch {
				case admitted[i] && !okAll:
					sim.Logf("%s", line)
					fail(why, "block %d: transaction %d %s was admitted by the application but the statement forbids its commitment %d (%s); round %d best=%d resolving=%v votes so far=%v", h, i, descs(cx.commits), badIdx, why, tr.round, m.Best, m.Resolving, votesOf(w, m))
				case admitted[i]:
					prevBest := m.Best
					m = trial
					tr.m = m
					anyAdmitted = true
					for j := range cx.commits {
						tr.sent = append(tr.sent, cx.commits[j])
						if cx.commits[j].plan != nil {
							cx.commits[j].plan.done = true
						}
						label("admitted:"+cx.commits[j].Kind, 1)
					}
					if m.Best != prevBest {
						tr.timer = h + tr.roundTO
						if prevBest != noBest {
							st.takeovers++
							label("outcome:scheduler-takeover", 1)
						}
						// honest workers follow the better-ranked proposal
						for _, a := range tr.plan {
							if _, voted := m.Votes[m.Best][a.nk.ID.Public()]; !a.own && !voted {
								a.done, a.tries = false, 0
							}
						}
					}
				case okAll:
					st.appRejected++
					label("app-rejected-model-admits", 1)
				default:
					label("rejected:"+cx.commits[badIdx].Kind+":"+strings.TrimSuffix(strings.TrimSuffix(why, "-admitted"), "-counted"), 1)
				}
			}
			// end of block
			outcome, fired, newDisc := c11model.Wait, false, ""
			process := func(timeout bool) {
				outcome = m.Process(timeout)
				if outcome == c11model.Discrepancy {
					tr.timer = h + (tr.roundTO*15)/10
					tr.discH = h
					newDisc = "early"
					if timeout {
						newDisc = "timeout"
					}
					outcome = m.Process(tr.timer == h)
				}
			}
			if anyAdmitted {
				process(false)
			}
			if outcome == c11model.Wait && tr.timer == h {
				fired = true
				process(true)
			}
			line += fmt.Sprintf(" | model: outcome=%v best=%d resolving=%v timer=%d fired=%v", outcome, m.Best, m.Resolving, tr.timer, fired)
			sim.Logf("%s", line)
			switch newDisc {
			case "early":
				st.discEarly++
				label("outcome:discrepancy-detected", 1)
			case "timeout":
				st.discTimeout++
				label("outcome:discrepancy-by-timeout", 1)
			}
			if fired {
				st.timeouts++
				label("outcome:timer-fired", 1)
			}
			want := m.SchedResult[m.Best]
			switch outcome {
			case c11model.Finalize:
				wantState, wantIO := root("state", want), root("io", want)
				switch {
				case delta == 0 && fired:
					fail("round-kept-waiting-after-timeout", "block %d: the round timer of round %d fired and the votes decide FINALIZE, but the application emitted no block", h, tr.round)
				case delta == 0:
					fail("quorum-not-finalized", "block %d: the votes of round %d decide FINALIZE(result %d) but the application emitted no block", h, tr.round, want)
				case typ == block.RoundFailed:
					fail("quorum-not-finalized", "block %d: the votes of round %d decide FINALIZE(result %d) but the application failed the round", h, tr.round, want)
				case typ != block.Normal:
					fail("unexpected-runtime-block", "block %d: block of type %v", h, typ)
				case !post.LastBlock.Header.StateRoot.Equal(&wantState) || !post.LastBlock.Header.IORoot.Equal(&wantIO):
					fail("wrong-winner", "block %d: round %d finalized with state root %s / io root %s, the winning proposal (rank %d, result %d) has %s / %s", h, tr.round, post.LastBlock.Header.StateRoot, post.LastBlock.Header.IORoot, m.Best, want, wantState, wantIO)
				}
				st.normal++
				if m.Resolving {
					st.resolved++
					label("outcome:finalized-by-backup-majority", 1)
				} else {
					label("outcome:finalized-by-primary", 1)
					if m.Best > 0 {
						label("outcome:finalized-lower-priority-scheduler", 1)
					}
				}
			case c11model.FailNoScheduler, c11model.FailResolution:
				switch {
				case delta == 0 && fired:
					fail("round-kept-waiting-after-timeout", "block %d: the round timer of round %d fired (%v) but the application emitted no block", h, tr.round, outcome)
				case delta == 0:
					fail("outcome-mismatch", "block %d: the votes of round %d decide %v but the application emitted no block", h, tr.round, outcome)
				case typ == block.Normal:
					fail("state-root-accepted-without-quorum", "block %d: round %d finalized with state root %s although the votes decide %v", h, tr.round, post.LastBlock.Header.StateRoot, outcome)
				case typ != block.RoundFailed:
					fail("unexpected-runtime-block", "block %d: block of type %v", h, typ)
				}
				st.failed++
				label("outcome:round-failed", 1)
			default: // the round goes on
				switch {
				case delta == 1 && typ == block.Normal:
					sig := "state-root-accepted-without-quorum"
					fail(sig, "block %d: round %d finalized with state root %s but the statement does not allow it: best rank %d, resolving=%v, votes=%v", h, tr.round, post.LastBlock.Header.StateRoot, m.Best, m.Resolving, votesOf(w, m))
				case delta == 1 && typ == block.RoundFailed:
					// permitted by the statement ("or fails with an empty block")
					label("app-failed-model-waits", 1)
					tr = nil
				case delta == 1:
					fail("unexpected-runtime-block", "block %d: block of type %v", h, typ)
				}
				if tr != nil {
					disc := post.CommitmentPool != nil && post.CommitmentPool.Discrepancy
					if fired && !disc {
						fail("round-kept-waiting-after-timeout", "block %d: the timer of round %d fired but the round neither ended nor went to discrepancy resolution", h, tr.round)
					}
					if disc != m.Resolving {
						fail("discrepancy-flag-mismatch", "block %d: round %d discrepancy resolution: application %v, statement %v (votes %v)", h, tr.round, disc, m.Resolving, votesOf(w, m))
					}
					if post.CommitmentPool != nil && post.CommitmentPool.HighestRank != m.Best {
						fail("best-scheduler-mismatch", "block %d: round %d: the application's best scheduler rank is %d, the statement's %d", h, tr.round, post.CommitmentPool.HighestRank, m.Best)
					}
					if post.NextTimeout != tr.timer {
						fail("timeout-not-rearmed", "block %d: round %d: next round timeout is %d, expected %d", h, tr.round, post.NextTimeout, tr.timer)
					}
				}
			}
			if outcome != c11model.Wait {
				tr = nil // new round: rebuilt from the committed state before the next block
			}
			pre, preEpoch = post, postEpoch
			if pre.Suspended && tr == nil && bi > int(2*spec.EpochInterval) {
				// a suspended runtime stays suspended (nobody re-registers it): nothing more to see
				label("stopped-after-suspension", 1)
				break
			}
		}
		if os.Getenv("C11APP_TRACE") != "" {
			fmt.Printf("---- case group=%d backup=%d stragglers=%d roundTimeout=%d epoch=%d roles=%v\n%s\n", spec.RtGroup, spec.RtBackup, spec.RtStragglers, spec.RtRoundTimeout, spec.EpochInterval, spec.NodeRoles, strings.Join(sim.Trace, "\n"))
		}
		if !st.committeeSeen {
			rec.Discard("no-executor-committee")
			return
		}
		nt := st.normal > 0 && (st.resolved > 0 || st.failed > 0 || st.timeouts > 0)
		label("cases", 1)
		if st.normal > 0 {
			label("case:has-normal-finalization", 1)
		}
		if st.resolved > 0 {
			label("case:has-backup-resolution", 1)
		}
		if st.failed > 0 {
			label("case:has-failed-round", 1)
		}
		if st.timeouts > 0 {
			label("case:has-timer-processing", 1)
		}
		if nt {
			label("case:non-trivial", 1)
		}
		var sample any
		if nt && rec.WantSample() {
			sample = map[string]any{"spec": spec, "trace": tail(sim.Trace, 25)}
		}
		rec.Case(nt, ev.Fingerprint(fp...), sample)
	})
}

func descs(cs []cdesc) string {
	var out []string
	for i := range cs {
		out = append(out, cs[i].String())
	}
	return "[" + strings.Join(out, " ") + "]"
}

func votesOf(w *world, m *c11model.Model) string {
	var ranks []uint64
	for r := range m.Votes {
		ranks = append(ranks, r)
	}
	sort.Slice(ranks, func(i, j int) bool { return ranks[i] < ranks[j] })
	s := ""
	for _, r := range ranks {
		var names []string
		for k, v := range m.Votes[r] {
			names = append(names, fmt.Sprintf("%s=%d", w.name(k), v.Result))
		}
		sort.Strings(names)
		s += fmt.Sprintf("rank%d{%s} ", r, strings.Join(names, ","))
	}
	return s
}

func firstWords(s string, n int) string {
	f := strings.Fields(s)
	if len(f) > n {
		f = f[:n]
	}
	return strings.Join(f, " ")
}

func tail(s []string, n int) []string {
	if len(s) > n {
		return s[len(s)-n:]
	}
	return s
}

// preconditionLost: the documented precondition of the chain (enough stake-eligible validators remain) was lost.
func preconditionLost(msg string) bool { return chain.PreconditionLost(msg) }
