package c12

import (
	"bytes"
	"fmt"
	"io"
	"path/filepath"
	"testing"

	"github.com/oasisprotocol/oasis-core/go/storage/mkvs/checkpoint"
	"github.com/oasisprotocol/oasis-core/go/storage/mkvs/node"

	"verifharness/ev"
	"verifharness/kv"
)

// gatedReader hands its data out only after the gate is opened: a chunk whose transfer is still going on while other
// callers make progress (the schedule is the harness's, no sleeps).
type gatedReader struct {
	r       io.Reader
	gate    chan struct{}
	started chan struct{}
	once    bool
}

func (g *gatedReader) Read(p []byte) (int, error) {
	if !g.once {
		g.once = true
		close(g.started)
		<-g.gate
	}
	return g.r.Read(p)
}

// runAbortInFlight: chunk `slow` is being transferred by caller A (admitted, waiting for its bytes) when caller B offers
// chunk `bad`, whose bytes match the digest in the metadata but are not a proof of the root (an inconsistent checkpoint,
// e.g. one advertised by a hostile peer): the restorer gives the whole restore up. Then A's transfer completes.
// Returns what A was told.
func runAbortInFlight(t ev.Failer, backend string, nkeys int) (done bool, err error, hasRoot bool, msg string) {
	dir := t.(interface{ TempDir() string }).TempDir()
	m := kv.Model{}
	for i := 0; i < nkeys; i++ {
		m[fmt.Sprintf("key-%04d", i)] = []byte(fmt.Sprintf("value-%04d", i))
	}
	src, root, berr := buildSource(backend, filepath.Join(dir, "src"), false, m, history{First: 1, Nver: 1})
	if berr != nil {
		ev.Infra(t, "source: %v", berr)
	}
	defer src.Close()
	cp, cerr := makeCheckpoint(filepath.Join(dir, "cp"), src, root, 512, 0)
	if cerr != nil || len(cp.chunks) < 4 {
		ev.Infra(t, "checkpoint: %v (%d chunks)", cerr, len(cp.chunks))
	}
	// the inconsistent metadata: chunk 2 is replaced by a chunk of ANOTHER tree, with its own digest in the metadata
	m2 := m.Clone()
	m2["key-0000"] = []byte("another tree")
	src2, root2, berr := buildSource(backend, filepath.Join(dir, "src2"), false, m2, history{First: 1, Nver: 1})
	if berr != nil {
		ev.Infra(t, "second source: %v", berr)
	}
	defer src2.Close()
	cp2, cerr := makeCheckpoint(filepath.Join(dir, "cp2"), src2, root2, 512, 0)
	if cerr != nil || len(cp2.chunks) == 0 {
		ev.Infra(t, "second checkpoint: %v", cerr)
	}
	meta := *cp.meta
	meta.Chunks = append(meta.Chunks[:0:0], cp.meta.Chunks...)
	bad := 2
	meta.Chunks[bad] = digestOf(cp2.chunks[0])

	dst, oerr := openDB(backend, filepath.Join(dir, "dst"), false)
	if oerr != nil {
		ev.Infra(t, "target: %v", oerr)
	}
	defer dst.Close()
	rs, _ := checkpoint.NewRestorer(dst)
	if err := dst.StartMultipartInsert(root.Version); err != nil {
		ev.Infra(t, "StartMultipartInsert: %v", err)
	}
	if err := rs.StartRestore(ctx, &meta); err != nil {
		ev.Infra(t, "StartRestore: %v", err)
	}
	slow := 0 // (chunk 0 carries the root node)
	gr := &gatedReader{r: bytes.NewReader(cp.chunks[slow]), gate: make(chan struct{}), started: make(chan struct{})}
	type res struct {
		done bool
		err  error
	}
	ach := make(chan res, 1)
	go func() {
		d, e := rs.RestoreChunk(ctx, uint64(slow), gr)
		ach <- res{d, e}
	}()
	<-gr.started // A has been admitted and waits for its bytes
	bdone, berr2 := rs.RestoreChunk(ctx, uint64(bad), bytes.NewReader(cp2.chunks[0]))
	if berr2 == nil || bdone {
		return false, nil, false, fmt.Sprintf("the chunk of another tree was accepted (done=%v)", bdone)
	}
	close(gr.gate)
	a := <-ach
	return a.done, a.err, dst.HasRoot(root), fmt.Sprintf("bogus chunk: %v; in-flight honest chunk: done=%v err=%v; current checkpoint nil=%v", berr2, a.done, a.err, rs.GetCurrentCheckpoint() == nil)
}

// TestC12AbortInFlight: a restore that the restorer gives up (a chunk matching its digest in the metadata is not a proof
// of the root) must not tell the caller of a chunk that was still in flight that the restore is DONE - the caller would
// finalize a database holding one chunk. Named by the round-10 C12 author (and guarded against, as a by-product, by the
// round-9 seed C12j); reproduced here with a harness-owned schedule.
func TestC12AbortInFlight(t *testing.T) {
	rec := ev.New("C12", "TestC12AbortInFlight", "deterministic cases on both backends: 200 keys, chunk size 512; metadata in which chunk 2 is a chunk of another tree (digest recomputed); caller A's transfer of chunk 0 is admitted and stalls, caller B offers chunk 2 (rejected, the restorer gives the restore up), A's transfer completes; A must not be told done=true", "")
	defer rec.Flush()
	for _, backend := range kv.Backends {
		done, err, hasRoot, msg := runAbortInFlight(t, backend, 200)
		rec.Case(true, ev.Fingerprint("abort-in-flight", backend), backend+": "+msg)
		if done {
			ev.Violation(t, "restore-done-flag", "%s: the caller of an in-flight chunk is told the restore is DONE after the restorer gave the restore up (1 of many chunks imported; HasRoot(root)=%v): %s", backend, hasRoot, msg)
		}
		_ = err
	}
	_ = node.Root{}
}
