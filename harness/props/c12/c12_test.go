// Package c12 decides property C12: checkpoints restore to exactly the checkpointed state.
package c12

import (
	"bytes"
	"context"
	"crypto/sha512"
	"encoding/binary"
	"errors"
	"fmt"
	"io"
	"math"
	"os"
	"path/filepath"
	"runtime"
	"sort"
	"strings"
	"sync"
	"sync/atomic"
	"testing"

	"github.com/golang/snappy"
	"pgregory.net/rapid"

	"github.com/oasisprotocol/oasis-core/go/common"
	"github.com/oasisprotocol/oasis-core/go/common/cbor"
	"github.com/oasisprotocol/oasis-core/go/common/crypto/hash"
	"github.com/oasisprotocol/oasis-core/go/storage/mkvs"
	"github.com/oasisprotocol/oasis-core/go/storage/mkvs/checkpoint"
	dbApi "github.com/oasisprotocol/oasis-core/go/storage/mkvs/db/api"
	"github.com/oasisprotocol/oasis-core/go/storage/mkvs/db/badger"
	"github.com/oasisprotocol/oasis-core/go/storage/mkvs/db/pathbadger"
	"github.com/oasisprotocol/oasis-core/go/storage/mkvs/node"

	"verifharness/ev"
	"verifharness/kv"
)

var ctx = context.Background()

// ns is the namespace of all databases of this check: a valid test namespace, so that a restored
// on-disk database can be closed and opened again (the stored metadata must decode).
var ns = common.NewTestNamespaceFromSeed([]byte("verif harness C12"), 0)

func openDB(backend, dir string, memoryOnly bool) (dbApi.NodeDB, error) {
	cfg := &dbApi.Config{DB: dir, Namespace: ns, MaxCacheSize: 16 << 20, NoFsync: true, MemoryOnly: memoryOnly}
	switch backend {
	case "badger":
		return badger.New(cfg)
	case "pathbadger":
		return pathbadger.New(cfg)
	}
	return nil, fmt.Errorf("unknown backend %q", backend)
}

func mkRoot(version uint64, typ node.RootType, h hash.Hash) node.Root {
	return node.Root{Namespace: ns, Version: version, Type: typ, Hash: h}
}

func emptyRoot(version uint64, typ node.RootType) node.Root {
	r := node.Root{Namespace: ns, Version: version, Type: typ}
	r.Hash.Empty()
	return r
}

const (
	// depthLimit is syncer.maxProofDepth: a chunk is a proof anchored at the root, and the verifier
	// refuses proofs with a node deeper than this.
	depthLimit = 128
	// sigDepth: a tree with more than depthLimit nested internal nodes can be stored and
	// checkpointed, but no chunk of the checkpoint can be restored.
	sigDepth = "restore-depth-limit"
	// sigRestart: on pathbadger a multipart insert that is aborted and started again at the same
	// version (even with no chunk in between) finalizes to an unreadable root.
	sigRestart = "pathbadger-multipart-restart"
)

var (
	chunkSizes   = []uint64{1, 2, 7, 64, 512, 4096, 1 << 20, math.MaxUint64}
	threadCounts = []uint16{0, 1, 2, 3, 8, 16, 32}
)

// ---------------------------------------------------------------------------------------
// Contents.

type prng uint64

func (p *prng) next() uint64 {
	x := uint64(*p)
	x ^= x << 13
	x ^= x >> 7
	x ^= x << 17
	*p = prng(x)
	return x
}

func sortedKeys(m kv.Model) [][]byte {
	ks := m.SortedKeys()
	out := make([][]byte, len(ks))
	for i, k := range ks {
		out[i] = []byte(k)
	}
	return out
}

// genContents draws tree contents: empty, single leaf, prefix chains (every key a prefix of the
// next one, so every internal node carries a leaf), bit combs (equal-length keys that peel off one
// key per level), small and large prefix-heavy universes.
func genContents(t *rapid.T, maxKeys int) (kv.Model, string) {
	m := kv.Model{}
	chainMax := 150
	if ev.Excluded(sigDepth) {
		chainMax = depthLimit + 1 // a chain of L keys has L-1 nested internal nodes
	}
	shape := rapid.IntRange(0, 19).Draw(t, "shape")
	switch {
	case shape == 0:
		return m, "empty"
	case shape == 1:
		k := kv.GenUniverse(t, 1, true)
		m[string(k[0])] = kv.GenValue(t)
		return m, "single"
	case shape <= 4:
		long := rapid.IntRange(0, 3).Draw(t, "chainLong") == 0
		hi := 24
		if long {
			hi = chainMax
		}
		l := rapid.IntRange(2, hi).Draw(t, "chainLen")
		b := rapid.SampledFrom([]byte{0x00, 0xff, 0x40, 0x01}).Draw(t, "chainByte")
		start := rapid.IntRange(0, 2).Draw(t, "chainStart")
		for i := 0; i < l; i++ {
			m[string(bytes.Repeat([]byte{b}, start+i))] = kv.GenValue(t)
		}
		for i, nb := 0, rapid.IntRange(0, 4).Draw(t, "chainBranches"); i < nb; i++ {
			k := append(bytes.Repeat([]byte{b}, rapid.IntRange(0, start+l).Draw(t, "branchAt")), b^0x80)
			m[string(k)] = kv.GenValue(t)
		}
		return m, "prefix-chain"
	case shape <= 6:
		long := rapid.IntRange(0, 3).Draw(t, "combLong") == 0
		hi := 20
		if long {
			hi = chainMax - 1 // base + L flipped keys have L nested internal nodes
		}
		l := rapid.IntRange(2, hi).Draw(t, "combBits")
		fill := rapid.SampledFrom([]byte{0x00, 0xff}).Draw(t, "combFill")
		base := bytes.Repeat([]byte{fill}, (l+7)/8+rapid.IntRange(0, 1).Draw(t, "combPad"))
		m[string(base)] = kv.GenValue(t)
		for i := 0; i < l; i++ {
			k := append([]byte{}, base...)
			k[i/8] ^= 1 << (7 - uint(i%8))
			m[string(k)] = kv.GenValue(t)
		}
		return m, "bit-comb"
	case shape <= 11:
		uni := kv.GenUniverse(t, rapid.IntRange(2, 24).Draw(t, "nsmall"), true)
		for _, k := range uni {
			m[string(k)] = kv.GenValue(t)
		}
		return m, "small"
	default:
		var n int
		switch sz := rapid.IntRange(0, 9).Draw(t, "sizeClass"); {
		case sz <= 5:
			n = rapid.IntRange(20, min(80, maxKeys/2)).Draw(t, "nmed")
		case sz <= 8:
			n = rapid.IntRange(min(80, maxKeys/2), maxKeys/2).Draw(t, "nlarge")
		default:
			n = rapid.IntRange(maxKeys/2, maxKeys).Draw(t, "nhuge")
		}
		uni := kv.GenUniverse(t, n, true)
		for _, k := range uni {
			m[string(k)] = kv.GenValue(t)
		}
		return m, "universe"
	}
}

// history describes how the source database arrives at the contents: nver consecutive versions,
// the earlier ones holding a subset of the final keys (some with other values) plus garbage keys
// that are removed again, so the checkpointed root shares nodes with older versions.
type history struct {
	First uint64
	Nver  int
	Seed  uint64
	Prune bool
}

func genHistory(t *rapid.T, tag string) history {
	h := history{
		First: uint64(rapid.IntRange(1, 3).Draw(t, tag+"First")),
		Nver:  rapid.SampledFrom([]int{1, 1, 2, 3}).Draw(t, tag+"Nver"),
		Seed:  rapid.Uint64().Draw(t, tag+"Seed") | 1,
	}
	if h.Nver > 1 {
		h.Prune = rapid.IntRange(0, 2).Draw(t, tag+"Prune") == 0
	}
	return h
}

func (h history) last() uint64 { return h.First + uint64(h.Nver) - 1 }

func (h history) stages(final kv.Model) []kv.Model {
	p := prng(h.Seed)
	keys := final.SortedKeys()
	out := make([]kv.Model, h.Nver)
	for s := 0; s < h.Nver-1; s++ {
		st := kv.Model{}
		for _, k := range keys {
			switch p.next() % 4 {
			case 0, 1:
				st[k] = final[k]
			case 2:
				st[k] = append(append([]byte{}, final[k]...), byte(s+1))
			}
		}
		for g := p.next() % 4; g > 0; g-- {
			gk := []byte{0x5a, byte(p.next())}
			if len(keys) > 0 {
				gk = append([]byte(keys[p.next()%uint64(len(keys))]), byte(p.next()))
			}
			if _, ok := final[string(gk)]; !ok {
				st[string(gk)] = []byte{byte(g)}
			}
		}
		out[s] = st
	}
	out[h.Nver-1] = final
	return out
}

func applyDiff(tree mkvs.Tree, from, to kv.Model) error {
	for _, k := range from.SortedKeys() {
		if _, ok := to[k]; !ok {
			if err := tree.Remove(ctx, []byte(k)); err != nil {
				return err
			}
		}
	}
	for _, k := range to.SortedKeys() {
		if old, ok := from[k]; !ok || !bytes.Equal(old, to[k]) {
			if err := tree.Insert(ctx, []byte(k), to[k]); err != nil {
				return err
			}
		}
	}
	return nil
}

// buildSource opens a database and commits the history; returns the finalized root holding m.
func buildSource(backend, dir string, memOnly bool, m kv.Model, h history) (dbApi.NodeDB, node.Root, error) {
	ndb, err := openDB(backend, dir, memOnly)
	if err != nil {
		return nil, node.Root{}, err
	}
	tree := mkvs.NewWithRoot(nil, ndb, emptyRoot(h.First-1, node.RootTypeState))
	defer tree.Close()
	cur := kv.Model{}
	var root node.Root
	emptyStage := false
	for i, st := range h.stages(m) {
		if err = applyDiff(tree, cur, st); err != nil {
			ndb.Close()
			return nil, node.Root{}, fmt.Errorf("apply stage %d: %w", i, err)
		}
		v := h.First + uint64(i)
		_, rh, err := tree.Commit(ctx, ns, v)
		if err != nil {
			ndb.Close()
			return nil, node.Root{}, fmt.Errorf("commit v%d: %w", v, err)
		}
		root = mkRoot(v, node.RootTypeState, rh)
		emptyStage = emptyStage || rh.IsEmpty()
		if err = ndb.Finalize([]node.Root{root}); err != nil {
			ndb.Close()
			return nil, node.Root{}, fmt.Errorf("finalize v%d: %w", v, err)
		}
		cur = st
	}
	// (badger cannot prune a version whose root is the empty root; not part of this property.)
	if h.Prune && !emptyStage {
		for v := h.First; v < h.last(); v++ {
			if err = ndb.Prune(v); err != nil {
				ndb.Close()
				return nil, node.Root{}, fmt.Errorf("prune v%d: %w", v, err)
			}
		}
	}
	return ndb, root, nil
}

// ---------------------------------------------------------------------------------------
// Checkpoints and chunks.

type cpoint struct {
	fc     checkpoint.Creator
	meta   *checkpoint.Metadata
	chunks [][]byte
}

func digestOf(b []byte) hash.Hash {
	var h hash.Hash
	h.FromBytes(b)
	return h
}

func makeCheckpoint(dir string, src dbApi.NodeDB, root node.Root, chunkSize uint64, threads uint16) (*cpoint, error) {
	fc, err := checkpoint.NewFileCreator(dir, src)
	if err != nil {
		return nil, err
	}
	meta, err := fc.CreateCheckpoint(ctx, root, chunkSize, threads)
	if err != nil {
		return nil, err
	}
	c := &cpoint{fc: fc, meta: meta}
	for i := range meta.Chunks {
		cm, err := meta.GetChunkMetadata(uint64(i))
		if err != nil {
			return nil, err
		}
		var buf bytes.Buffer
		if err = fc.GetCheckpointChunk(ctx, cm, &buf); err != nil {
			return nil, fmt.Errorf("chunk %d: %w", i, err)
		}
		c.chunks = append(c.chunks, buf.Bytes())
	}
	return c, nil
}

func decodeChunk(b []byte) ([][]byte, error) {
	dec := cbor.NewDecoder(snappy.NewReader(bytes.NewReader(b)))
	var entries [][]byte
	for {
		var e []byte
		if err := dec.Decode(&e); err != nil {
			if errors.Is(err, io.EOF) {
				return entries, nil
			}
			return nil, err
		}
		entries = append(entries, e)
	}
}

func encodeChunk(entries [][]byte) []byte {
	var buf bytes.Buffer
	sw := snappy.NewBufferedWriter(&buf)
	enc := cbor.NewEncoder(sw)
	for _, e := range entries {
		_ = enc.Encode(e)
	}
	_ = sw.Close()
	return buf.Bytes()
}

// sum is SHA-512/256 over the concatenated parts (the MKVS node hash function).
func sum(parts ...[]byte) hash.Hash {
	d := sha512.New512_256()
	for _, p := range parts {
		d.Write(p)
	}
	var out hash.Hash
	copy(out[:], d.Sum(nil))
	return out
}

func leafHash(k, v []byte) hash.Hash {
	var kl, vl [4]byte
	binary.LittleEndian.PutUint32(kl[:], uint32(len(k)))
	binary.LittleEndian.PutUint32(vl[:], uint32(len(v)))
	return sum([]byte{0x00}, kl[:], k, vl[:], v)
}

// evalProof evaluates the entries of a chunk as a version-0 proof (pre-order: nil = empty subtree,
// 0x02 = subtree hash, 0x01 = full node followed by its children) WITHOUT the proof verifier under
// test: node hashes are recomputed here from the decoded node fields. It returns the root hash the
// entries commit to and the leaves they carry.
func evalProof(entries [][]byte) (hash.Hash, kv.Model, int, error) {
	pos, seen := 0, 0
	leaves := kv.Model{}
	addLeaf := func(p *node.Pointer) (hash.Hash, error) {
		if p == nil || p.Node == nil {
			return sum(), nil
		}
		ln, ok := p.Node.(*node.LeafNode)
		if !ok {
			return hash.Hash{}, errors.New("leaf pointer holds no leaf")
		}
		leaves[string(ln.Key)] = append([]byte{}, ln.Value...)
		seen++
		return leafHash(ln.Key, ln.Value), nil
	}
	var walk func(depth int) (hash.Hash, error)
	walk = func(depth int) (hash.Hash, error) {
		if pos >= len(entries) {
			return hash.Hash{}, errors.New("proof ends early")
		}
		if depth > 1<<14 {
			return hash.Hash{}, errors.New("proof too deep")
		}
		e := entries[pos]
		pos++
		if e == nil {
			return sum(), nil
		}
		if len(e) == 0 {
			return hash.Hash{}, errors.New("empty entry")
		}
		switch e[0] {
		case 0x02:
			var h hash.Hash
			if len(e) != 1+len(h) {
				return hash.Hash{}, errors.New("bad hash entry")
			}
			copy(h[:], e[1:])
			return h, nil
		case 0x01:
			n, err := node.UnmarshalBinary(e[1:])
			if err != nil {
				return hash.Hash{}, err
			}
			switch n := n.(type) {
			case *node.LeafNode:
				return addLeaf(&node.Pointer{Node: n})
			case *node.InternalNode:
				lh, err := addLeaf(n.LeafNode)
				if err != nil {
					return hash.Hash{}, err
				}
				l, err := walk(depth + 1)
				if err != nil {
					return hash.Hash{}, err
				}
				r, err := walk(depth + 1)
				if err != nil {
					return hash.Hash{}, err
				}
				var lb [2]byte
				binary.LittleEndian.PutUint16(lb[:], uint16(n.LabelBitLength))
				return sum([]byte{0x01}, lb[:], n.Label, lh[:], l[:], r[:]), nil
			}
			return hash.Hash{}, errors.New("unknown node kind")
		}
		return hash.Hash{}, fmt.Errorf("unknown entry kind %#x", e[0])
	}
	root, err := walk(0)
	if err != nil {
		return hash.Hash{}, nil, 0, err
	}
	if pos != len(entries) {
		return hash.Hash{}, nil, 0, errors.New("unused entries")
	}
	return root, leaves, seen, nil
}

// chunkLeaves decodes a chunk, checks independently that it commits to root and returns the leaves
// it carries.
func chunkLeaves(b []byte, root hash.Hash) (kv.Model, int, error) {
	entries, err := decodeChunk(b)
	if err != nil {
		return nil, 0, err
	}
	if len(entries) == 0 {
		return nil, 0, errors.New("no entries")
	}
	h, leaves, seen, err := evalProof(entries)
	if err != nil {
		return nil, 0, err
	}
	if h != root {
		return nil, 0, fmt.Errorf("entries commit to %s, not to %s", h, root)
	}
	return leaves, seen, nil
}

// ---------------------------------------------------------------------------------------
// Restore plans.

type step struct {
	Idx int
	// Kind: "good" (the chunk's bytes), "ioerr" (the transfer breaks after Cut bytes) or "cancel" (the chunk's bytes,
	// but the caller's context turns cancelled at the Cut-th time the restorer consults it).
	Kind string
	Cut  int
}

// countdownCtx is a context that becomes cancelled at the n-th call of Err(): a deterministic stand-in for a caller
// that gives up (timeout, shutdown) while the chunk is being decoded, verified or imported.
type countdownCtx struct {
	context.Context
	left atomic.Int64
	done chan struct{}
	once sync.Once
}

func newCountdownCtx(n int) *countdownCtx {
	c := &countdownCtx{Context: context.Background(), done: make(chan struct{})}
	c.left.Store(int64(n))
	return c
}

func (c *countdownCtx) Err() error {
	if c.left.Add(-1) < 0 {
		c.once.Do(func() { close(c.done) })
		return context.Canceled
	}
	return nil
}

func (c *countdownCtx) Done() <-chan struct{} { return c.done }

type result struct {
	done     bool
	err      error
	panicked any
}

type brokenReader struct {
	data []byte
	pos  int
}

func (r *brokenReader) Read(p []byte) (int, error) {
	if r.pos >= len(r.data) {
		return 0, io.ErrUnexpectedEOF
	}
	n := copy(p, r.data[r.pos:])
	r.pos += n
	return n, nil
}

func restoreOne(rs checkpoint.Restorer, idx int, r io.Reader) (res result) {
	defer func() {
		if p := recover(); p != nil {
			res.panicked = p
		}
	}()
	res.done, res.err = rs.RestoreChunk(ctx, uint64(idx), r)
	return
}

func runStep(rs checkpoint.Restorer, s step, chunks [][]byte) (res result) {
	if s.Kind == "cancel" {
		defer func() {
			if p := recover(); p != nil {
				res.panicked = p
			}
		}()
		res.done, res.err = rs.RestoreChunk(newCountdownCtx(s.Cut), uint64(s.Idx), bytes.NewReader(chunks[s.Idx]))
		return
	}
	if s.Kind == "ioerr" {
		return restoreOne(rs, s.Idx, &brokenReader{data: chunks[s.Idx][:s.Cut]})
	}
	return restoreOne(rs, s.Idx, bytes.NewReader(chunks[s.Idx]))
}

// runPhase executes the steps with k callers; k > 1 callers are released together by a barrier and
// take the next step of the plan each.
func runPhase(rs checkpoint.Restorer, steps []step, chunks [][]byte, k int) []result {
	res := make([]result, len(steps))
	if k <= 1 {
		for i, s := range steps {
			res[i] = runStep(rs, s, chunks)
		}
		return res
	}
	var next atomic.Int64
	var ready, finished sync.WaitGroup
	start := make(chan struct{})
	ready.Add(k)
	finished.Add(k)
	for w := 0; w < k; w++ {
		go func() {
			defer finished.Done()
			ready.Done()
			<-start
			for {
				i := int(next.Add(1) - 1)
				if i >= len(steps) {
					return
				}
				res[i] = runStep(rs, steps[i], chunks)
			}
		}()
	}
	ready.Wait()
	close(start)
	finished.Wait()
	return res
}

// cancels: 0 = no cancelled calls, 1 = cancellation at any point, 2 = only after the proof has been verified (node import).
func genPlan(t *rapid.T, chunks [][]byte, tag string, cancels int) []step {
	n := len(chunks)
	var order []int
	switch rapid.IntRange(0, 5).Draw(t, tag+"Order") {
	case 0:
		for i := 0; i < n; i++ {
			order = append(order, i)
		}
	case 1:
		for i := n - 1; i >= 0; i-- {
			order = append(order, i)
		}
	default:
		idx := make([]int, n)
		for i := range idx {
			idx[i] = i
		}
		order = rapid.Permutation(idx).Draw(t, tag+"Perm")
	}
	plan := make([]step, 0, n+6)
	for _, i := range order {
		plan = append(plan, step{Idx: i, Kind: "good"})
	}
	insert := func(s step) {
		at := rapid.IntRange(0, len(plan)).Draw(t, tag+"At")
		plan = append(plan, step{})
		copy(plan[at+1:], plan[at:])
		plan[at] = s
	}
	for i, nd := 0, rapid.IntRange(0, 3).Draw(t, tag+"Dups"); i < nd; i++ {
		insert(step{Idx: rapid.IntRange(0, n-1).Draw(t, tag+"DupIdx"), Kind: "good"})
	}
	for i, ne := 0, rapid.IntRange(0, 2).Draw(t, tag+"IOErrs"); i < ne; i++ {
		idx := rapid.IntRange(0, n-1).Draw(t, tag+"ErrIdx")
		if len(chunks[idx]) == 0 {
			continue
		}
		insert(step{Idx: idx, Kind: "ioerr", Cut: rapid.IntRange(0, len(chunks[idx])-1).Draw(t, tag+"Cut")})
	}
	if cancels > 0 {
		for i, nc := 0, rapid.IntRange(0, 2).Draw(t, tag+"Cancels"); i < nc; i++ {
			idx := rapid.IntRange(0, n-1).Draw(t, tag+"CancelIdx")
			ne := 1
			if ents, err := decodeChunk(chunks[idx]); err == nil {
				ne = len(ents) + 1
			}
			// The restorer consults the context once per entry while decoding and once per entry while verifying the
			// proof (steers the generator only; the oracle accepts whatever a cancelled call returns).
			lo := 0
			if cancels == 2 {
				lo = 2*ne + 2
			}
			insert(step{Idx: idx, Kind: "cancel", Cut: rapid.IntRange(lo, 4*ne+8).Draw(t, tag+"CancelAt")})
		}
	}
	return plan
}

// restoreState is the harness' model of the Restorer.
type restoreState struct {
	active  bool
	pending map[int]bool
	// firstOK is the order in which chunks were first restored successfully.
	firstOK []int
	// abortedByCancel: a cancelled call ended the whole restore (the restorer treats a cancellation noticed while the
	// proof is verified as a verification failure); the caller has to start over.
	abortedByCancel bool
}

func newRestoreState(n int) *restoreState {
	st := &restoreState{active: true, pending: map[int]bool{}}
	for i := 0; i < n; i++ {
		st.pending[i] = true
	}
	return st
}

type verdict struct{ sig, msg string }

func isBenignLoser(err error) bool {
	return errors.Is(err, checkpoint.ErrChunkAlreadyRestored) || errors.Is(err, checkpoint.ErrNoRestoreInProgress)
}

// judge compares the results of one phase with the model. With one caller the model is exact;
// with several callers the losing caller of a duplicate may see ErrChunkAlreadyRestored or
// ErrNoRestoreInProgress, and only the set of restored chunks is checked.
func judge(st *restoreState, steps []step, res []result, k int, deep bool, label func(string)) *verdict {
	honestSig := func(err error) string {
		if deep {
			return sigDepth // (trees beyond the verifier's depth limit: whatever the wording of the refusal)
		}
		return "restore-rejects-honest-chunk"
	}
	dones := 0
	if k <= 1 {
		for i, s := range steps {
			r := res[i]
			if r.panicked != nil {
				return &verdict{"restore-panic", fmt.Sprintf("step %d %+v panicked: %v", i, s, r.panicked)}
			}
			pend := st.active && st.pending[s.Idx]
			switch {
			case s.Kind == "cancel" && r.err != nil:
				// A cancelled call may fail in any way; the chunk stays pending and can be offered again - unless the
				// restorer gave the whole restore up, which the caller is told by the error class.
				label("cancelled-call:" + errName(r.err))
				if r.done {
					return &verdict{"restore-done-flag", fmt.Sprintf("step %d: cancelled call for chunk %d failed (%v) but reported done", i, s.Idx, r.err)}
				}
				if pend && errors.Is(r.err, checkpoint.ErrChunkProofVerificationFailed) {
					st.active = false
					st.abortedByCancel = true
				}
			case s.Kind == "ioerr":
				if r.err == nil {
					return &verdict{"truncated-chunk-accepted", fmt.Sprintf("step %d: chunk %d cut after %d bytes was accepted", i, s.Idx, s.Cut)}
				}
				if pend && (errors.Is(r.err, checkpoint.ErrChunkProofVerificationFailed) || errors.Is(r.err, checkpoint.ErrNoRestoreInProgress)) {
					return &verdict{"retry-impossible", fmt.Sprintf("step %d: broken transfer of pending chunk %d (cut %d) ended the restore: %v", i, s.Idx, s.Cut, r.err)}
				}
			case !pend:
				switch {
				case r.err == nil:
					label("dup:accepted")
				case errors.Is(r.err, checkpoint.ErrChunkAlreadyRestored):
					label("dup:ErrChunkAlreadyRestored")
				case errors.Is(r.err, checkpoint.ErrNoRestoreInProgress):
					label("dup:ErrNoRestoreInProgress")
				default:
					label("dup:other-error")
				}
				if r.done && st.active {
					return &verdict{"restore-done-flag", fmt.Sprintf("step %d: duplicate of chunk %d reported done with %d chunks pending", i, s.Idx, len(st.pending))}
				}
			default:
				if r.err != nil {
					return &verdict{honestSig(r.err), fmt.Sprintf("step %d: pending honest chunk %d rejected: %v", i, s.Idx, r.err)}
				}
				delete(st.pending, s.Idx)
				st.firstOK = append(st.firstOK, s.Idx)
				if want := len(st.pending) == 0; r.done != want {
					return &verdict{"restore-done-flag", fmt.Sprintf("step %d: chunk %d returned done=%v with %d chunks pending", i, s.Idx, r.done, len(st.pending))}
				}
				if r.done {
					st.active = false
				}
			}
		}
		return nil
	}
	ok := map[int]bool{}
	tried := map[int]bool{}
	for i, s := range steps {
		r := res[i]
		if r.panicked != nil {
			return &verdict{"restore-panic", fmt.Sprintf("step %d %+v panicked (k=%d): %v", i, s, k, r.panicked)}
		}
		if r.done {
			dones++
		}
		if s.Kind == "ioerr" {
			if r.err == nil {
				return &verdict{"truncated-chunk-accepted", fmt.Sprintf("step %d: chunk %d cut after %d bytes was accepted (k=%d)", i, s.Idx, s.Cut, k)}
			}
			if errors.Is(r.err, checkpoint.ErrChunkProofVerificationFailed) {
				return &verdict{"retry-impossible", fmt.Sprintf("step %d: broken transfer of chunk %d aborted the restore (k=%d): %v", i, s.Idx, k, r.err)}
			}
			continue
		}
		tried[s.Idx] = true
		switch {
		case r.err == nil:
			if !ok[s.Idx] && st.pending[s.Idx] {
				st.firstOK = append(st.firstOK, s.Idx)
			}
			ok[s.Idx] = true
		case isBenignLoser(r.err):
			label("concurrent-loser:" + errName(r.err))
		default:
			return &verdict{honestSig(r.err), fmt.Sprintf("step %d: honest chunk %d rejected (k=%d): %v", i, s.Idx, k, r.err)}
		}
	}
	idxs := make([]int, 0, len(tried))
	for i := range tried {
		idxs = append(idxs, i)
	}
	sort.Ints(idxs)
	for _, i := range idxs {
		if st.active && st.pending[i] && !ok[i] {
			return &verdict{"restore-state", fmt.Sprintf("pending chunk %d was offered but no caller restored it (k=%d)", i, k)}
		}
		if ok[i] {
			delete(st.pending, i)
		}
	}
	if st.active {
		if len(st.pending) == 0 {
			if dones == 0 {
				return &verdict{"restore-done-flag", fmt.Sprintf("all chunks restored but no caller was told done (k=%d)", k)}
			}
			st.active = false
		} else if dones > 0 {
			return &verdict{"restore-done-flag", fmt.Sprintf("a caller was told done with %d chunks pending (k=%d)", len(st.pending), k)}
		}
	}
	return nil
}

func errName(err error) string {
	switch {
	case err == nil:
		return "nil"
	case errors.Is(err, checkpoint.ErrChunkCorrupted):
		return "ErrChunkCorrupted"
	case errors.Is(err, checkpoint.ErrChunkProofVerificationFailed):
		return "ErrChunkProofVerificationFailed"
	case errors.Is(err, checkpoint.ErrChunkAlreadyRestored):
		return "ErrChunkAlreadyRestored"
	case errors.Is(err, checkpoint.ErrNoRestoreInProgress):
		return "ErrNoRestoreInProgress"
	case errors.Is(err, checkpoint.ErrChunkNotFound):
		return "ErrChunkNotFound"
	}
	return "other"
}

// ---------------------------------------------------------------------------------------
// Checks on a restored database.

// checkRestored: the root exists, is the only root of its version, and holds exactly m.
func checkRestored(dst dbApi.NodeDB, root node.Root, m kv.Model) string {
	if !dst.HasRoot(root) {
		return "HasRoot(root) is false after Finalize"
	}
	roots, err := dst.GetRootsForVersion(root.Version)
	if err != nil {
		return fmt.Sprintf("GetRootsForVersion: %v", err)
	}
	for _, r := range roots {
		if r.Type == root.Type && r.Hash != root.Hash {
			return fmt.Sprintf("stray root %s in version %d", r.Hash, root.Version)
		}
	}
	tr := mkvs.NewWithRoot(nil, dst, root)
	defer tr.Close()
	got, err := kv.Scan(ctx, tr)
	if err != nil {
		return fmt.Sprintf("scan of the restored root failed after %d keys: %v", len(got), err)
	}
	if msg := kv.CompareScan(got, m); msg != "" {
		return msg
	}
	scanned := kv.Model{}
	for _, e := range got {
		scanned[string(e.K)] = e.V
	}
	if h := kv.RefRoot(scanned); h != root.Hash {
		return fmt.Sprintf("reference root of the scanned contents %s differs from the restored root %s", h, root.Hash)
	}
	keys := m.SortedKeys()
	for i := 0; i < len(keys); i += 1 + len(keys)/16 {
		v, err := tr.Get(ctx, []byte(keys[i]))
		if err != nil || !bytes.Equal(v, m[keys[i]]) {
			return fmt.Sprintf("Get(%x) = %x, %v; want %x", keys[i], v, err, m[keys[i]])
		}
	}
	return ""
}

// readableSubset reads whatever can be read below root (errors allowed) and reports anything that
// is not a true key/value pair of m.
func readableSubset(dst dbApi.NodeDB, root node.Root, m kv.Model, probes [][]byte) (int, string) {
	tr := mkvs.NewWithRoot(nil, dst, root)
	defer tr.Close()
	n := 0
	it := tr.NewIterator(ctx)
	defer it.Close()
	for it.Rewind(); it.Valid(); it.Next() {
		want, ok := m[string(it.Key())]
		if !ok {
			return n, fmt.Sprintf("iteration yields key %x which is not in the source contents", it.Key())
		}
		if !bytes.Equal(want, it.Value()) {
			return n, fmt.Sprintf("iteration yields key %x with a value that differs from the source", it.Key())
		}
		n++
	}
	for _, k := range probes {
		v, err := tr.Get(ctx, k)
		if err != nil {
			continue
		}
		want, ok := m[string(k)]
		if v == nil && !ok {
			continue
		}
		if v != nil && ok && bytes.Equal(v, want) {
			n++
			continue
		}
		if v == nil && ok {
			// A partially restored tree may not resolve a present key; absence without an error
			// is tolerated only when nothing false is returned.
			continue
		}
		return n, fmt.Sprintf("Get(%x) returns %x, the source has %x (present=%v)", k, v, want, ok)
	}
	return n, ""
}

type extraOp struct {
	Key []byte
	Val []byte // nil = remove
}

func genExtra(t *rapid.T, m kv.Model) []extraOp {
	keys := sortedKeys(m)
	if len(keys) > 0 && rapid.IntRange(0, 11).Draw(t, "removeAll") == 0 {
		ops := make([]extraOp, len(keys))
		for i, k := range keys {
			ops[i] = extraOp{Key: k}
		}
		return ops
	}
	var ops []extraOp
	for i, n := 0, rapid.IntRange(1, 8).Draw(t, "nextra"); i < n; i++ {
		mode := rapid.IntRange(0, 3).Draw(t, "xmode")
		if len(keys) == 0 {
			mode = 0
		}
		switch mode {
		case 0:
			ops = append(ops, extraOp{Key: kv.GenUniverse(t, 1, false)[0], Val: kv.GenValue(t)})
		case 1:
			k := keys[rapid.IntRange(0, len(keys)-1).Draw(t, "xkey")]
			ops = append(ops, extraOp{Key: append(append([]byte{}, k...), rapid.Byte().Draw(t, "xext")), Val: kv.GenValue(t)})
		case 2:
			ops = append(ops, extraOp{Key: keys[rapid.IntRange(0, len(keys)-1).Draw(t, "xkey")], Val: kv.GenValue(t)})
		default:
			ops = append(ops, extraOp{Key: keys[rapid.IntRange(0, len(keys)-1).Draw(t, "xkey")]})
		}
	}
	return ops
}

// commitOnTop applies ops on top of the restored root as the next version, finalizes it, checks
// both roots, optionally prunes the restored version and checks the new root again.
func commitOnTop(dst dbApi.NodeDB, root node.Root, m kv.Model, ops []extraOp, prune bool) string {
	tr := mkvs.NewWithRoot(nil, dst, root)
	defer tr.Close()
	m2 := m.Clone()
	for _, o := range ops {
		if o.Val == nil {
			if err := tr.Remove(ctx, o.Key); err != nil {
				return fmt.Sprintf("Remove(%x) on the restored root: %v", o.Key, err)
			}
			delete(m2, string(o.Key))
		} else {
			if err := tr.Insert(ctx, o.Key, o.Val); err != nil {
				return fmt.Sprintf("Insert(%x) on the restored root: %v", o.Key, err)
			}
			m2[string(o.Key)] = o.Val
		}
	}
	_, rh, err := tr.Commit(ctx, ns, root.Version+1)
	if err != nil {
		return fmt.Sprintf("Commit on top of the restored root: %v", err)
	}
	if want := kv.RefRoot(m2); rh != want {
		return fmt.Sprintf("commit on top of the restored root gives %s, the reference root of the contents is %s", rh, want)
	}
	next := mkRoot(root.Version+1, node.RootTypeState, rh)
	if err = dst.Finalize([]node.Root{next}); err != nil {
		return fmt.Sprintf("Finalize of the version after the restored one: %v", err)
	}
	check := func(r node.Root, want kv.Model, what string) string {
		t2 := mkvs.NewWithRoot(nil, dst, r)
		defer t2.Close()
		got, err := kv.Scan(ctx, t2)
		if err != nil {
			return fmt.Sprintf("scan of %s failed: %v", what, err)
		}
		if msg := kv.CompareScan(got, want); msg != "" {
			return what + ": " + msg
		}
		return ""
	}
	if msg := check(next, m2, "the root committed on top"); msg != "" {
		return msg
	}
	if msg := check(root, m, "the restored root after a later commit"); msg != "" {
		return msg
	}
	// (badger cannot prune a version whose root is the empty root, with or without a restore:
	// that is outside this property, so an empty restored root is not pruned.)
	if prune && !root.Hash.IsEmpty() {
		for v := dst.GetEarliestVersion(); v <= root.Version; v++ {
			if err = dst.Prune(v); err != nil {
				return fmt.Sprintf("Prune(%d) after restore: %v", v, err)
			}
		}
		if msg := check(next, m2, "the root committed on top, after pruning the restored version"); msg != "" {
			return msg
		}
	}
	return ""
}

func firstN(b []byte, n int) []byte {
	if len(b) > n {
		return b[:n]
	}
	return b
}

var _ = runtime.GOMAXPROCS
var _ = os.RemoveAll
var _ = filepath.Join

// ---------------------------------------------------------------------------------------
// Common case setup.

type fixture struct {
	dir     string
	m       kv.Model
	shape   string
	depth   int
	backend string
	hist    history
	src     dbApi.NodeDB
	root    node.Root
}

func (f *fixture) close() {
	if f.src != nil {
		f.src.Close()
	}
	_ = os.RemoveAll(f.dir)
}

// genFixture draws contents and a source database holding them. It returns nil when the case was
// discarded (excluded known finding).
func genFixture(t *rapid.T, rec *ev.Recorder, maxKeys int) *fixture {
	m, shape := genContents(t, maxKeys)
	depth := kv.MaxPathDepth(sortedKeys(m))
	if depth > depthLimit && ev.Excluded(sigDepth) {
		rec.Discard("excluded:" + sigDepth)
		return nil
	}
	f := &fixture{m: m, shape: shape, depth: depth}
	f.backend = rapid.SampledFrom(kv.Backends).Draw(t, "src")
	f.hist = genHistory(t, "hist")
	// the source is only read by the checkpoint creator; mostly in memory to keep cases cheap
	memOnly := rapid.IntRange(0, 3).Draw(t, "srcMem") != 0
	f.dir = kv.TempDir("c12-")
	var err error
	f.src, f.root, err = buildSource(f.backend, filepath.Join(f.dir, "src"), memOnly, m, f.hist)
	if err != nil {
		f.close()
		ev.Infra(t, "building the source database (%s, %+v, %d keys): %v", f.backend, f.hist, len(m), err)
	}
	if want := kv.RefRoot(m); f.root.Hash != want {
		f.close()
		ev.Violation(t, "tree", "source root %s differs from the reference root %s of the contents", f.root.Hash, want)
	}
	return f
}

func genChunkSize(t *rapid.T, nkeys int) uint64 {
	if nkeys > 600 {
		return rapid.SampledFrom(chunkSizes[4:]).Draw(t, "chunkSize")
	}
	return rapid.SampledFrom(chunkSizes).Draw(t, "chunkSize")
}

func chunkBucket(n int) string {
	switch {
	case n == 1:
		return "1"
	case n == 2:
		return "2"
	case n <= 9:
		return "3-9"
	case n <= 99:
		return "10-99"
	}
	return "100+"
}

func dumpModel(m kv.Model) string {
	var b strings.Builder
	for i, k := range m.SortedKeys() {
		if i >= 40 {
			fmt.Fprintf(&b, " ...(%d keys)", len(m))
			break
		}
		fmt.Fprintf(&b, " %x=%x", k, firstN(m[k], 6))
	}
	return b.String()
}

// ---------------------------------------------------------------------------------------
// TestC12RoundTrip.

const ruleRoundTrip = "case = contents (empty, single leaf, prefix chains up to 150 nested keys, bit combs, prefix-heavy universes of 1..300 keys quick / ..3000 thorough) committed on a source backend " +
	"as a 1-3 version history (optionally pruned), CreateCheckpoint with chunk size in {1,2,7,64,512,4096,2^20,MaxUint64} and chunker threads in {0,1,2,3,8,16,32}, restored into an empty on-disk/in-memory " +
	"target backend by a plan: permutation of the chunk indices plus duplicates, transfers that break mid-chunk (retry) and calls whose context turns cancelled at a drawn point of decoding, verification or node import (the chunk stays pending and is offered again; if the restorer gives the whole restore up the harness starts over), optionally a first attempt aborted (AbortRestore+AbortMultipartInsert) and restarted from scratch, " +
	"each phase run by k=1..4 callers released together by a barrier; oracle: with one caller every pending honest chunk is accepted, a broken transfer is rejected and stays retryable, done is reported exactly with the last pending chunk; " +
	"with several callers only ErrChunkAlreadyRestored/ErrNoRestoreInProgress are tolerated for losers; after Finalize HasRoot holds, the version has no other root, a full scan equals the source contents, the reference root of " +
	"the scanned contents equals the checkpointed root, (on disk) the same after close+reopen, and a generated commit on top as the next version hashes to the reference root, reads back, leaves the restored root intact and " +
	"survives pruning the restored version; non-trivial = (>=3 chunks and first-success order != ascending) or (threads>=2 and >=2 chunks) or a phase with k>=2 callers and >=2 steps; distinct = hash of root, history, parameters and plan"

func TestC12RoundTrip(t *testing.T) {
	rec := ev.New("C12", "TestC12RoundTrip", ruleRoundTrip,
		"the caller manages the multipart insert (StartMultipartInsert before StartRestore, AbortMultipartInsert on abort) as documented in Restorer",
		"callers are quiesced before AbortRestore and before Finalize")
	defer rec.Flush()
	var trace []string
	ev.Trace = func() any { return trace }
	rapid.Check(t, func(t *rapid.T) {
		trace = nil
		f := genFixture(t, rec, ev.Pick(300, 3000))
		if f == nil {
			return
		}
		defer f.close()
		cs := genChunkSize(t, len(f.m))
		threads := rapid.SampledFrom(threadCounts).Draw(t, "threads")
		dstBackend := rapid.SampledFrom(kv.Backends).Draw(t, "dst")
		dstMem := rapid.IntRange(0, 3).Draw(t, "dstMem") == 0
		trace = append(trace, fmt.Sprintf("shape=%s keys=%d depth=%d src=%s hist=%+v root=%s cs=%d threads=%d dst=%s dstMem=%v", f.shape, len(f.m), f.depth, f.backend, f.hist, f.root.Hash.String()[:8], cs, threads, dstBackend, dstMem))
		trace = append(trace, "contents:"+dumpModel(f.m))
		fail := func(sig, format string, args ...any) {
			ev.Violation(t, sig, "%s; trace=%v", fmt.Sprintf(format, args...), trace)
		}

		if rapid.IntRange(0, 3).Draw(t, "leftover") == 0 {
			// leftovers of an earlier creation of the same checkpoint that was killed before its metadata file was written
			// (chunk files exist, no metadata), made with other chunking parameters: the creation below must not be
			// affected by them
			cs0 := rapid.SampledFrom([]uint64{1 << 20, cs*4 + 100, cs/2 + 1, 64}).Draw(t, "leftoverChunkSize")
			th0 := rapid.SampledFrom(threadCounts).Draw(t, "leftoverThreads")
			if _, err := makeCheckpoint(filepath.Join(f.dir, "cp"), f.src, f.root, cs0, th0); err == nil {
				removed := false
				_ = filepath.Walk(filepath.Join(f.dir, "cp"), func(p string, fi os.FileInfo, err error) error {
					if err == nil && !fi.IsDir() && fi.Name() == "meta" {
						removed = os.Remove(p) == nil
					}
					return nil
				})
				if removed {
					rec.Label("leftover-chunks-of-interrupted-creation")
					trace = append(trace, fmt.Sprintf("leftover chunk files of an interrupted creation with cs=%d threads=%d", cs0, th0))
				}
			}
		}
		cp, err := makeCheckpoint(filepath.Join(f.dir, "cp"), f.src, f.root, cs, threads)
		if err != nil {
			fail("create-checkpoint-failed", "CreateCheckpoint/GetCheckpointChunk: %v", err)
		}
		meta := cp.meta
		if meta.Root != f.root || meta.Version != 1 || len(meta.Chunks) == 0 {
			fail("metadata-wrong", "metadata %+v for root %+v", meta, f.root)
		}
		for i, c := range cp.chunks {
			if d := digestOf(c); d != meta.Chunks[i] {
				fail("metadata-wrong", "chunk %d served by the creator hashes to %s, metadata says %s", i, d, meta.Chunks[i])
			}
		}
		n := len(cp.chunks)
		trace = append(trace, fmt.Sprintf("chunks=%d", n))

		dstDir := filepath.Join(f.dir, "dst")
		dst, err := openDB(dstBackend, dstDir, dstMem)
		if err != nil {
			ev.Infra(t, "open target: %v", err)
		}
		defer func() {
			if dst != nil {
				dst.Close()
			}
		}()
		rs, _ := checkpoint.NewRestorer(dst)
		startAttempt := func() {
			if err := dst.StartMultipartInsert(f.root.Version); err != nil {
				fail("restore-start-failed", "StartMultipartInsert(%d): %v", f.root.Version, err)
			}
			if err := rs.StartRestore(ctx, meta); err != nil {
				fail("restore-start-failed", "StartRestore: %v", err)
			}
		}
		deep := f.depth > depthLimit
		ntConc := false
		runPlan := func(st *restoreState, plan []step, tag string) {
			// split the plan into 1-2 phases with their own caller counts
			cuts := []int{len(plan)}
			if len(plan) >= 2 && rapid.IntRange(0, 2).Draw(t, tag+"Split") == 0 {
				cuts = []int{rapid.IntRange(1, len(plan)-1).Draw(t, tag+"SplitAt"), len(plan)}
			}
			from := 0
			for _, to := range cuts {
				k := rapid.SampledFrom([]int{1, 1, 1, 2, 3, 4}).Draw(t, tag+"K")
				for _, s := range plan[from:to] {
					if s.Kind == "cancel" {
						k = 1 // cancelled calls are judged by the exact (sequential) model only
						rec.Label("cancelled-call-in-plan")
					}
				}
				trace = append(trace, fmt.Sprintf("%s phase k=%d steps=%v", tag, k, plan[from:to]))
				res := runPhase(rs, plan[from:to], cp.chunks, k)
				if v := judge(st, plan[from:to], res, k, deep, rec.Label); v != nil {
					fail(v.sig, "%s", v.msg)
				}
				if k >= 2 && to-from >= 2 {
					ntConc = true
				}
				rec.Label(fmt.Sprintf("callers:%d", k))
				from = to
			}
		}

		aborted := false
		doAbort := rapid.IntRange(0, 3).Draw(t, "abort") == 0
		if doAbort && dstBackend == "pathbadger" && ev.Excluded(sigRestart) {
			rec.Discard("excluded:" + sigRestart)
			doAbort = false
		}
		contentSig := "restored-contents-differ"
		if doAbort {
			aborted = true
			if dstBackend == "pathbadger" {
				contentSig = sigRestart
			}
			startAttempt()
			plan := genPlan(t, cp.chunks, "a", 0)
			plan = plan[:rapid.IntRange(0, len(plan)).Draw(t, "abortAfter")]
			st := newRestoreState(n)
			runPlan(st, plan, "aborted")
			hadRoot := dst.HasRoot(f.root)
			if err := rs.AbortRestore(ctx); err != nil {
				fail("abort-failed", "AbortRestore: %v", err)
			}
			if err := dst.AbortMultipartInsert(); err != nil {
				fail("abort-failed", "AbortMultipartInsert: %v", err)
			}
			if rs.GetCurrentCheckpoint() != nil {
				fail("abort-failed", "GetCurrentCheckpoint is not nil after AbortRestore")
			}
			if !f.root.Hash.IsEmpty() {
				rec.Label(fmt.Sprintf("abort:hasroot-before=%v-after=%v", hadRoot, dst.HasRoot(f.root)))
			}
			trace = append(trace, "abort + restart")
		}
		startAttempt()
		if cur := rs.GetCurrentCheckpoint(); cur == nil || cur.Root != meta.Root || len(cur.Chunks) != n {
			fail("restore-state", "GetCurrentCheckpoint after StartRestore: %+v", cur)
		}
		// Cancelled calls: on pathbadger a restore that was given up cannot be restarted while finding
		// pathbadger-multipart-restart is excluded, so there only cancellations after the verification are drawn.
		cancels := 1
		if dstBackend == "pathbadger" && ev.Excluded(sigRestart) {
			cancels = 2
		}
		plan := genPlan(t, cp.chunks, "p", cancels)
		st := newRestoreState(n)
		runPlan(st, plan, "final")
		if st.abortedByCancel {
			// the restorer gave the restore up because of a cancelled call: start over and restore everything
			rec.Label("restore-given-up-after-cancelled-call")
			if cancels == 2 {
				rec.Discard("cancelled-call-aborted-restore:excluded:" + sigRestart)
				return
			}
			if err := dst.AbortMultipartInsert(); err != nil {
				fail("abort-failed", "AbortMultipartInsert after a restore given up by the restorer: %v", err)
			}
			trace = append(trace, "restore given up by the restorer after a cancelled call; restart")
			startAttempt()
			st = newRestoreState(n)
			runPlan(st, genPlan(t, cp.chunks, "r", 0), "restarted")
		}
		if st.active || len(st.pending) != 0 {
			ev.Infra(t, "plan did not restore every chunk: %+v", st)
		}
		if rs.GetCurrentCheckpoint() != nil {
			fail("restore-state", "GetCurrentCheckpoint is not nil after the restore reported done")
		}
		if !f.root.Hash.IsEmpty() {
			rec.Label(fmt.Sprintf("hasroot-before-finalize=%v", dst.HasRoot(f.root)))
		}
		if err := dst.Finalize([]node.Root{f.root}); err != nil {
			fail("finalize-after-restore-failed", "Finalize: %v", err)
		}
		if msg := checkRestored(dst, f.root, f.m); msg != "" {
			fail(contentSig, "%s", msg)
		}
		if !dstMem && rapid.IntRange(0, 2).Draw(t, "reopen") == 0 {
			dst.Close()
			if dst, err = openDB(dstBackend, dstDir, false); err != nil {
				fail("reopen-after-restore-failed", "reopening the restored database: %v", err)
			}
			if msg := checkRestored(dst, f.root, f.m); msg != "" {
				fail(contentSig, "after reopen: %s", msg)
			}
			rec.Label("reopened")
		}
		ops := genExtra(t, f.m)
		prune := rapid.Bool().Draw(t, "pruneAfter")
		trace = append(trace, fmt.Sprintf("extra commit: %d ops prune=%v", len(ops), prune))
		if msg := commitOnTop(dst, f.root, f.m, ops, prune); msg != "" {
			fail("db-broken-after-restore", "%s (ops=%v)", msg, ops)
		}

		ascending := sort.IntsAreSorted(st.firstOK)
		nt := (n >= 3 && !ascending) || (threads >= 2 && n >= 2) || ntConc
		rec.Label("shape:" + f.shape)
		rec.Label("chunks:" + chunkBucket(n))
		rec.Label(fmt.Sprintf("threads:%d", threads))
		rec.Label(fmt.Sprintf("backends:%s->%s", f.backend, dstBackend))
		rec.Label(fmt.Sprintf("versions:%d/pruned=%v", f.hist.Nver, f.hist.Prune))
		if aborted {
			rec.Label("aborted-and-restarted")
		}
		if f.depth > depthLimit {
			rec.Label("depth>128")
		}
		var sample any
		if nt && rec.WantSample() {
			sample = append([]string{trace[0]}, trace[2:]...)
		}
		rec.Case(nt, ev.Fingerprint(strings.Join(append([]string{trace[0]}, trace[2:]...), "|"), f.root.Hash[:]), sample)
	})
}

// ---------------------------------------------------------------------------------------
// TestC12Determinism.

const ruleDeterminism = "case = contents (same generator, <=80 keys quick / <=800 thorough) committed on a badger AND a pathbadger source with independently drawn histories, one chunk size; for EVERY thread count in {0,1,2,3,8,16,32} (thread count 0 and two drawn ones when that would write more than ~250 chunk files): " +
	"CreateCheckpoint twice on the first source into fresh directories (second run optionally under a different GOMAXPROCS) and once on the other source; oracle: the three Metadata values are identical in every field incl. all chunk digests, " +
	"the chunk bytes hash to the digests, every chunk verifies as a proof of the root, and the union of the leaves carried by all chunks is exactly the source contents (no key missing, none foreign, values equal); " +
	"non-trivial = some thread count >=2 produced >=2 chunks; distinct = hash of root, histories and chunk size"

func metaDiff(a, b *checkpoint.Metadata) string {
	switch {
	case a.Version != b.Version:
		return fmt.Sprintf("version %d vs %d", a.Version, b.Version)
	case a.Root != b.Root:
		return fmt.Sprintf("root %+v vs %+v", a.Root, b.Root)
	case len(a.Chunks) != len(b.Chunks):
		return fmt.Sprintf("%d chunks vs %d chunks", len(a.Chunks), len(b.Chunks))
	}
	for i := range a.Chunks {
		if a.Chunks[i] != b.Chunks[i] {
			return fmt.Sprintf("digest of chunk %d: %s vs %s", i, a.Chunks[i], b.Chunks[i])
		}
	}
	if ha, hb := a.EncodedHash(), b.EncodedHash(); ha != hb {
		return fmt.Sprintf("encoded hash %s vs %s", ha, hb)
	}
	return ""
}

func TestC12Determinism(t *testing.T) {
	rec := ev.New("C12", "TestC12Determinism", ruleDeterminism,
		"each CreateCheckpoint writes into a fresh directory (an existing checkpoint directory is returned as is by design)")
	defer rec.Flush()
	var trace []string
	ev.Trace = func() any { return trace }
	rapid.Check(t, func(t *rapid.T) {
		trace = nil
		f := genFixture(t, rec, ev.Pick(80, 800))
		if f == nil {
			return
		}
		defer f.close()
		other := "badger"
		if f.backend == "badger" {
			other = "pathbadger"
		}
		hist2 := genHistory(t, "hist2")
		src2, root2, err := buildSource(other, filepath.Join(f.dir, "src2"), rapid.IntRange(0, 3).Draw(t, "src2Mem") != 0, f.m, hist2)
		if err != nil {
			ev.Infra(t, "building the second source (%s, %+v): %v", other, hist2, err)
		}
		defer src2.Close()
		// the checkpoint root carries the version of the history; use the same version on both
		// sources so that the metadata can be compared field by field
		if root2.Hash != f.root.Hash {
			ev.Violation(t, "tree", "the two sources disagree on the root hash: %s vs %s", f.root.Hash, root2.Hash)
		}
		sameVersion := root2.Version == f.root.Version
		cs := genChunkSize(t, len(f.m))
		perturb := rapid.IntRange(0, 2).Draw(t, "perturb")
		trace = append(trace, fmt.Sprintf("shape=%s keys=%d depth=%d src=%s hist=%+v src2=%s hist2=%+v root=%s cs=%d perturb=%d", f.shape, len(f.m), f.depth, f.backend, f.hist, other, hist2, f.root.Hash.String()[:8], cs, perturb))
		trace = append(trace, "contents:"+dumpModel(f.m))
		fail := func(sig, format string, args ...any) {
			ev.Violation(t, sig, "%s; trace=%v", fmt.Sprintf(format, args...), trace)
		}
		nt := false
		var seq *checkpoint.Metadata
		// every chunk is a file: when all seven thread counts would create more than ~250 files,
		// the case takes thread count 0 and two drawn ones (all counts are covered over the run)
		tcs := threadCounts
		estChunks := len(f.m)
		switch {
		case cs >= 1<<20:
			estChunks = 1
		case cs >= 4096:
			estChunks = len(f.m)/25 + 1
		case cs >= 512:
			estChunks = len(f.m)/3 + 1
		}
		if estChunks*21 > 250 {
			tcs = append([]uint16{0}, rapid.Permutation(threadCounts[1:]).Draw(t, "threadSubset")[:2]...)
			sort.Slice(tcs, func(i, j int) bool { return tcs[i] < tcs[j] })
			rec.Label("thread-subset")
		}
		for _, threads := range tcs {
			a, err := makeCheckpoint(filepath.Join(f.dir, fmt.Sprintf("cpA%d", threads)), f.src, f.root, cs, threads)
			if err != nil {
				fail("create-checkpoint-failed", "threads=%d run 1: %v", threads, err)
			}
			var old int
			switch perturb {
			case 1:
				old = runtime.GOMAXPROCS(1)
			case 2:
				old = runtime.GOMAXPROCS(3)
			}
			b, err := makeCheckpoint(filepath.Join(f.dir, fmt.Sprintf("cpB%d", threads)), f.src, f.root, cs, threads)
			if perturb != 0 {
				runtime.GOMAXPROCS(old)
			}
			if err != nil {
				fail("create-checkpoint-failed", "threads=%d run 2: %v", threads, err)
			}
			if d := metaDiff(a.meta, b.meta); d != "" {
				fail("checkpoint-nondeterministic", "threads=%d: two runs on %s differ: %s", threads, f.backend, d)
			}
			c, err := makeCheckpoint(filepath.Join(f.dir, fmt.Sprintf("cpC%d", threads)), src2, root2, cs, threads)
			if err != nil {
				fail("create-checkpoint-failed", "threads=%d on %s: %v", threads, other, err)
			}
			cm := *c.meta
			if !sameVersion {
				cm.Root.Version = a.meta.Root.Version
			}
			if d := metaDiff(a.meta, &cm); d != "" {
				fail("checkpoint-depends-on-backend", "threads=%d: %s and %s sources with the same contents differ: %s", threads, f.backend, other, d)
			}
			if a.meta.Root != f.root || a.meta.Version != 1 || len(a.meta.Chunks) == 0 {
				fail("metadata-wrong", "threads=%d: metadata %+v for root %+v", threads, a.meta, f.root)
			}
			union := kv.Model{}
			carried, emptyChunks := 0, 0
			for i, raw := range a.chunks {
				if d := digestOf(raw); d != a.meta.Chunks[i] {
					fail("metadata-wrong", "threads=%d: chunk %d hashes to %s, metadata says %s", threads, i, d, a.meta.Chunks[i])
				}
				if !bytes.Equal(raw, b.chunks[i]) || !bytes.Equal(raw, c.chunks[i]) {
					fail("checkpoint-nondeterministic", "threads=%d: chunk %d bytes differ between runs", threads, i)
				}
				if f.depth > depthLimit {
					continue // the verifier refuses such chunks (sigDepth); coverage cannot be decoded
				}
				leaves, seen, err := chunkLeaves(raw, f.root.Hash)
				if err != nil {
					fail("chunk-not-a-proof", "threads=%d: chunk %d of %d does not verify against the root: %v", threads, i, len(a.chunks), err)
				}
				if seen == 0 {
					emptyChunks++
				}
				carried += seen
				for k, v := range leaves {
					want, ok := f.m[k]
					if !ok || !bytes.Equal(want, v) {
						fail("chunk-carries-foreign-leaf", "threads=%d: chunk %d carries %x=%x, source has %x (present=%v)", threads, i, k, firstN(v, 8), firstN(want, 8), ok)
					}
					union[k] = v
				}
			}
			if f.depth <= depthLimit {
				if len(union) != len(f.m) {
					for _, k := range f.m.SortedKeys() {
						if _, ok := union[k]; !ok {
							fail("chunks-miss-key", "threads=%d cs=%d: key %x (and %d more) is carried by none of the %d chunks", threads, cs, k, len(f.m)-len(union)-1, len(a.chunks))
						}
					}
				}
				if carried > len(f.m) {
					rec.Label("leaf-carried-by-several-chunks")
				}
				if emptyChunks > 0 && len(f.m) > 0 {
					rec.Label("chunk-without-leaves")
				}
			}
			if threads == 0 {
				seq = a.meta
			}
			if threads == 1 && seq != nil && metaDiff(seq, a.meta) != "" {
				rec.Label("threads0!=threads1")
			}
			if threads >= 2 && len(a.chunks) >= 2 {
				nt = true
			}
			rec.Label(fmt.Sprintf("threads:%d", threads))
			if threads >= 2 && seq != nil && metaDiff(seq, a.meta) != "" {
				rec.Label(fmt.Sprintf("parallel-differs-from-seq:threads=%d", threads))
			}
			// the checkpoint directories hold one file per chunk: drop them right away
			for _, p := range []string{"cpA", "cpB", "cpC"} {
				_ = os.RemoveAll(filepath.Join(f.dir, fmt.Sprintf("%s%d", p, threads)))
			}
		}
		rec.Label("shape:" + f.shape)
		rec.Label(fmt.Sprintf("chunkSize:%d", cs))
		if f.depth > depthLimit {
			rec.Label("depth>128")
		}
		var sample any
		if nt && rec.WantSample() {
			sample = trace[0]
		}
		rec.Case(nt, ev.Fingerprint(trace[0], f.root.Hash[:]), sample)
	})
}

// ---------------------------------------------------------------------------------------
// TestC12Corruption.

const ruleCorruption = "case = contents (<=150 keys quick / <=1500 thorough), source backend/history, chunk size, threads, target backend; some good chunks are restored in a drawn order, then exactly one chunk (the victim) is offered corrupted: " +
	"raw kinds keep the metadata (flip a byte, truncate, append bytes, append a snappy skippable frame, empty, swap with another chunk's bytes, wrong digest in the metadata), digest-recomputed kinds put the corrupted chunk's own digest into the " +
	"metadata (chunk of a checkpoint of ANOTHER tree: one value changed / one key added / one key removed / unrelated; re-encoded chunk with one proof entry flipped, dropped, duplicated, swapped, appended or nil-ed; raw flip/truncate). " +
	"oracle: RestoreChunk returns an error (a mutant that still verifies as a proof of the root is discarded), HasRoot(root) and the roots of the version are unchanged by the rejected chunk, everything readable below the root (iteration until the " +
	"first error, Gets of the victim's and the foreign tree's keys) is a true key/value pair of the source, and completing the restore (continue with the good chunks, or StartRestore again, or abort the multipart insert and restart) and " +
	"finalizing gives exactly the source contents; an ACCEPTED corruption is a violation when Finalize fails or the final contents differ, otherwise it is only labelled; " +
	"non-trivial = the corrupted chunk got past the digest check (error other than ErrChunkCorrupted, or accepted) or >=3 chunks; distinct = hash of root, parameters, victim, kind and mutation"

var (
	rawKinds        = []string{"flip", "truncate", "append", "skippable-frame", "empty", "swap", "digest-only"}
	recomputedKinds = []string{"foreign", "foreign", "foreign", "entry-flip", "entry-drop", "entry-dup", "entry-swap", "entry-append", "entry-nil", "flip+digest", "truncate+digest"}
)

func TestC12Corruption(t *testing.T) {
	rec := ev.New("C12", "TestC12Corruption", ruleCorruption,
		"the caller manages the multipart insert; after ErrChunkProofVerificationFailed the restorer has aborted itself and the caller starts the restore again",
		"a digest-recomputed mutant that still verifies as a proof of the checkpointed root is not a corruption (discarded)",
		"trees deeper than 128 nested nodes are left to TestC12RoundTrip (finding restore-depth-limit)")
	defer rec.Flush()
	var trace []string
	ev.Trace = func() any { return trace }
	rapid.Check(t, func(t *rapid.T) {
		trace = nil
		f := genFixture(t, rec, ev.Pick(150, 1500))
		if f == nil {
			return
		}
		defer f.close()
		if f.depth > depthLimit {
			rec.Discard("deeper-than-128:left-to-roundtrip")
			return
		}
		cs := genChunkSize(t, len(f.m))
		threads := rapid.SampledFrom(threadCounts).Draw(t, "threads")
		dstBackend := rapid.SampledFrom(kv.Backends).Draw(t, "dst")
		dstMem := rapid.IntRange(0, 1).Draw(t, "dstMem") == 0
		trace = append(trace, fmt.Sprintf("shape=%s keys=%d depth=%d src=%s hist=%+v root=%s cs=%d threads=%d dst=%s dstMem=%v", f.shape, len(f.m), f.depth, f.backend, f.hist, f.root.Hash.String()[:8], cs, threads, dstBackend, dstMem))
		trace = append(trace, "contents:"+dumpModel(f.m))
		fail := func(sig, format string, args ...any) {
			ev.Violation(t, sig, "%s; trace=%v", fmt.Sprintf(format, args...), trace)
		}
		cp, err := makeCheckpoint(filepath.Join(f.dir, "cp"), f.src, f.root, cs, threads)
		if err != nil {
			fail("create-checkpoint-failed", "CreateCheckpoint: %v", err)
		}
		meta := cp.meta
		n := len(cp.chunks)
		victim := rapid.IntRange(0, n-1).Draw(t, "victim")
		orig := cp.chunks[victim]

		// ---- build the corrupted chunk
		recomputed := rapid.Bool().Draw(t, "recomputed")
		var kind string
		if recomputed {
			kind = rapid.SampledFrom(recomputedKinds).Draw(t, "kind")
		} else {
			kind = rapid.SampledFrom(rawKinds).Draw(t, "kind")
		}
		var bad []byte
		badDigest := meta.Chunks[victim]
		probes := [][]byte{}
		detail := ""
		flip := func(b []byte) []byte {
			out := append([]byte{}, b...)
			pos := rapid.IntRange(0, len(out)-1).Draw(t, "flipPos")
			bit := rapid.IntRange(0, 7).Draw(t, "flipBit")
			out[pos] ^= 1 << uint(bit)
			detail = fmt.Sprintf("byte %d bit %d", pos, bit)
			return out
		}
		switch kind {
		case "flip", "flip+digest":
			bad = flip(orig)
		case "truncate", "truncate+digest":
			cut := rapid.IntRange(0, len(orig)-1).Draw(t, "cut")
			bad = append([]byte{}, orig[:cut]...)
			detail = fmt.Sprintf("%d of %d bytes", cut, len(orig))
		case "append":
			extra := rapid.SliceOfN(rapid.Byte(), 1, 12).Draw(t, "extra")
			bad = append(append([]byte{}, orig...), extra...)
			detail = fmt.Sprintf("%x", extra)
		case "skippable-frame":
			data := rapid.SliceOfN(rapid.Byte(), 0, 6).Draw(t, "skipData")
			typ := byte(rapid.IntRange(0x80, 0xfe).Draw(t, "skipType"))
			bad = append(append([]byte{}, orig...), typ, byte(len(data)), 0, 0)
			bad = append(bad, data...)
			detail = fmt.Sprintf("type %#x len %d", typ, len(data))
		case "empty":
			bad = []byte{}
		case "swap":
			if n < 2 {
				rec.Discard("swap-needs-2-chunks")
				return
			}
			o := rapid.IntRange(0, n-2).Draw(t, "swapWith")
			if o >= victim {
				o++
			}
			bad = cp.chunks[o]
			detail = fmt.Sprintf("bytes of chunk %d", o)
		case "digest-only":
			bad = orig
			badDigest[rapid.IntRange(0, len(badDigest)-1).Draw(t, "digestPos")] ^= 1 << uint(rapid.IntRange(0, 7).Draw(t, "digestBit"))
		case "foreign":
			m2 := f.m.Clone()
			keys := f.m.SortedKeys()
			variant := rapid.SampledFrom([]string{"value-changed", "key-added", "key-removed", "unrelated"}).Draw(t, "foreignVariant")
			if len(keys) == 0 && variant != "unrelated" {
				variant = "key-added"
			}
			switch variant {
			case "value-changed":
				k := keys[rapid.IntRange(0, len(keys)-1).Draw(t, "fkey")]
				m2[k] = append(append([]byte{}, m2[k]...), 0x01)
				probes = append(probes, []byte(k))
			case "key-added":
				k := []byte{0x33}
				if len(keys) > 0 {
					k = append([]byte(keys[rapid.IntRange(0, len(keys)-1).Draw(t, "fkey")]), rapid.Byte().Draw(t, "fext"))
				}
				if _, ok := m2[string(k)]; ok {
					rec.Discard("foreign-key-exists")
					return
				}
				m2[string(k)] = []byte("foreign")
				probes = append(probes, k)
			case "key-removed":
				k := keys[rapid.IntRange(0, len(keys)-1).Draw(t, "fkey")]
				delete(m2, k)
				probes = append(probes, []byte(k))
			default:
				m2 = kv.Model{}
				for _, k := range kv.GenUniverse(t, rapid.IntRange(1, 12).Draw(t, "fn"), false) {
					m2[string(k)] = []byte("foreign")
					probes = append(probes, k)
				}
				if m2.Equal(f.m) {
					rec.Discard("foreign-equals-source")
					return
				}
			}
			src2, root2, err := buildSource("badger", "", true, m2, history{First: f.root.Version, Nver: 1, Seed: 1})
			if err != nil {
				ev.Infra(t, "building the foreign tree: %v", err)
			}
			cp2, err := makeCheckpoint(filepath.Join(f.dir, "cp2"), src2, root2, cs, threads)
			src2.Close()
			if err != nil {
				fail("create-checkpoint-failed", "CreateCheckpoint of the foreign tree: %v", err)
			}
			j := victim
			if j >= len(cp2.chunks) {
				j = len(cp2.chunks) - 1
			}
			bad = cp2.chunks[j]
			detail = fmt.Sprintf("%s, chunk %d of %d of root %s", variant, j, len(cp2.chunks), root2.Hash.String()[:8])
		default: // entry-level mutations of the re-encoded chunk
			entries, err := decodeChunk(orig)
			if err != nil {
				fail("chunk-not-a-proof", "chunk %d does not decode: %v", victim, err)
			}
			if len(entries) == 0 {
				rec.Discard("no-entries")
				return
			}
			i := rapid.IntRange(0, len(entries)-1).Draw(t, "entry")
			mut := make([][]byte, len(entries))
			copy(mut, entries)
			switch kind {
			case "entry-flip":
				if len(entries[i]) == 0 {
					rec.Discard("nil-entry")
					return
				}
				mut[i] = flip(entries[i])
				detail = fmt.Sprintf("entry %d of %d, %s", i, len(entries), detail)
			case "entry-drop":
				mut = append(append([][]byte{}, entries[:i]...), entries[i+1:]...)
				detail = fmt.Sprintf("entry %d of %d", i, len(entries))
			case "entry-dup":
				mut = append(append(append([][]byte{}, entries[:i+1]...), entries[i]), entries[i+1:]...)
				detail = fmt.Sprintf("entry %d of %d", i, len(entries))
			case "entry-swap":
				j := rapid.IntRange(0, len(entries)-1).Draw(t, "entry2")
				mut[i], mut[j] = mut[j], mut[i]
				detail = fmt.Sprintf("entries %d and %d of %d", i, j, len(entries))
			case "entry-append":
				mut = append(mut, entries[i])
				detail = fmt.Sprintf("entry %d of %d appended", i, len(entries))
			case "entry-nil":
				mut[i] = nil
				detail = fmt.Sprintf("entry %d of %d", i, len(entries))
			}
			bad = encodeChunk(mut)
		}
		if recomputed {
			badDigest = digestOf(bad)
		}
		if kind != "digest-only" && bytes.Equal(bad, orig) {
			rec.Discard("mutation-is-identity:" + kind)
			return
		}
		if recomputed {
			if _, _, err := chunkLeaves(bad, f.root.Hash); err == nil {
				rec.Discard("mutant-still-a-valid-proof:" + kind)
				return
			}
		}
		if vl, _, err := chunkLeaves(orig, f.root.Hash); err == nil {
			for _, k := range vl.SortedKeys() {
				if len(probes) > 24 {
					break
				}
				probes = append(probes, []byte(k))
			}
		}
		badMeta := &checkpoint.Metadata{Version: meta.Version, Root: meta.Root, Chunks: append([]hash.Hash{}, meta.Chunks...)}
		badMeta.Chunks[victim] = badDigest
		metaBogus := badDigest != meta.Chunks[victim]

		// ---- restore
		idx := make([]int, n)
		for i := range idx {
			idx[i] = i
		}
		order := rapid.Permutation(idx).Draw(t, "order")
		before := rapid.IntRange(0, n-1).Draw(t, "goodBefore")
		var pre, post []int
		for _, i := range order {
			if i == victim {
				continue
			}
			if len(pre) < before {
				pre = append(pre, i)
			} else {
				post = append(post, i)
			}
		}
		trace = append(trace, fmt.Sprintf("chunks=%d victim=%d kind=%s (%s) recomputed=%v good-before=%v", n, victim, kind, detail, recomputed, pre))

		dst, err := openDB(dstBackend, filepath.Join(f.dir, "dst"), dstMem)
		if err != nil {
			ev.Infra(t, "open target: %v", err)
		}
		defer dst.Close()
		rs, _ := checkpoint.NewRestorer(dst)
		start := func(m *checkpoint.Metadata) {
			if err := dst.StartMultipartInsert(f.root.Version); err != nil {
				fail("restore-start-failed", "StartMultipartInsert: %v", err)
			}
			if err := rs.StartRestore(ctx, m); err != nil {
				fail("restore-start-failed", "StartRestore: %v", err)
			}
		}
		good := func(i int, lastPending bool, phase string) {
			r := restoreOne(rs, i, bytes.NewReader(cp.chunks[i]))
			if r.panicked != nil {
				fail("restore-panic", "%s: honest chunk %d panicked: %v", phase, i, r.panicked)
			}
			if r.err != nil {
				fail("restore-rejects-honest-chunk", "%s: honest chunk %d rejected: %v", phase, i, r.err)
			}
			if r.done != lastPending {
				fail("restore-done-flag", "%s: chunk %d returned done=%v, expected %v", phase, i, r.done, lastPending)
			}
		}
		rootsOf := func() string {
			rr, err := dst.GetRootsForVersion(f.root.Version)
			if err != nil {
				return "err:" + err.Error()
			}
			var s []string
			for _, r := range rr {
				s = append(s, fmt.Sprintf("%d/%s", r.Type, r.Hash))
			}
			sort.Strings(s)
			return strings.Join(s, ",")
		}
		start(badMeta)
		for _, i := range pre {
			good(i, false, "before the corrupted chunk")
		}
		hasBefore, rootsBefore := dst.HasRoot(f.root), rootsOf()
		r := restoreOne(rs, victim, bytes.NewReader(bad))
		if r.panicked != nil {
			fail("restore-panic", "corrupted chunk panicked: %v", r.panicked)
		}
		trace = append(trace, fmt.Sprintf("corrupted chunk -> done=%v err=%v", r.done, r.err))
		passedDigest := r.err == nil || !errors.Is(r.err, checkpoint.ErrChunkCorrupted)
		contentSig := "restore-after-rejection-differs"
		if r.err != nil {
			rec.Label("rejected:" + kind + ":" + errName(r.err))
			if r.done {
				fail("restore-done-flag", "a rejected chunk reported done")
			}
			if has := dst.HasRoot(f.root); has != hasBefore && !f.root.Hash.IsEmpty() {
				fail("rejected-chunk-visible", "HasRoot(root) changed from %v to %v by a rejected chunk", hasBefore, has)
			}
			if after := rootsOf(); after != rootsBefore {
				fail("rejected-chunk-visible", "roots of version %d changed from [%s] to [%s] by a rejected chunk", f.root.Version, rootsBefore, after)
			}
			if nread, msg := readableSubset(dst, f.root, f.m, probes); msg != "" {
				fail("rejected-chunk-visible", "after the rejected chunk: %s", msg)
			} else if nread > 0 {
				rec.Label("partial-tree-readable")
			}
			abortedItself := rs.GetCurrentCheckpoint() == nil
			rec.Label(fmt.Sprintf("restorer-after-%s:aborted=%v", errName(r.err), abortedItself))
			mode := rapid.SampledFrom([]string{"continue", "continue", "restart"}).Draw(t, "completion")
			if mode == "restart" && dstBackend == "pathbadger" && ev.Excluded(sigRestart) {
				rec.Discard("excluded:" + sigRestart)
				mode = "continue"
			}
			switch {
			case mode == "restart":
				if dstBackend == "pathbadger" {
					contentSig = sigRestart
				}
				if err := rs.AbortRestore(ctx); err != nil {
					fail("abort-failed", "AbortRestore: %v", err)
				}
				if err := dst.AbortMultipartInsert(); err != nil {
					fail("abort-failed", "AbortMultipartInsert: %v", err)
				}
				start(meta)
				for k, i := range order {
					good(i, k == n-1, "restart")
				}
				rec.Label("completion:abort-multipart-and-restart")
			case abortedItself || metaBogus:
				// the restorer gave up on the checkpoint (or its metadata is the bogus one): start
				// the restore again inside the same multipart insert, as the repo's own test does
				if !abortedItself {
					if err := rs.AbortRestore(ctx); err != nil {
						fail("abort-failed", "AbortRestore: %v", err)
					}
				}
				if rapid.Bool().Draw(t, "reoffer") {
					// the next snapshot offer: state sync calls StartMultipartInsert for EVERY offered snapshot, also when
					// a multipart insert of that version is already open (then it is a no-op)
					if err := dst.StartMultipartInsert(f.root.Version); err != nil {
						fail("restore-start-failed", "StartMultipartInsert for a re-offered snapshot of the same version: %v", err)
					}
					rec.Label("completion:reoffered")
				}
				if err := rs.StartRestore(ctx, meta); err != nil {
					fail("restore-start-failed", "StartRestore after a rejected chunk: %v", err)
				}
				for k, i := range order {
					good(i, k == n-1, "second StartRestore")
				}
				rec.Label("completion:start-restore-again")
			default:
				// the chunk is still pending: retry it and go on
				rest := append([]int{victim}, post...)
				if rapid.Bool().Draw(t, "retryLast") {
					rest = append(append([]int{}, post...), victim)
				}
				for k, i := range rest {
					good(i, k == len(rest)-1, "retry")
				}
				rec.Label("completion:retry-and-continue")
			}
			if err := dst.Finalize([]node.Root{f.root}); err != nil {
				fail(contentSig, "Finalize after completing the restore: %v", err)
			}
			if msg := checkRestored(dst, f.root, f.m); msg != "" {
				fail(contentSig, "after completing the restore: %s", msg)
			}
		} else {
			rec.Label("ACCEPTED:" + kind)
			// the corrupted chunk counts as restored; finish with the remaining good chunks
			for k, i := range post {
				rr := restoreOne(rs, i, bytes.NewReader(cp.chunks[i]))
				if rr.panicked != nil || rr.err != nil {
					fail("chunk-corruption-accepted", "corrupted chunk %d (%s %s) was accepted and then honest chunk %d failed: %v %v", victim, kind, detail, i, rr.err, rr.panicked)
				}
				_ = k
			}
			if err := dst.Finalize([]node.Root{f.root}); err != nil {
				fail("chunk-corruption-accepted", "corrupted chunk %d (%s %s) was accepted and Finalize fails: %v", victim, kind, detail, err)
			}
			if msg := checkRestored(dst, f.root, f.m); msg != "" {
				fail("chunk-corruption-accepted", "corrupted chunk %d (%s %s) was accepted and the final state is wrong: %s", victim, kind, detail, msg)
			}
			rec.Label("accepted-harmless:" + kind)
		}
		if rapid.IntRange(0, 3).Draw(t, "extra") == 0 {
			ops := genExtra(t, f.m)
			if msg := commitOnTop(dst, f.root, f.m, ops, false); msg != "" {
				fail("db-broken-after-restore", "%s (ops=%v)", msg, ops)
			}
		}
		nt := passedDigest || n >= 3
		rec.Label("chunks:" + chunkBucket(n))
		if passedDigest {
			rec.Label("passed-digest-check")
		}
		var sample any
		if nt && rec.WantSample() {
			sample = append([]string{trace[0]}, trace[2:]...)
		}
		rec.Case(nt, ev.Fingerprint(strings.Join(append([]string{trace[0]}, trace[2:]...), "|"), f.root.Hash[:], bad), sample)
	})
}

// ---------------------------------------------------------------------------------------
// Deterministic probes of the findings.

// restoreAll restores every chunk in ascending order into dst (multipart already started) and
// finalizes; returns a description of the first problem.
func restoreAll(dst dbApi.NodeDB, cp *cpoint, root node.Root, m kv.Model) string {
	rs, _ := checkpoint.NewRestorer(dst)
	if err := rs.StartRestore(ctx, cp.meta); err != nil {
		return "StartRestore: " + err.Error()
	}
	for i := range cp.chunks {
		if r := restoreOne(rs, i, bytes.NewReader(cp.chunks[i])); r.err != nil || r.panicked != nil {
			return fmt.Sprintf("RestoreChunk(%d of %d): %v %v", i, len(cp.chunks), r.err, r.panicked)
		}
	}
	if err := dst.Finalize([]node.Root{root}); err != nil {
		return "Finalize: " + err.Error()
	}
	return checkRestored(dst, root, m)
}

// TestC12KFDepthLimit: keys 0x00*i for i = 0..129 nest 129 internal nodes. The tree commits and
// CreateCheckpoint succeeds, but every chunk is a proof anchored at the root and the proof verifier
// refuses nodes deeper than 128 (syncer.maxProofDepth), so the checkpoint can never be restored.
// 129 keys (128 nested nodes) restore fine.
func TestC12KFDepthLimit(t *testing.T) {
	rec := ev.New("C12", "TestC12KFDepthLimit", "deterministic probe of finding "+sigDepth+": prefix chain of 129 keys (control, must restore) and of 130 keys, both backends, chunk size 4096, threads 0 and 2", "")
	defer rec.Flush()
	for _, backend := range kv.Backends {
		for _, nkeys := range []int{129, 130} {
			for _, threads := range []uint16{0, 2} {
				m := kv.Model{}
				for i := 0; i < nkeys; i++ {
					m[string(bytes.Repeat([]byte{0}, i))] = []byte{byte(i)}
				}
				dir := kv.TempDir("c12kf-")
				src, root, err := buildSource(backend, "", true, m, history{First: 1, Nver: 1, Seed: 1})
				if err != nil {
					ev.Infra(t, "source: %v", err)
				}
				cp, err := makeCheckpoint(filepath.Join(dir, "cp"), src, root, 4096, threads)
				if err != nil {
					ev.Infra(t, "checkpoint: %v", err)
				}
				dst, _ := openDB(backend, "", true)
				_ = dst.StartMultipartInsert(root.Version)
				msg := restoreAll(dst, cp, root, m)
				dst.Close()
				src.Close()
				_ = os.RemoveAll(dir)
				rec.Case(true, ev.Fingerprint(backend, nkeys, int(threads)), fmt.Sprintf("%s keys=%d threads=%d: %q", backend, nkeys, threads, msg))
				if msg != "" {
					if nkeys <= depthLimit+1 {
						ev.Violation(t, "restore-rejects-honest-chunk", "%s: chain of %d keys (depth %d) does not restore: %s", backend, nkeys, nkeys-1, msg)
					}
					ev.Violation(t, sigDepth, "%s threads=%d: prefix chain of %d keys (%d nested internal nodes) is checkpointed into %d chunks but cannot be restored: %s", backend, threads, nkeys, nkeys-1, len(cp.chunks), msg)
				}
			}
		}
	}
}

// TestC12KFPathbadgerRestart: on pathbadger StartMultipartInsert(v), AbortMultipartInsert(),
// StartMultipartInsert(v) (no chunk in between), then a complete restore and Finalize leaves a root
// that cannot be read. The sequence number reserved by the first multipart insert is not released,
// the second one gets sequence number 1, its nodes are written under pending keys, chunk batches
// record no updated-node list, and Finalize copies nothing to the finalized keys.
func TestC12KFPathbadgerRestart(t *testing.T) {
	rec := ev.New("C12", "TestC12KFPathbadgerRestart", "deterministic probe of finding "+sigRestart+": two keys, one chunk; control without the aborted multipart insert and on badger must restore", "")
	defer rec.Flush()
	m := kv.Model{"a": []byte("1"), "b": []byte("2")}
	for _, backend := range kv.Backends {
		for _, restart := range []bool{false, true} {
			dir := kv.TempDir("c12kf-")
			src, root, err := buildSource("badger", "", true, m, history{First: 1, Nver: 1, Seed: 1})
			if err != nil {
				ev.Infra(t, "source: %v", err)
			}
			cp, err := makeCheckpoint(filepath.Join(dir, "cp"), src, root, 1<<20, 0)
			if err != nil {
				ev.Infra(t, "checkpoint: %v", err)
			}
			dst, _ := openDB(backend, "", true)
			if restart {
				if err := dst.StartMultipartInsert(root.Version); err != nil {
					ev.Infra(t, "StartMultipartInsert: %v", err)
				}
				if err := dst.AbortMultipartInsert(); err != nil {
					ev.Infra(t, "AbortMultipartInsert: %v", err)
				}
			}
			_ = dst.StartMultipartInsert(root.Version)
			msg := restoreAll(dst, cp, root, m)
			dst.Close()
			src.Close()
			_ = os.RemoveAll(dir)
			rec.Case(true, ev.Fingerprint(backend, restart), fmt.Sprintf("%s restart=%v: %q", backend, restart, msg))
			if msg != "" {
				if backend != "pathbadger" || !restart {
					ev.Violation(t, "restored-contents-differ", "%s restart=%v: %s", backend, restart, msg)
				}
				ev.Violation(t, sigRestart, "pathbadger: StartMultipartInsert(1); AbortMultipartInsert(); StartMultipartInsert(1); restore the single chunk of {a,b}; Finalize: %s", msg)
			}
		}
	}
}
