package c12

import (
	"bytes"
	"fmt"
	"path/filepath"
	"testing"

	"github.com/oasisprotocol/oasis-core/go/storage/mkvs"
	"github.com/oasisprotocol/oasis-core/go/storage/mkvs/checkpoint"
	dbApi "github.com/oasisprotocol/oasis-core/go/storage/mkvs/db/api"
	"github.com/oasisprotocol/oasis-core/go/storage/mkvs/node"

	"verifharness/ev"
	"verifharness/kv"
)

// buildTyped commits m as the only version of a fresh database, as a root of the given type.
func buildTyped(backend, dir string, typ node.RootType, m kv.Model) (dbApi.NodeDB, node.Root, error) {
	ndb, err := openDB(backend, dir, false)
	if err != nil {
		return nil, node.Root{}, err
	}
	tree := mkvs.New(nil, ndb, typ)
	defer tree.Close()
	for _, k := range sortedKeys(m) {
		if err := tree.Insert(ctx, k, m[string(k)]); err != nil {
			ndb.Close()
			return nil, node.Root{}, err
		}
	}
	_, rh, err := tree.Commit(ctx, ns, 1)
	if err != nil {
		ndb.Close()
		return nil, node.Root{}, err
	}
	root := mkRoot(1, typ, rh)
	if err := ndb.Finalize([]node.Root{root}); err != nil {
		ndb.Close()
		return nil, node.Root{}, err
	}
	return ndb, root, nil
}

// TestC12LateDuplicateAcrossRestores: the two checkpoints of one version (state root, then IO root) are restored one after
// the other through the same restorer, as the storage worker does. A duplicate delivery of a chunk of the FIRST checkpoint
// is still in flight (admitted, waiting for its bytes) when the first restore completes through the other callers and the
// second restore is started; then its bytes arrive. Whatever that late call is told, it belongs to the first restore: the
// second restore must import every one of its own chunks, and both restored roots must read back completely.
func TestC12LateDuplicateAcrossRestores(t *testing.T) {
	rec := ev.New("C12", "TestC12LateDuplicateAcrossRestores", "deterministic cases on both backends with a harness-owned schedule: checkpoints of a state root (200 keys) and an IO root (200 other keys) of version 1, chunk size 512; restore of the state checkpoint with a second, gated delivery of its chunk 0 still in flight when the restore completes; StartRestore of the IO checkpoint; the gated delivery gets its bytes; every chunk of the IO checkpoint is delivered; Finalize of both roots. oracle = every chunk of the second checkpoint is imported by its own delivery (none is refused as already restored), the second restore reports done exactly at its last chunk, and both restored roots equal the checkpointed contents", "")
	defer rec.Flush()
	for _, backend := range kv.Backends {
		dir := t.TempDir()
		ma, mb := kv.Model{}, kv.Model{}
		for i := 0; i < 200; i++ {
			ma[fmt.Sprintf("key-%04d", i)] = []byte(fmt.Sprintf("value-%04d", i))
			mb[fmt.Sprintf("io-%04d", i)] = []byte(fmt.Sprintf("artifact-%04d", i))
		}
		srcA, rootA, err := buildTyped(backend, filepath.Join(dir, "srcA"), node.RootTypeState, ma)
		if err != nil {
			ev.Infra(t, "state source: %v", err)
		}
		srcB, rootB, err := buildTyped(backend, filepath.Join(dir, "srcB"), node.RootTypeIO, mb)
		if err != nil {
			ev.Infra(t, "io source: %v", err)
		}
		cpA, err := makeCheckpoint(filepath.Join(dir, "cpA"), srcA, rootA, 512, 0)
		if err != nil || len(cpA.chunks) < 3 {
			ev.Infra(t, "state checkpoint: %v", err)
		}
		cpB, err := makeCheckpoint(filepath.Join(dir, "cpB"), srcB, rootB, 512, 0)
		if err != nil || len(cpB.chunks) < 3 {
			ev.Infra(t, "io checkpoint: %v", err)
		}
		dst, err := openDB(backend, filepath.Join(dir, "dst"), false)
		if err != nil {
			ev.Infra(t, "target: %v", err)
		}
		rs, _ := checkpoint.NewRestorer(dst)
		if err := dst.StartMultipartInsert(1); err != nil {
			ev.Infra(t, "StartMultipartInsert: %v", err)
		}
		if err := rs.StartRestore(ctx, cpA.meta); err != nil {
			ev.Infra(t, "StartRestore(state): %v", err)
		}
		gr := &gatedReader{r: bytes.NewReader(cpA.chunks[0]), gate: make(chan struct{}), started: make(chan struct{})}
		type res struct {
			done bool
			err  error
		}
		late := make(chan res, 1)
		go func() {
			d, e := rs.RestoreChunk(ctx, 0, gr)
			late <- res{d, e}
		}()
		<-gr.started // the duplicate delivery of chunk 0 has been admitted and waits for its bytes
		for i, c := range cpA.chunks {
			done, err := rs.RestoreChunk(ctx, uint64(i), bytes.NewReader(c))
			if err != nil {
				ev.Violation(t, "honest-chunk-rejected", "%s: chunk %d of the state checkpoint rejected: %v", backend, i, err)
			}
			if done != (i == len(cpA.chunks)-1) {
				ev.Violation(t, "restore-done-flag", "%s: state checkpoint: done=%v after chunk %d of %d", backend, done, i+1, len(cpA.chunks))
			}
		}
		if err := rs.StartRestore(ctx, cpB.meta); err != nil {
			ev.Violation(t, "second-restore-refused", "%s: StartRestore of the IO checkpoint after the state checkpoint completed: %v", backend, err)
		}
		close(gr.gate)
		l := <-late
		if l.done {
			ev.Violation(t, "restore-done-flag", "%s: the late duplicate of a chunk of the COMPLETED restore is told that the (other) restore now running is done", backend)
		}
		for i, c := range cpB.chunks {
			done, err := rs.RestoreChunk(ctx, uint64(i), bytes.NewReader(c))
			if err != nil {
				ev.Violation(t, "honest-chunk-rejected", "%s: chunk %d of the IO checkpoint, delivered once, is refused (%v) after a late duplicate of chunk 0 of the PREVIOUS restore returned (%v)", backend, i, err, l.err)
			}
			if done != (i == len(cpB.chunks)-1) {
				ev.Violation(t, "restore-done-flag", "%s: IO checkpoint: done=%v after chunk %d of %d (late duplicate of the previous restore returned %v)", backend, done, i+1, len(cpB.chunks), l.err)
			}
		}
		if err := dst.Finalize([]node.Root{rootA, rootB}); err != nil {
			ev.Violation(t, "restore-finalize-failed", "%s: Finalize of the two restored roots: %v", backend, err)
		}
		if msg := checkRestored(dst, rootA, ma); msg != "" {
			ev.Violation(t, "restored-contents-differ", "%s: restored state root: %s", backend, msg)
		}
		if msg := checkRestored(dst, rootB, mb); msg != "" {
			ev.Violation(t, "restored-contents-differ", "%s: restored IO root: %s", backend, msg)
		}
		rec.Case(true, ev.Fingerprint("late-duplicate-across-restores", backend), fmt.Sprintf("%s: late duplicate returned done=%v err=%v; both roots read back", backend, l.done, l.err))
		dst.Close()
		srcA.Close()
		srcB.Close()
	}
}
