// Package c13 decides property C13: storage sync applies exactly the announced state transition.
package c13

import (
	"bytes"
	"context"
	"errors"
	"fmt"
	"os"
	"sort"
	"testing"

	"pgregory.net/rapid"

	"github.com/oasisprotocol/oasis-core/go/common/crypto/hash"
	storageApi "github.com/oasisprotocol/oasis-core/go/storage/api"
	storageDB "github.com/oasisprotocol/oasis-core/go/storage/database"
	"github.com/oasisprotocol/oasis-core/go/storage/mkvs"
	dbApi "github.com/oasisprotocol/oasis-core/go/storage/mkvs/db/api"
	"github.com/oasisprotocol/oasis-core/go/storage/mkvs/node"
	"github.com/oasisprotocol/oasis-core/go/storage/mkvs/writelog"

	"verifharness/ev"
	"verifharness/kv"
)

var ctx = context.Background()

func applyToModel(m kv.Model, wl writelog.WriteLog) kv.Model {
	out := m.Clone()
	for _, e := range wl {
		if e.Value == nil {
			delete(out, string(e.Key))
		} else {
			out[string(e.Key)] = e.Value
		}
	}
	return out
}

func drain(it writelog.Iterator) (writelog.WriteLog, error) {
	var wl writelog.WriteLog
	for {
		more, err := it.Next()
		if err != nil {
			return nil, err
		}
		if !more {
			return wl, nil
		}
		e, err := it.Value()
		if err != nil {
			return nil, err
		}
		wl = append(wl, e)
	}
}

type batchOp struct {
	Kind string // I, R
	Key  []byte
	Val  []byte
}

// genBatch draws a batch with the shapes the property names: inserts, overwrites, removals,
// remove-then-reinsert and insert-then-remove inside one batch, empty values, no-op rewrites.
func genBatch(t *rapid.T, uni [][]byte, cur kv.Model) ([]batchOp, map[string]bool) {
	n := rapid.IntRange(0, 12).Draw(t, "nops")
	var ops []batchOp
	flags := map[string]bool{}
	live := cur.Clone()
	for i := 0; i < n; i++ {
		k := uni[rapid.IntRange(0, len(uni)-1).Draw(t, "key")]
		_, present := live[string(k)]
		switch m := rapid.IntRange(0, 9).Draw(t, "kind"); {
		case m <= 3:
			v := kv.GenValue(t)
			ops = append(ops, batchOp{"I", k, v})
			live[string(k)] = v
		case m <= 5:
			ops = append(ops, batchOp{"R", k, nil})
			if _, persisted := cur[string(k)]; persisted && present {
				flags["remove-persisted"] = true
			}
			delete(live, string(k))
		case m == 6: // remove then reinsert
			v := kv.GenValue(t)
			ops = append(ops, batchOp{"R", k, nil}, batchOp{"I", k, v})
			if _, persisted := cur[string(k)]; persisted {
				flags["remove-then-reinsert"] = true
			}
			live[string(k)] = v
		case m == 7: // insert then remove
			ops = append(ops, batchOp{"I", k, kv.GenValue(t)}, batchOp{"R", k, nil})
			flags["insert-then-remove"] = true
			delete(live, string(k))
		case m == 8: // no-op rewrite of the same value
			if v, ok := live[string(k)]; ok {
				ops = append(ops, batchOp{"I", k, v})
				flags["noop-rewrite"] = true
			}
		default:
			ops = append(ops, batchOp{"I", k, []byte{}})
			live[string(k)] = []byte{}
		}
	}
	return ops, flags
}

// corrupt draws one corruption of a write log.
func corrupt(t *rapid.T, wl writelog.WriteLog, uni [][]byte) (writelog.WriteLog, string) {
	out := make(writelog.WriteLog, len(wl))
	for i, e := range wl {
		out[i] = writelog.LogEntry{Key: append([]byte{}, e.Key...)}
		if e.Value != nil {
			out[i].Value = append([]byte{}, e.Value...)
		}
	}
	kinds := []string{"append-foreign"}
	if len(out) > 0 {
		kinds = append(kinds, "drop", "duplicate", "alter-key", "alter-value", "nil-empty", "reorder")
	}
	kind := rapid.SampledFrom(kinds).Draw(t, "corruption")
	idx := 0
	if len(out) > 0 {
		idx = rapid.IntRange(0, len(out)-1).Draw(t, "cidx")
	}
	switch kind {
	case "drop":
		out = append(out[:idx], out[idx+1:]...)
	case "duplicate":
		out = append(out, out[idx])
	case "alter-key":
		k := append([]byte{}, out[idx].Key...)
		if len(k) == 0 {
			k = []byte{0x01}
		} else {
			k[rapid.IntRange(0, len(k)-1).Draw(t, "kpos")] ^= 1 << uint(rapid.IntRange(0, 7).Draw(t, "kbit"))
		}
		out[idx].Key = k
	case "alter-value":
		if out[idx].Value == nil {
			out[idx].Value = []byte{0x01}
		} else if len(out[idx].Value) == 0 {
			out[idx].Value = []byte{0x00}
		} else {
			v := out[idx].Value
			v[rapid.IntRange(0, len(v)-1).Draw(t, "vpos")] ^= 1 << uint(rapid.IntRange(0, 7).Draw(t, "vbit"))
		}
	case "nil-empty":
		if out[idx].Value == nil {
			out[idx].Value = []byte{}
		} else {
			out[idx].Value = nil
		}
	case "reorder":
		j := rapid.IntRange(0, len(out)-1).Draw(t, "cj")
		out[idx], out[j] = out[j], out[idx]
	case "append-foreign":
		k := uni[rapid.IntRange(0, len(uni)-1).Draw(t, "fkey")]
		e := writelog.LogEntry{Key: k}
		if rapid.Bool().Draw(t, "fins") {
			e.Value = kv.GenValue(t)
		}
		out = append(out, e)
	}
	return out, kind
}

func rootsOf(ndb dbApi.NodeDB, v uint64) string {
	rs, err := ndb.GetRootsForVersion(v)
	if err != nil {
		return "err:" + err.Error()
	}
	var s []string
	for _, r := range rs {
		s = append(s, fmt.Sprintf("%d/%s", r.Type, r.Hash))
	}
	sort.Strings(s)
	return fmt.Sprint(s)
}

const rule = "case = chain of 2-6 consecutive roots produced by generated batches (insert/overwrite/remove, remove-then-reinsert, insert-then-remove, empty values, no-op rewrites) on a source backend, " +
	"state roots (one per version) or IO roots (from empty, optionally two hops inside one version on badger); for every consecutive pair: (A) the write log returned by Commit and the one served by GetWriteLog " +
	"(before and after finalization; an error means 'not served' and is only counted) applied to the model of the start root must give the model of the end root, and applied to a real tree at the start root must " +
	"hash to the end root; (B) a follower on the other backend applies the served log or one generated corruption (drop, duplicate, alter key/value, nil<->empty, reorder, foreign entry) through RootCache.Apply: " +
	"the reference model decides - same result as the honest log => must succeed and the root must exist; different => must fail, the root must not appear and the version's root list must be unchanged. " +
	"non-trivial = a batch that removes a persisted key or removes-then-reinserts one AND a corruption that changes the model result; distinct = hash of all batches and corruptions"

func TestC13Sync(t *testing.T) {
	rec := ev.New("C13", "TestC13Sync", rule,
		"write logs are not discarded (DiscardWriteLogs off); a GetWriteLog error is 'not served', never a wrong log",
		"the follower finalizes each version after a successful apply, as the storage worker does")
	defer rec.Flush()
	var trace []string
	ev.Trace = func() any { return trace }
	rapid.Check(t, func(t *rapid.T) {
		trace = nil
		srcBackend := rapid.SampledFrom(kv.Backends).Draw(t, "src")
		dstBackend := rapid.SampledFrom(kv.Backends).Draw(t, "dst")
		rootType := node.RootTypeState
		if rapid.IntRange(0, 2).Draw(t, "io") == 0 {
			rootType = node.RootTypeIO
		}
		uni := kv.GenUniverse(t, rapid.IntRange(1, 25).Draw(t, "nuni"), false)
		// the source is a storage backend (what answers GetDiff requests of peers) on top of the node database
		srcDir := kv.TempDir("c13src")
		defer os.RemoveAll(srcDir)
		srcStore, err := storageDB.New(&storageApi.Config{Backend: srcBackend, DB: srcDir, Namespace: kv.Namespace, MaxCacheSize: 16 << 20, NoFsync: true, MemoryOnly: true})
		if err != nil {
			ev.Infra(t, "open: %v", err)
		}
		defer srcStore.Cleanup()
		src := srcStore.NodeDB()
		// earlier finalized roots of this history with their contents (start roots a peer might name in a request)
		type pastRoot struct {
			root  node.Root
			model kv.Model
		}
		var past []pastRoot
		dst, err := kv.OpenDB(dstBackend, "", true)
		if err != nil {
			ev.Infra(t, "open: %v", err)
		}
		defer dst.Close()
		rc, _ := storageApi.NewRootCache(dst)
		trace = append(trace, fmt.Sprintf("src=%s dst=%s type=%d uni=%d", srcBackend, dstBackend, rootType, len(uni)))

		fail := func(sig, format string, args ...any) {
			ev.Violation(t, sig, "%s; trace=%v", fmt.Sprintf(format, args...), trace)
		}

		nver := rapid.IntRange(2, 6).Draw(t, "nver")
		model := kv.Model{}
		prevRoot := kv.EmptyRoot(1, rootType)
		var tree mkvs.Tree
		ntBatch, ntCorr := false, false
		cp := kv.GenCapacity(t, uni, true, true)
		for v := uint64(1); v <= uint64(nver); v++ {
			hops := 1
			if rootType == node.RootTypeIO {
				// IO roots always start from the empty root of their version.
				model = kv.Model{}
				prevRoot = kv.EmptyRoot(v, rootType)
				if tree != nil {
					tree.Close()
					tree = nil
				}
				if srcBackend == "badger" && dstBackend == "badger" && rapid.IntRange(0, 1).Draw(t, "twohop") == 0 {
					hops = 2
				}
			} else if v == 1 {
				prevRoot = kv.EmptyRoot(1, rootType)
			}
			versionStart, versionStartModel := prevRoot, model.Clone()
			for hop := 0; hop < hops; hop++ {
				if tree == nil || rapid.IntRange(0, 2).Draw(t, "reopen") == 0 {
					if tree != nil {
						tree.Close()
					}
					if prevRoot.Hash.IsEmpty() {
						tree = mkvs.New(nil, src, rootType, mkvs.Capacity(cp.Node, cp.Value))
					} else {
						tree = mkvs.NewWithRoot(nil, src, prevRoot, mkvs.Capacity(cp.Node, cp.Value))
					}
				}
				ops, flags := genBatch(t, uni, model)
				startModel := model.Clone()
				for _, o := range ops {
					if o.Kind == "I" {
						if err := tree.Insert(ctx, o.Key, o.Val); err != nil {
							fail("tree", "insert: %v", err)
						}
						model[string(o.Key)] = o.Val
					} else {
						if err := tree.Remove(ctx, o.Key); err != nil {
							fail("tree", "remove: %v", err)
						}
						delete(model, string(o.Key))
					}
				}
				for f := range flags {
					rec.Label("batch:" + f)
				}
				if flags["remove-persisted"] || flags["remove-then-reinsert"] {
					ntBatch = true
				}
				if hop == 0 && len(ops) > 0 && rapid.IntRange(0, 2).Draw(t, "fork") == 0 {
					// a competing candidate for the same version from the same parent, committed FIRST: the same keys with
					// other values (same tree shape, so node positions coincide); it is discarded when the main root is finalized
					var sib mkvs.Tree
					if prevRoot.Hash.IsEmpty() {
						sib = mkvs.New(nil, src, rootType)
					} else {
						sib = mkvs.NewWithRoot(nil, src, prevRoot)
					}
					for _, o := range ops {
						if o.Kind == "I" {
							_ = sib.Insert(ctx, o.Key, append(append([]byte{}, o.Val...), 0x5a))
						} else {
							_ = sib.Remove(ctx, o.Key)
						}
					}
					if _, sh, err := sib.Commit(ctx, kv.Namespace, v); err == nil {
						rec.Label("competing-candidate:" + srcBackend)
						trace = append(trace, fmt.Sprintf("v%d competing candidate %s committed first", v, sh.String()[:8]))
					}
					sib.Close()
				}
				if rootType == node.RootTypeState && v >= 2 && hop == 0 && rapid.IntRange(0, 3).Draw(t, "failedAttempt") == 0 {
					// A commit that the database refuses (into the previous, already finalized version), then - optionally after
					// further updates - the same tree is committed again, into the right version. Whatever the tree keeps from the
					// failed attempt, the transition that ends up stored is startModel -> model and its log must say so.
					if _, _, ferr := tree.Commit(ctx, kv.Namespace, v-1); ferr != nil {
						rec.Label("failed-commit-attempt-then-retry:" + srcBackend)
						trace = append(trace, fmt.Sprintf("v%d: commit attempt into finalized version %d refused (%s)", v, v-1, errClass(ferr)))
						more, _ := genBatch(t, uni, model)
						if len(more) > 2 {
							more = more[:2]
						}
						if rapid.Bool().Draw(t, "updatesBeforeRetry") {
							for _, o := range more {
								if o.Kind == "I" {
									if err := tree.Insert(ctx, o.Key, o.Val); err != nil {
										fail("tree", "insert after a refused commit: %v", err)
									}
									model[string(o.Key)] = o.Val
								} else {
									if err := tree.Remove(ctx, o.Key); err != nil {
										fail("tree", "remove after a refused commit: %v", err)
									}
									delete(model, string(o.Key))
								}
							}
							trace = append(trace, fmt.Sprintf("v%d: %d further updates before the retry", v, len(more)))
							rec.Label("failed-commit-attempt-then-retry:with-updates")
						}
						ntBatch = true
					} else {
						// (the version was not finalized after all: the history took another turn, nothing to compare with)
						rec.Discard("commit-into-previous-version-accepted")
						tree.Close()
						tree = nil
						return
					}
				}
				commitLog, rh, err := tree.Commit(ctx, kv.Namespace, v)
				if err != nil {
					rec.Label("commit-not-accepted:" + srcBackend)
					trace = append(trace, fmt.Sprintf("v%d hop%d commit error %v", v, hop, err))
					// A backend may refuse a history (e.g. unchanged root twice); nothing to check.
					tree.Close()
					tree = nil
					return
				}
				endRoot := kv.Root(v, rootType, rh)
				trace = append(trace, fmt.Sprintf("v%d hop%d: %d ops -> %s (%d keys)", v, hop, len(ops), rh.String()[:8], len(model)))
				if want := kv.RefRoot(model); rh != want {
					fail("tree", "committed root %s differs from the reference root %s", rh, want)
				}
				// (A) the log returned by Commit
				if !applyToModel(startModel, commitLog).Equal(model) {
					fail("commit-log-wrong", "write log returned by Commit does not transform the start contents into the end contents (v%d)", v)
				}
				checkServed := func(when string, start node.Root, startM kv.Model) writelog.WriteLog {
					it, err := src.GetWriteLog(ctx, start, endRoot)
					if err != nil {
						rec.Label(fmt.Sprintf("not-served(%s,%s):%s", srcBackend, when, errClass(err)))
						rec.Label(fmt.Sprintf("not-served-detail(%s,%s):commit-log-entries=%d,start-empty=%v,same-root=%v", srcBackend, when, min(len(commitLog), 2), start.Hash.IsEmpty(), start.Hash == rh))
						if !errors.Is(err, dbApi.ErrWriteLogNotFound) {
							// "no log for this pair" is an answer (logs discarded by configuration, a pending root that is not
							// the first candidate of its version); a log that IS stored and cannot be read back is not
							fail("served-log-unreadable", "%s: the database holds a write log for %s->%s and cannot serve it: %v", when, start.Hash.String()[:8], rh.String()[:8], err)
						}
						return nil
					}
					wl, err := drain(it)
					if err != nil {
						rec.Label(fmt.Sprintf("not-served(%s,%s):iter:%s", srcBackend, when, errClass(err)))
						return nil
					}
					rec.Label("served:" + when)
					if !applyToModel(startM, wl).Equal(model) {
						fail("served-log-wrong", "%s: write log served for %s->%s does not transform the start contents into the end contents: log=%s", when, start.Hash.String()[:8], rh.String()[:8], fmtLog(wl))
					}
					// the same pair asked for through the storage backend, the way a peer's GetDiff request arrives
					if dit, derr := srcStore.GetDiff(ctx, &storageApi.GetDiffRequest{StartRoot: start, EndRoot: endRoot}); derr != nil {
						fail("served-log-unreadable", "%s: the node database serves a write log for %s->%s, the storage backend's GetDiff does not: %v", when, start.Hash.String()[:8], rh.String()[:8], derr)
					} else if dwl, derr := drain(dit); derr != nil || !applyToModel(startM, dwl).Equal(model) {
						fail("served-log-wrong", "%s: GetDiff of the storage backend for %s->%s (v%d) does not transform the start contents into the end contents (%v): log=%s", when, start.Hash.String()[:8], rh.String()[:8], v, derr, fmtLog(dwl))
					}
					// applied to a real tree at the start root it must hash to the end root
					var tr mkvs.Tree
					if start.Hash.IsEmpty() {
						tr = mkvs.New(nil, src, rootType)
					} else {
						tr = mkvs.NewWithRoot(nil, src, start)
					}
					defer tr.Close()
					if err := tr.ApplyWriteLog(ctx, writelog.NewStaticIterator(wl)); err != nil {
						fail("served-log-wrong", "%s: applying the served log failed: %v", when, err)
					}
					if _, h2, err := tr.Commit(ctx, kv.Namespace, v, mkvs.NoPersist()); err != nil || h2 != rh {
						fail("served-log-wrong", "%s: served log applied at the start root hashes to %s (err %v), announced end root %s", when, h2, err, rh)
					}
					return wl
				}
				served := checkServed("pending", prevRoot, startModel)
				if rapid.IntRange(0, 2).Draw(t, "recommit") == 0 {
					// the SAME transition committed a second time before finalization by another tree that reaches the end
					// contents through a different sequence of operations (net difference first, then noise: keys inserted and
					// removed again, unchanged keys removed and re-inserted with their value): the root already exists, the
					// database must keep serving a correct log for the pair (or none)
					var re mkvs.Tree
					if prevRoot.Hash.IsEmpty() {
						re = mkvs.New(nil, src, rootType)
					} else {
						re = mkvs.NewWithRoot(nil, src, prevRoot)
					}
					var ks []string
					seen := map[string]bool{}
					for k := range startModel {
						if !seen[k] {
							seen[k] = true
							ks = append(ks, k)
						}
					}
					for k := range model {
						if !seen[k] {
							seen[k] = true
							ks = append(ks, k)
						}
					}
					sort.Strings(ks)
					for _, k := range ks {
						nv, in := model[k]
						ov, was := startModel[k]
						switch {
						case in && (!was || !bytes.Equal(nv, ov)):
							_ = re.Insert(ctx, []byte(k), nv)
						case !in && was:
							_ = re.Remove(ctx, []byte(k))
						case in && rapid.IntRange(0, 2).Draw(t, "reNoise") == 0:
							_ = re.Remove(ctx, []byte(k))
							_ = re.Insert(ctx, []byte(k), nv)
						}
					}
					for i := rapid.IntRange(0, 2).Draw(t, "reExtra"); i > 0; i-- {
						k := uni[rapid.IntRange(0, len(uni)-1).Draw(t, "reKey")]
						if _, in := model[string(k)]; !in {
							_ = re.Insert(ctx, k, []byte("tmp"))
							_ = re.Remove(ctx, k)
						}
					}
					reLog, reHash, err := re.Commit(ctx, kv.Namespace, v)
					keepRe := false
					switch {
					case err != nil:
						rec.Label("recommit-not-accepted:" + srcBackend)
					case reHash != rh:
						fail("tree", "the same contents committed again hash to %s instead of %s", reHash, rh)
					default:
						rec.Label("recommit:" + srcBackend)
						trace = append(trace, fmt.Sprintf("v%d hop%d: same transition committed again through other operations", v, hop))
						if !applyToModel(startModel, reLog).Equal(model) {
							fail("commit-log-wrong", "write log returned by the second Commit of the same transition does not transform the start contents into the end contents (v%d)", v)
						}
						if s2 := checkServed("pending-recommitted", prevRoot, startModel); s2 != nil {
							served = s2
						}
						if rootType == node.RootTypeState && rapid.Bool().Draw(t, "continueWithSecondTree") {
							// the history goes on with the tree object that committed SECOND (its commit found the root in
							// place): whatever that tree believes about where its nodes are stored must hold for the next versions
							keepRe = true
							rec.Label("continued-with-the-second-committer")
							trace = append(trace, fmt.Sprintf("v%d: the history continues with the second committer's tree", v))
						}
					}
					if keepRe {
						tree.Close()
						tree = re
					} else {
						re.Close()
					}
				}
				if hop == hops-1 {
					if err := src.Finalize([]node.Root{endRoot}); err != nil {
						rec.Label("finalize-not-accepted:" + srcBackend)
						return
					}
					if s2 := checkServed("finalized", prevRoot, startModel); s2 != nil {
						served = s2
					}
					if hops == 2 {
						// the merged two-hop log from the empty root
						checkServed("finalized-two-hop", versionStart, versionStartModel)
					}
					// a request that names ANOTHER start root (an earlier finalized root of this history, the empty root): the
					// backend may decline; whatever it serves must lead from THAT root to the end root
					if len(past) > 0 && rapid.IntRange(0, 2).Draw(t, "foreignStart") == 0 {
						pr := past[rapid.IntRange(0, len(past)-1).Draw(t, "foreignStartIdx")]
						if pr.root.Hash != prevRoot.Hash {
							if dit, derr := srcStore.GetDiff(ctx, &storageApi.GetDiffRequest{StartRoot: pr.root, EndRoot: endRoot}); derr == nil {
								rec.Label("foreign-start-root:served")
								if dwl, derr := drain(dit); derr != nil || !applyToModel(pr.model, dwl).Equal(model) {
									fail("served-log-wrong", "GetDiff for the start root %s (v%d), which is not the root v%d %s was committed from, serves a log that does not lead from it to the end root (%v): log=%s", pr.root.Hash.String()[:8], pr.root.Version, v, rh.String()[:8], derr, fmtLog(dwl))
								}
							} else {
								rec.Label("foreign-start-root:declined")
							}
						}
					}
					past = append(past, pastRoot{endRoot, model.Clone()})
				}
				// (B) follower apply
				honest := served
				if honest == nil {
					honest = commitLog
				}
				followerStart := prevRoot
				if v > 1 && rootType == node.RootTypeState && !dst.HasRoot(followerStart) && !followerStart.Hash.IsEmpty() {
					ev.Infra(t, "follower lost its start root")
				}
				if rapid.IntRange(0, 2).Draw(t, "doCorrupt") > 0 {
					bad, kind := corrupt(t, honest, uni)
					same := applyToModel(startModel, bad).Equal(model)
					before := rootsOf(dst, v)
					hadRoot := dst.HasRoot(endRoot)
					_, err := rc.Apply(ctx, followerStart, endRoot, bad)
					trace = append(trace, fmt.Sprintf("  follower apply corrupted(%s) same=%v err=%v", kind, same, err))
					switch {
					case same && err != nil:
						fail("apply-rejects-equivalent", "corruption %s yields the announced contents but Apply failed: %v", kind, err)
					case !same && err == nil && !hadRoot:
						fail("apply-accepts-wrong-log", "corruption %s changes the resulting contents but Apply succeeded for root %s", kind, rh)
					case !same && err != nil:
						if !hadRoot && dst.HasRoot(endRoot) {
							fail("apply-persists-after-failure", "failed Apply left root %s in the database", rh)
						}
						if after := rootsOf(dst, v); after != before {
							fail("apply-persists-after-failure", "failed Apply changed the roots of version %d: %s -> %s", v, before, after)
						}
						if !errors.Is(err, storageApi.ErrExpectedRootMismatch) {
							rec.Label("apply-failed-with:" + errClass(err))
						}
						ntCorr = true
					}
					rec.Label("corruption:" + kind + fmt.Sprintf(":same=%v", same))
				}
				if _, err := rc.Apply(ctx, followerStart, endRoot, honest); err != nil {
					fail("apply-rejects-honest", "Apply of the honest log failed: %v", err)
				}
				if !dst.HasRoot(endRoot) {
					fail("apply-rejects-honest", "root %s missing on the follower after a successful Apply", rh)
				}
				if hop == hops-1 {
					if err := dst.Finalize([]node.Root{endRoot}); err != nil {
						fail("apply-rejects-honest", "follower finalize: %v", err)
					}
					ft := mkvs.NewWithRoot(nil, dst, endRoot)
					got, err := kv.Scan(ctx, ft)
					ft.Close()
					if err != nil {
						fail("follower-contents", "scan of the follower's root failed: %v", err)
					}
					if msg := kv.CompareScan(got, model); msg != "" {
						fail("follower-contents", "follower contents differ: %s", msg)
					}
				}
				prevRoot = endRoot
			}
		}
		if tree != nil {
			tree.Close()
		}
		nt := ntBatch && ntCorr
		rec.Label(fmt.Sprintf("type:%d", rootType))
		var sample any
		if nt && rec.WantSample() {
			sample = append([]string{}, trace...)
		}
		rec.Case(nt, ev.Fingerprint(fmt.Sprint(trace)), sample)
	})
}

func errClass(err error) string {
	s := err.Error()
	if len(s) > 60 {
		s = s[:60]
	}
	return s
}

func fmtLog(wl writelog.WriteLog) string {
	var b bytes.Buffer
	for i, e := range wl {
		if i > 10 {
			b.WriteString(" ...")
			break
		}
		if e.Value == nil {
			fmt.Fprintf(&b, " del(%x)", e.Key)
		} else {
			fmt.Fprintf(&b, " set(%x,%d bytes)", e.Key, len(e.Value))
		}
	}
	return b.String()
}

var _ = hash.Hash{}

// TestC13TwoHopOrder is the shrunk reproduction of a defect found by TestC13Sync on the original tree
// (repaired in /repo by "fix: badger node database streams multi-hop write logs oldest first"): for the
// IO-root pattern empty -> i -> io inside one version, the merged write log was streamed newest hop
// first, so a key written in both hops ended up with the OLD value when the log was applied.
func TestC13TwoHopOrder(t *testing.T) {
	rec := ev.New("C13", "TestC13TwoHopOrder", "deterministic regression case: IO root, hop 1 sets k=old and x, hop 2 sets k=new and removes x; the log served for (empty, io) must produce io", "")
	defer rec.Flush()
	ndb, err := kv.OpenDB("badger", "", true)
	if err != nil {
		ev.Infra(t, "open: %v", err)
	}
	defer ndb.Close()
	tree := mkvs.New(nil, ndb, node.RootTypeIO)
	defer tree.Close()
	_ = tree.Insert(ctx, []byte("k"), []byte("old"))
	_ = tree.Insert(ctx, []byte("x"), []byte("1"))
	if _, _, err = tree.Commit(ctx, kv.Namespace, 1); err != nil {
		ev.Infra(t, "commit: %v", err)
	}
	_ = tree.Insert(ctx, []byte("k"), []byte("new"))
	_ = tree.Remove(ctx, []byte("x"))
	_, io, err := tree.Commit(ctx, kv.Namespace, 1)
	if err != nil {
		ev.Infra(t, "commit: %v", err)
	}
	end := kv.Root(1, node.RootTypeIO, io)
	if err := ndb.Finalize([]node.Root{end}); err != nil {
		ev.Infra(t, "finalize: %v", err)
	}
	it, err := ndb.GetWriteLog(ctx, kv.EmptyRoot(1, node.RootTypeIO), end)
	if err != nil {
		rec.Case(true, ev.Fingerprint("notserved"), "not served: "+err.Error())
		return
	}
	wl, err := drain(it)
	if err != nil {
		ev.Infra(t, "drain: %v", err)
	}
	want := kv.Model{"k": []byte("new")}
	if got := applyToModel(kv.Model{}, wl); !got.Equal(want) {
		ev.Violation(t, "served-log-wrong", "two-hop log served for (empty, io) is%s; applied in order it yields %d keys with k=%q, the io root holds k=\"new\" only", fmtLog(wl), len(got), got["k"])
	}
	rec.Case(true, ev.Fingerprint("served"), "served:"+fmtLog(wl))
}
