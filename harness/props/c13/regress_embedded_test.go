package c13

import (
	"testing"

	"github.com/oasisprotocol/oasis-core/go/storage/mkvs"
	"github.com/oasisprotocol/oasis-core/go/storage/mkvs/node"

	"verifharness/ev"
	"verifharness/kv"
)

// TestC13LogOfReinsertedEmbeddedLeaf is the shrunk reproduction of a defect of the pinned tree (described from reading by a
// round-12 seeding author; TestC13Sync had been counting it as "not served" since the first session - label
// not-served(pathbadger,...):failed to fetch node - instead of judging it; repaired in /repo by "fix: pathbadger cannot
// serve the write log of a version that re-inserts the unchanged value of a leaf not stored as its own node"): the stored
// write log names inserted leaves by their database pointer; a key re-inserted with its unchanged value keeps its leaf,
// and a leaf embedded in an internal node loaded from the database (shape "embedded") or the single-leaf root of the
// previous version (shape "root") has no node of its own to point at. GetWriteLog for the two finalized roots failed, so
// the version could not be fetched from this node by storage sync, while the badger backend serves it.
func TestC13LogOfReinsertedEmbeddedLeaf(t *testing.T) {
	rec := ev.New("C13", "TestC13LogOfReinsertedEmbeddedLeaf", "deterministic regression cases on both backends: version 1 = {a, ab, ac} (a is embedded in an internal node) or {a} (the leaf is the root node), finalized; the tree reopened at root 1 inserts a with its unchanged value (and, shape embedded, a new key z), commits and finalizes version 2; the database serves a write log for (root 1, root 2) and it leads from root 1 to root 2", "")
	defer rec.Flush()
	for _, backend := range kv.Backends {
		for _, shape := range []string{"embedded", "root"} {
			ndb, err := kv.OpenDB(backend, "", true)
			if err != nil {
				ev.Infra(t, "open: %v", err)
			}
			m := kv.Model{"a": []byte("va")}
			if shape == "embedded" {
				m["ab"], m["ac"] = []byte("vab"), []byte("vac")
			}
			tr := mkvs.New(nil, ndb, node.RootTypeState)
			for _, k := range m.SortedKeys() {
				_ = tr.Insert(ctx, []byte(k), m[k])
			}
			_, h1, err := tr.Commit(ctx, kv.Namespace, 1)
			tr.Close()
			if err != nil {
				ev.Infra(t, "commit 1: %v", err)
			}
			r1 := kv.Root(1, node.RootTypeState, h1)
			if err := ndb.Finalize([]node.Root{r1}); err != nil {
				ev.Infra(t, "finalize 1: %v", err)
			}
			m1 := m.Clone()
			tr = mkvs.NewWithRoot(nil, ndb, r1)
			_ = tr.Insert(ctx, []byte("a"), []byte("va"))
			if shape == "embedded" {
				_ = tr.Insert(ctx, []byte("z"), []byte("vz"))
				m["z"] = []byte("vz")
			}
			_, h2, err := tr.Commit(ctx, kv.Namespace, 2)
			tr.Close()
			if err != nil || h2 != kv.RefRoot(m) {
				ev.Violation(t, "tree", "%s/%s: commit of version 2: %s, %v (reference root %s)", backend, shape, h2, err, kv.RefRoot(m))
			}
			r2 := kv.Root(2, node.RootTypeState, h2)
			if err := ndb.Finalize([]node.Root{r2}); err != nil {
				ev.Infra(t, "finalize 2: %v", err)
			}
			it, err := ndb.GetWriteLog(ctx, r1, r2)
			if err != nil {
				ev.Violation(t, "served-log-unreadable", "%s/%s: the database holds a write log for the finalized roots of versions 1 and 2 and cannot serve it: %v", backend, shape, err)
			}
			wl, err := drain(it)
			if err != nil {
				ev.Violation(t, "served-log-unreadable", "%s/%s: served write log cannot be read: %v", backend, shape, err)
			}
			if !applyToModel(m1, wl).Equal(m) {
				ev.Violation(t, "served-log-wrong", "%s/%s: the write log served for (root 1, root 2) does not lead from root 1 to root 2:%s", backend, shape, fmtLog(wl))
			}
			rec.Case(true, ev.Fingerprint("reinserted-embedded-leaf", backend, shape), backend+"/"+shape+": ok "+fmtLog(wl))
			ndb.Close()
		}
	}
}
