package c13

import (
	"testing"

	"github.com/oasisprotocol/oasis-core/go/storage/mkvs"
	"github.com/oasisprotocol/oasis-core/go/storage/mkvs/node"

	"verifharness/ev"
	"verifharness/kv"
)

// TestC13CommitRetryAfterRefusal is the shrunk reproduction of a defect found by TestC13Sync on the pinned tree once a
// refused commit followed by a retry was generated (repaired in /repo by "fix: pathbadger batch that is abandoned leaves
// its database pointers behind in dirty nodes"; also reported, from a probe, by a round-9 seeding author): a Commit
// that the pathbadger database refuses (here: into the already finalized version) had already numbered the dirty nodes
// for ITS batch; the nodes stayed dirty but kept those numbers (and that version). The next Commit of the same tree -
// after further updates - numbered only the new dirty nodes, from 1 again, and stored old and new nodes under
// colliding keys of two versions: Commit succeeded with the right root hash, but the stored root could not be read
// back completely ("node not found"), its served write log could not be applied, or a re-commit of the same contents
// hashed differently.
func TestC13CommitRetryAfterRefusal(t *testing.T) {
	rec := ev.New("C13", "TestC13CommitRetryAfterRefusal", "deterministic regression case on both backends: version 1 = the empty tree, finalized; the same tree gets one key (its leaf is the root node), Commit into version 1 is refused, a second key is inserted (the leaf becomes a child), Commit into version 2; the stored root AND the finalized root of version 1 must read back completely, the new root equals the reference root, and its served write log must lead from root 1 to root 2", "")
	defer rec.Flush()
	for _, backend := range kv.Backends {
		ndb, err := kv.OpenDB(backend, "", true)
		if err != nil {
			ev.Infra(t, "open: %v", err)
		}
		m := kv.Model{}
		tree := mkvs.New(nil, ndb, node.RootTypeState)
		put := func(k, v string) {
			if err := tree.Insert(ctx, []byte(k), []byte(v)); err != nil {
				ev.Violation(t, "tree", "%s: insert %q: %v", backend, k, err)
			}
			m[k] = []byte(v)
		}
		// version 1: the empty tree
		_, rh1, err := tree.Commit(ctx, kv.Namespace, 1)
		if err != nil {
			ev.Infra(t, "commit 1: %v", err)
		}
		root1 := kv.Root(1, node.RootTypeState, rh1)
		if err := ndb.Finalize([]node.Root{root1}); err != nil {
			ev.Infra(t, "finalize 1: %v", err)
		}
		m1 := m.Clone()
		// one key: its leaf is the root node of the tree when the refused commit numbers the dirty nodes
		put("key-a", "v2")
		if _, _, err := tree.Commit(ctx, kv.Namespace, 1); err == nil {
			ev.Infra(t, "%s: a commit into the finalized version 1 was accepted", backend)
		}
		// a second key: the leaf of the first one is now an ordinary child of a new root
		put("key-b", "after-refusal")
		_, rh2, err := tree.Commit(ctx, kv.Namespace, 2)
		if err != nil {
			ev.Violation(t, "tree", "%s: retry of the refused commit (into version 2) fails: %v", backend, err)
		}
		tree.Close()
		if want := kv.RefRoot(m); rh2 != want {
			ev.Violation(t, "tree", "%s: root %s committed by the retry differs from the reference root %s of the contents", backend, rh2, want)
		}
		root2 := kv.Root(2, node.RootTypeState, rh2)
		re := mkvs.NewWithRoot(nil, ndb, root2)
		got, err := kv.Scan(ctx, re)
		re.Close()
		if err != nil {
			ev.Violation(t, "stored-root-unreadable", "%s: the root stored by the retry cannot be read back: %v", backend, err)
		}
		if msg := kv.CompareScan(got, m); msg != "" {
			ev.Violation(t, "stored-root-unreadable", "%s: the root stored by the retry reads back differently: %s", backend, msg)
		}
		// the finalized root of version 1 is still what it was
		re1 := mkvs.NewWithRoot(nil, ndb, root1)
		got1, err := kv.Scan(ctx, re1)
		re1.Close()
		if err != nil {
			ev.Violation(t, "stored-root-unreadable", "%s: after the retry the FINALIZED root of version 1 cannot be read back: %v", backend, err)
		}
		if msg := kv.CompareScan(got1, m1); msg != "" {
			ev.Violation(t, "stored-root-unreadable", "%s: after the retry the FINALIZED root of version 1 reads back differently: %s", backend, msg)
		}
		if it, err := ndb.GetWriteLog(ctx, root1, root2); err == nil {
			wl, err := drain(it)
			if err != nil {
				ev.Violation(t, "served-log-wrong", "%s: served write log cannot be read: %v", backend, err)
			}
			if !applyToModel(m1, wl).Equal(m) {
				ev.Violation(t, "served-log-wrong", "%s: the write log served for (root 1, root 2) does not lead from root 1 to root 2:%s", backend, fmtLog(wl))
			}
		}
		rec.Case(true, ev.Fingerprint("commit-retry", backend), backend+": ok")
		ndb.Close()
	}
}
