// Package c14 decides property C14: elections are deterministic and elect only eligible nodes.
package c14

import (
	"bytes"
	"errors"
	"fmt"
	beacon "github.com/oasisprotocol/oasis-core/go/beacon/api"
	"sort"
	"testing"

	"pgregory.net/rapid"

	"github.com/oasisprotocol/oasis-core/go/common/crypto/signature"
	"github.com/oasisprotocol/oasis-core/go/common/node"
	schedulerState "github.com/oasisprotocol/oasis-core/go/consensus/cometbft/apps/scheduler/state"
	registry "github.com/oasisprotocol/oasis-core/go/registry/api"
	scheduler "github.com/oasisprotocol/oasis-core/go/scheduler/api"
	staking "github.com/oasisprotocol/oasis-core/go/staking/api"

	"verifharness/chain"
	"verifharness/ev"
)

const rule = "case = generated production-mode genesis (entities with 1-2 nodes of mixed validator/compute roles, stake exactly at / just below / above the sum of claims, ties, both voting-power distributions, MaxValidators and MaxValidatorsPerEntity drawn, " +
	"optional compute runtime with group/backup sizes 1-3) + 12-40 blocks spanning 3-10 epochs in which stake and membership change (escrow, reclaim, slashing with freezing through evidence, node expiry by skipped re-registration, re-registration). " +
	"At every epoch-transition block the state each application sees right after BeginBlock is captured (harness-owned hook between ABCI calls) and after the commit a validity predicate is recomputed from it: every elected validator and committee member " +
	"is registered, unexpired for the new epoch, not frozen, carries the role (and the runtime with its active version for committees), and its entity's escrow covers its accumulated stake claims; validator count <= MaxValidators and per entity <= " +
	"MaxValidatorsPerEntity; no eligible entity with strictly more stake than an elected one is left out; voting power = VotingPowerFromStake(stake) and non-decreasing in stake; committees have exactly group-size workers and backup-size backup workers or do not exist; " +
	"applying the block's validator updates to the consensus engine model's set yields exactly the scheduler's current validators. A second replica on the other backend must reach the same AppHash (determinism). " +
	"non-trivial = an election with >=1 ineligible validator candidate (expired / frozen / under-staked / wrong role) AND a change of the validator set against the previous epoch; distinct = hash of spec and block ids"

type electionInputs struct {
	epoch    uint64
	nodes    []*node.Node
	statuses map[signature.PublicKey]*registry.NodeStatus
	accounts map[staking.Address]*staking.Account
	thresh   map[staking.ThresholdKind]interface{}
}

func TestC14Elections(t *testing.T) {
	rec := ev.New("C14", "TestC14Elections", rule,
		"insecure beacon backend (the VRF eligibility filter is not exercised)",
		"the state at election time is approximated by the working state right after BeginBlock of the epoch-transition block (applications that run after the scheduler in BeginBlock do not touch stake or registrations)")
	defer rec.Flush()
	var cur *chain.Sim
	var curSpec *chain.Spec
	ev.Trace = func() any {
		if cur == nil {
			return nil
		}
		return map[string]any{"spec": curSpec, "trace": cur.Trace}
	}
	rapid.Check(t, func(t *rapid.T) {
		spec := chain.GenSpec(t)
		// election profile: ties in stake
		for i := 1; i < spec.NEntities; i++ {
			if rapid.IntRange(0, 3).Draw(t, "tie") == 0 {
				spec.SelfStake[i], spec.SelfShares[i] = spec.SelfStake[i-1], spec.SelfShares[i-1]
			}
		}
		curSpec = spec
		scripted := spec.WithRuntime && rapid.Bool().Draw(t, "scriptedRounds")
		if scripted {
			// epochs long enough for several runtime rounds (the liveness evaluation needs finalized rounds)
			if iv := int64(rapid.SampledFrom([]int{6, 8, 12}).Draw(t, "rtEpochInterval")); iv > spec.EpochInterval {
				spec.EpochInterval = iv
			}
			// committees with several workers: every node computes, primary group of 2-3
			spec.AllCompute(uint16(rapid.IntRange(2, 3).Draw(t, "rtGroup2")), uint16(rapid.IntRange(1, 2).Draw(t, "rtBackup2")))
			if spec.RtMinLivePct == 0 {
				spec.RtMinLivePct, spec.RtMinLiveEval = 100, 1
				spec.RtMaxLiveFail = uint8(rapid.IntRange(0, 2).Draw(t, "rtMaxLiveFail2"))
				spec.RtLiveFreeze = uint64(rapid.IntRange(0, 2).Draw(t, "rtLiveFreeze2"))
			}
		}
		w0, err := chain.BuildGenesis(spec)
		if err != nil {
			ev.Infra(t, "build genesis: %v", err)
		}
		sim, err := chain.NewSim(spec, []chain.ReplicaConfig{
			{Name: "R0", Backend: "badger", MemoryOnly: true, Keys: w0.Entities[0].Nodes[0]},
			{Name: "R1", Backend: "pathbadger", MemoryOnly: true},
		})
		if err != nil {
			var ig chain.ErrInvalidGenesis
			if errors.As(err, &ig) {
				rec.Discard("invalid-genesis")
				return
			}
			var ec chain.ErrEngineContract
			if errors.As(err, &ec) {
				ev.Violation(t, "validator-updates", "the validator set returned by InitChain for a genesis document that passes its sanity check cannot be applied by the consensus engine: %v; spec=%+v", ec.Err, *spec)
			}
			ev.Infra(t, "new sim: %v", err)
		}
		cur = sim
		defer sim.Close()
		if scripted {
			// the committee works through whole rounds (some members late, lying or silent), so that the liveness evaluation
			// at the next transition suspends or freezes nodes right before the election
			sim.Profile = "rtheavy"
			rec.Label("traffic:scripted-rounds")
		}
		r := sim.Reps[0]
		fail := func(sig, format string, args ...any) {
			ev.Violation(t, sig, "%s; spec=%+v trace=%v", fmt.Sprintf(format, args...), *spec, tail(sim.Trace, 25))
		}
		nblocks := rapid.IntRange(12, ev.Pick(40, 120)).Draw(t, "nblocks")
		if scripted {
			nblocks += 2 * int(spec.EpochInterval)
		}
		var fp []any
		fp = append(fp, fmt.Sprintf("%+v", *spec))
		nontrivial := false
		prevSet := ""
		lastEpoch := uint64(0)
		for bi := 0; bi < nblocks; bi++ {
			view, err := chain.NewView(r)
			if err != nil {
				ev.Infra(t, "view: %v", err)
			}
			bg := sim.GenBlock(t, view, 5)
			view.Close()
			b := bg.Block
			if _, err := sim.E.Propose(b, r, r); err != nil {
				rec.Discard("proposal-failed:" + chain.Why(err))
				return
			}
			// capture what applications see right after BeginBlock
			var nodes []*node.Node
			statuses := map[signature.PublicKey]*registry.NodeStatus{}
			accounts := map[staking.Address]*staking.Account{}
			var thresholds map[staking.ThresholdKind]quantityT
			var runtimes []*registry.Runtime
			var vrfState *beacon.VRFState
			capEpoch := uint64(0)
			side := func(stage int) {
				if stage != 1 { // replay path: 0 = before BeginBlock, 1 = right after BeginBlock
					return
				}
				wv, err := chain.NewWorkingView(r)
				if err != nil {
					return
				}
				defer wv.Close()
				capEpoch = uint64(wv.Epoch)
				nodes, _ = wv.Reg.Nodes(wv.Ctx())
				for _, n := range nodes {
					st, err := wv.Reg.NodeStatus(wv.Ctx(), n.ID)
					if err == nil {
						statuses[n.ID] = st
					}
					a := staking.NewAddress(n.EntityID)
					if _, ok := accounts[a]; !ok {
						acct, _ := wv.St.Account(wv.Ctx(), a)
						accounts[a] = acct
					}
				}
				th, _ := wv.St.Thresholds(wv.Ctx())
				thresholds = th
				runtimes, _ = wv.Reg.Runtimes(wv.Ctx())
				vrfState = wv.VRFState()
			}
			// R0 replays (BeginBlock really executes when called, so the capture sees the election-time state),
			// R1 validates the proposal first.
			o0 := sim.E.ExecuteWithSide(r, b, chain.PathReplay, nil, side)
			o1 := sim.E.Execute(sim.Reps[1], b, chain.PathProcess, nil)
			if o0.Err != nil || o1.Err != nil || !o1.Accepted {
				rec.Discard("block-failed:" + chain.Why(o0.Err) + "/" + chain.Why(o1.Err))
				return
			}
			if !bytes.Equal(o0.AppHash, o1.AppHash) {
				fail("election-nondeterministic", "height %d: replicas disagree on the AppHash", b.Height)
			}
			fp = append(fp, b.Hash)
			if err := sim.AfterCommit(b, o0); err != nil {
				rec.Discard("engine-contract:" + chain.Why(err))
				return
			}
			if capEpoch == lastEpoch {
				continue
			}
			first := lastEpoch == 0
			lastEpoch = capEpoch
			if first {
				// the first block carries the genesis election performed in InitChain
				continue
			}
			// ---- an election happened in this block: validity predicate
			cv, err := chain.NewView(r)
			if err != nil {
				ev.Infra(t, "view: %v", err)
			}
			ss := schedulerState.NewImmutableState(viewTree(cv))
			current, err := ss.CurrentValidators(cv.Ctx())
			if err != nil {
				cv.Close()
				ev.Infra(t, "current validators: %v", err)
			}
			params, _ := ss.ConsensusParameters(cv.Ctx())
			committees, _ := ss.AllCommittees(cv.Ctx())
			cv.Close()
			byID := map[signature.PublicKey]*node.Node{}
			for _, n := range nodes {
				byID[n.ID] = n
				if st := statuses[n.ID]; st != nil {
					for _, f := range st.Faults {
						if f != nil && f.Failures > 0 {
							rec.Label("node-with-liveness-failures-at-election")
						}
					}
				}
			}
			stakeOK := func(ent signature.PublicKey) bool {
				acct := accounts[staking.NewAddress(ent)]
				return acct != nil && acct.Escrow.CheckStakeClaims(thresholds) == nil
			}
			stakeOf := func(ent signature.PublicKey) *bigInt {
				acct := accounts[staking.NewAddress(ent)]
				if acct == nil {
					return newBig(0)
				}
				return acct.Escrow.Active.Balance.ToBigInt()
			}
			baseEligible := func(n *node.Node, role node.RolesMask) (bool, string) {
				switch {
				case n.IsExpired(capEpochT(capEpoch)):
					return false, "expired"
				case statuses[n.ID] != nil && statuses[n.ID].IsFrozen():
					rec.Label("candidate-frozen")
					return false, "frozen"
				case !n.HasRoles(role):
					return false, "role"
				case !stakeOK(n.EntityID):
					return false, "stake"
				}
				return true, ""
			}
			// VRF backend: the proofs submitted during the previous epoch decide. Validators: when at least MinValidators of
			// the candidates proved, only provers are candidates (otherwise the entropy fallback considers everybody).
			// Committees: only with a high-quality previous alpha, only provers, only nodes whose registration predates
			// the epoch (status.IsEligibleForElection).
			vrfOn := sim.W.Spec.VRF && vrfState != nil && vrfState.PrevState != nil
			proved := func(n *node.Node) bool { return vrfOn && vrfState.PrevState.Pi[n.ID] != nil }
			validatorsByBeta := false
			if vrfOn {
				np := 0
				for _, n := range nodes {
					if ok, _ := baseEligible(n, node.RoleValidator); ok && proved(n) {
						np++
					}
				}
				validatorsByBeta = np >= params.MinValidators
				rec.Label(fmt.Sprintf("vrf-election:validators-by-beta=%v", validatorsByBeta))
			}
			eligible := func(n *node.Node, role node.RolesMask) (bool, string) {
				if ok, why := baseEligible(n, role); !ok {
					return false, why
				}
				if !vrfOn && sim.W.Spec.VRF && role == node.RoleComputeWorker {
					return false, "no previous VRF state"
				}
				if vrfOn {
					switch {
					case role == node.RoleValidator && validatorsByBeta && !proved(n):
						return false, "no VRF proof"
					case role == node.RoleComputeWorker && !vrfState.PrevState.CanElectCommittees:
						return false, "previous alpha was of low quality"
					case role == node.RoleComputeWorker && !proved(n):
						return false, "no VRF proof"
					case role == node.RoleComputeWorker && statuses[n.ID] != nil && !statuses[n.ID].IsEligibleForElection(capEpochT(capEpoch)):
						return false, "registered too recently"
					}
				}
				return true, ""
			}
			perEntity := map[signature.PublicKey]int{}
			electedEntities := map[signature.PublicKey]bool{}
			var setDesc []string
			for cons, v := range current {
				n := byID[v.ID]
				if n == nil {
					fail("elected-unregistered", "epoch %d: elected validator %s is not a registered node", capEpoch, v.ID)
				}
				if n.Consensus.ID != cons || n.EntityID != v.EntityID {
					fail("elected-inconsistent", "epoch %d: validator entry does not match the node descriptor", capEpoch)
				}
				if ok, why := eligible(n, node.RoleValidator); !ok {
					fail("elected-ineligible", "epoch %d: elected validator %s (entity %s) is not eligible: %s", capEpoch, v.ID, v.EntityID, why)
				}
				want, err := scheduler.VotingPowerFromStake(&accounts[staking.NewAddress(v.EntityID)].Escrow.Active.Balance, params.VotingPowerDistribution)
				if err != nil || want != v.VotingPower {
					fail("voting-power", "epoch %d: validator %s has power %d, stake %s implies %d (err %v)", capEpoch, v.ID, v.VotingPower, stakeOf(v.EntityID), want, err)
				}
				perEntity[v.EntityID]++
				electedEntities[v.EntityID] = true
				setDesc = append(setDesc, fmt.Sprintf("%s=%d", cons, v.VotingPower))
			}
			sort.Strings(setDesc)
			if len(current) > params.MaxValidators {
				fail("too-many-validators", "epoch %d: %d validators elected, MaxValidators %d", capEpoch, len(current), params.MaxValidators)
			}
			for e, c := range perEntity {
				if c > params.MaxValidatorsPerEntity {
					fail("too-many-validators-per-entity", "epoch %d: entity %s has %d validators, limit %d", capEpoch, e, c, params.MaxValidatorsPerEntity)
				}
			}
			// stake order: no eligible entity left out while a poorer one is in; power monotone in stake
			ineligibleSeen := 0
			minElected := (*bigInt)(nil)
			for e := range electedEntities {
				if s := stakeOf(e); minElected == nil || s.Cmp(minElected) < 0 {
					minElected = s
				}
			}
			eligibleEntities := map[signature.PublicKey]int{}
			for _, n := range nodes {
				if ok, _ := eligible(n, node.RoleValidator); ok {
					eligibleEntities[n.EntityID]++
				} else if n.HasRoles(node.RoleValidator) || true {
					ineligibleSeen++
				}
			}
			for e := range eligibleEntities {
				if !electedEntities[e] && minElected != nil && stakeOf(e).Cmp(minElected) > 0 {
					fail("stake-order", "epoch %d: eligible entity %s with stake %s has no validator while an elected entity has only %s", capEpoch, e, stakeOf(e), minElected)
				}
				// an elected entity fills its quota before a poorer entity gets a seat
				if electedEntities[e] && len(current) < params.MaxValidators {
					want := eligibleEntities[e]
					if want > params.MaxValidatorsPerEntity {
						want = params.MaxValidatorsPerEntity
					}
					if perEntity[e] < want {
						fail("stake-order", "epoch %d: entity %s has %d eligible validator nodes but only %d elected although seats are free", capEpoch, e, eligibleEntities[e], perEntity[e])
					}
				}
			}
			if len(eligibleEntities) > 0 && len(current) == 0 {
				fail("no-validators", "epoch %d: eligible validators exist but none elected", capEpoch)
			}
			for _, v1 := range current {
				for _, v2 := range current {
					if stakeOf(v1.EntityID).Cmp(stakeOf(v2.EntityID)) <= 0 && v1.VotingPower > v2.VotingPower {
						fail("voting-power", "epoch %d: voting power not monotone in stake", capEpoch)
					}
				}
			}
			// engine model: after applying this block's updates the set effective at height+2 equals the elected one
			next := sim.E.ValidatorsAt(b.Height + 2)
			if len(next) != len(current) {
				fail("validator-updates", "epoch %d: engine model holds %d validators after the updates, scheduler elected %d", capEpoch, len(next), len(current))
			}
			for cons, v := range current {
				ev2 := next[string(chain.ValidatorAddress(cons))]
				if ev2 == nil || ev2.Power != v.VotingPower {
					fail("validator-updates", "epoch %d: validator updates do not turn the previous set into the elected one (validator %s)", capEpoch, v.ID)
				}
			}
			// committees
			for _, rt := range runtimes {
				var ex *scheduler.Committee
				for _, c := range committees {
					if c.RuntimeID == rt.ID && c.Kind == scheduler.KindComputeExecutor {
						ex = c
					}
				}
				if ex == nil {
					rec.Label("no-committee")
					continue
				}
				if uint64(ex.ValidFor) != capEpoch {
					// `runtimes` lists the runtimes that are ACTIVE after the election block's BeginBlock (a runtime that got no
					// committee has been suspended by then and is not among them; its old committee record may linger): an
					// active runtime works with the committee of THIS epoch or none
					fail("stale-committee", "epoch %d: the active runtime %s still has the executor committee elected for epoch %d", capEpoch, rt.ID, ex.ValidFor)
				}
				workers, backups := 0, 0
				seenW, seenB := map[signature.PublicKey]bool{}, map[signature.PublicKey]bool{}
				for _, m := range ex.Members {
					n := byID[m.PublicKey]
					if n == nil {
						fail("committee-ineligible", "epoch %d: committee member %s is not registered", capEpoch, m.PublicKey)
					}
					if ok, why := eligible(n, node.RoleComputeWorker); !ok {
						fail("committee-ineligible", "epoch %d: committee member %s not eligible: %s", capEpoch, m.PublicKey, why)
					}
					if st := statuses[n.ID]; st != nil && st.IsSuspended(rt.ID, capEpochT(capEpoch)) {
						fail("committee-ineligible", "epoch %d: committee member %s is suspended from the runtime's committees until epoch %d (liveness failures)", capEpoch, m.PublicKey, st.Faults[rt.ID].SuspendedUntil)
					}
					ad := activeDeployment(rt, capEpoch)
					if ad == nil || n.GetRuntime(rt.ID, ad.Version) == nil {
						fail("committee-ineligible", "epoch %d: committee member %s is not registered for the runtime's active version", capEpoch, m.PublicKey)
					}
					switch m.Role {
					case scheduler.RoleWorker:
						workers++
						if seenW[m.PublicKey] {
							fail("committee-size", "epoch %d: node twice as worker", capEpoch)
						}
						seenW[m.PublicKey] = true
					case scheduler.RoleBackupWorker:
						backups++
						if seenB[m.PublicKey] {
							fail("committee-size", "epoch %d: node twice as backup worker", capEpoch)
						}
						seenB[m.PublicKey] = true
					}
				}
				// scheduling constraints: per-entity cap among the members, and the candidate pool AFTER the per-entity cap
				// (and validator-set filter) must reach the configured minimum for a committee to exist at all
				ad := activeDeployment(rt, capEpoch)
				for _, role := range []scheduler.Role{scheduler.RoleWorker, scheduler.RoleBackupWorker} {
					cs := rt.Constraints[scheduler.KindComputeExecutor][role]
					perEnt := map[signature.PublicKey]int{}
					for _, m := range ex.Members {
						if m.Role != role {
							continue
						}
						mn := byID[m.PublicKey]
						perEnt[mn.EntityID]++
						if cs.ValidatorSet != nil && !electedEntities[mn.EntityID] {
							fail("committee-validator-set", "epoch %d: %s %s belongs to entity %s which has no node in the validator set", capEpoch, role, m.PublicKey, mn.EntityID)
						}
					}
					if cs.MaxNodes != nil && cs.MaxNodes.Limit > 0 {
						for e, c := range perEnt {
							if c > int(cs.MaxNodes.Limit) {
								fail("committee-max-nodes", "epoch %d: entity %s has %d %s nodes in the committee, limit %d", capEpoch, e, c, role, cs.MaxNodes.Limit)
							}
						}
					}
					poolPerEnt := map[signature.PublicKey]int{}
					for _, n := range nodes {
						if ok, _ := eligible(n, node.RoleComputeWorker); !ok || ad == nil || n.GetRuntime(rt.ID, ad.Version) == nil {
							continue
						}
						if st := statuses[n.ID]; st != nil && st.IsSuspended(rt.ID, capEpochT(capEpoch)) {
							rec.Label("candidate-suspended-for-liveness")
							continue
						}
						if cs.ValidatorSet != nil && !electedEntities[n.EntityID] {
							rec.Label(fmt.Sprintf("validator-set-constraint:candidate-excluded,vrf=%v", vrfOn))
							continue
						}
						poolPerEnt[n.EntityID]++
					}
					pool, raw := 0, 0
					for _, c := range poolPerEnt {
						raw += c
						if cs.MaxNodes != nil && cs.MaxNodes.Limit > 0 && c > int(cs.MaxNodes.Limit) {
							c = int(cs.MaxNodes.Limit)
						}
						pool += c
					}
					if cs.MinPoolSize != nil && pool < int(cs.MinPoolSize.Limit) {
						fail("committee-below-min-pool", "epoch %d: a committee exists although the %s candidate pool has %d nodes after the per-entity cap (%d before), minimum pool size %d", capEpoch, role, pool, raw, cs.MinPoolSize.Limit)
					}
					if raw != pool {
						rec.Label("committee-pool-capped")
					}
				}
				if workers != int(rt.Executor.GroupSize) || backups != int(rt.Executor.GroupBackupSize) {
					fail("committee-size", "epoch %d: executor committee has %d workers / %d backups, runtime requires %d / %d", capEpoch, workers, backups, rt.Executor.GroupSize, rt.Executor.GroupBackupSize)
				}
				rec.Label("committee-elected")
			}
			set := fmt.Sprint(setDesc)
			if ineligibleSeen > 0 && prevSet != "" && set != prevSet {
				nontrivial = true
			}
			if ineligibleSeen > 0 {
				rec.Label("election-with-ineligible-candidates")
			}
			if prevSet != "" && set != prevSet {
				rec.Label("validator-set-changed")
			}
			prevSet = set
			rec.Label("elections-checked")
			sim.Logf("h=%d epoch=%d validators=%d eligible-entities=%d ineligible-nodes=%d", b.Height, capEpoch, len(current), len(eligibleEntities), ineligibleSeen)
		}
		for k, n := range sim.RoundOutcomes() {
			rec.LabelN("scripted-"+k, uint64(n))
		}
		var sample any
		if nontrivial && rec.WantSample() {
			sample = map[string]any{"spec": spec, "trace": tail(sim.Trace, 20)}
		}
		rec.Case(nontrivial, ev.Fingerprint(fp...), sample)
	})
}

func tail(s []string, n int) []string {
	if len(s) > n {
		return s[len(s)-n:]
	}
	return s
}

// activeDeployment is the harness's own reading of "the deployment a committee member must run": among the
// deployments that are valid at the epoch (ValidFrom <= epoch) the one that became valid last.
func activeDeployment(rt *registry.Runtime, epoch uint64) *registry.VersionInfo {
	var best *registry.VersionInfo
	for _, d := range rt.Deployments {
		if d == nil || uint64(d.ValidFrom) > epoch {
			continue
		}
		if best == nil || d.ValidFrom > best.ValidFrom {
			best = d
		}
	}
	return best
}
