package c14

import (
	"math/big"

	beacon "github.com/oasisprotocol/oasis-core/go/beacon/api"
	"github.com/oasisprotocol/oasis-core/go/common/quantity"
	"github.com/oasisprotocol/oasis-core/go/storage/mkvs"

	"verifharness/chain"
)

type (
	bigInt    = big.Int
	quantityT = quantity.Quantity
)

func newBig(v int64) *big.Int { return big.NewInt(v) }

func capEpochT(e uint64) beacon.EpochTime { return beacon.EpochTime(e) }

func viewTree(v *chain.View) mkvs.ImmutableKeyValueTree { return v.KV() }
