// Package c15 decides layer 1 (the arithmetic, API level) of property C15 "escrow shares are
// fair: no value is created or taken by rounding".
//
// Code under test: staking/api SharePool.{Deposit,Withdraw,StakeForShares} (and the private
// sharesForStake behind Deposit), quantity.Move, DebondingDelegation.Merge and, through an
// in-memory mock application state, the staking app's MutableState.SlashEscrow (slashPool).
//
// The operations are performed exactly as the real callers perform them:
//   - AddEscrow (apps/staking/transactions.go): Active.Deposit(&delegation.Shares, &from.General.Balance, amount)
//   - ReclaimEscrow: Active.Withdraw(&baseUnits, &delegation.Shares, shares) followed by
//     Debonding.Deposit(&deb.Shares, &baseUnits, stakeAmount); zero shares are rejected by the caller
//   - debonding completion (apps/staking/staking.go onEpochChange): Debonding.Withdraw(&baseUnits, &deb.Shares, all)
//     then quantity.Move into the delegator's general balance
//   - rewards (state.go AddRewards / AddRewardSingleAttenuated / TransferFromCommon): the non-commission part is
//     moved into Active.Balance without minting shares, then the commission is deposited for the entity
//   - slashing (state.go slashPool): balance -= min(balance, floor(balance*amount/total)), shares unchanged
//
// All callers work on decoded copies of the state and store them only when every step succeeded, so
// the tests run every operation on clones and commit on success (the API documents that after an
// error "the pool and affected accounts are left in an invalid state").
//
// The oracle is exact math/big integer arithmetic (rational comparisons by cross multiplication);
// the quantity package is never used to compute an expected value.
package c15

import (
	"fmt"
	"math/big"
	"strings"
	"testing"

	"pgregory.net/rapid"

	"github.com/oasisprotocol/oasis-core/go/common/crypto/signature"
	"github.com/oasisprotocol/oasis-core/go/common/quantity"
	abciAPI "github.com/oasisprotocol/oasis-core/go/consensus/cometbft/api"
	stakingState "github.com/oasisprotocol/oasis-core/go/consensus/cometbft/apps/staking/state"
	staking "github.com/oasisprotocol/oasis-core/go/staking/api"

	"verifharness/ev"
)

// ---------------------------------------------------------------------------------------------
// exact arithmetic helpers

var (
	bigOne = big.NewInt(1)
	two64  = new(big.Int).Lsh(bigOne, 64)
	two128 = new(big.Int).Lsh(bigOne, 128)
	rich   = new(big.Int).Lsh(bigOne, 150)
)

func bn(x int64) *big.Int        { return big.NewInt(x) }
func add(a, b *big.Int) *big.Int { return new(big.Int).Add(a, b) }
func sub(a, b *big.Int) *big.Int { return new(big.Int).Sub(a, b) }
func mul(a, b *big.Int) *big.Int { return new(big.Int).Mul(a, b) }
func quo(a, b *big.Int) *big.Int { return new(big.Int).Quo(a, b) } // floor for non-negative operands
func ceilQuo(a, b *big.Int) *big.Int {
	q, r := new(big.Int).QuoRem(a, b, new(big.Int))
	if r.Sign() != 0 {
		q.Add(q, bigOne)
	}
	return q
}

func minBig(a, b *big.Int) *big.Int {
	if a.Cmp(b) <= 0 {
		return new(big.Int).Set(a)
	}
	return new(big.Int).Set(b)
}

// nq converts an oracle integer into a fresh Quantity (input to the code under test).
func nq(x *big.Int) *quantity.Quantity {
	q := quantity.NewQuantity()
	if err := q.FromBigInt(x); err != nil {
		panic(fmt.Sprintf("harness: invalid quantity %v: %v", x, err))
	}
	return q
}

// bi reads a Quantity produced by the code under test into an oracle integer.
func bi(q *quantity.Quantity) *big.Int { return q.ToBigInt() }

func setQ(dst *quantity.Quantity, x *big.Int) {
	if err := dst.FromBigInt(x); err != nil {
		panic(fmt.Sprintf("harness: invalid quantity %v: %v", x, err))
	}
}

func newPool(b, s *big.Int) *staking.SharePool {
	p := &staking.SharePool{}
	setQ(&p.Balance, b)
	setQ(&p.TotalShares, s)
	return p
}

func clonePool(p *staking.SharePool) *staking.SharePool {
	return newPool(bi(&p.Balance), bi(&p.TotalShares))
}

// ---------------------------------------------------------------------------------------------
// generators

func drawBits(t *rapid.T, label string, lo, hi int) *big.Int {
	n := rapid.IntRange(lo, hi).Draw(t, label+"Bits")
	x := new(big.Int)
	if n == 0 {
		return x
	}
	for i := 0; i < (n+63)/64; i++ {
		w := rapid.Uint64().Draw(t, label+"Word")
		x.Lsh(x, 64)
		x.Or(x, new(big.Int).SetUint64(w))
	}
	mask := sub(new(big.Int).Lsh(bigOne, uint(n)), bigOne)
	x.And(x, mask)
	x.SetBit(x, n-1, 1) // exact bit length n
	return x
}

// drawBig draws a magnitude: 0, 1, small, 2^63/2^64/2^128 boundaries, token-like amounts (9 decimals),
// random values of 1..140 bits.
func drawBig(t *rapid.T, label string) *big.Int {
	switch rapid.IntRange(0, 14).Draw(t, label+"Kind") {
	case 0:
		return bn(0)
	case 1:
		return bn(1)
	case 2:
		return bn(int64(rapid.IntRange(2, 1000).Draw(t, label+"Small")))
	case 3:
		return sub(two64, bigOne)
	case 4:
		return new(big.Int).Set(two64)
	case 5:
		return add(two64, bigOne)
	case 6:
		return add(two128, bn(int64(rapid.IntRange(-2, 2).Draw(t, label+"D128"))))
	case 7:
		return drawBits(t, label, 1, 64)
	case 8:
		return drawBits(t, label, 65, 130)
	case 9:
		return drawBits(t, label, 1, 140)
	case 10:
		return mul(bn(int64(rapid.IntRange(1, 1_000_000).Draw(t, label+"Tok"))), bn(1_000_000_000))
	case 11:
		return add(new(big.Int).Lsh(bigOne, 63), bn(int64(rapid.IntRange(-1, 1).Draw(t, label+"D63"))))
	default:
		return drawBits(t, label, 1, 40)
	}
}

func drawNonZero(t *rapid.T, label string) *big.Int {
	x := drawBig(t, label)
	if x.Sign() == 0 {
		return bn(int64(rapid.IntRange(1, 9).Draw(t, label+"NZ")))
	}
	return x
}

var poolKinds = []string{
	"empty", "1:1", "balance>>shares", "shares>>balance", "one-unit", "2^64", "2^128", "slashed-to-zero",
	"orphan-balance", "generic", "generic", "near-par",
}

// drawPool draws a pool state (balance, total shares) of one of the kinds the property quantifies over.
func drawPool(t *rapid.T, label string, kinds []string) (b, s *big.Int, kind string) {
	kind = rapid.SampledFrom(kinds).Draw(t, label+"PoolKind")
	switch kind {
	case "empty":
		return bn(0), bn(0), kind
	case "1:1":
		n := drawNonZero(t, label+"N")
		return n, new(big.Int).Set(n), kind
	case "balance>>shares":
		s = drawBits(t, label+"S", 1, 40)
		b = add(mul(s, drawBits(t, label+"F", 20, 90)), drawBits(t, label+"R", 0, 40))
		return b, s, kind
	case "shares>>balance":
		b = drawBits(t, label+"B", 1, 40)
		s = add(mul(b, drawBits(t, label+"F", 20, 90)), drawBits(t, label+"R", 0, 40))
		return b, s, kind
	case "one-unit":
		return bn(1), new(big.Int).Set(rapid.SampledFrom([]*big.Int{bn(1), bn(2), bn(3), two64, drawNonZero(t, label+"S")}).Draw(t, label+"OneS")), kind
	case "2^64":
		b = add(two64, bn(int64(rapid.IntRange(-1, 1).Draw(t, label+"DB"))))
		s = add(two64, bn(int64(rapid.IntRange(-1, 1).Draw(t, label+"DS"))))
		return b, s, kind
	case "2^128":
		return drawBits(t, label+"B", 120, 132), drawBits(t, label+"S", 120, 132), kind
	case "slashed-to-zero":
		return bn(0), drawNonZero(t, label+"S"), kind
	case "orphan-balance":
		return drawNonZero(t, label+"B"), bn(0), kind
	case "near-par":
		s = drawNonZero(t, label+"S")
		b = add(s, bn(int64(rapid.IntRange(-3, 3).Draw(t, label+"DB"))))
		if b.Sign() <= 0 {
			b = bn(1)
		}
		return b, s, kind
	default: // generic
		return drawNonZero(t, label+"B"), drawNonZero(t, label+"S"), "generic"
	}
}

// splitShares distributes total among n parts (some may be zero); the parts sum to total exactly.
func splitShares(t *rapid.T, label string, total *big.Int, n int) []*big.Int {
	w := make([]int, n)
	sum := 0
	for i := range w {
		w[i] = rapid.IntRange(0, 3).Draw(t, label+"W")
		sum += w[i]
	}
	if sum == 0 {
		w[0], sum = 1, 1
	}
	out := make([]*big.Int, n)
	rest := new(big.Int).Set(total)
	first := -1
	for i := range w {
		out[i] = quo(mul(total, bn(int64(w[i]))), bn(int64(sum)))
		rest.Sub(rest, out[i])
		if w[i] > 0 && first < 0 {
			first = i
		}
	}
	out[first].Add(out[first], rest)
	return out
}

// drawStakeAmount draws an amount of base units for a deposit into pool (b, s) from a source holding g:
// 0, 1, magnitudes, amounts at the rounding boundaries m*b/s (+-1), the whole source, more than the source.
func drawStakeAmount(t *rapid.T, label string, b, s, g *big.Int) *big.Int {
	switch rapid.IntRange(0, 11).Draw(t, label+"AmtKind") {
	case 0:
		return bn(0)
	case 1:
		return bn(1)
	case 2, 3:
		if b.Sign() > 0 && s.Sign() > 0 {
			// the least stake worth m shares, and its neighbours
			m := drawNonZero(t, label+"M")
			x := add(ceilQuo(mul(m, b), s), bn(int64(rapid.IntRange(-1, 1).Draw(t, label+"MD"))))
			if x.Sign() < 0 {
				x = bn(0)
			}
			return x
		}
		return drawBig(t, label)
	case 4:
		return new(big.Int).Set(g)
	case 5:
		return add(g, bigOne)
	case 6:
		return new(big.Int).Set(b)
	case 7:
		if g.Sign() > 0 {
			return quo(mul(g, bn(int64(rapid.IntRange(1, 65535).Draw(t, label+"Frac")))), bn(65536))
		}
		return drawBig(t, label)
	default:
		return drawBig(t, label)
	}
}

// drawShareAmount draws a number of shares to redeem from pool (b, s) by a holder owning own.
func drawShareAmount(t *rapid.T, label string, b, s, own *big.Int) *big.Int {
	switch rapid.IntRange(0, 11).Draw(t, label+"ShKind") {
	case 0:
		return bn(0)
	case 1:
		return bn(1)
	case 2, 3:
		return new(big.Int).Set(own) // everything
	case 4:
		return add(own, bigOne) // more than owned
	case 5:
		return quo(own, bn(2))
	case 6, 7:
		if own.Sign() > 0 {
			return quo(mul(own, bn(int64(rapid.IntRange(1, 65535).Draw(t, label+"Frac")))), bn(65536))
		}
		return drawBig(t, label)
	case 8:
		if b.Sign() > 0 && s.Sign() > 0 {
			// the least number of shares worth m base units, and its neighbours
			m := drawNonZero(t, label+"M")
			x := add(ceilQuo(mul(m, s), b), bn(int64(rapid.IntRange(-1, 1).Draw(t, label+"MD"))))
			if x.Sign() < 0 {
				x = bn(0)
			}
			return x
		}
		return drawBig(t, label)
	case 9:
		return new(big.Int).Set(s) // all shares of the pool
	default:
		return drawBig(t, label)
	}
}

// ---------------------------------------------------------------------------------------------
// state machine

// claim is a share claim on a pool: a Delegation (active pool) or a DebondingDelegation (debonding pool).
type claim struct {
	owner  int
	shares *quantity.Quantity
	end    uint64 // debond end epoch (debonding pool only)
}

type pool struct {
	name   string
	sp     *staking.SharePool
	claims []*claim
	// ledger of base units (oracle side)
	initial, paidIn, paidOut, rewards, slashed *big.Int
}

func (p *pool) B() *big.Int { return bi(&p.sp.Balance) }
func (p *pool) S() *big.Int { return bi(&p.sp.TotalShares) }

func (p *pool) holders() int {
	seen := map[int]bool{}
	for _, c := range p.claims {
		if !c.shares.IsZero() {
			seen[c.owner] = true
		}
	}
	return len(seen)
}

type poolSnap struct {
	b, s                     *big.Int
	paidIn, paidOut, rewards *big.Int
	claimShares              []*big.Int
	nclaims                  int
}

func (p *pool) snap() poolSnap {
	sn := poolSnap{b: p.B(), s: p.S(), paidIn: new(big.Int).Set(p.paidIn), paidOut: new(big.Int).Set(p.paidOut),
		rewards: new(big.Int).Set(p.rewards), nclaims: len(p.claims)}
	for _, c := range p.claims {
		sn.claimShares = append(sn.claimShares, bi(c.shares))
	}
	return sn
}

func (p *pool) restore(sn poolSnap) {
	setQ(&p.sp.Balance, sn.b)
	setQ(&p.sp.TotalShares, sn.s)
	p.paidIn, p.paidOut, p.rewards = sn.paidIn, sn.paidOut, sn.rewards
	p.claims = p.claims[:sn.nclaims]
	for i, c := range p.claims {
		setQ(c.shares, sn.claimShares[i])
	}
}

type machine struct {
	t   *rapid.T
	rec *ev.Recorder

	n         int
	active    *pool
	debonding *pool
	general   []*quantity.Quantity // general balances of the holders
	common    *quantity.Quantity   // common pool: source of rewards, sink of slashed stake
	supply    *big.Int             // total of all balances at the start (conserved)
	epoch     uint64
	interval  uint64

	init  string
	trace []string

	rewardOrSlash bool // a reward or a slash with a non-zero effect has happened
	nontrivial    bool
	ops           int // successful deposits/redemptions
}

func (mc *machine) log(format string, args ...any) {
	mc.trace = append(mc.trace, fmt.Sprintf(format, args...))
}

func (mc *machine) fail(sig, format string, args ...any) {
	ev.Violation(mc.t, sig, format+"; init={%s}; trace=[%s]", append(args, mc.init, strings.Join(mc.trace, "; "))...)
}

// noteOp measures the non-triviality rule on the state before a successful deposit/redemption.
func (mc *machine) noteOp(p *pool, b, s *big.Int, holders int) {
	mc.ops++
	if holders >= 2 && s.Sign() > 0 && b.Cmp(s) != 0 && mc.rewardOrSlash {
		mc.nontrivial = true
	}
}

// valueClauses checks, for an operation of the claim cl that moved the pool from (b, s) to (b2, s2):
//   - every OTHER claim's exact value shares*B/S did not decrease,
//   - the share price did not decrease,
//   - the actor's wealth (outside balance + exact value of its claim) did not increase.
//
// g/g2 are the actor's outside balance before/after, sh/sh2 its shares before/after.
func (mc *machine) valueClauses(op string, p *pool, cl *claim, b, s, b2, s2, g, g2, sh, sh2 *big.Int) {
	if s.Sign() == 0 {
		// Nobody held shares before: there are no other holders, and the first depositor
		// legitimately receives whatever balance the pool had (counted, not asserted).
		return
	}
	if s2.Sign() > 0 {
		// price: b2/s2 >= b/s
		if mul(b2, s).Cmp(mul(b, s2)) < 0 {
			mc.fail("price-drop", "%s on %s pool lowered the share price: (B,S) %v/%v -> %v/%v", op, p.name, b, s, b2, s2)
		}
		for _, o := range p.claims {
			if o == cl {
				continue
			}
			so := bi(o.shares)
			if mul(mul(so, b2), s).Cmp(mul(mul(so, b), s2)) < 0 {
				mc.fail("dilution", "%s on %s pool by holder %d lowered the value of holder %d's %v shares: (B,S) %v/%v -> %v/%v",
					op, p.name, cl.owner, o.owner, so, b, s, b2, s2)
			}
		}
	}
	// actor: g2 + sh2*b2/s2 <= g + sh*b/s   (with sh2*b2/s2 = 0 when s2 = 0)
	// multiply by s*s2 (or by s when s2 = 0)
	var lhs, rhs *big.Int
	if s2.Sign() > 0 {
		lhs = add(mul(mul(g2, s), s2), mul(mul(sh2, b2), s))
		rhs = add(mul(mul(g, s), s2), mul(mul(sh, b), s2))
	} else {
		lhs = mul(g2, s)
		rhs = add(mul(g, s), mul(sh, b))
	}
	if lhs.Cmp(rhs) > 0 {
		mc.fail("actor-gains", "%s on %s pool increased the actor's wealth (outside balance + exact share value): outside %v -> %v, shares %v -> %v, (B,S) %v/%v -> %v/%v",
			op, p.name, g, g2, sh, sh2, b, s, b2, s2)
	}
}

// deposit performs p.Deposit(&cl.shares, src, d) the way AddEscrow / ReclaimEscrow / the reward code
// do (on copies, stored on success) and checks the deposit clauses. Returns success and minted shares.
func (mc *machine) deposit(p *pool, cl *claim, src *quantity.Quantity, d *big.Int, what string) (bool, *big.Int) {
	b, s, sh, g := p.B(), p.S(), bi(cl.shares), bi(src)
	holders := p.holders()

	wp, wsh, wsrc, amt := clonePool(p.sp), cl.shares.Clone(), src.Clone(), nq(d)
	minted, err := wp.Deposit(wsh, wsrc, amt)

	mustFail := ""
	switch {
	case s.Sign() > 0 && b.Sign() == 0:
		mustFail = "slashed-pool"
	case d.Cmp(g) > 0:
		mustFail = "insufficient-source"
	}
	if err != nil {
		mc.log("%s(%s h%d amt=%v) on %v/%v -> err %v", what, p.name, cl.owner, d, b, s, err)
		if mustFail == "" {
			mc.fail("unexpected-failure", "deposit of %v into %s pool (B,S)=%v/%v from a source holding %v failed: %v", d, p.name, b, s, g, err)
		}
		mc.rec.Label("deposit-fails:" + mustFail)
		if bi(&wp.Balance).Cmp(b) != 0 || bi(&wp.TotalShares).Cmp(s) != 0 || bi(wsh).Cmp(sh) != 0 || bi(wsrc).Cmp(g) != 0 {
			// Not promised by the API (callers discard the copies); observed only.
			mc.rec.Label("failed-deposit-touched-working-copy")
		}
		return false, nil
	}
	k := bi(minted)
	b2, s2, sh2, g2 := bi(&wp.Balance), bi(&wp.TotalShares), bi(wsh), bi(wsrc)
	mc.log("%s(%s h%d amt=%v) on %v/%v -> +%v shares", what, p.name, cl.owner, d, b, s, k)
	if mustFail == "slashed-pool" {
		mc.fail("deposit-into-slashed-pool", "deposit of %v into %s pool with zero balance and %v outstanding shares succeeded and minted %v shares (pool now %v/%v)",
			d, p.name, s, k, b2, s2)
	}
	if mustFail == "insufficient-source" {
		mc.fail("overdraw", "deposit of %v from a source holding only %v succeeded", d, g)
	}
	if bi(amt).Cmp(d) != 0 {
		mc.fail("bookkeeping", "Deposit modified its amount argument: %v -> %v", d, bi(amt))
	}
	// exact bookkeeping: the stake leaves the source and enters the pool, the minted shares are
	// credited to the depositor and to the pool total
	if b2.Cmp(add(b, d)) != 0 || g2.Cmp(sub(g, d)) != 0 {
		mc.fail("bookkeeping", "deposit of %v: pool balance %v -> %v, source %v -> %v", d, b, b2, g, g2)
	}
	if s2.Cmp(add(s, k)) != 0 || sh2.Cmp(add(sh, k)) != 0 {
		mc.fail("bookkeeping", "deposit minted %v shares: total shares %v -> %v, depositor's shares %v -> %v", k, s, s2, sh, sh2)
	}
	if s.Sign() == 0 {
		if k.Cmp(d) != 0 {
			mc.fail("first-deposit-rate", "deposit of %v into %s pool without shares (balance %v) minted %v shares, documented rate is 1:1", d, p.name, b, k)
		}
		if b.Sign() > 0 && d.Sign() > 0 {
			mc.rec.Label("first-depositor-takes-orphan-balance")
		}
	} else {
		// k*B <= D*S  (at most pro rata) ...
		if mul(k, b).Cmp(mul(d, s)) > 0 {
			mc.fail("deposit-overmint", "deposit of %v into %s pool (B,S)=%v/%v minted %v shares: k*B=%v > D*S=%v", d, p.name, b, s, k, mul(k, b), mul(d, s))
		}
		// ... and no more than rounding is taken: (k+1)*B > D*S
		if mul(add(k, bigOne), b).Cmp(mul(d, s)) <= 0 {
			mc.fail("deposit-undermint", "deposit of %v into %s pool (B,S)=%v/%v minted only %v shares: (k+1)*B=%v <= D*S=%v", d, p.name, b, s, k, mul(add(k, bigOne), b), mul(d, s))
		}
		if k.Sign() == 0 && d.Sign() > 0 {
			mc.rec.Label("deposit-mints-zero-shares")
		}
		if new(big.Int).Rem(mul(d, s), b).Sign() != 0 {
			mc.rec.Label("deposit-rounded")
		}
	}
	mc.valueClauses("deposit", p, cl, b, s, b2, s2, g, g2, sh, sh2)

	// commit (what SetAccount / SetDelegation do)
	setQ(&p.sp.Balance, b2)
	setQ(&p.sp.TotalShares, s2)
	setQ(cl.shares, sh2)
	setQ(src, g2)
	p.paidIn.Add(p.paidIn, d)
	mc.noteOp(p, b, s, holders)
	return true, k
}

// withdraw performs p.Withdraw(dst, &cl.shares, x) (on copies, stored on success) and checks the
// redemption clauses. Returns success and the base units paid.
func (mc *machine) withdraw(p *pool, cl *claim, dst *quantity.Quantity, x *big.Int, what string) (bool, *big.Int) {
	b, s, sh, g := p.B(), p.S(), bi(cl.shares), bi(dst)
	holders := p.holders()

	wp, wsh, wdst, amt := clonePool(p.sp), cl.shares.Clone(), dst.Clone(), nq(x)
	err := wp.Withdraw(wdst, wsh, amt)

	mustFail := x.Cmp(sh) > 0
	if err != nil {
		mc.log("%s(%s h%d shares=%v) on %v/%v -> err %v", what, p.name, cl.owner, x, b, s, err)
		if !mustFail {
			mc.fail("unexpected-failure", "redemption of %v of the holder's %v shares from %s pool (B,S)=%v/%v failed: %v", x, sh, p.name, b, s, err)
		}
		mc.rec.Label("withdraw-fails:more-than-owned")
		if bi(&wp.Balance).Cmp(b) != 0 || bi(&wp.TotalShares).Cmp(s) != 0 || bi(wsh).Cmp(sh) != 0 || bi(wdst).Cmp(g) != 0 {
			mc.rec.Label("failed-withdraw-touched-working-copy")
		}
		return false, nil
	}
	b2, s2, sh2, g2 := bi(&wp.Balance), bi(&wp.TotalShares), bi(wsh), bi(wdst)
	paid := sub(g2, g)
	mc.log("%s(%s h%d shares=%v) on %v/%v -> paid %v", what, p.name, cl.owner, x, b, s, paid)
	if mustFail {
		mc.fail("overdraw", "redemption of %v shares by a holder owning %v succeeded", x, sh)
	}
	if bi(amt).Cmp(x) != 0 {
		mc.fail("bookkeeping", "Withdraw modified its share amount argument: %v -> %v", x, bi(amt))
	}
	if paid.Sign() < 0 || b2.Cmp(sub(b, paid)) != 0 {
		mc.fail("bookkeeping", "redemption of %v shares: pool balance %v -> %v, destination %v -> %v", x, b, b2, g, g2)
	}
	if s2.Cmp(sub(s, x)) != 0 || sh2.Cmp(sub(sh, x)) != 0 {
		mc.fail("bookkeeping", "redemption of %v shares: total shares %v -> %v, holder's shares %v -> %v", x, s, s2, sh, sh2)
	}
	if s.Sign() > 0 {
		// p*S <= x*B (at most pro rata) ...
		if mul(paid, s).Cmp(mul(x, b)) > 0 {
			mc.fail("redeem-overpay", "redemption of %v shares from %s pool (B,S)=%v/%v paid %v: p*S=%v > x*B=%v", x, p.name, b, s, paid, mul(paid, s), mul(x, b))
		}
		// ... and no more than rounding is kept back: (p+1)*S > x*B
		if mul(add(paid, bigOne), s).Cmp(mul(x, b)) <= 0 {
			mc.fail("redeem-underpay", "redemption of %v shares from %s pool (B,S)=%v/%v paid only %v: (p+1)*S=%v <= x*B=%v", x, p.name, b, s, paid, mul(add(paid, bigOne), s), mul(x, b))
		}
		if new(big.Int).Rem(mul(x, b), s).Sign() != 0 {
			mc.rec.Label("redeem-rounded")
		}
		if paid.Sign() == 0 && x.Sign() > 0 {
			mc.rec.Label("redeem-pays-zero")
		}
		if x.Cmp(s) == 0 && x.Sign() > 0 {
			mc.rec.Label("redeem-all-shares-of-pool")
		}
	} else if paid.Sign() != 0 {
		mc.fail("redeem-overpay", "redemption from %s pool without shares paid %v", p.name, paid)
	}
	mc.valueClauses("redemption", p, cl, b, s, b2, s2, g, g2, sh, sh2)

	setQ(&p.sp.Balance, b2)
	setQ(&p.sp.TotalShares, s2)
	setQ(cl.shares, sh2)
	setQ(dst, g2)
	p.paidOut.Add(p.paidOut, paid)
	if x.Sign() > 0 {
		mc.noteOp(p, b, s, holders)
	}
	return true, paid
}

// invariants are checked after every action.
func (mc *machine) invariants(where string) {
	total := add(bi(mc.common), bn(0))
	for _, g := range mc.general {
		total.Add(total, bi(g))
	}
	for _, p := range []*pool{mc.active, mc.debonding} {
		sum := new(big.Int)
		for _, c := range p.claims {
			sum.Add(sum, bi(c.shares))
		}
		if sum.Cmp(p.S()) != 0 {
			mc.fail("total-shares", "%s: %s pool TotalShares=%v but the holders' shares sum to %v", where, p.name, p.S(), sum)
		}
		// never creates value: balance = initial + paid in + rewards - slashed - paid out
		ledger := sub(sub(add(add(p.initial, p.paidIn), p.rewards), p.slashed), p.paidOut)
		if ledger.Cmp(p.B()) != 0 {
			mc.fail("ledger", "%s: %s pool balance %v, ledger says %v (initial %v + in %v + rewards %v - slashed %v - out %v)",
				where, p.name, p.B(), ledger, p.initial, p.paidIn, p.rewards, p.slashed, p.paidOut)
		}
		if p.paidOut.Cmp(sub(add(add(p.initial, p.paidIn), p.rewards), p.slashed)) > 0 {
			mc.fail("ledger", "%s: %s pool paid out %v > initial %v + in %v + rewards %v - slashed %v", where, p.name, p.paidOut, p.initial, p.paidIn, p.rewards, p.slashed)
		}
		total.Add(total, p.B())
	}
	if total.Cmp(mc.supply) != 0 {
		mc.fail("supply", "%s: total of all balances %v differs from the initial supply %v", where, total, mc.supply)
	}
}

// ---- actions

// addEscrow: AddEscrow transaction of holder h.
func (mc *machine) addEscrow(t *rapid.T) {
	h := rapid.IntRange(0, mc.n-1).Draw(t, "holder")
	d := drawStakeAmount(t, "dep", mc.active.B(), mc.active.S(), bi(mc.general[h]))
	mc.deposit(mc.active, mc.active.claims[h], mc.general[h], d, "addEscrow")
	mc.invariants("after addEscrow")
}

// reclaim: ReclaimEscrow transaction of holder h: redeem active shares into the debonding pool.
func (mc *machine) reclaim(t *rapid.T) {
	h := rapid.IntRange(0, mc.n-1).Draw(t, "holder")
	if mc.active.claims[h].shares.IsZero() && rapid.IntRange(0, 4).Draw(t, "preferHolderWithShares") != 0 {
		for i := 1; i < mc.n; i++ {
			if j := (h + i) % mc.n; !mc.active.claims[j].shares.IsZero() {
				h = j
				break
			}
		}
	}
	cl := mc.active.claims[h]
	x := drawShareAmount(t, "rec", mc.active.B(), mc.active.S(), bi(cl.shares))
	if x.Sign() == 0 {
		// reclaimEscrow rejects zero shares before touching the pool.
		mc.rec.Label("reclaim-zero-rejected-by-caller")
		mc.log("reclaim(h%d shares=0) rejected by caller", h)
		return
	}
	snapA, snapD := mc.active.snap(), mc.debonding.snap()
	ops, nt := mc.ops, mc.nontrivial
	var baseUnits quantity.Quantity
	ok, paid := mc.withdraw(mc.active, cl, &baseUnits, x, "reclaim")
	if !ok {
		mc.invariants("after failed reclaim")
		return
	}
	deb := &claim{owner: h, shares: quantity.NewQuantity(), end: mc.epoch + mc.interval}
	ok, _ = mc.deposit(mc.debonding, deb, &baseUnits, paid, "reclaim->debonding")
	if !ok {
		// The transaction fails as a whole; nothing is stored.
		mc.active.restore(snapA)
		mc.debonding.restore(snapD)
		mc.ops, mc.nontrivial = ops, nt
		mc.rec.Label("reclaim-blocked-by-slashed-debonding-pool")
		mc.log("reclaim rolled back")
		mc.invariants("after rolled back reclaim")
		return
	}
	if !baseUnits.IsZero() {
		mc.fail("reclaim-residue", "reclaim of %v shares left %v base units outside both pools", x, bi(&baseUnits))
	}
	// SetDebondingDelegation merges debonding delegations with the same end time.
	merged := false
	for _, o := range mc.debonding.claims {
		if o.owner == h && o.end == deb.end {
			want := add(bi(o.shares), bi(deb.shares))
			d1 := staking.DebondingDelegation{DebondEndTime: 1}
			d2 := staking.DebondingDelegation{DebondEndTime: 1}
			setQ(&d1.Shares, bi(o.shares))
			setQ(&d2.Shares, bi(deb.shares))
			if err := d1.Merge(d2); err != nil {
				mc.fail("unexpected-failure", "merging debonding delegations with the same end time failed: %v", err)
			}
			if bi(&d1.Shares).Cmp(want) != 0 {
				mc.fail("bookkeeping", "merged debonding delegation holds %v shares, want %v", bi(&d1.Shares), want)
			}
			setQ(o.shares, want)
			merged = true
			mc.rec.Label("debonding-delegations-merged")
			break
		}
	}
	if !merged {
		mc.debonding.claims = append(mc.debonding.claims, deb)
	}
	mc.invariants("after reclaim")
}

// epochTick: epoch transition; every debonding delegation whose end epoch has come is paid out.
func (mc *machine) epochTick(t *rapid.T) {
	mc.epoch++
	mc.log("epoch=%d", mc.epoch)
	var keep []*claim
	pending := append([]*claim{}, mc.debonding.claims...)
	for i, cl := range pending {
		if cl.end > mc.epoch {
			keep = append(keep, cl)
			continue
		}
		all := bi(cl.shares)
		var baseUnits quantity.Quantity
		ok, paid := mc.withdraw(mc.debonding, cl, &baseUnits, all, "debondingComplete")
		if !ok {
			mc.fail("unexpected-failure", "completing a debonding delegation of %v shares failed", all)
		}
		if err := quantity.Move(mc.general[cl.owner], &baseUnits, nq(paid)); err != nil || !baseUnits.IsZero() {
			mc.fail("unexpected-failure", "moving %v debonded base units to the delegator failed: %v (left %v)", paid, err, bi(&baseUnits))
		}
		mc.rec.Label("debonding-completed")
		// the claim is removed (paid out exactly once)
		mc.debonding.claims = append(append([]*claim{}, keep...), pending[i+1:]...)
		mc.invariants("after debonding completion")
	}
	mc.debonding.claims = keep
	mc.invariants("after epoch transition")
}

var commissionRates = []int64{0, 0, 1, 20_000, 50_000, 99_999, 100_000}

// reward: staking reward for the escrow account whose entity is holder 0.
//
//	style "epoch" (AddRewards / AddRewardSingleAttenuated): amount derived from the active balance, so only
//	  for a non-zero balance; commission = floor(amount*rate/denominator) is deposited for the entity after the
//	  rest was added to the balance.
//	style "common" (TransferFromCommon with escrow=true, used for disbursing slashed funds): any amount; when
//	  the pool has no shares everything counts as commission.
func (mc *machine) reward(t *rapid.T) {
	p := mc.active
	b, s := p.B(), p.S()
	style := rapid.SampledFrom([]string{"epoch", "epoch", "common"}).Draw(t, "style")
	var r *big.Int
	switch rapid.IntRange(0, 4).Draw(t, "rewardKind") {
	case 0:
		r = bn(1)
	case 1:
		r = drawNonZero(t, "reward")
	case 2:
		r = quo(b, bn(int64(rapid.IntRange(2, 1000).Draw(t, "div"))))
	case 3:
		r = new(big.Int).Set(b)
	default:
		r = mul(b, bn(int64(rapid.IntRange(2, 1000).Draw(t, "mul"))))
	}
	rate := bn(rapid.SampledFrom(commissionRates).Draw(t, "rate"))
	if r.Sign() == 0 || (style == "epoch" && b.Sign() == 0) {
		// AddRewards computes floor(balance*factor*scale/denominator) and skips zero rewards.
		mc.rec.Label("reward-skipped-zero")
		return
	}
	if r.Cmp(bi(mc.common)) > 0 {
		mc.rec.Label("reward-skipped-common-pool-short")
		return
	}
	denom := bi(staking.CommissionRateDenominator)
	var com, rest *big.Int
	if style == "common" && s.Sign() == 0 {
		com, rest = new(big.Int).Set(r), bn(0)
	} else {
		com = quo(mul(r, rate), denom)
		rest = sub(r, com)
	}
	snapA := p.snap()
	commonBefore := bi(mc.common)
	ops, nt := mc.ops, mc.nontrivial
	mc.log("reward(%s r=%v rate=%v) on %v/%v: rest=%v com=%v", style, r, rate, b, s, rest, com)
	if rest.Sign() > 0 {
		if err := quantity.Move(&p.sp.Balance, mc.common, nq(rest)); err != nil {
			mc.fail("unexpected-failure", "moving the reward %v from the common pool (%v) failed: %v", rest, commonBefore, err)
		}
		if p.B().Cmp(add(b, rest)) != 0 || p.S().Cmp(s) != 0 || bi(mc.common).Cmp(sub(commonBefore, rest)) != 0 {
			mc.fail("bookkeeping", "reward of %v: pool %v/%v -> %v/%v, common pool %v -> %v", rest, b, s, p.B(), p.S(), commonBefore, bi(mc.common))
		}
		p.rewards.Add(p.rewards, rest)
	}
	if com.Sign() > 0 {
		ok, _ := mc.deposit(p, p.claims[0], mc.common, com, "commission")
		if !ok {
			// The reward routine returns the error; nothing is stored.
			p.restore(snapA)
			setQ(mc.common, commonBefore)
			mc.ops, mc.nontrivial = ops, nt
			mc.rec.Label("reward-fails:commission-deposit-into-slashed-pool")
			mc.log("reward rolled back")
			mc.invariants("after rolled back reward")
			return
		}
		mc.rec.Label("reward-with-commission")
	}
	if rest.Sign() > 0 {
		mc.rec.Label("reward-without-shares")
		if s.Sign() > 0 && b.Sign() == 0 {
			mc.rec.Label("reward-revives-slashed-pool")
		}
		if s.Sign() == 0 {
			mc.rec.Label("reward-into-pool-without-shares")
		}
	}
	mc.rewardOrSlash = true
	mc.invariants("after reward")
}

// slash: what SlashEscrow/slashPool do to the two pools of the escrow account: each loses
// min(balance, floor(balance*amount/total)); shares are unchanged; the stake goes to the common pool.
// (slashPool is package-private; the real SlashEscrow is checked by TestC15Slash.)
func (mc *machine) slash(t *rapid.T) {
	ba, bd := mc.active.B(), mc.debonding.B()
	total := add(ba, bd)
	var amount *big.Int
	switch rapid.IntRange(0, 9).Draw(t, "slashKind") {
	case 0:
		amount = new(big.Int).Set(total) // everything
	case 1:
		amount = add(total, drawBig(t, "over")) // more than there is
	case 2:
		amount = sub(total, bigOne)
		if amount.Sign() < 0 {
			amount = bn(0)
		}
	case 3:
		amount = bn(1)
	case 4:
		amount = drawBig(t, "slash")
	default: // a fraction
		amount = quo(mul(total, bn(int64(rapid.IntRange(1, 9999).Draw(t, "bp")))), bn(10000))
	}
	if total.Sign() == 0 {
		mc.rec.Label("slash-nothing-to-slash")
		return
	}
	took := new(big.Int)
	for _, p := range []*pool{mc.active, mc.debonding} {
		b := p.B()
		take := minBig(b, quo(mul(b, amount), total))
		setQ(&p.sp.Balance, sub(b, take))
		p.slashed.Add(p.slashed, take)
		took.Add(took, take)
	}
	setQ(mc.common, add(bi(mc.common), took))
	mc.log("slash(amount=%v of %v) took %v -> active %v/%v debonding %v/%v", amount, total, took, mc.active.B(), mc.active.S(), mc.debonding.B(), mc.debonding.S())
	if took.Sign() > 0 {
		mc.rewardOrSlash = true
		mc.rec.Label("slash")
		if mc.active.B().Sign() == 0 && mc.active.S().Sign() > 0 {
			mc.rec.Label("slash-active-to-zero-with-shares")
		}
		if mc.debonding.B().Sign() == 0 && mc.debonding.S().Sign() > 0 {
			mc.rec.Label("slash-debonding-to-zero-with-shares")
		}
	}
	mc.invariants("after slash")
}

const ruleOps = "case = rapid state machine over one escrow account (active + debonding SharePool) with 2-5 delegators (holder 0 is the entity); " +
	"initial pools drawn from {empty, 1:1, balance>>shares, shares>>balance, one base unit, 2^64+-1, 2^128 scale, zero balance with outstanding shares, balance without shares, generic, near par}; " +
	"actions performed exactly as the staking app does, on copies stored on success: AddEscrow (Deposit from the general balance), ReclaimEscrow (Withdraw + Deposit into the debonding pool, zero shares rejected), " +
	"epoch transition (debonding delegations whose end epoch came are redeemed in full), reward (balance += r, no shares) with commission deposited for the entity, slash min(B, floor(B*amount/total)) of both pools; " +
	"amounts 0, 1, all, more than owned, rounding boundaries m*B/S+-1, up to 2^140; oracle (exact math/big): k*B <= D*S < (k+1)*B, k = D when S = 0, failure iff B = 0 < S or source short; p*S <= x*B < (p+1)*S, failure iff more than owned; " +
	"exact bookkeeping of balances and shares; every other claim's rational value s*B/S and the share price never decrease by a deposit/redemption/reward; the actor's wealth never increases by its own operation; " +
	"TotalShares = sum of claims; balance = initial + in + rewards - slashed - out; total supply conserved; " +
	"non-trivial = a successful deposit or redemption on a pool with >= 2 share-holding delegators and B != S, after >= 1 effective reward or slash in the history; distinct = hash of initial state and operation trace"

func TestC15PoolOps(t *testing.T) {
	rec := ev.New("C15", "TestC15PoolOps", ruleOps,
		"callers work on copies of the state and store them only when the whole operation succeeded (API: after an error the pool is left in an invalid state)",
		"a pool with balance but no shares gives the whole balance to the first depositor (counted, per-account clause not asserted)",
		"layer 1 only: the multiplexer, events and the debonding queue are not exercised")
	defer rec.Flush()
	var cur *machine
	ev.Trace = func() any {
		if cur == nil {
			return nil
		}
		return map[string]any{"init": cur.init, "trace": cur.trace}
	}
	rapid.Check(t, func(t *rapid.T) {
		mc := &machine{t: t, rec: rec, interval: uint64(rapid.IntRange(1, 2).Draw(t, "debondingInterval"))}
		cur = mc
		mc.n = rapid.IntRange(2, 5).Draw(t, "holders")
		ab, as, akind := drawPool(t, "active", poolKinds)
		db, ds, dkind := drawPool(t, "debonding", []string{"empty", "empty", "1:1", "generic", "slashed-to-zero", "balance>>shares", "shares>>balance", "2^128"})
		mc.active = &pool{name: "active", sp: newPool(ab, as), initial: ab, paidIn: bn(0), paidOut: bn(0), rewards: bn(0), slashed: bn(0)}
		mc.debonding = &pool{name: "debonding", sp: newPool(db, ds), initial: db, paidIn: bn(0), paidOut: bn(0), rewards: bn(0), slashed: bn(0)}
		for i, s := range splitShares(t, "active", as, mc.n) {
			mc.active.claims = append(mc.active.claims, &claim{owner: i, shares: nq(s)})
		}
		if ds.Sign() > 0 {
			nd := rapid.IntRange(1, 3).Draw(t, "debClaims")
			for _, s := range splitShares(t, "deb", ds, nd) {
				mc.debonding.claims = append(mc.debonding.claims, &claim{owner: rapid.IntRange(0, mc.n-1).Draw(t, "debOwner"),
					shares: nq(s), end: uint64(rapid.IntRange(1, 3).Draw(t, "debEnd"))})
			}
		}
		mc.supply = add(ab, db)
		var gen []string
		for i := 0; i < mc.n; i++ {
			var g *big.Int
			switch rapid.IntRange(0, 9).Draw(t, "generalKind") {
			case 0:
				g = bn(0)
			case 1, 2, 3:
				g = drawBig(t, "general")
			default:
				g = new(big.Int).Set(rich)
			}
			mc.general = append(mc.general, nq(g))
			mc.supply.Add(mc.supply, g)
			gen = append(gen, g.String())
		}
		mc.common = nq(new(big.Int).Lsh(bigOne, 160))
		mc.supply.Add(mc.supply, bi(mc.common))
		var sh []string
		for _, c := range mc.active.claims {
			sh = append(sh, bi(c.shares).String())
		}
		var dsh []string
		for _, c := range mc.debonding.claims {
			dsh = append(dsh, fmt.Sprintf("h%d:%v@%d", c.owner, bi(c.shares), c.end))
		}
		mc.init = fmt.Sprintf("active %s %v/%v shares=%v; debonding %s %v/%v claims=%v; general=%v; interval=%d", akind, ab, as, sh, dkind, db, ds, dsh, gen, mc.interval)
		rec.Label("init-active:" + akind)
		mc.invariants("initially")

		t.Repeat(map[string]func(*rapid.T){
			"addEscrow":  mc.addEscrow,
			"addEscrow2": mc.addEscrow,
			"addEscrow3": mc.addEscrow,
			"reclaim":    mc.reclaim,
			"reclaim2":   mc.reclaim,
			"reclaim3":   mc.reclaim,
			"reward2":    mc.reward,
			"epoch":      mc.epochTick,
			"reward":     mc.reward,
			"slash":      mc.slash,
		})

		if mc.nontrivial {
			rec.Label("nontrivial-history")
		}
		var sample any
		if mc.nontrivial && rec.WantSample() {
			sample = map[string]any{"init": mc.init, "trace": mc.trace}
		}
		rec.Case(mc.nontrivial, ev.Fingerprint(mc.init, strings.Join(mc.trace, ";")), sample)
	})
}

// ---------------------------------------------------------------------------------------------
// round trips and split/merge

const ruleRT = "case = generated pool (B, S) of the same kinds as TestC15PoolOps plus amounts at the rounding boundaries, three sub-checks on fresh copies: " +
	"(a) deposit D then redeem the minted shares: pays p <= D and D - p < B/S + 1 (pool without shares and balance: p = D; balance without shares: counted); " +
	"(b) a holder of x of the S shares redeems them and re-deposits the payment: obtains k2 <= x shares worth <= the payment (sole holder / emptied pool counted), and StakeForShares(x) = floor(x*B/S); " +
	"(c) depositing a+b at once mints >= shares than depositing a then b (floor arithmetic: k_a + k_b <= (a+b)*S/B); " +
	"non-trivial = B > 0, S > 0, B != S and at least one of the divisions in the case had a non-zero remainder; distinct = hash of the drawn numbers"

func TestC15RoundTrip(t *testing.T) {
	rec := ev.New("C15", "TestC15RoundTrip", ruleRT,
		"a deposit into a pool with zero balance and outstanding shares must fail (documented in sharesForStake)")
	defer rec.Flush()
	var curCase string
	ev.Trace = func() any { return curCase }
	rapid.Check(t, func(t *rapid.T) {
		b, s, kind := drawPool(t, "pool", poolKinds)
		d := drawStakeAmount(t, "d", b, s, rich)
		x := drawShareAmount(t, "x", b, s, s)
		if x.Cmp(s) > 0 {
			x = new(big.Int).Set(s)
		}
		a := drawStakeAmount(t, "a", b, s, rich)
		c := drawStakeAmount(t, "c", b, s, rich)
		curCase = fmt.Sprintf("pool %s (B,S)=%v/%v D=%v x=%v a=%v b=%v", kind, b, s, d, x, a, c)
		fail := func(sig, format string, args ...any) {
			ev.Violation(t, sig, format+"; case: %s", append(args, curCase)...)
		}
		rounded := false
		rem := func(n, m *big.Int) {
			if m.Sign() > 0 && new(big.Int).Rem(n, m).Sign() != 0 {
				rounded = true
			}
		}
		rec.Label("pool:" + kind)
		slashed := s.Sign() > 0 && b.Sign() == 0

		// (a) deposit then redeem
		{
			p := newPool(b, s)
			src, shares := nq(d), quantity.NewQuantity()
			k, err := p.Deposit(shares, src, nq(d))
			switch {
			case slashed:
				if err == nil {
					fail("deposit-into-slashed-pool", "deposit of %v into a pool with zero balance and %v shares succeeded (minted %v)", d, s, bi(k))
				}
				rec.Label("a:deposit-refused-slashed-pool")
			case err != nil:
				fail("unexpected-failure", "deposit of %v failed: %v", d, err)
			default:
				kk := bi(k)
				if !src.IsZero() || bi(shares).Cmp(kk) != 0 || bi(&p.Balance).Cmp(add(b, d)) != 0 || bi(&p.TotalShares).Cmp(add(s, kk)) != 0 {
					fail("bookkeeping", "deposit of %v minted %v: pool %v/%v, source %v, holder shares %v", d, kk, bi(&p.Balance), bi(&p.TotalShares), bi(src), bi(shares))
				}
				if s.Sign() > 0 {
					if mul(kk, b).Cmp(mul(d, s)) > 0 {
						fail("deposit-overmint", "deposit of %v minted %v shares: k*B > D*S", d, kk)
					}
					rem(mul(d, s), b)
				}
				b1, s1 := bi(&p.Balance), bi(&p.TotalShares)
				var dst quantity.Quantity
				if err = p.Withdraw(&dst, shares, nq(kk)); err != nil {
					fail("unexpected-failure", "redeeming the %v shares just minted failed: %v", kk, err)
				}
				paid := bi(&dst)
				rem(mul(kk, b1), s1)
				if !shares.IsZero() || bi(&p.TotalShares).Cmp(s) != 0 || bi(&p.Balance).Cmp(sub(b1, paid)) != 0 {
					fail("bookkeeping", "redeeming %v shares paid %v: pool %v/%v -> %v/%v, holder shares left %v", kk, paid, b1, s1, bi(&p.Balance), bi(&p.TotalShares), bi(shares))
				}
				switch {
				case s.Sign() > 0:
					if paid.Cmp(d) > 0 {
						fail("roundtrip-gain", "deposit of %v then redemption of the %v minted shares paid %v > deposit", d, kk, paid)
					}
					// loss D - p < B/S + 1  <=>  (D - p - 1) * S < B
					if mul(sub(sub(d, paid), bigOne), s).Cmp(b) >= 0 {
						fail("roundtrip-loss", "deposit of %v then redemption of the %v minted shares paid only %v: loss %v >= one share's price B/S + 1", d, kk, paid, sub(d, paid))
					}
					if paid.Cmp(d) < 0 {
						rec.Label("a:roundtrip-loses-dust")
					}
				case b.Sign() == 0:
					if paid.Cmp(d) != 0 {
						fail("roundtrip-empty-pool", "deposit of %v into the empty pool then redemption paid %v", d, paid)
					}
				default:
					rec.Label("a:first-depositor-takes-orphan-balance")
					if d.Sign() > 0 && paid.Cmp(add(b, d)) != 0 {
						fail("bookkeeping", "sole holder of a pool holding %v redeemed all shares for %v", add(b, d), paid)
					}
				}
			}
		}

		// (b) redeem then re-deposit
		if s.Sign() > 0 {
			p := newPool(b, s)
			got, err := p.StakeForShares(nq(x))
			if err != nil {
				fail("unexpected-failure", "StakeForShares(%v) failed: %v", x, err)
			}
			want := quo(mul(x, b), s)
			if bi(got).Cmp(want) != 0 {
				// p*S <= x*B < (p+1)*S has exactly one solution
				sig := "redeem-underpay"
				if bi(got).Cmp(want) > 0 {
					sig = "redeem-overpay"
				}
				fail(sig, "StakeForShares(%v) = %v, pro rata is %v", x, bi(got), want)
			}
			if bi(&p.Balance).Cmp(b) != 0 || bi(&p.TotalShares).Cmp(s) != 0 {
				fail("bookkeeping", "StakeForShares modified the pool")
			}
			rem(mul(x, b), s)
			shares := nq(x)
			var wallet quantity.Quantity
			if err = p.Withdraw(&wallet, shares, nq(x)); err != nil {
				fail("unexpected-failure", "redeeming %v of %v shares failed: %v", x, s, err)
			}
			paid := bi(&wallet)
			if mul(paid, s).Cmp(mul(x, b)) > 0 {
				fail("redeem-overpay", "redeeming %v shares paid %v: p*S > x*B", x, paid)
			}
			if paid.Cmp(bi(got)) != 0 {
				fail("bookkeeping", "Withdraw paid %v, StakeForShares said %v", paid, bi(got))
			}
			b1, s1 := bi(&p.Balance), bi(&p.TotalShares)
			k2, err := p.Deposit(shares, &wallet, nq(paid))
			switch {
			case s1.Sign() > 0 && b1.Sign() == 0:
				if err == nil {
					fail("deposit-into-slashed-pool", "re-deposit of %v into the pool %v/%v succeeded", paid, b1, s1)
				}
				rec.Label("b:redeposit-refused-zero-balance")
			case err != nil:
				fail("unexpected-failure", "re-deposit of %v into the pool %v/%v failed: %v", paid, b1, s1, err)
			case s1.Sign() == 0:
				rec.Label("b:sole-holder")
				if bi(k2).Cmp(paid) != 0 {
					fail("first-deposit-rate", "deposit of %v into the emptied pool minted %v", paid, bi(k2))
				}
			default:
				rem(mul(paid, s1), b1)
				if bi(k2).Cmp(x) > 0 {
					fail("roundtrip-gain", "redeeming %v shares and re-depositing the %v paid gave %v shares", x, paid, bi(k2))
				}
				// the new shares are worth no more than what was paid in
				v, err := p.StakeForShares(shares)
				if err != nil {
					fail("unexpected-failure", "StakeForShares failed: %v", err)
				}
				if bi(v).Cmp(paid) > 0 {
					fail("roundtrip-gain", "re-deposited %v, the shares obtained are redeemable for %v", paid, bi(v))
				}
				if bi(k2).Cmp(x) < 0 {
					rec.Label("b:redeposit-loses-shares")
				}
			}
		}

		// (c) split / merge
		if !slashed {
			p1 := newPool(b, s)
			sh1 := quantity.NewQuantity()
			kab, err := p1.Deposit(sh1, nq(add(a, c)), nq(add(a, c)))
			if err != nil {
				fail("unexpected-failure", "deposit of %v failed: %v", add(a, c), err)
			}
			p2 := newPool(b, s)
			sh2 := quantity.NewQuantity()
			ka, err := p2.Deposit(sh2, nq(a), nq(a))
			if err != nil {
				fail("unexpected-failure", "deposit of %v failed: %v", a, err)
			}
			bm, sm := bi(&p2.Balance), bi(&p2.TotalShares)
			var kc *quantity.Quantity
			if sm.Sign() > 0 && bm.Sign() == 0 {
				// only possible for a = 0 into the empty pool... which keeps S = 0; never happens
				fail("bookkeeping", "pool %v/%v after a deposit", bm, sm)
			}
			kc, err = p2.Deposit(sh2, nq(c), nq(c))
			if err != nil {
				fail("unexpected-failure", "deposit of %v into %v/%v failed: %v", c, bm, sm, err)
			}
			rem(mul(a, s), b)
			rem(mul(c, sm), bm)
			rem(mul(add(a, c), s), b)
			split := add(bi(ka), bi(kc))
			if bi(kab).Cmp(split) < 0 {
				fail("split-gain", "depositing %v then %v minted %v+%v shares, more than the %v minted by depositing the sum at once", a, c, bi(ka), bi(kc), bi(kab))
			}
			if bi(&p1.Balance).Cmp(bi(&p2.Balance)) != 0 || bi(sh2).Cmp(split) != 0 {
				fail("bookkeeping", "split deposit: balances %v vs %v, holder shares %v vs %v", bi(&p1.Balance), bi(&p2.Balance), bi(sh2), split)
			}
			if bi(kab).Cmp(split) > 0 {
				rec.Label("c:split-mints-fewer")
			}
		}

		nontrivial := b.Sign() > 0 && s.Sign() > 0 && b.Cmp(s) != 0 && rounded
		var sample any
		if nontrivial && rec.WantSample() {
			sample = curCase
		}
		rec.Case(nontrivial, ev.Fingerprint(b.String(), s.String(), d.String(), x.String(), a.String(), c.String()), sample)
	})
}

// ---------------------------------------------------------------------------------------------
// slashing through the real MutableState.SlashEscrow over an in-memory mock application state

const ruleSlash = "case = escrow account with generated active and debonding pools (all kinds, including empty and zero balance with shares), slash amount in {fraction of the total, total, total+-1, more, 0, 1, magnitudes}, " +
	"stored in an in-memory mock application state and slashed by the real MutableState.SlashEscrow; oracle (exact): shares of both pools unchanged; each pool loses t_i with |t_i - min(amount,total)*B_i/total| < 1 " +
	"(same fraction up to one base unit), t_i <= B_i, t_a + t_d <= amount, returned amount = t_a + t_d = growth of the common pool; nothing changes when the total is zero; " +
	"non-trivial = both pools with balance, 0 < amount < total and amount*B_active not divisible by the total; distinct = hash of the drawn numbers"

func TestC15Slash(t *testing.T) {
	rec := ev.New("C15", "TestC15Slash", ruleSlash,
		"mock application state (in-memory MKVS tree), no consensus engine; events are not inspected")
	defer rec.Flush()
	var curCase string
	ev.Trace = func() any { return curCase }
	addr := staking.NewAddress(signature.NewPublicKey(strings.Repeat("c1", 32)))
	appState := abciAPI.NewMockApplicationState(&abciAPI.MockApplicationStateConfig{})
	rapid.Check(t, func(t *rapid.T) {
		ab, as, akind := drawPool(t, "active", poolKinds)
		db, ds, dkind := drawPool(t, "debonding", poolKinds)
		total := add(ab, db)
		var amount *big.Int
		switch rapid.IntRange(0, 8).Draw(t, "slashKind") {
		case 0, 1:
			amount = quo(mul(total, bn(int64(rapid.IntRange(1, 9999).Draw(t, "bp")))), bn(10000))
		case 2:
			amount = new(big.Int).Set(total)
		case 3:
			amount = add(total, drawNonZero(t, "over"))
		case 4:
			amount = sub(total, bigOne)
			if amount.Sign() < 0 {
				amount = bn(0)
			}
		case 5:
			amount = bn(int64(rapid.IntRange(0, 3).Draw(t, "tiny")))
		default:
			amount = drawBig(t, "amount")
		}
		common := drawBig(t, "common")
		curCase = fmt.Sprintf("active %s %v/%v debonding %s %v/%v amount=%v common=%v", akind, ab, as, dkind, db, ds, amount, common)
		fail := func(sig, format string, args ...any) {
			ev.Violation(t, sig, format+"; case: %s", append(args, curCase)...)
		}

		ctx := appState.NewContext(abciAPI.ContextEndBlock)
		defer ctx.Close()
		st := stakingState.NewMutableState(ctx.State())
		acct := &staking.Account{}
		acct.Escrow.Active = *newPool(ab, as)
		acct.Escrow.Debonding = *newPool(db, ds)
		if err := st.SetAccount(ctx, addr, acct); err != nil {
			ev.Infra(t, "SetAccount: %v", err)
		}
		if err := st.SetCommonPool(ctx, nq(common)); err != nil {
			ev.Infra(t, "SetCommonPool: %v", err)
		}
		ret, err := st.SlashEscrow(ctx, addr, nq(amount))
		if err != nil {
			fail("unexpected-failure", "SlashEscrow failed: %v", err)
		}
		after, err := st.Account(ctx, addr)
		if err != nil {
			ev.Infra(t, "Account: %v", err)
		}
		commonAfterQ, err := st.CommonPool(ctx)
		if err != nil {
			ev.Infra(t, "CommonPool: %v", err)
		}
		ab2, as2 := bi(&after.Escrow.Active.Balance), bi(&after.Escrow.Active.TotalShares)
		db2, ds2 := bi(&after.Escrow.Debonding.Balance), bi(&after.Escrow.Debonding.TotalShares)
		if as2.Cmp(as) != 0 || ds2.Cmp(ds) != 0 {
			fail("slash-shares", "slashing changed the shares: active %v -> %v, debonding %v -> %v", as, as2, ds, ds2)
		}
		ta, td := sub(ab, ab2), sub(db, db2)
		if ta.Sign() < 0 || td.Sign() < 0 || ab2.Sign() < 0 || db2.Sign() < 0 {
			fail("slash-overtake", "slashing: active balance %v -> %v, debonding balance %v -> %v", ab, ab2, db, db2)
		}
		sum := add(ta, td)
		if bi(ret).Cmp(sum) != 0 {
			fail("slash-accounting", "SlashEscrow returned %v, the pools lost %v+%v", bi(ret), ta, td)
		}
		if sub(bi(commonAfterQ), common).Cmp(sum) != 0 {
			fail("slash-accounting", "the pools lost %v+%v, the common pool went %v -> %v", ta, td, common, bi(commonAfterQ))
		}
		if sum.Cmp(amount) > 0 {
			fail("slash-overtake", "slashed %v+%v > requested amount %v", ta, td, amount)
		}
		if total.Sign() == 0 {
			rec.Label("nothing-to-slash")
		} else {
			eff := minBig(amount, total)
			for _, pl := range []struct {
				name  string
				b, tk *big.Int
			}{{"active", ab, ta}, {"debonding", db, td}} {
				// |tk - eff*b/total| < 1  <=>  |tk*total - eff*b| < total
				diff := sub(mul(pl.tk, total), mul(eff, pl.b))
				if diff.CmpAbs(total) >= 0 {
					fail("slash-fraction", "%s pool lost %v of %v; pro rata of amount %v over total %v is %v (more than one base unit off)",
						pl.name, pl.tk, pl.b, amount, total, new(big.Rat).SetFrac(mul(eff, pl.b), total).FloatString(3))
				}
				if pl.tk.Cmp(quo(mul(amount, pl.b), total)) == 0 || (pl.tk.Cmp(pl.b) == 0 && amount.Cmp(total) >= 0) {
					rec.Label("took-floor-pro-rata")
				} else {
					rec.Label("took-not-floor")
				}
			}
			if amount.Cmp(total) >= 0 {
				if ab2.Sign() != 0 || db2.Sign() != 0 {
					fail("slash-fraction", "slashing %v >= total %v left balances %v and %v", amount, total, ab2, db2)
				}
				rec.Label("slashed-everything")
				if as.Sign() > 0 && ab.Sign() > 0 {
					rec.Label("zero-balance-with-outstanding-shares-produced")
				}
			}
			if sum.Cmp(eff) < 0 {
				rec.Label("slashed-one-unit-less-than-requested")
			}
		}
		rec.Label("active:" + akind)
		nontrivial := ab.Sign() > 0 && db.Sign() > 0 && amount.Sign() > 0 && amount.Cmp(total) < 0 &&
			new(big.Int).Rem(mul(amount, ab), total).Sign() != 0
		var sample any
		if nontrivial && rec.WantSample() {
			sample = map[string]any{"case": curCase, "active_lost": ta.String(), "debonding_lost": td.String()}
		}
		rec.Case(nontrivial, ev.Fingerprint(ab.String(), as.String(), db.String(), ds.String(), amount.String(), common.String()), sample)
	})
}
