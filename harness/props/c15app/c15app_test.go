// Package c15app decides the history part of property C15 on the real staking application: a reclaimed
// delegation is paid out exactly once, at the first epoch transition at or after its debonding end epoch and
// not before, at the debonding pool's price.
package c15app

import (
	"errors"
	"fmt"
	"math/big"
	"sort"
	"strings"
	"testing"

	"pgregory.net/rapid"

	beacon "github.com/oasisprotocol/oasis-core/go/beacon/api"
	staking "github.com/oasisprotocol/oasis-core/go/staking/api"

	"verifharness/chain"
	"verifharness/ev"
)

const rule = "case = generated production-mode genesis (debonding delegations whose end epoch is before, at and after the genesis base epoch - a genesis restored from a dump; delegations with share price != 1; slashing table) + 10-60 blocks (quick) " +
	"of generated transactions weighted towards AddEscrow / ReclaimEscrow by several delegators into the same escrow accounts, with misbehaviour evidence (slashing both pools) and epoch transitions. oracle = a reference ledger of debonding delegations kept by the harness " +
	"(from the genesis document, then from the committed state) and the payout events of every block: (1) not before: a debonding delegation whose end epoch is later than the epoch after the block is still there with at least its shares; " +
	"(2) at the first transition at or after: when the epoch changed in the block, no delegation with end epoch <= new epoch remains; (3) exactly once: every payout event (ReclaimEscrowEvent) consumes one distinct matured ledger entry of the same delegator, escrow and share count, and every matured entry that disappeared has one; " +
	"(4) price: walking the block's payouts of one escrow account backwards from the committed debonding pool, each amount == floor(shares * balance / totalShares) of the pool as it was at that payout; (5) the delegator's general balance moves by the payouts. " +
	"non-trivial = history in which a delegation created by an in-chain ReclaimEscrow is paid out AND a payout happens from a pool holding more than one debonding delegation; distinct = hash of spec and block hashes"

type entry struct {
	owner, escrow staking.Address
	end           beacon.EpochTime
}

type ledger map[entry]*big.Int

func ledgerOf(m map[staking.Address]map[staking.Address][]*staking.DebondingDelegation) ledger {
	l := ledger{}
	for esc, byOwner := range m {
		for owner, list := range byOwner {
			for _, d := range list {
				k := entry{owner, esc, d.DebondEndTime}
				if l[k] == nil {
					l[k] = new(big.Int)
				}
				l[k].Add(l[k], d.Shares.ToBigInt())
			}
		}
	}
	return l
}

func (l ledger) sorted() []entry {
	var out []entry
	for k := range l {
		out = append(out, k)
	}
	sort.Slice(out, func(i, j int) bool {
		a, b := out[i], out[j]
		if a.end != b.end {
			return a.end < b.end
		}
		if a.escrow != b.escrow {
			return string(a.escrow[:]) < string(b.escrow[:])
		}
		return string(a.owner[:]) < string(b.owner[:])
	})
	return out
}

func TestC15Debonding(t *testing.T) {
	rec := ev.New("C15", "TestC15Debonding", rule,
		"observed at block boundaries plus the block's events; epochs advance by one inside the chain (production beacon), skipped end epochs come from the genesis document",
		"production-mode genesis; feasible commits; anchor validator keeps the election precondition")
	defer rec.Flush()
	var cur *chain.Sim
	var curSpec *chain.Spec
	ev.Trace = func() any {
		if cur == nil {
			return nil
		}
		return map[string]any{"spec": curSpec, "trace": cur.Trace}
	}
	rapid.Check(t, func(t *rapid.T) {
		spec := chain.GenSpec(t)
		// this check is about debonding: always some genesis debonding delegations, short debonding period
		for len(spec.Debonding) < 3 {
			spec.Debonding = append(spec.Debonding, [3]uint64{
				uint64(rapid.IntRange(0, spec.NUsers-1).Draw(t, "ddUser")),
				uint64(rapid.IntRange(0, spec.NEntities-1).Draw(t, "ddEntity")),
				uint64(rapid.SampledFrom([]int{1, 7, 1000, 123456}).Draw(t, "ddAmount")),
			})
		}
		curSpec = spec
		w0, err := chain.BuildGenesis(spec)
		if err != nil {
			ev.Infra(t, "build genesis: %v", err)
		}
		sim, err := chain.NewSim(spec, []chain.ReplicaConfig{{Name: "R0", Backend: rapid.SampledFrom(chain.Backends).Draw(t, "backend"), MemoryOnly: true,
			Keys: w0.Entities[0].Nodes[0]}})
		if err != nil {
			var ig chain.ErrInvalidGenesis
			if errors.As(err, &ig) {
				rec.Discard("invalid-genesis")
				return
			}
			var ec chain.ErrEngineContract
			if errors.As(err, &ec) {
				rec.Discard("engine-contract-at-genesis:" + chain.Why(ec.Err)) // C10 / C14 report it
				return
			}
			ev.Infra(t, "new sim: %v", err)
		}
		cur = sim
		defer sim.Close()
		sim.Profile = "debond"
		r := sim.Reps[0]
		fail := func(sig, format string, args ...any) {
			ev.Violation(t, sig, "%s; spec=%+v trace=%v", fmt.Sprintf(format, args...), *spec, tail(sim.Trace, 30))
		}
		snapshot := func() (*chain.StakingSnapshot, beacon.EpochTime) {
			v, err := chain.NewView(r)
			if err != nil {
				ev.Infra(t, "view: %v", err)
			}
			defer v.Close()
			snap, err := v.Snapshot()
			if err != nil {
				fail("state-unreadable", "cannot read staking state: %v", err)
			}
			return snap, v.Epoch
		}

		// reference ledger before the first block: the genesis document
		pre := ledgerOf(sim.W.Doc.Staking.DebondingDelegations)
		preGeneral := map[staking.Address]*big.Int{}
		for a, acct := range sim.W.Doc.Staking.Ledger {
			preGeneral[a] = acct.General.Balance.ToBigInt()
		}
		preEpoch := sim.W.Doc.Beacon.Base
		first := true
		created := map[entry]bool{} // entries created by an in-chain ReclaimEscrow
		paidCreated, paidShared, payouts, pastDue := false, false, 0, 0
		for k := range pre {
			if k.end <= preEpoch {
				pastDue++
			}
		}
		nblocks := rapid.IntRange(10, ev.Pick(60, 200)).Draw(t, "nblocks")
		var fp []any
		fp = append(fp, fmt.Sprintf("%+v", *spec))
		for bi := 0; bi < nblocks; bi++ {
			view, err := chain.NewView(r)
			if err != nil {
				ev.Infra(t, "view: %v", err)
			}
			bg := sim.GenBlock(t, view, ev.Pick(8, 12))
			view.Close()
			b := bg.Block
			if _, err := sim.E.Propose(b, r, r); err != nil {
				rec.Discard("proposal-failed:" + firstWords(err.Error(), 12))
				return
			}
			out := sim.E.Execute(r, b, chain.PathProcess, nil)
			if out.Err != nil || !out.Accepted {
				rec.Discard("block-failed:" + firstWords(fmt.Sprint(out.Err), 8))
				return
			}
			fp = append(fp, b.Hash)
			snap, epoch := snapshot()
			post := ledgerOf(snap.Debonding)
			changed := epoch != preEpoch

			// the block's events
			type payout struct {
				e      staking.ReclaimEscrowEvent
				where  string
				amount *big.Int
				shares *big.Int
			}
			var pays []payout
			scanPay := func(where string) func(raw string) {
				return func(raw string) {
					var e staking.ReclaimEscrowEvent
					if err := chain.DecodeEvent(raw, &e); err != nil {
						fail("event-undecodable", "block %d: %v", b.Height, err)
					}
					pays = append(pays, payout{e, where, e.Amount.ToBigInt(), e.Shares.ToBigInt()})
				}
			}
			kind := (&staking.ReclaimEscrowEvent{}).EventKind()
			chain.StakingEventsOf(out.BeginBlock.Events, kind, scanPay("begin"))
			for _, res := range out.TxResults {
				chain.StakingEventsOf(res.Events, kind, scanPay("tx"))
			}
			chain.StakingEventsOf(out.EndBlock.Events, kind, scanPay("end"))
			starts := map[entry]*big.Int{}
			for j, res := range out.TxResults {
				if res.Code != 0 {
					continue
				}
				_ = j
				chain.StakingEventsOf(res.Events, (&staking.DebondingStartEscrowEvent{}).EventKind(), func(raw string) {
					var e staking.DebondingStartEscrowEvent
					if err := chain.DecodeEvent(raw, &e); err != nil {
						fail("event-undecodable", "block %d: %v", b.Height, err)
					}
					k := entry{e.Owner, e.Escrow, e.DebondEndTime}
					if starts[k] == nil {
						starts[k] = new(big.Int)
					}
					starts[k].Add(starts[k], e.DebondingShares.ToBigInt())
					created[k] = true
				})
			}

			// (3) exactly once: every payout consumes one distinct matured ledger entry
			remaining := map[entry]*big.Int{}
			for k, v := range pre {
				remaining[k] = new(big.Int).Set(v)
			}
			paidTo := map[staking.Address]*big.Int{}
			for _, p := range pays {
				if !changed && !first {
					fail("paid-without-transition", "block %d: payout of %s shares to %s from %s in a block without an epoch transition (epoch %d)", b.Height, p.shares, p.e.Owner, p.e.Escrow, epoch)
				}
				var hit *entry
				for _, k := range pre.sorted() {
					if k.owner == p.e.Owner && k.escrow == p.e.Escrow && k.end <= epoch && remaining[k] != nil && remaining[k].Cmp(p.shares) == 0 {
						kk := k
						hit = &kk
						break
					}
				}
				if hit == nil {
					var early []string
					for _, k := range pre.sorted() {
						if k.owner == p.e.Owner && k.escrow == p.e.Escrow {
							early = append(early, fmt.Sprintf("end=%d shares=%s consumed=%v", k.end, pre[k], remaining[k] == nil))
						}
					}
					fail("payout-without-matured-delegation", "block %d (epoch %d -> %d): payout of %s shares (%s base units) to %s from %s matches no unconsumed matured debonding delegation; ledger entries of the pair: %v",
						b.Height, preEpoch, epoch, p.shares, p.amount, p.e.Owner, p.e.Escrow, early)
				}
				if created[*hit] {
					paidCreated = true
				}
				delete(remaining, *hit)
				payouts++
				if paidTo[p.e.Owner] == nil {
					paidTo[p.e.Owner] = new(big.Int)
				}
				paidTo[p.e.Owner].Add(paidTo[p.e.Owner], p.amount)
			}
			for _, k := range pre.sorted() {
				_, unconsumed := remaining[k]
				switch {
				case k.end > epoch:
					// (1) not before
					want := pre[k]
					if post[k] == nil || post[k].Cmp(want) < 0 {
						fail("paid-or-lost-before-end", "block %d (epoch %d): debonding delegation %s -> %s end=%d shares=%s is now %v", b.Height, epoch, k.owner, k.escrow, k.end, want, post[k])
					}
					if add := starts[k]; add != nil {
						want = new(big.Int).Add(want, add)
					}
					if post[k].Cmp(want) != 0 {
						fail("debonding-shares-changed", "block %d: debonding delegation %s -> %s end=%d has %s shares, expected %s", b.Height, k.owner, k.escrow, k.end, post[k], want)
					}
				case changed:
					// (2) at the first transition at or after the end epoch
					if post[k] != nil {
						fail("matured-not-removed", "block %d (epoch %d -> %d): debonding delegation %s -> %s end=%d shares=%s still exists after the transition (paid in this block: %v)", b.Height, preEpoch, epoch, k.owner, k.escrow, k.end, post[k], !unconsumed)
					}
					if unconsumed {
						fail("matured-removed-without-payout", "block %d (epoch %d -> %d): debonding delegation %s -> %s end=%d shares=%s disappeared without a payout event", b.Height, preEpoch, epoch, k.owner, k.escrow, k.end, pre[k])
					}
				default:
					// matured but no transition in this block: it either stays (paid at the next transition) or, in the
					// chain's first block, was paid
					if unconsumed && (post[k] == nil || post[k].Cmp(pre[k]) != 0) {
						fail("matured-lost", "block %d: matured debonding delegation %s -> %s end=%d shares=%s changed to %v without a payout", b.Height, k.owner, k.escrow, k.end, pre[k], post[k])
					}
					if !unconsumed && post[k] != nil {
						fail("matured-not-removed", "block %d: debonding delegation %s -> %s end=%d was paid but still exists with %s shares", b.Height, k.owner, k.escrow, k.end, post[k])
					}
				}
			}
			for k, v := range post {
				if pre[k] == nil {
					if starts[k] == nil || starts[k].Cmp(v) != 0 {
						fail("debonding-from-nowhere", "block %d: new debonding delegation %s -> %s end=%d shares=%s but the block's ReclaimEscrow transactions started %v", b.Height, k.owner, k.escrow, k.end, v, starts[k])
					}
					if k.end <= epoch {
						fail("debonding-starts-matured", "block %d (epoch %d): new debonding delegation ends at %d", b.Height, epoch, k.end)
					}
				}
			}

			// (4) price: walk the payouts of each escrow account backwards from the committed debonding pool
			byEscrow := map[staking.Address][]payout{}
			for _, p := range pays {
				byEscrow[p.e.Escrow] = append(byEscrow[p.e.Escrow], p)
			}
			for esc, list := range byEscrow {
				acct := snap.Accounts[esc]
				bal, tot := new(big.Int), new(big.Int)
				if acct != nil {
					bal, tot = acct.Escrow.Debonding.Balance.ToBigInt(), acct.Escrow.Debonding.TotalShares.ToBigInt()
				}
				holders := 0
				for k := range pre {
					if k.escrow == esc {
						holders++
					}
				}
				if holders > 1 {
					paidShared = true
				}
				for i := len(list) - 1; i >= 0; i-- {
					p := list[i]
					bal.Add(bal, p.amount)
					tot.Add(tot, p.shares)
					if p.shares.Sign() == 0 {
						// (reclaiming active shares worth less than one base unit starts a debonding delegation of zero shares)
						if p.amount.Sign() != 0 {
							fail("payout-not-at-pool-price", "block %d: payout of zero shares paid %s base units", b.Height, p.amount)
						}
						continue
					}
					want := new(big.Int).Mul(p.shares, bal)
					want.Quo(want, tot)
					if want.Cmp(p.amount) != 0 {
						fail("payout-not-at-pool-price", "block %d: payout %d of escrow %s: %s shares paid %s base units, but the debonding pool held %s base units for %s shares at that point (pro-rata worth %s)",
							b.Height, i, esc, p.shares, p.amount, bal, tot, want)
					}
				}
			}

			// (5) general balances of delegators that did nothing else in this block move by their payouts
			signers := map[staking.Address]bool{}
			touched := false
			for _, d := range bg.Txs {
				signers[d.Addr] = true
				switch string(d.Method) {
				case "staking.Transfer", "staking.Withdraw", "staking.Burn", "staking.AddEscrow", "staking.Allow", "staking.ReclaimEscrow", "staking.AmendCommissionSchedule":
				default:
					touched = true // other methods may move funds of third parties (governance deposits, vault actions)
				}
			}
			_ = touched
			preGeneral2 := map[staking.Address]*big.Int{}
			for a, acct := range snap.Accounts {
				preGeneral2[a] = acct.General.Balance.ToBigInt()
			}
			if !first {
				for owner, amt := range paidTo {
					before := preGeneral[owner]
					if before == nil {
						before = new(big.Int)
					}
					after := preGeneral2[owner]
					if after == nil {
						after = new(big.Int)
					}
					// a lower bound that holds whatever else happened to the account in this block cannot be stated
					// (it may have spent); an account that signed nothing and received nothing else gains exactly the payouts
					if !signers[owner] && len(bg.Txs) == 0 && len(b.Misbehavior) == 0 {
						gain := new(big.Int).Sub(after, before)
						if gain.Cmp(amt) < 0 {
							fail("payout-not-credited", "block %d: %s was paid %s base units by events but its general balance went from %s to %s", b.Height, owner, amt, before, after)
						}
					}
				}
			}
			preGeneral = preGeneral2

			sim.Logf("h=%d epoch=%d txs=%d payouts=%d starts=%d ledger=%d", b.Height, epoch, len(bg.Txs), len(pays), len(starts), len(post))
			pre, preEpoch, first = post, epoch, false
			if err := sim.AfterCommit(b, out); err != nil {
				rec.Discard("engine-contract")
				return
			}
		}
		nt := paidCreated && paidShared
		rec.LabelN("blocks", uint64(nblocks))
		rec.LabelN("payouts", uint64(payouts))
		rec.LabelN("genesis-past-due-entries", uint64(pastDue))
		if paidCreated {
			rec.Label("paid-in-chain-reclaim")
		}
		if paidShared {
			rec.Label("paid-from-shared-pool")
		}
		var sample any
		if nt && rec.WantSample() {
			sample = map[string]any{"spec": spec, "trace": tail(sim.Trace, 25)}
		}
		rec.Case(nt, ev.Fingerprint(fp...), sample)
	})
}

func firstWords(s string, n int) string {
	f := strings.Fields(s)
	if len(f) > n {
		f = f[:n]
	}
	return strings.Join(f, " ")
}

func tail(s []string, n int) []string {
	if len(s) > n {
		return s[len(s)-n:]
	}
	return s
}
