package c15app

import (
	"errors"
	"fmt"
	"math/big"
	"testing"

	"github.com/cometbft/cometbft/abci/types"
	"pgregory.net/rapid"

	staking "github.com/oasisprotocol/oasis-core/go/staking/api"

	"verifharness/chain"
	"verifharness/ev"
)

const rewardsRule = "case = generated production-mode genesis (several staked entities, some with a commission schedule in force - 20%, 60%, 100% - others without one, i.e. at the minimum rate; delegators with share prices != 1; reward schedule, fee weights) + 10-60 blocks of generated " +
	"transactions with epoch transitions, partial vote participation and proposer rotation, so that signing rewards (one batch over all rewarded entities), proposer rewards and escrowed discrepancy rewards occur. oracle = every reward an escrow account receives outside " +
	"transactions is split by THAT account's own commission rate: walking the BeginBlock / EndBlock events in order, a reward is [AddEscrow common-pool -> E, amount q, no shares] followed by [AddEscrow E -> E, amount c, shares s] (either part may be absent when zero); " +
	"c == floor((q + c) * rate(E) / 100000) where rate(E) is the rate of E's commission schedule at the block's epoch (read from the committed state before the block, or after it when a transaction of the block amended it) or the minimum commission rate when E has none; the commission " +
	"mints floor(c * totalShares / balance)-style pro-rata shares, i.e. s > 0 only if c > 0. non-trivial = a block in which two accounts with DIFFERENT rates are rewarded; distinct = hash of spec and block hashes"

// TestC15Rewards: "its share of rewards" - rewards with commission, per account.
func TestC15Rewards(t *testing.T) {
	rec := ev.New("C15", "TestC15Rewards", rewardsRule,
		"production-mode genesis; the anchor validator keeps the election precondition",
		"commission rates change only through AmendCommissionSchedule transactions: a block's rewards use the rate before or after the block's transactions")
	defer rec.Flush()
	var cur *chain.Sim
	var curSpec *chain.Spec
	ev.Trace = func() any {
		if cur == nil {
			return nil
		}
		return map[string]any{"spec": curSpec, "trace": cur.Trace}
	}
	rapid.Check(t, func(t *rapid.T) {
		spec := chain.GenSpec(t)
		curSpec = spec
		w0, err := chain.BuildGenesis(spec)
		if err != nil {
			ev.Infra(t, "build genesis: %v", err)
		}
		sim, err := chain.NewSim(spec, []chain.ReplicaConfig{{Name: "R0", Backend: "badger", MemoryOnly: true, Keys: w0.Entities[0].Nodes[0]}})
		if err != nil {
			var ig chain.ErrInvalidGenesis
			if errors.As(err, &ig) {
				rec.Discard("invalid-genesis")
				return
			}
			var ec chain.ErrEngineContract
			if errors.As(err, &ec) {
				rec.Discard("engine-contract-at-genesis:" + chain.Why(ec.Err))
				return
			}
			ev.Infra(t, "new sim: %v", err)
		}
		cur = sim
		defer sim.Close()
		sim.Profile = "economy"
		r := sim.Reps[0]
		fail := func(sig, format string, args ...any) {
			ev.Violation(t, sig, "%s; spec=%+v trace=%v", fmt.Sprintf(format, args...), *spec, tail(sim.Trace, 30))
		}
		minRate := new(big.Int).SetUint64(spec.MinCommission)
		denom := staking.CommissionRateDenominator.ToBigInt()
		nblocks := rapid.IntRange(10, ev.Pick(60, 200)).Draw(t, "nblocks")
		nontrivial := false
		rewards := 0
		var fp []any
		fp = append(fp, fmt.Sprintf("%+v", *spec))
		for bi := 0; bi < nblocks; bi++ {
			view, err := chain.NewView(r)
			if err != nil {
				ev.Infra(t, "view: %v", err)
			}
			// rates before the block
			rateOf := func(v *chain.View, a staking.Address) *big.Int {
				acct := v.Account(a)
				if rt := acct.Escrow.CommissionSchedule.CurrentRate(v.Epoch); rt != nil {
					return rt.ToBigInt()
				}
				return minRate
			}
			pre := map[staking.Address]*big.Int{}
			for _, ek := range sim.W.Entities {
				pre[ek.Address()] = rateOf(view, ek.Address())
			}
			bg := sim.GenBlock(t, view, ev.Pick(8, 12))
			view.Close()
			b := bg.Block
			if _, err := sim.E.Propose(b, r, r); err != nil {
				rec.Discard("proposal-failed:" + firstWords(err.Error(), 12))
				return
			}
			out := sim.E.Execute(r, b, chain.PathProcess, nil)
			if out.Err != nil || !out.Accepted {
				rec.Discard("block-failed:" + firstWords(fmt.Sprint(out.Err), 8))
				return
			}
			fp = append(fp, b.Hash)
			post, err := chain.NewView(r)
			if err != nil {
				ev.Infra(t, "view: %v", err)
			}
			kind := (&staking.AddEscrowEvent{}).EventKind()
			ratesSeen := map[string]bool{}
			for _, evs := range [][]types.Event{out.BeginBlock.Events, out.EndBlock.Events} {
				pending := map[staking.Address]*big.Int{}
				check := func(e staking.Address, q, c *big.Int) {
					total := new(big.Int).Add(q, c)
					ok := false
					var wants []string
					for _, rate := range []*big.Int{pre[e], rateOf(post, e)} {
						if rate == nil {
							continue
						}
						want := new(big.Int).Mul(total, rate)
						want.Quo(want, denom)
						wants = append(wants, fmt.Sprintf("%s (rate %s)", want, rate))
						if want.Cmp(c) == 0 {
							ok = true
							ratesSeen[rate.String()] = true
						}
					}
					rewards++
					if !ok {
						fail("reward-commission-rate", "height %d: escrow account %s received a reward of %s of which %s went to the account as commission; its own commission rate implies %v", b.Height, e, total, c, wants)
					}
				}
				chain.StakingEventsOf(evs, kind, func(raw string) {
					var e staking.AddEscrowEvent
					if err := chain.DecodeEvent(raw, &e); err != nil {
						fail("event-undecodable", "block %d: %v", b.Height, err)
					}
					switch {
					case e.Owner == staking.CommonPoolAddress:
						if p := pending[e.Escrow]; p != nil {
							check(e.Escrow, p, new(big.Int)) // the previous reward of this account had no commission part
						}
						pending[e.Escrow] = e.Amount.ToBigInt()
					case e.Owner == e.Escrow:
						q := pending[e.Escrow]
						if q == nil {
							q = new(big.Int)
						}
						delete(pending, e.Escrow)
						if e.Amount.IsZero() != e.NewShares.IsZero() && !e.Amount.IsZero() {
							// (a commission that mints no share is possible only when it is worth less than one share)
							rec.Label("commission-below-one-share")
						}
						check(e.Escrow, q, e.Amount.ToBigInt())
					}
				})
				for e, q := range pending {
					check(e, q, new(big.Int))
				}
			}
			post.Close()
			if len(ratesSeen) >= 2 {
				nontrivial = true
				rec.Label("block-with-rewards-at-different-rates")
			}
			sim.Logf("h=%d txs=%d", b.Height, len(b.Txs))
			if err := sim.AfterCommit(b, out); err != nil {
				rec.Discard("engine-contract:" + firstWords(err.Error(), 5))
				return
			}
		}
		rec.LabelN("rewards-checked", uint64(rewards))
		var sample any
		if nontrivial && rec.WantSample() {
			sample = map[string]any{"spec": spec, "trace": tail(sim.Trace, 15)}
		}
		rec.Case(nontrivial, ev.Fingerprint(fp...), sample)
	})
}
