package c16

import (
	"context"
	"encoding/json"
	"flag"
	"fmt"
	"os"
	"path/filepath"
	"sort"
	"strings"
	"testing"

	"pgregory.net/rapid"

	"github.com/oasisprotocol/oasis-core/go/common/crypto/signature"
	"github.com/oasisprotocol/oasis-core/go/consensus/api/transaction"

	"verifharness/ev"
	"verifharness/mut"
)

type ctxT = context.Context

type txSigned = transaction.SignedTransaction

func txSign(s signature.Signer, tx *transaction.Transaction) (*txSigned, error) {
	return transaction.Sign(s, tx)
}

var groups = map[string]*group{
	"Cbor":        {name: "Cbor", build: buildCborGroup},
	"Frames":      {name: "Frames", build: buildFramesGroup},
	"Nodes":       {name: "Nodes", build: buildNodesGroup},
	"Proofs":      {name: "Proofs", build: buildProofsGroup},
	"Chunks":      {name: "Chunks", build: buildChunksGroup},
	"Quotes":      {name: "Quotes", build: buildQuotesGroup},
	"Descriptors": {name: "Descriptors", build: buildDescriptorsGroup},
}

// ---------------------------------------------------------------------------------------
// Quick tier: rapid-driven structured mutation, one test per target group.

func rapidGroup(t *testing.T, name string) {
	g := groups[name]
	testName := "TestC16" + name
	rec := ev.New("C16", testName, ruleFor(g), assumptions...)
	defer rec.Flush()
	tgs, err := g.init()
	if err != nil {
		ev.Infra(t, "group %s: %v", g.name, err)
	}
	if sh := os.Getenv("VERIF_SHARD"); sh == "" || sh == "0" {
		// the unmutated corpus and the hostile constants are the same in every shard: shard 0 feeds them
		seedPass(t, rec, tgs)
	}
	var weighted []*target
	for _, tg := range tgs {
		w := tg.weight
		if w == 0 {
			w = 3
		}
		for i := 0; i < w; i++ {
			weighted = append(weighted, tg)
		}
	}
	rapid.Check(t, func(rt *rapid.T) {
		tg := mut.Pick(rt, "target", weighted)
		in, seedName, how, kinds := genInput(rt, tg)
		if sig := excluded(tg, in); sig != "" {
			rec.Discard("excluded:" + sig)
			return
		}
		out := check(rt, tg, in, seedName, kinds)
		record(rec, tg, in, out, how, kinds)
	})
	var names []string
	for _, tg := range tgs {
		names = append(names, tg.name+": "+tg.doc)
	}
	sort.Strings(names)
	rec.Extra("targets."+g.name, names)
}

func TestC16Cbor(t *testing.T)        { rapidGroup(t, "Cbor") }
func TestC16Frames(t *testing.T)      { rapidGroup(t, "Frames") }
func TestC16Nodes(t *testing.T)       { rapidGroup(t, "Nodes") }
func TestC16Proofs(t *testing.T)      { rapidGroup(t, "Proofs") }
func TestC16Chunks(t *testing.T)      { rapidGroup(t, "Chunks") }
func TestC16Quotes(t *testing.T)      { rapidGroup(t, "Quotes") }
func TestC16Descriptors(t *testing.T) { rapidGroup(t, "Descriptors") }

// ---------------------------------------------------------------------------------------
// Thorough tier: native fuzz targets, one per group; the first argument selects the target.

// TestMain shortens the fuzz engine's input minimisation: the default budget of 60 s per
// "interesting" input would eat a whole 60 s fuzzing slot (the targets run extra goroutines and
// measure memory, so coverage is slightly noisy and the minimiser rarely converges early).
func TestMain(m *testing.M) {
	flag.Parse()
	if fuzzing() {
		explicit := false
		flag.Visit(func(f *flag.Flag) {
			if f.Name == "test.fuzzminimizetime" {
				explicit = true
			}
		})
		if !explicit {
			_ = flag.Set("test.fuzzminimizetime", "3s")
		}
	}
	os.Exit(m.Run())
}

func isFuzzWorker() bool {
	f := flag.Lookup("test.fuzzworker")
	return f != nil && f.Value.String() == "true"
}

func fuzzing() bool {
	f := flag.Lookup("test.fuzz")
	return f != nil && f.Value.String() != ""
}

func fuzzGroup(f *testing.F, name string) {
	g := groups[name]
	testName := "FuzzC16" + name
	tgs, err := g.init()
	if err != nil {
		ev.Infra(f, "group %s: %v", g.name, err)
	}
	for i, tg := range tgs {
		for _, s := range tg.seeds {
			f.Add(uint8(i), s.data)
		}
		for _, s := range tg.extra {
			f.Add(uint8(i), s.data)
		}
	}
	for _, hn := range hostileNames {
		f.Add(uint8(0), hostileConst(hn))
	}
	// Evidence: every worker process keeps its own recorder and flushes it periodically under a
	// private name; the coordinator merges the worker files when fuzzing ends.
	recName := testName
	if isFuzzWorker() {
		recName = fmt.Sprintf("%s.w%d", testName, os.Getpid())
	}
	rec := ev.New("C16", recName, "native coverage-guided fuzzing (go test -fuzz) of the same targets and oracle as TestC16"+name+"; "+ruleFor(g), assumptions...)
	n := 0
	f.Fuzz(func(t *testing.T, which uint8, data []byte) {
		tg := tgs[int(which)%len(tgs)]
		if len(data) > maxInput {
			data = data[:maxInput]
		}
		if sig := excluded(tg, data); sig != "" {
			return
		}
		out := check(t, tg, data, "fuzz", nil)
		record(rec, tg, data, out, "fuzz", nil)
		if n++; n&(n-1) == 0 || n%5000 == 0 {
			rec.Flush()
		}
	})
	rec.Flush()
	if fuzzing() && !isFuzzWorker() {
		mergeWorkerEvidence(testName)
	}
}

func FuzzC16Cbor(f *testing.F)        { fuzzGroup(f, "Cbor") }
func FuzzC16Frames(f *testing.F)      { fuzzGroup(f, "Frames") }
func FuzzC16Nodes(f *testing.F)       { fuzzGroup(f, "Nodes") }
func FuzzC16Proofs(f *testing.F)      { fuzzGroup(f, "Proofs") }
func FuzzC16Chunks(f *testing.F)      { fuzzGroup(f, "Chunks") }
func FuzzC16Quotes(f *testing.F)      { fuzzGroup(f, "Quotes") }
func FuzzC16Descriptors(f *testing.F) { fuzzGroup(f, "Descriptors") }

// mergeWorkerEvidence sums the evidence files of the fuzz workers into the file the driver reads.
func mergeWorkerEvidence(testName string) {
	out := os.Getenv("VERIF_EVIDENCE_OUT")
	if out == "" {
		return
	}
	files, _ := filepath.Glob(out + "." + testName + ".w*.json")
	sort.Strings(files)
	if len(files) == 0 {
		return
	}
	var merged map[string]any
	var evals, nt float64
	labels, discards := map[string]float64{}, map[string]float64{}
	var samples []any
	fps := map[string]struct{}{}
	for _, fn := range files {
		b, err := os.ReadFile(fn)
		if err != nil {
			continue
		}
		var d map[string]any
		if json.Unmarshal(b, &d) != nil {
			continue
		}
		if merged == nil {
			merged = d
		}
		evals += num(d["evaluations"])
		nt += num(d["nontrivial_total"])
		for k, v := range asMap(d["labels"]) {
			labels[k] += num(v)
		}
		for k, v := range asMap(d["discards"]) {
			discards[k] += num(v)
		}
		if s, ok := d["samples"].([]any); ok && len(samples) < 3 {
			samples = append(samples, s...)
		}
		if fp, err := os.ReadFile(strings.TrimSuffix(fn, ".json") + ".fp"); err == nil {
			for i := 0; i+8 <= len(fp); i += 8 {
				fps[string(fp[i:i+8])] = struct{}{}
			}
		}
		_ = os.Remove(fn)
		_ = os.Remove(strings.TrimSuffix(fn, ".json") + ".fp")
	}
	if merged == nil {
		return
	}
	merged["test"] = testName
	merged["evaluations"] = uint64(evals)
	merged["nontrivial_total"] = uint64(nt)
	merged["distinct_nontrivial"] = len(fps)
	merged["labels"] = labels
	merged["discards"] = discards
	if len(samples) > 3 {
		samples = samples[:3]
	}
	merged["samples"] = samples
	merged["extra"] = map[string]any{"fuzz_workers": len(files)}
	b, _ := json.Marshal(merged)
	_ = os.WriteFile(out+"."+testName+".json", b, 0o644)
	keys := make([]string, 0, len(fps))
	for k := range fps {
		keys = append(keys, k)
	}
	sort.Strings(keys)
	_ = os.WriteFile(out+"."+testName+".fp", []byte(strings.Join(keys, "")), 0o644)
}

func num(v any) float64 {
	f, _ := v.(float64)
	return f
}

func asMap(v any) map[string]any {
	m, _ := v.(map[string]any)
	return m
}

// ---------------------------------------------------------------------------------------
// Known findings: deterministic probes.

// TestC16KFNamespaceArrayForm re-executes the minimal reproduction of the known finding
// namespace-array-form: cbor.Unmarshal accepts a common.Namespace given as a CBOR array of
// integers (82 00 01), bypassing Namespace.UnmarshalBinary (length and reserved-flag checks). The
// accepted value 0001000...00 has reserved flag bits set; its canonical re-encoding (a 32-byte
// string) is rejected with "malformed namespace" by every decoder. A registry.Runtime descriptor
// with such an id passes registry.VerifyRuntime and can then not be decoded from its stored form.
func TestC16KFNamespaceArrayForm(t *testing.T) {
	rec := ev.New("C16", "TestC16KFNamespaceArrayForm", "deterministic probe of known finding "+SigNamespaceArrayForm+": decode the 3-byte input 82 00 01 into common.Namespace and a runtime descriptor whose id is the 32-element array form of 0001..16; re-encode; decode again", "")
	defer rec.Flush()
	msgs := probeNamespaceArrayForm()
	rec.Case(true, ev.Fingerprint("probe"), fmt.Sprint(msgs))
	if len(msgs) > 0 {
		ev.Violation(t, SigNamespaceArrayForm, "%s", strings.Join(msgs, "; "))
	}
}
