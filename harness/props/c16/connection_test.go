package c16

import (
	"context"
	"encoding/binary"
	"fmt"
	"io"
	"net"
	"sync"
	"sync/atomic"
	"testing"
	"testing/synctest"
	"time"

	"pgregory.net/rapid"

	"github.com/oasisprotocol/oasis-core/go/common/cbor"
	"github.com/oasisprotocol/oasis-core/go/common/logging"
	"github.com/oasisprotocol/oasis-core/go/common/version"
	"github.com/oasisprotocol/oasis-core/go/runtime/host/protocol"

	"verifharness/ev"
)

// The runtime host protocol at CONNECTION level: a real host-side connection (protocol.NewConnection + InitHost over
// net.Pipe) against a scripted, untrusted runtime. The frames are well-formed - what is hostile is their sequence:
// duplicate responses, responses for unknown or not yet sent requests, responses while the peer does not read, requests
// of its own, garbage in between. "Never hangs" is decided inside a synctest bubble (fake clock, deterministic
// detection of durably blocked goroutines): after the script, every call has returned, Close has returned and no
// goroutine of the connection is left blocked - no wall-clock timeout is involved.

type connStep struct {
	Kind string // call | respond | stall | resume | request | garbage | settle | advance
	N    int    // respond: request id offset (relative to the oldest unanswered call) ; duplicates in Dup
	Dup  int
}

func genConnScript(t *rapid.T) []connStep {
	n := rapid.IntRange(3, 14).Draw(t, "steps")
	var out []connStep
	for i := 0; i < n; i++ {
		k := rapid.SampledFrom([]string{"call", "call", "call", "respond", "respond", "respond", "stall", "resume", "request", "garbage", "settle", "advance"}).Draw(t, "step")
		s := connStep{Kind: k}
		if k == "respond" {
			s.N = rapid.IntRange(-1, 3).Draw(t, "which")
			s.Dup = rapid.SampledFrom([]int{1, 1, 2, 2, 3}).Draw(t, "copies")
		}
		out = append(out, s)
	}
	return out
}

const connRule = "case = a real host-side RHP connection (NewConnection, InitHost over net.Pipe) and a scripted untrusted runtime: after an honest handshake a generated sequence of 3-14 steps - the host issues calls (1 s timeout each, fake clock), " +
	"the runtime answers a chosen outstanding / future / unknown request id with 1-3 copies of a well-formed response frame, stops or resumes reading the host's frames, sends requests of its own, sends a garbage frame, time advances; then all calls are cancelled, " +
	"the runtime disconnects and the host closes the connection. oracle (inside a testing/synctest bubble: no wall clock) = every call returns (result or error), Close returns, and no goroutine started by the connection remains blocked; no panic. " +
	"non-trivial = a response with >= 2 copies or while the runtime is not reading; distinct = the script"

// TestC16Connection: sequences of well-formed frames must not wedge the connection.
func TestC16Connection(t *testing.T) {
	rec := ev.New("C16", "TestC16Connection", connRule, "frames are written by the harness exactly as the message codec frames them (4-byte big endian length + CBOR)")
	defer rec.Flush()
	var cur []connStep
	ev.Trace = func() any { return cur }
	rapid.Check(t, func(rt *rapid.T) {
		script := genConnScript(rt)
		cur = script
		var verdict, panicMsg string
		nontrivial := false
		func() {
			defer func() {
				if r := recover(); r != nil {
					panicMsg = fmt.Sprint(r)
				}
			}()
			synctest.Test(t, func(st *testing.T) {
				verdict, nontrivial = runConnScript(script)
			})
		}()
		for _, s := range script {
			rec.Label("step:" + s.Kind)
		}
		switch {
		case panicMsg != "":
			// the bubble's root goroutine returned while goroutines of the connection were still durably blocked, or the
			// connection code panicked
			ev.Violation(rt, "rhp-connection-hang", "script %+v: %s", script, panicMsg)
		case verdict != "":
			ev.Violation(rt, "rhp-connection-hang", "script %+v: %s", script, verdict)
		}
		rec.Case(nontrivial, ev.Fingerprint(fmt.Sprintf("%+v", script)), fmt.Sprintf("%+v", script))
	})
}

func writeMsg(w io.Writer, m *protocol.Message) error {
	_, err := w.Write(frame(cbor.Marshal(m)))
	return err
}

func runConnScript(script []connStep) (verdict string, nontrivial bool) {
	hostEnd, rtEnd := net.Pipe()
	conn, err := protocol.NewConnection(logging.GetLogger("c16/rhpconn"), rtID, nopHandler{})
	if err != nil {
		return "harness: " + err.Error(), false
	}
	// ---- the runtime's reader: consumes the host's frames unless stalled; remembers the request ids it saw
	var mu sync.Mutex
	var seen []uint64
	stalled := false
	cond := sync.NewCond(&mu)
	readerDone := make(chan struct{})
	go func() {
		defer close(readerDone)
		for {
			mu.Lock()
			for stalled {
				cond.Wait()
			}
			mu.Unlock()
			var hdr [4]byte
			if _, err := io.ReadFull(rtEnd, hdr[:]); err != nil {
				return
			}
			buf := make([]byte, binary.BigEndian.Uint32(hdr[:]))
			if _, err := io.ReadFull(rtEnd, buf); err != nil {
				return
			}
			var m protocol.Message
			if cbor.Unmarshal(buf, &m) == nil && m.MessageType == protocol.MessageRequest {
				mu.Lock()
				seen = append(seen, m.ID)
				mu.Unlock()
			}
		}
	}()
	// ---- honest handshake
	hsDone := make(chan error, 1)
	go func() {
		ctx, cancel := context.WithTimeout(context.Background(), 5*time.Second)
		defer cancel()
		_, err := conn.InitHost(ctx, hostEnd, &protocol.HostInfo{ConsensusBackend: "cometbft", ConsensusProtocolVersion: version.Versions.ConsensusProtocol, ConsensusChainContext: "c16"})
		hsDone <- err
	}()
	synctest.Wait()
	mu.Lock()
	if len(seen) != 1 {
		mu.Unlock()
		_ = rtEnd.Close()
		_ = hostEnd.Close()
		<-hsDone
		<-readerDone
		return "harness: handshake request not seen", false
	}
	hsID := seen[0]
	mu.Unlock()
	_ = writeMsg(rtEnd, &protocol.Message{ID: hsID, MessageType: protocol.MessageResponse, Body: protocol.Body{RuntimeInfoResponse: &protocol.RuntimeInfoResponse{
		ProtocolVersion: version.RuntimeHostProtocol, RuntimeVersion: version.Version{Major: 1},
	}}})
	if err := <-hsDone; err != nil {
		_ = rtEnd.Close()
		conn.Close()
		<-readerDone
		return "harness: honest handshake failed: " + err.Error(), false
	}
	// ---- the script
	var calls int32
	var returned int32
	var cancels []context.CancelFunc
	nextCallID := hsID + 1 // request ids are sequential
	answered := map[uint64]bool{}
	var issued []uint64
	for _, s := range script {
		switch s.Kind {
		case "call":
			ctx, cancel := context.WithTimeout(context.Background(), time.Second)
			cancels = append(cancels, cancel)
			atomic.AddInt32(&calls, 1)
			issued = append(issued, nextCallID)
			nextCallID++
			go func() {
				_, _ = conn.Call(ctx, &protocol.Body{Empty: &protocol.Empty{}})
				atomic.AddInt32(&returned, 1)
			}()
			synctest.Wait()
		case "respond":
			// id: the oldest unanswered call plus an offset (-1 / beyond the issued ones = unknown or future id)
			var base uint64 = nextCallID
			for _, id := range issued {
				if !answered[id] {
					base = id
					break
				}
			}
			id := uint64(int64(base) + int64(s.N))
			mu.Lock()
			st := stalled
			mu.Unlock()
			if s.Dup >= 2 || st {
				nontrivial = true
			}
			for i := 0; i < s.Dup; i++ {
				_ = writeMsg(rtEnd, &protocol.Message{ID: id, MessageType: protocol.MessageResponse, Body: protocol.Body{Empty: &protocol.Empty{}}})
			}
			answered[id] = true
			synctest.Wait()
		case "stall":
			mu.Lock()
			stalled = true
			mu.Unlock()
		case "resume":
			mu.Lock()
			stalled = false
			cond.Broadcast()
			mu.Unlock()
			synctest.Wait()
		case "request":
			_ = writeMsg(rtEnd, &protocol.Message{ID: 1 << 40, MessageType: protocol.MessageRequest, Body: protocol.Body{Empty: &protocol.Empty{}}})
			synctest.Wait()
		case "garbage":
			_, _ = rtEnd.Write(frame([]byte{0xa1, 0x61, 0x78, 0x01}))
			synctest.Wait()
		case "advance":
			time.Sleep(1500 * time.Millisecond)
			synctest.Wait()
		default:
			synctest.Wait()
		}
	}
	// ---- wind down: callers give up, the runtime goes away, the host closes
	time.Sleep(2 * time.Second) // (fake clock: every call's timeout has passed)
	for _, c := range cancels {
		c()
	}
	mu.Lock()
	stalled = false
	cond.Broadcast()
	mu.Unlock()
	synctest.Wait()
	closed := make(chan struct{})
	go func() {
		conn.Close()
		close(closed)
	}()
	synctest.Wait()
	_ = rtEnd.Close()
	synctest.Wait()
	select {
	case <-closed:
	default:
		verdict = "Close() does not return: goroutines of the connection are blocked for good"
	}
	if verdict == "" && atomic.LoadInt32(&returned) != atomic.LoadInt32(&calls) {
		verdict = fmt.Sprintf("%d of %d calls never returned", atomic.LoadInt32(&calls)-atomic.LoadInt32(&returned), calls)
	}
	_ = hostEnd.Close()
	<-readerDone
	return verdict, nontrivial
}
