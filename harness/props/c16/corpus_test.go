package c16

import (
	"bytes"
	"encoding/hex"
	"fmt"
	"net"
	"os"
	"path/filepath"
	"time"

	beacon "github.com/oasisprotocol/oasis-core/go/beacon/api"
	"github.com/oasisprotocol/oasis-core/go/common"
	"github.com/oasisprotocol/oasis-core/go/common/cbor"
	"github.com/oasisprotocol/oasis-core/go/common/crypto/hash"
	"github.com/oasisprotocol/oasis-core/go/common/crypto/signature"
	memorySigner "github.com/oasisprotocol/oasis-core/go/common/crypto/signature/signers/memory"
	"github.com/oasisprotocol/oasis-core/go/common/entity"
	"github.com/oasisprotocol/oasis-core/go/common/node"
	"github.com/oasisprotocol/oasis-core/go/common/quantity"
	"github.com/oasisprotocol/oasis-core/go/common/sgx"
	"github.com/oasisprotocol/oasis-core/go/common/sgx/ias"
	"github.com/oasisprotocol/oasis-core/go/common/sgx/pcs"
	sgxQuote "github.com/oasisprotocol/oasis-core/go/common/sgx/quote"
	"github.com/oasisprotocol/oasis-core/go/common/version"
	"github.com/oasisprotocol/oasis-core/go/consensus/api/transaction"
	governance "github.com/oasisprotocol/oasis-core/go/governance/api"
	registry "github.com/oasisprotocol/oasis-core/go/registry/api"
	roothash "github.com/oasisprotocol/oasis-core/go/roothash/api"
	"github.com/oasisprotocol/oasis-core/go/roothash/api/commitment"
	"github.com/oasisprotocol/oasis-core/go/roothash/api/message"
	scheduler "github.com/oasisprotocol/oasis-core/go/scheduler/api"
	staking "github.com/oasisprotocol/oasis-core/go/staking/api"
	upgrade "github.com/oasisprotocol/oasis-core/go/upgrade/api"
)

// Fixed identities of the harness (the "attacker" signs with these).
var (
	sgEntity    = memorySigner.NewTestSigner("c16 entity")
	sgNode      = memorySigner.NewTestSigner("c16 node")
	sgP2P       = memorySigner.NewTestSigner("c16 p2p")
	sgConsensus = memorySigner.NewTestSigner("c16 consensus")
	sgVRF       = memorySigner.NewTestSigner("c16 vrf")
	sgTLS       = memorySigner.NewTestSigner("c16 tls")
	sgTx        = memorySigner.NewTestSigner("c16 tx")
	sgRAK       = memorySigner.NewTestSigner("c16 rak")
	nodeSigners = []signature.Signer{sgNode, sgP2P, sgConsensus, sgVRF, sgTLS}

	rtID, kmID common.Namespace
	// fixedNow is the verification time used with the repo's attestation test vectors.
	pcsNow = time.Unix(1671497404, 0)
	iasNow = time.Date(2023, 10, 1, 0, 0, 0, 0, time.UTC)
)

func init() {
	signature.SetChainContext("c16 harness chain context")
	if err := rtID.UnmarshalHex("0000000000000000000000000000000000000000000000000000000000000016"); err != nil {
		panic(err)
	}
	if err := kmID.UnmarshalHex("4000000000000000ffffffffffffffffffffffffffffffffffffffffffffff16"); err != nil {
		panic(err)
	}
	// The repo's IAS test vectors are debug enclaves.
	ias.SetAllowDebugEnclaves()
}

func repoDir() string {
	if d := os.Getenv("VERIF_REPO"); d != "" {
		return d
	}
	return "/repo"
}

func readRepo(rel string) []byte {
	b, err := os.ReadFile(filepath.Join(repoDir(), "go", rel))
	if err != nil {
		panic(fmt.Sprintf("cannot read fixture %s: %v", rel, err))
	}
	return b
}

func must[T any](v T, err error) T {
	if err != nil {
		panic(err)
	}
	return v
}

func q(n uint64) quantity.Quantity { return *quantity.NewFromUint64(n) }

func hashOf(s string) hash.Hash { return hash.NewFromBytes([]byte(s)) }

func hashPtr(s string) *hash.Hash { h := hashOf(s); return &h }

// ---------------------------------------------------------------------------------------
// Descriptors.

func testEntity() *entity.Entity {
	return &entity.Entity{
		Versioned: cbor.NewVersioned(entity.LatestDescriptorVersion),
		ID:        sgEntity.Public(),
		Nodes:     []signature.PublicKey{sgNode.Public()},
	}
}

func testNode(withTEE []byte) *node.Node {
	n := &node.Node{
		Versioned:  cbor.NewVersioned(node.LatestNodeDescriptorVersion),
		ID:         sgNode.Public(),
		EntityID:   sgEntity.Public(),
		Expiration: 12,
		TLS:        node.TLSInfo{PubKey: sgTLS.Public()},
		P2P: node.P2PInfo{ID: sgP2P.Public(), Addresses: []node.Address{
			{IP: net.IPv4(8, 8, 1, 8).To4(), Port: 9200},
			{IP: net.ParseIP("2001:4860:4860::8888"), Port: 9200},
		}},
		Consensus: node.ConsensusInfo{ID: sgConsensus.Public(), Addresses: []node.ConsensusAddress{
			{ID: sgConsensus.Public(), Address: node.Address{IP: net.IPv4(8, 8, 1, 8).To4(), Port: 26656}},
		}},
		VRF:             node.VRFInfo{ID: sgVRF.Public()},
		Runtimes:        []*node.Runtime{{ID: rtID, Version: version.Version{Major: 1, Minor: 2, Patch: 3}, ExtraInfo: []byte("extra")}},
		Roles:           node.RoleValidator | node.RoleComputeWorker,
		SoftwareVersion: "25.0-c16",
	}
	if withTEE != nil {
		n.Runtimes[0].Capabilities.TEE = &node.CapabilityTEE{Hardware: node.TEEHardwareIntelSGX, RAK: sgRAK.Public(), Attestation: withTEE}
	}
	return n
}

func sgxConstraints() []byte {
	var mre sgx.MrEnclave
	var mrs sgx.MrSigner
	_ = mre.UnmarshalHex("68823bc62f409ee33a32ea270cfe45d4b19a6fb3c8570d7bc186cbe062398e8f")
	_ = mrs.UnmarshalHex("9affcfae47b848ec2caf1c49b4b283531e1cc425f93582b36806e52a43d78d1a")
	sc := node.SGXConstraints{
		Versioned: cbor.NewVersioned(node.LatestSGXConstraintsVersion),
		Enclaves:  []sgx.EnclaveIdentity{{MrEnclave: mre, MrSigner: mrs}},
		Policy: &sgxQuote.Policy{
			IAS: &ias.QuotePolicy{},
			PCS: &pcs.QuotePolicy{TCBValidityPeriod: 30, MinTCBEvaluationDataNumber: pcs.DefaultMinTCBEvaluationDataNumber, TDX: &pcs.TdxQuotePolicy{}},
		},
		MaxAttestationAge: 1200,
	}
	return cbor.Marshal(&sc)
}

func testRuntime(kind registry.RuntimeKind, tee node.TEEHardware) *registry.Runtime {
	rt := &registry.Runtime{
		Versioned:   cbor.NewVersioned(registry.LatestRuntimeDescriptorVersion),
		ID:          rtID,
		EntityID:    sgEntity.Public(),
		Kind:        kind,
		TEEHardware: tee,
		Executor: registry.ExecutorParameters{GroupSize: 2, GroupBackupSize: 1, AllowedStragglers: 0, RoundTimeout: 5, MaxMessages: 32,
			MinLiveRoundsPercent: 90, MaxMissedProposalsPercent: 10, MinLiveRoundsForEvaluation: 10, MaxLivenessFailures: 4},
		TxnScheduler: registry.TxnSchedulerParameters{BatchFlushTimeout: time.Second, MaxBatchSize: 100, MaxBatchSizeBytes: 1 << 20, MaxInMessages: 32, ProposerTimeout: 2 * time.Second},
		Storage:      registry.StorageParameters{CheckpointInterval: 100, CheckpointNumKept: 2, CheckpointChunkSize: 8 << 20},
		AdmissionPolicy: registry.RuntimeAdmissionPolicy{
			EntityWhitelist: &registry.EntityWhitelistRuntimeAdmissionPolicy{Entities: map[signature.PublicKey]registry.EntityWhitelistConfig{
				sgEntity.Public(): {MaxNodes: map[node.RolesMask]uint16{node.RoleComputeWorker: 3}},
			}},
			PerRole: map[node.RolesMask]registry.PerRoleAdmissionPolicy{
				node.RoleObserver: {EntityWhitelist: &registry.EntityWhitelistRoleAdmissionPolicy{Entities: map[signature.PublicKey]registry.EntityWhitelistRoleConfig{sgEntity.Public(): {MaxNodes: 2}}}},
			},
		},
		Constraints: map[scheduler.CommitteeKind]map[scheduler.Role]registry.SchedulingConstraints{
			scheduler.KindComputeExecutor: {
				scheduler.RoleWorker:       {MinPoolSize: &registry.MinPoolSizeConstraint{Limit: 2}, MaxNodes: &registry.MaxNodesConstraint{Limit: 2}},
				scheduler.RoleBackupWorker: {MinPoolSize: &registry.MinPoolSizeConstraint{Limit: 1}, ValidatorSet: &registry.ValidatorSetConstraint{}},
			},
		},
		Staking: registry.RuntimeStakingParameters{
			Thresholds:                           map[staking.ThresholdKind]quantity.Quantity{staking.KindNodeCompute: q(1000)},
			Slashing:                             map[staking.SlashReason]staking.Slash{staking.SlashRuntimeEquivocation: {Amount: q(100)}},
			RewardSlashEquvocationRuntimePercent: 50,
			RewardSlashBadResultsRuntimePercent:  10,
			MinInMessageFee:                      q(1),
		},
		GovernanceModel: registry.GovernanceEntity,
		Deployments: []*registry.VersionInfo{
			{Version: version.Version{Major: 1, Minor: 2, Patch: 3}, ValidFrom: 0, BundleChecksum: bytes.Repeat([]byte{0xab}, 32)},
			{Version: version.Version{Major: 1, Minor: 3}, ValidFrom: 20},
		},
	}
	rt.Genesis.StateRoot.Empty()
	if kind == registry.KindKeyManager {
		rt.ID = kmID
		rt.Staking.Thresholds = map[staking.ThresholdKind]quantity.Quantity{staking.KindNodeKeyManager: q(1000)}
	} else if tee == node.TEEHardwareIntelSGX {
		rt.KeyManager = &kmID
	}
	if tee == node.TEEHardwareIntelSGX {
		for _, d := range rt.Deployments {
			d.TEE = sgxConstraints()
		}
	}
	return rt
}

// ---------------------------------------------------------------------------------------
// Attestation fixtures from the repo's testdata.

type pcsFixture struct {
	name   string
	quote  []byte
	bundle pcs.TCBBundle
}

func pcsFixtures() []pcsFixture {
	load := func(quote, tcbInfo, certs, qeID string) pcsFixture {
		f := pcsFixture{name: quote, quote: readRepo("common/sgx/pcs/testdata/" + quote)}
		if err := jsonUnmarshal(readRepo("common/sgx/pcs/testdata/"+tcbInfo), &f.bundle.TCBInfo); err != nil {
			panic(err)
		}
		if err := jsonUnmarshal(readRepo("common/sgx/pcs/testdata/"+qeID), &f.bundle.QEIdentity); err != nil {
			panic(err)
		}
		f.bundle.Certificates = readRepo("common/sgx/pcs/testdata/" + certs)
		return f
	}
	return []pcsFixture{
		load("quote_v3_ecdsa_p256_pck_chain.bin", "tcb_info_v3_fmspc_00606A000000.json", "tcb_info_v3_fmspc_00606A000000_certs.pem", "qe_identity_v2.json"),
		load("quote_v4_tdx_ecdsa_p256.bin", "tcb_info_v3_tdx_fmspc_50806F000000.json", "tcb_info_v3_fmspc_00606A000000_certs.pem", "qe_identity_v2_tdx.json"),
	}
}

func pcsAttestation() []byte {
	f := pcsFixtures()[0]
	sa := node.SGXAttestation{
		Versioned: cbor.NewVersioned(node.LatestSGXAttestationVersion),
		Quote:     sgxQuote.Quote{PCS: &pcs.QuoteBundle{Quote: f.quote, TCB: f.bundle}},
		Height:    100,
	}
	return cbor.Marshal(&sa)
}

func iasBundle(v int) *ias.AVRBundle {
	return &ias.AVRBundle{
		Body:             readRepo(fmt.Sprintf("common/sgx/ias/testdata/avr_v%d_body_sw_hardening_needed.json", v)),
		CertificateChain: readRepo("common/sgx/ias/testdata/avr_certificates_urlencoded.pem"),
		Signature:        readRepo(fmt.Sprintf("common/sgx/ias/testdata/avr_v%d_body_sw_hardening_needed.sig", v)),
	}
}

func iasAttestation() []byte {
	sa := node.SGXAttestation{Versioned: cbor.NewVersioned(0), Quote: sgxQuote.Quote{IAS: iasBundle(4)}}
	return cbor.Marshal(&sa)
}

// ---------------------------------------------------------------------------------------
// Commitments.

func testCommitment(failure commitment.ExecutorCommitmentFailure, msgs []message.Message) *commitment.ExecutorCommitment {
	ec := &commitment.ExecutorCommitment{
		NodeID: sgNode.Public(),
		Header: commitment.ExecutorCommitmentHeader{
			SchedulerID: sgP2P.Public(),
			Header: commitment.ComputeResultsHeader{
				Round: 7, PreviousHash: hashOf("prev"), IORoot: hashPtr("io"), StateRoot: hashPtr("state"),
				MessagesHash: hashPtr("msgs"), InMessagesHash: hashPtr("inmsgs"), InMessagesCount: 3,
			},
		},
		Messages: msgs,
	}
	if len(msgs) > 0 {
		h := message.MessagesHash(msgs)
		ec.Header.Header.MessagesHash = &h
	}
	if failure != commitment.FailureNone {
		ec.Header.SetFailure(failure)
	} else {
		rak := must(signature.SignRaw(sgRAK, commitment.ComputeResultsHeaderSignatureContext, cbor.Marshal(ec.Header.Header)))
		ec.Header.RAKSignature = rak
	}
	if err := ec.Sign(sgNode, rtID); err != nil {
		panic(err)
	}
	return ec
}

func testMessages() []message.Message {
	return []message.Message{
		{Staking: &message.StakingMessage{Transfer: &staking.Transfer{To: staking.NewAddress(sgTx.Public()), Amount: q(5)}}},
		{Staking: &message.StakingMessage{Withdraw: &staking.Withdraw{From: staking.NewAddress(sgTx.Public()), Amount: q(5)}}},
		{Staking: &message.StakingMessage{AddEscrow: &staking.Escrow{Account: staking.NewAddress(sgEntity.Public()), Amount: q(7)}}},
		{Staking: &message.StakingMessage{ReclaimEscrow: &staking.ReclaimEscrow{Account: staking.NewAddress(sgEntity.Public()), Shares: q(7)}}},
		{Registry: &message.RegistryMessage{UpdateRuntime: testRuntime(registry.KindCompute, node.TEEHardwareInvalid)}},
		{Governance: &message.GovernanceMessage{CastVote: &governance.ProposalVote{ID: 1, Vote: governance.VoteYes}}},
		{Governance: &message.GovernanceMessage{SubmitProposal: &governance.ProposalContent{CancelUpgrade: &governance.CancelUpgradeProposal{ProposalID: 3}}}},
	}
}

func testProposal(batch int) *commitment.Proposal {
	p := &commitment.Proposal{
		NodeID: sgNode.Public(),
		Header: commitment.ProposalHeader{Round: 7, PreviousHash: hashOf("prev"), BatchHash: hashOf("batch")},
	}
	for i := 0; i < batch; i++ {
		p.Batch = append(p.Batch, hashOf(fmt.Sprintf("tx%d", i)))
	}
	if err := p.Sign(sgNode, rtID); err != nil {
		panic(err)
	}
	if batch > 1 {
		ctx := must(commitment.ProposalBatchSignatureContext.WithSuffix(rtID.String()))
		s := must(signature.Sign(sgNode, ctx, cbor.Marshal(p.Batch)))
		p.BatchSignature = &s.Signature
	}
	return p
}

// ---------------------------------------------------------------------------------------
// Transactions: one per registered method with a body built by the repo's constructors.

type namedTx struct {
	name string
	tx   *transaction.Transaction
}

func testTransactions() []namedTx {
	fee := &transaction.Fee{Amount: q(2000), Gas: 1000}
	addr := staking.NewAddress(sgEntity.Public())
	ent := must(entity.SignEntity(sgEntity, registry.RegisterEntitySignatureContext, testEntity()))
	nd := must(node.MultiSignNode(nodeSigners, registry.RegisterNodeSignatureContext, testNode(nil)))
	ec1, ec2 := testCommitment(commitment.FailureNone, nil), testCommitment(commitment.FailureUnknown, nil)
	ecm := testCommitment(commitment.FailureNone, testMessages())
	evA, evB := testCommitment(commitment.FailureNone, nil), testCommitment(commitment.FailureNone, nil)
	evB.Header.Header.StateRoot = hashPtr("other state")
	evB.Header.RAKSignature = must(signature.SignRaw(sgRAK, commitment.ComputeResultsHeaderSignatureContext, cbor.Marshal(evB.Header.Header)))
	_ = evB.Sign(sgNode, rtID)
	pA, pB := testProposal(0), testProposal(0)
	pB.Header.BatchHash = hashOf("another batch")
	_ = pB.Sign(sgNode, rtID)
	amend := staking.AmendCommissionSchedule{Amendment: staking.CommissionSchedule{
		Rates:  []staking.CommissionRateStep{{Start: 20, Rate: q(10_000)}, {Start: 30, Rate: q(20_000)}},
		Bounds: []staking.CommissionRateBoundStep{{Start: 20, RateMin: q(0), RateMax: q(50_000)}},
	}}
	upg := governance.ProposalContent{
		Metadata: &governance.ProposalMetadata{Title: "c16 upgrade", Description: "d"},
		Upgrade: &governance.UpgradeProposal{Descriptor: upgrade.Descriptor{
			Versioned: cbor.NewVersioned(upgrade.LatestDescriptorVersion), Handler: "c16-handler", Target: version.Versions, Epoch: 100,
		}},
	}
	chg := governance.ProposalContent{ChangeParameters: &governance.ChangeParametersProposal{
		Module:  staking.ModuleName,
		Changes: cbor.Marshal(staking.ConsensusParameterChanges{MaxAllowances: func() *uint32 { v := uint32(16); return &v }()}),
	}}
	return []namedTx{
		{"staking.Transfer", staking.NewTransferTx(1, fee, &staking.Transfer{To: addr, Amount: q(1_000_000)})},
		{"staking.Transfer-nofee", staking.NewTransferTx(0, nil, &staking.Transfer{To: addr})},
		{"staking.Burn", staking.NewBurnTx(2, fee, &staking.Burn{Amount: q(7)})},
		{"staking.AddEscrow", staking.NewAddEscrowTx(3, fee, &staking.Escrow{Account: addr, Amount: q(100)})},
		{"staking.ReclaimEscrow", staking.NewReclaimEscrowTx(4, fee, &staking.ReclaimEscrow{Account: addr, Shares: q(100)})},
		{"staking.AmendCommissionSchedule", staking.NewAmendCommissionScheduleTx(5, fee, &amend)},
		{"staking.Allow", staking.NewAllowTx(6, fee, &staking.Allow{Beneficiary: addr, Negative: true, AmountChange: q(3)})},
		{"staking.Withdraw", staking.NewWithdrawTx(7, fee, &staking.Withdraw{From: addr, Amount: q(3)})},
		{"registry.RegisterEntity", registry.NewRegisterEntityTx(8, fee, ent)},
		{"registry.DeregisterEntity", registry.NewDeregisterEntityTx(9, fee)},
		{"registry.RegisterNode", registry.NewRegisterNodeTx(10, fee, nd)},
		{"registry.UnfreezeNode", registry.NewUnfreezeNodeTx(11, fee, &registry.UnfreezeNode{NodeID: sgNode.Public()})},
		{"registry.RegisterRuntime", registry.NewRegisterRuntimeTx(12, fee, testRuntime(registry.KindCompute, node.TEEHardwareInvalid))},
		{"registry.RegisterRuntime-sgx", registry.NewRegisterRuntimeTx(12, fee, testRuntime(registry.KindCompute, node.TEEHardwareIntelSGX))},
		{"registry.ProveFreshness", registry.NewProveFreshnessTx(13, fee, [32]byte{1, 2, 3})},
		{"governance.SubmitProposal-upgrade", governance.NewSubmitProposalTx(14, fee, &upg)},
		{"governance.SubmitProposal-cancel", governance.NewSubmitProposalTx(14, fee, &governance.ProposalContent{CancelUpgrade: &governance.CancelUpgradeProposal{ProposalID: 9}})},
		{"governance.SubmitProposal-params", governance.NewSubmitProposalTx(14, fee, &chg)},
		{"governance.CastVote", governance.NewCastVoteTx(15, fee, &governance.ProposalVote{ID: 9, Vote: governance.VoteAbstain})},
		{"roothash.ExecutorCommit", roothash.NewExecutorCommitTx(16, fee, rtID, []commitment.ExecutorCommitment{*ec1, *ec2})},
		{"roothash.ExecutorCommit-msgs", roothash.NewExecutorCommitTx(16, fee, rtID, []commitment.ExecutorCommitment{*ecm})},
		{"roothash.Evidence-executor", roothash.NewEvidenceTx(17, fee, &roothash.Evidence{ID: rtID, EquivocationExecutor: &roothash.EquivocationExecutorEvidence{CommitA: *evA, CommitB: *evB}})},
		{"roothash.Evidence-proposal", roothash.NewEvidenceTx(17, fee, &roothash.Evidence{ID: rtID, EquivocationProposal: &roothash.EquivocationProposalEvidence{ProposalA: *pA, ProposalB: *pB}})},
		{"roothash.SubmitMsg", roothash.NewSubmitMsgTx(18, fee, &roothash.SubmitMsg{ID: rtID, Tag: 4, Fee: q(1), Tokens: q(2), Data: []byte("runtime data")})},
		{"beacon.SetEpoch", transaction.NewTransaction(19, nil, beacon.MethodSetEpoch, beacon.EpochTime(42))},
	}
}

func signTx(tx *transaction.Transaction) []byte {
	return cbor.Marshal(must(transaction.Sign(sgTx, tx)))
}

func hexShort(b []byte) string {
	h := hex.EncodeToString(b)
	if len(h) > 1200 {
		return h[:1200] + "..."
	}
	return h
}
